(* C07: the executable oracle accepts what the model produces (cases without concurrent writers). *)
From KB Require Import Base.Cases Model.Coder Model.CompactSys Model.C07Cases
  Proofs.Coder Proofs.CompactSafe Proofs.CompactReads Proofs.CompactWf Proofs.CompactPass Proofs.CompactRanges Proofs.CompactBorders Proofs.CompactRetry.
From Coq Require Import Sorted.
Local Open Scope N_scope.

(* ---------- lists, sortedness ---------- *)

Lemma list_eqb_eq {A} (eqb : A -> A -> bool) (Heq : forall a b, eqb a b = true -> a = b) :
  forall x y, list_eqb eqb x y = true -> x = y.
Proof.
  induction x as [|a x IH]; intros [|b y] H; cbn in H; try discriminate; [reflexivity|].
  apply andb_true_iff in H as [H1 H2]. f_equal; [apply Heq; exact H1|apply IH; exact H2].
Qed.

Lemma rec_eqb_true x y : rec_eqb x y = true -> x = y.
Proof.
  destruct x as [k r d|k r v], y as [k' r' d'|k' r' v']; cbn [rec_eqb]; try discriminate; intros H;
    apply andb_true_iff in H as [H H3]; apply andb_true_iff in H as [H1 H2]; apply beqb_eq in H1; apply N.eqb_eq in H2; subst.
  - apply Bool.eqb_prop in H3. subst. reflexivity.
  - apply beqb_eq in H3. subst. reflexivity.
Qed.

Lemma store_eqb_eq A B : store_eqb A B = true -> A = B.
Proof. apply list_eqb_eq. exact rec_eqb_true. Qed.

Lemma sortedb_sorted V : sortedb V = true -> StronglySorted rlt V.
Proof.
  induction V as [|x V IH]; intros H; [constructor|].
  cbn [sortedb] in H. destruct V as [|y V']; [constructor; constructor|].
  apply andb_true_iff in H as [H1 H2]. specialize (IH H2).
  assert (Hxy : rlt x y) by (unfold rlt, rec_ltb in *; destruct (rec_cmp x y); congruence).
  constructor; [exact IH|]. inversion IH as [|? ? IH' Hf]; subst.
  constructor; [exact Hxy|]. eapply Forall_impl; [|exact Hf]. intros z Hz. eapply rlt_trans; eauto.
Qed.

Lemma sorted_filter (f : rec -> bool) V : StronglySorted rlt V -> StronglySorted rlt (filter f V).
Proof.
  induction 1 as [|x V Hs IH Hf]; cbn [filter]; [constructor|].
  destruct (f x); [|exact IH]. constructor; [exact IH|].
  apply Forall_forall. intros y Hy. apply filter_In in Hy as [Hy _]. rewrite Forall_forall in Hf. auto.
Qed.

Lemma sort_sorted_id l : StronglySorted rlt l -> sort_by rec_ltb l = l.
Proof.
  induction 1 as [|x l Hs IH Hf]; [reflexivity|]. unfold sort_by in *. cbn [fold_right]. rewrite IH.
  destruct l as [|y l']; [reflexivity|]. cbn [insert_by].
  inversion Hf as [|? ? Hxy _]; subst.
  assert (E : rec_ltb y x = false).
  { unfold rec_ltb. rewrite rec_cmp_antisym. unfold rlt in Hxy. rewrite Hxy. reflexivity. }
  rewrite E. reflexivity.
Qed.

Lemma sorted_nodup V : StronglySorted rlt V -> NoDup V.
Proof.
  induction 1 as [|x V Hs IH Hf]; constructor; [|exact IH].
  intros Hin. rewrite Forall_forall in Hf. specialize (Hf x Hin). apply (rlt_irrefl_slot x x Hf); reflexivity.
Qed.

Lemma sorted_slot_inj V : StronglySorted rlt V -> slot_inj V.
Proof.
  induction 1 as [|x V Hs IH Hf]; intros a b Ha Hb Ec; [destruct Ha|].
  rewrite Forall_forall in Hf.
  destruct Ha as [<-|Ha], Hb as [<-|Hb]; [reflexivity| | |apply IH; assumption].
  - specialize (Hf b Hb). unfold rlt in Hf. congruence.
  - specialize (Hf a Ha). unfold rlt in Hf. rewrite rec_cmp_antisym, Hf in Ec. discriminate.
Qed.

(* ---------- the keys of a sorted store ---------- *)

Definition klt (a b : bytes) : Prop := bcmp a b = Lt.

Lemma rlt_key_le x y : rlt x y -> bcmp (rkey x) (rkey y) <> Gt.
Proof. intros H. apply rlt_cases in H as [H|[H _]]; [congruence|rewrite H, bcmp_refl; discriminate]. Qed.

Lemma dedup_spec : forall V last,
  StronglySorted rlt V ->
  (forall k0 x, last = Some k0 -> In x V -> bcmp k0 (rkey x) <> Gt) ->
  StronglySorted klt (dedup_keys last V) /\
  (forall k, In k (dedup_keys last V) <-> (exists x, In x V /\ rkey x = k) /\ last <> Some k) /\
  (forall k0 k, last = Some k0 -> In k (dedup_keys last V) -> klt k0 k).
Proof.
  induction V as [|x V IH]; intros last Hs Hl; cbn [dedup_keys].
  - split; [constructor|]. split; [|intros ? ? _ []]. intros k. split; [intros []|intros [(y & [] & _) _]].
  - inversion Hs as [|? ? Hs' Hf]; subst. rewrite Forall_forall in Hf.
    assert (Hnext : forall k0 y, Some (rkey x) = Some k0 -> In y V -> bcmp k0 (rkey y) <> Gt).
    { intros k0 y E Hy. injection E as <-. apply rlt_key_le. apply Hf; exact Hy. }
    destruct (IH (Some (rkey x)) Hs' Hnext) as (I1 & I2 & I3).
    assert (Hnew : StronglySorted klt (rkey x :: dedup_keys (Some (rkey x)) V)).
    { constructor; [exact I1|]. apply Forall_forall. intros k Hk. apply (I3 (rkey x)); [reflexivity|exact Hk]. }
    assert (Hmem : forall k, In k (rkey x :: dedup_keys (Some (rkey x)) V) <-> (exists y, In y (x :: V) /\ rkey y = k)).
    { intros k. cbn [In]. rewrite I2. split.
      - intros [<-|[(y & Hy & Ek) _]]; [exists x; auto|exists y; auto].
      - intros (y & [<-|Hy] & Ek); [left; exact Ek|].
        destruct (list_eq_dec N.eq_dec (rkey x) k) as [E|E]; [left; exact E|right]. split; [eauto|congruence]. }
    destruct last as [k0|].
    + destruct (beqb k0 (rkey x)) eqn:Ek.
      * apply beqb_eq in Ek. subst k0. split; [exact I1|]. split.
        -- intros k. rewrite I2. split.
           ++ intros [(y & Hy & E) Hne]. split; [exists y; split; [right; exact Hy|exact E]|exact Hne].
           ++ intros [(y & [<-|Hy] & E) Hne]; [congruence|]. split; [eauto|exact Hne].
        -- intros k1 k E Hk. injection E as <-. apply (I3 (rkey x)); [reflexivity|exact Hk].
      * apply beqb_neq in Ek.
        assert (Hlt : klt k0 (rkey x)).
        { unfold klt. specialize (Hl k0 x eq_refl (or_introl eq_refl)).
          destruct (bcmp k0 (rkey x)) eqn:E; [apply bcmp_eq in E; congruence|reflexivity|congruence]. }
        split; [exact Hnew|]. split.
        -- intros k. rewrite Hmem. split.
           ++ intros (y & Hy & E). split; [eauto|]. intros E0. injection E0 as <-.
              specialize (Hl k0 y eq_refl Hy). rewrite E in Hl.
              (* k0 < rkey x <= rkey y = k0 *)
              destruct Hy as [<-|Hy]; [congruence|].
              pose proof (rlt_key_le x y (Hf y Hy)) as H2. rewrite E in H2.
              unfold klt in Hlt. apply H2. apply bcmp_gt_lt. exact Hlt.
           ++ intros [H _]. exact H.
        -- intros k1 k E Hk. injection E as <-. destruct Hk as [<-|Hk]; [exact Hlt|].
           unfold klt in *. eapply bcmp_lt_trans; [exact Hlt|]. apply (I3 (rkey x)); [reflexivity|exact Hk].
    + split; [exact Hnew|]. split; [|intros ? ? E; discriminate].
      intros k. rewrite Hmem. split; [intros H; split; [exact H|discriminate]|intros [H _]; exact H].
Qed.

Lemma sorted_same_keys (l1 l2 : list bytes) :
  StronglySorted klt l1 -> StronglySorted klt l2 -> (forall k, In k l1 <-> In k l2) -> l1 = l2.
Proof.
  revert l2. induction l1 as [|a l1 IH]; intros l2 S1 S2 Hm.
  - destruct l2 as [|b l2]; [reflexivity|]. exfalso. apply (Hm b). left; reflexivity.
  - destruct l2 as [|b l2]; [exfalso; apply (Hm a); left; reflexivity|].
    inversion S1 as [|? ? S1' F1]; subst. inversion S2 as [|? ? S2' F2]; subst.
    rewrite Forall_forall in F1, F2. unfold klt in *.
    assert (a = b).
    { destruct (proj1 (Hm a) (or_introl eq_refl)) as [E|Ha]; [congruence|].
      destruct (proj2 (Hm b) (or_introl eq_refl)) as [E|Hb]; [congruence|].
      specialize (F1 _ Hb). specialize (F2 _ Ha). pose proof (bcmp_lt_trans _ _ _ F1 F2) as H. rewrite bcmp_refl in H. discriminate. }
    subst b. f_equal. apply IH; [exact S1'|exact S2'|].
    intros e. split; intros He.
    + destruct (proj1 (Hm e) (or_intror He)) as [E|H]; [|exact H]. subst e. specialize (F1 _ He). rewrite bcmp_refl in F1. discriminate.
    + destruct (proj2 (Hm e) (or_intror He)) as [E|H]; [|exact H]. subst e. specialize (F2 _ He). rewrite bcmp_refl in F2. discriminate.
Qed.

Lemma klt_sorted_filter (g : bytes -> bool) l : StronglySorted klt l -> StronglySorted klt (filter g l).
Proof.
  induction 1 as [|x l Hs IH Hf]; cbn [filter]; [constructor|].
  destruct (g x); [|exact IH]. constructor; [exact IH|].
  apply Forall_forall. intros y Hy. apply filter_In in Hy as [Hy _]. rewrite Forall_forall in Hf. auto.
Qed.

Lemma latest_le_nokey V k R : (forall x, In x V -> rkey x <> k) -> latest_le V k R None = None.
Proof.
  intros H. induction V as [|x V IH]; [reflexivity|]. cbn [latest_le].
  assert (IH' : latest_le V k R None = None) by (apply IH; intros y Hy; apply H; right; exact Hy).
  destruct x as [|k' r' v']; [exact IH'|].
  destruct (beqb k k') eqn:Ek; [apply beqb_eq in Ek; exfalso; apply (H (RVer k' r' v')); [left; reflexivity|cbn; congruence]|].
  cbn [andb]. exact IH'.
Qed.

Definition has_key (A : store) (k : bytes) : bool := existsb (fun x => beqb (rkey x) k) A.

Lemma list_keys_drop ks A R : list_keys ks A R = list_keys (filter (has_key A) ks) A R.
Proof.
  unfold list_keys. induction ks as [|k ks IH]; [reflexivity|]. cbn [flat_map filter].
  destruct (has_key A k) eqn:E; cbn [flat_map]; rewrite IH; [reflexivity|].
  unfold get_at. rewrite latest_le_nokey; [reflexivity|].
  intros x Hx Ek. assert (has_key A k = true); [|congruence].
  apply existsb_exists. exists x. split; [exact Hx|apply beqb_eq; exact Ek].
Qed.

(* List over a store that lost some records (a filter of a sorted store) = List of the same key list *)
Lemma list_at_filter V f lo hi R :
  StronglySorted rlt V ->
  list_at (filter f V) lo hi R =
  list_keys (filter (fun k => bleb lo k && bltb k hi) (dedup_keys None V)) (filter f V) R.
Proof.
  intros Hs. unfold list_at.
  set (g := fun k => bleb lo k && bltb k hi). set (P := filter f V).
  rewrite (list_keys_drop (filter g (dedup_keys None V)) P R). f_equal.
  destruct (dedup_spec V None Hs) as (S1 & M1 & _); [intros ? ? E; discriminate|].
  destruct (dedup_spec P None (sorted_filter f V Hs)) as (S2 & M2 & _); [intros ? ? E; discriminate|].
  apply sorted_same_keys.
  - apply klt_sorted_filter. exact S2.
  - apply klt_sorted_filter. apply klt_sorted_filter. exact S1.
  - intros k. rewrite !filter_In, M1, M2. split.
    + intros [[(x & Hx & Ek) _] Hg]. split; [split; [split; [|discriminate]|exact Hg]|].
      * exists x. split; [|exact Ek]. apply filter_In in Hx. apply Hx.
      * apply existsb_exists. exists x. split; [exact Hx|apply beqb_eq; exact Ek].
    + intros [[_ Hg] Hk]. split; [|exact Hg]. split; [|discriminate].
      apply existsb_exists in Hk as (x & Hx & Ek). apply beqb_eq in Ek. eauto.
Qed.

(* ---------- the reads clause ---------- *)

Definition rd_ok (R cur : N) (rd : c07_read) : Prop :=
  match rd with
  | RdGet _ rev => rev = 0 \/ R <= rev
  | RdList _ _ rev _ => R <= eff_rev cur rev
  end.

Lemma uniq_filter f V : uniq_ver V -> uniq_ver (filter f V).
Proof. intros U k r v v' H1 H2. apply filter_In in H1 as [H1 _]. apply filter_In in H2 as [H2 _]. eauto. Qed.

Lemma model_read_filter R V f cur rd :
  StronglySorted rlt V -> uniq_ver V -> veq R (filter f V) V -> R <= max_rev -> rd_ok R cur rd ->
  model_read (filter f V) cur rd = model_read V cur rd.
Proof.
  intros Hs U Hv HR Hok. pose proof (uniq_filter f V U) as U'.
  destruct rd as [k rev|lo hi rev limit]; cbn [model_read rd_ok] in *.
  - f_equal. apply (veq_get_at R); auto.
    destruct (rev =? 0) eqn:E; [exact HR|]. apply N.eqb_neq in E. destruct Hok; [congruence|assumption].
  - rewrite (list_at_filter V f lo hi _ Hs). unfold list_at.
    rewrite (veq_list_keys R (filter f V) V _ _ U' U Hv Hok). reflexivity.
Qed.

(* ---------- a committed write: new index record (replacing the key's old one) and new version record ---------- *)

Definition commit (V : store) (k : bytes) (n : N) (d : bool) (v : bytes) : store := set_idx V k n d ++ [RVer k n v].

Lemma in_commit V k n d v y :
  In y (commit V k n d v) <-> (In y V /\ (forall r' d', y <> RIdx k r' d')) \/ y = RIdx k n d \/ y = RVer k n v.
Proof.
  unfold commit, set_idx. rewrite !in_app_iff, in_del_slot. cbn [In]. split.
  - intros [[[Hy Hs]|[<-|[]]]|[<-|[]]]; auto. left. split; [exact Hy|].
    intros r' d' ->. assert (same_slot (RIdx k n d) (RIdx k r' d') = true) by (apply same_slot_idx; eauto). congruence.
  - intros [[Hy Hn]|[->| ->]]; auto. left. left. split; [exact Hy|].
    destruct (same_slot (RIdx k n d) y) eqn:E; [|reflexivity]. apply same_slot_idx in E as (r' & d' & ->). exfalso. eapply Hn; eauto.
Qed.

Lemma commit_ver V k n d v k' r' v' :
  In (RVer k' r' v') (commit V k n d v) <-> In (RVer k' r' v') V \/ (k' = k /\ r' = n /\ v' = v).
Proof.
  rewrite in_commit. split.
  - intros [[H _]|[H|H]]; [left; exact H|discriminate|right; injection H as -> -> ->; auto].
  - intros [H|(-> & -> & ->)]; [left; split; [exact H|intros; discriminate]|right; right; reflexivity].
Qed.

Lemma commit_idx V k n d v k' r' d' :
  In (RIdx k' r' d') (commit V k n d v) <-> (In (RIdx k' r' d') V /\ k' <> k) \/ (k' = k /\ r' = n /\ d' = d).
Proof.
  rewrite in_commit. split.
  - intros [[H Hn]|[H|H]]; [left; split; [exact H|intros ->; eapply Hn; eauto]|right; injection H as -> -> ->; auto|discriminate].
  - intros [[H Hk]|(-> & -> & ->)]; [left; split; [exact H|intros r0 d0 E; injection E as -> _ _; congruence]|right; left; reflexivity].
Qed.

(* reads of other keys do not see the write *)
Lemma latest_le_ext A B k R :
  (forall r v, In (RVer k r v) A <-> In (RVer k r v) B) -> uniq_ver A -> uniq_ver B ->
  get_at A R k = get_at B R k.
Proof.
  intros E UA UB.
  assert (Hv : forall r v, visible A R k r v <-> visible B R k r v).
  { intros r v. unfold visible, is_latest. rewrite E. split; intros [[H1 [H2 H3]] H4]; (split; [split; [exact H1|split; [exact H2|]]|exact H4]);
      intros r' v' Hin; apply (H3 r' v'); apply E; exact Hin. }
  destruct (get_at A R k) as [[r v]|] eqn:EA.
  - apply (get_at_spec A R k r v UA) in EA. apply Hv in EA. apply (get_at_spec B R k r v UB) in EA. congruence.
  - destruct (get_at B R k) as [[r v]|] eqn:EB; [|reflexivity].
    apply (get_at_spec B R k r v UB) in EB. apply Hv in EB. apply (get_at_spec A R k r v UA) in EB. congruence.
Qed.

Lemma idx_of_ext A B k : idx_unique A -> idx_unique B ->
  (forall r d, In (RIdx k r d) A <-> In (RIdx k r d) B) -> idx_of A k = idx_of B k.
Proof.
  intros UA UB E.
  destruct (idx_of A k) as [[r d]|] eqn:EA.
  - apply idx_of_some in EA. apply E in EA.
    destruct (idx_of B k) as [[r' d']|] eqn:EB.
    + apply idx_of_some in EB. destruct (UB k r d r' d' EA EB) as [-> ->]. reflexivity.
    + exfalso. apply (proj1 (idx_of_none_iff B k) EB r d). exact EA.
  - destruct (idx_of B k) as [[r' d']|] eqn:EB; [|reflexivity].
    apply idx_of_some in EB. apply E in EB. exfalso. apply (proj1 (idx_of_none_iff A k) EA r' d'). exact EB.
Qed.

Lemma commit_wfd V k n d v :
  wfd V -> fresh V n -> (d = true <-> v = tombstone) -> wfd (commit V k n d v).
Proof.
  intros (Hu & Uv & Hk) (Hmax & Hn & Hni) Hd.
  assert (Uv' : uniq_ver (commit V k n d v)).
  { intros k0 r0 v0 v0' H1 H2. apply commit_ver in H1, H2.
    destruct H1 as [H1|(-> & -> & ->)], H2 as [H2|(E1 & E2 & E3)].
    - eapply Uv; eauto.
    - subst. specialize (Hn _ _ _ H1). lia.
    - specialize (Hn _ _ _ H2). lia.
    - congruence. }
  split; [|split; [exact Uv'|]].
  - intros k0 r0 d0 r1 d1 H1 H2. apply commit_idx in H1, H2.
    destruct H1 as [[H1 N1]|(-> & -> & ->)], H2 as [[H2 N2]|(E1 & E2 & E3)]; try congruence; [eapply Hu; eauto|subst; auto].
  - intros k0. destruct (list_eq_dec N.eq_dec k0 k) as [->|Hne].
    + (* the written key: index (n,d) above the new newest version (n,v) *)
      assert (Htop : top_ver (commit V k n d v) k n v).
      { split; [apply commit_ver; right; auto|]. intros r' v' Hin. apply commit_ver in Hin as [Hin|(_ & -> & _)]; [specialize (Hn _ _ _ Hin)|]; lia. }
      split; [|split].
      * intros r0 Hi. apply commit_idx in Hi as [[_ Hc]|(_ & -> & <-)]; [congruence|].
        exists v. split; [exact Htop|]. intros ->. assert (false = true) by (apply Hd; reflexivity). discriminate.
      * intros r0 Hi. apply commit_idx in Hi as [[_ Hc]|(_ & -> & <-)]; [congruence|].
        right. assert (v = tombstone) by (apply Hd; reflexivity). subst v. exact Htop.
      * intros Hnone. exfalso. apply (Hnone n d). apply commit_idx. right; auto.
    + (* another key: nothing of it changed *)
      destruct (Hk k0) as (W1 & W2 & W3).
      assert (Ev : forall r0 v0, In (RVer k0 r0 v0) (commit V k n d v) <-> In (RVer k0 r0 v0) V).
      { intros r0 v0. rewrite commit_ver. split; [intros [H|(E & _)]; [exact H|congruence]|auto]. }
      assert (Ei : forall r0 d0, In (RIdx k0 r0 d0) (commit V k n d v) <-> In (RIdx k0 r0 d0) V).
      { intros r0 d0. rewrite commit_idx. split; [intros [[H _]|(E & _)]; [exact H|congruence]|auto]. }
      assert (Etop : forall r0 v0, top_ver (commit V k n d v) k0 r0 v0 <-> top_ver V k0 r0 v0).
      { intros r0 v0. unfold top_ver. rewrite Ev. split; intros [H1 H2]; (split; [exact H1|]); intros r' v' H; apply (H2 r' v'); apply Ev; exact H. }
      assert (Eno : no_ver (commit V k n d v) k0 <-> no_ver V k0).
      { unfold no_ver. split; intros H r' v' Hi; apply (H r' v'); apply Ev; exact Hi. }
      split; [|split].
      * intros r0 Hi. apply Ei in Hi. destruct (W1 r0 Hi) as (v0 & T & Hnt). exists v0. split; [apply Etop; exact T|exact Hnt].
      * intros r0 Hi. apply Ei in Hi. destruct (W2 r0 Hi) as [H|T]; [left; apply Eno; exact H|right; apply Etop; exact T].
      * intros Hnone. destruct W3 as [H|(r0 & T)]; [|left; apply Eno; exact H|right; exists r0; apply Etop; exact T].
        intros r0 d0 Hi. apply (Hnone r0 d0). apply Ei. exact Hi.
Qed.

Lemma commit_fresh V k n d v : fresh V n -> n + 1 <= max_rev -> fresh (commit V k n d v) (n + 1).
Proof.
  intros (Hmax & Hn & Hni) Hm. split; [exact Hm|]. split.
  - intros k0 r0 v0 H. apply commit_ver in H as [H|(_ & -> & _)]; [specialize (Hn _ _ _ H)|]; lia.
  - intros k0 r0 d0 H. apply commit_idx in H as [[H _]|(_ & -> & _)]; [specialize (Hni _ _ _ H)|]; lia.
Qed.

Lemma commit_other_get V k n d v k0 R :
  wfd V -> fresh V n -> (d = true <-> v = tombstone) -> k0 <> k ->
  get_at (commit V k n d v) R k0 = get_at V R k0.
Proof.
  intros Hw Hf Hd Hne. pose proof (commit_wfd V k n d v Hw Hf Hd) as (_ & U' & _). destruct Hw as (_ & U & _).
  apply latest_le_ext; [|exact U'|exact U].
  intros r0 v0. rewrite commit_ver. split; [intros [H|(E & _)]; [exact H|congruence]|auto].
Qed.

(* ---------- one request of the write round ---------- *)

Lemma del_slot_noidx V k n d : idx_of V k = None -> del_slot (RIdx k n d) V = V.
Proof.
  intros H. pose proof (proj1 (idx_of_none_iff V k) H) as Hn. clear H. unfold del_slot.
  induction V as [|y V IH]; [reflexivity|]. cbn [filter].
  destruct (same_slot (RIdx k n d) y) eqn:E.
  - apply same_slot_idx in E as (r' & d' & ->). exfalso. apply (Hn r' d'). left; reflexivity.
  - cbn [negb]. f_equal. apply IH. intros r' d' Hi. apply (Hn r' d'). right; exact Hi.
Qed.

Definition op_ok (n : N) (op : c07_wop) : Prop :=
  match op with
  | WCreate _ v => v <> tombstone
  | WUpdate _ v prev => v <> tombstone /\ prev <= n
  | WDelete _ e => e <= n
  end.

Lemma fresh_succ V n : fresh V n -> n + 1 <= max_rev -> fresh V (n + 1).
Proof.
  intros (H1 & H2 & H3) Hm. split; [exact Hm|]. split; [intros k r v H; specialize (H2 _ _ _ H)|intros k r d H; specialize (H3 _ _ _ H)]; lia.
Qed.

Lemma nottomb_iff v : v <> tombstone -> (false = true <-> v = tombstone).
Proof. intros H. split; [discriminate|congruence]. Qed.
Lemma tomb_iff : (true = true <-> tombstone = tombstone).
Proof. split; reflexivity. Qed.

Lemma do_create_step V k v n :
  wfd V -> fresh V n -> n + 1 <= max_rev -> v <> tombstone ->
  let '(V', r) := do_create V k v n in
  wfd V' /\ fresh V' (n + 1) /\ (forall k0 R, k0 <> k -> get_at V' R k0 = get_at V R k0) /\
  r = match get_at V max_rev k with None => WOk | Some _ => WFalse end.
Proof.
  intros Hw Hf Hm Hv.
  pose proof (create_semantics V k v n Hw Hf) as Hsem.
  assert (Hshape : fst (do_create V k v n) = commit V k n false v /\ snd (do_create V k v n) = WOk \/
                   fst (do_create V k v n) = V /\ snd (do_create V k v n) = WFalse).
  { unfold do_create. destruct (idx_of V k) as [[r d]|] eqn:Ei.
    - destruct (d && (r <? n)); [left; split; reflexivity|right; split; reflexivity].
    - left. split; [|reflexivity]. cbn [fst]. unfold commit, set_idx. rewrite (del_slot_noidx V k n false Ei), <- app_assoc. reflexivity. }
  destruct (do_create V k v n) as [V' r]. cbn [fst snd] in *.
  destruct Hshape as [[-> ->]|[-> ->]].
  - split; [apply commit_wfd; auto using nottomb_iff|]. split; [apply commit_fresh; assumption|]. split.
    + intros k0 R Hne. apply commit_other_get; auto using nottomb_iff.
    + rewrite (proj1 Hsem eq_refl). reflexivity.
  - split; [exact Hw|]. split; [apply fresh_succ; assumption|]. split; [reflexivity|].
    destruct (get_at V max_rev k); [reflexivity|]. assert (WFalse = WOk) by (apply Hsem; reflexivity). discriminate.
Qed.

Lemma do_update_step V k v prev n :
  wfd V -> fresh V n -> n + 1 <= max_rev -> v <> tombstone -> prev <= n ->
  let '(V', r) := do_update V k v prev n in
  wfd V' /\ fresh V' (n + 1) /\ (forall k0 R, k0 <> k -> get_at V' R k0 = get_at V R k0) /\
  r = wop_expected 0 (WUpdate k v prev) (get_at V max_rev k).
Proof.
  intros Hw Hf Hm Hv Hle. cbn [wop_expected].
  destruct (prev =? 0) eqn:E0.
  - unfold do_update. rewrite E0. apply do_create_step; assumption.
  - apply N.eqb_neq in E0.
    pose proof (update_semantics V k v prev n Hw Hf E0 Hle) as Hsem.
    assert (Hshape : fst (do_update V k v prev n) = commit V k n false v /\ snd (do_update V k v prev n) = WOk \/
                     fst (do_update V k v prev n) = V /\ snd (do_update V k v prev n) = WFalse).
    { unfold do_update. apply N.eqb_neq in E0. rewrite E0. assert (El : (n <? prev) = false) by (apply N.ltb_ge; exact Hle). rewrite El.
      destruct (idx_of V k) as [[r [|]]|]; try (right; split; reflexivity).
      destruct (r =? prev); [left; split; reflexivity|right; split; reflexivity]. }
    destruct (do_update V k v prev n) as [V' r]. cbn [fst snd] in *.
    destruct Hshape as [[-> ->]|[-> ->]].
    + split; [apply commit_wfd; auto using nottomb_iff|]. split; [apply commit_fresh; assumption|]. split.
      * intros k0 R Hne. apply commit_other_get; auto using nottomb_iff.
      * destruct (proj1 Hsem eq_refl) as (v0 & ->). rewrite N.eqb_refl. reflexivity.
    + split; [exact Hw|]. split; [apply fresh_succ; assumption|]. split; [reflexivity|].
      destruct (get_at V max_rev k) as [[r v0]|]; [|reflexivity].
      destruct (r =? prev) eqn:Er; [|reflexivity]. apply N.eqb_eq in Er. subst r.
      assert (WFalse = WOk) by (apply Hsem; eauto). discriminate.
Qed.

Lemma do_delete_step V k e n :
  wfd V -> fresh V n -> n + 1 <= max_rev -> e <= n ->
  let '(V', r) := do_delete V k e n in
  wfd V' /\ fresh V' (n + 1) /\ (forall k0 R, k0 <> k -> get_at V' R k0 = get_at V R k0) /\
  r = wop_expected 0 (WDelete k e) (get_at V max_rev k).
Proof.
  intros Hw Hf Hm Hle. cbn [wop_expected].
  pose proof (delete_semantics V k e n Hw Hf Hle) as Hsem.
  assert (Hshape : fst (do_delete V k e n) = commit V k n true tombstone /\ snd (do_delete V k e n) = WOk \/
                   fst (do_delete V k e n) = V /\ snd (do_delete V k e n) = WFalse).
  { unfold do_delete. destruct (get_at V max_rev k) as [[modr v0]|] eqn:Hg; [|right; split; reflexivity].
    assert (El : (n <? e) = false) by (apply N.ltb_ge; exact Hle). rewrite El.
    assert (Hmn : (n <=? modr) = false).
    { apply N.leb_gt. destruct Hw as (_ & Uv & _). apply get_at_spec in Hg; [|exact Uv].
      destruct Hg as [(Hin & _) _]. destruct Hf as (_ & Hn & _). eapply Hn; eauto. }
    destruct ((0 <? e) && negb (e =? modr)); [right; split; reflexivity|]. rewrite Hmn.
    destruct (idx_of V k) as [[r [|]]|]; try (right; split; reflexivity).
    destruct (r =? modr); [left; split; reflexivity|right; split; reflexivity]. }
  destruct (do_delete V k e n) as [V' r]. cbn [fst snd] in *.
  destruct Hshape as [[-> ->]|[-> ->]].
  - split; [apply commit_wfd; auto using tomb_iff|]. split; [apply commit_fresh; assumption|]. split.
    + intros k0 R Hne. apply commit_other_get; auto using tomb_iff.
    + destruct (proj1 Hsem eq_refl) as (r & v0 & -> & Hor).
      destruct Hor as [->| ->]; [reflexivity|]. rewrite N.eqb_refl, orb_true_r. reflexivity.
  - split; [exact Hw|]. split; [apply fresh_succ; assumption|]. split; [reflexivity|].
    destruct (get_at V max_rev k) as [[r v0]|]; [|reflexivity].
    destruct ((e =? 0) || (e =? r)) eqn:Er; [|reflexivity].
    assert (WFalse = WOk); [|discriminate]. apply Hsem. exists r, v0. split; [reflexivity|].
    apply orb_true_iff in Er as [Er|Er]; apply N.eqb_eq in Er; auto.
Qed.

Lemma op_ok_mono n n' op : op_ok n op -> n <= n' -> op_ok n' op.
Proof. destruct op; cbn [op_ok]; intros H Hle; [exact H|destruct H; split; [assumption|lia]|lia]. Qed.

Lemma wop_step V n op :
  wfd V -> fresh V n -> n + 1 <= max_rev -> op_ok n op ->
  let '(V', r) := model_wop V n op in
  wfd V' /\ fresh V' (n + 1) /\ (forall k0 R, k0 <> wop_key op -> get_at V' R k0 = get_at V R k0) /\
  r = wop_expected 0 op (get_at V max_rev (wop_key op)).
Proof.
  intros Hw Hf Hm Hok. destruct op as [k v|k v prev|k e]; cbn [model_wop wop_key op_ok] in *.
  - apply do_create_step; assumption.
  - destruct Hok. apply do_update_step; assumption.
  - apply do_delete_step; assumption.
Qed.

Lemma wres_eqb_eq a b : wres_eqb a b = true -> a = b.
Proof. destruct a, b; cbn; try discriminate; reflexivity. Qed.
Lemma wres_eqb_refl a : wres_eqb a a = true.
Proof. destruct a; reflexivity. Qed.

Lemma find_get_model post cur k : forall reads got,
  find_get k reads (map (model_read post cur) reads) = Some got -> got = get_at post max_rev k.
Proof.
  induction reads as [|rd reads IH]; intros got H; [discriminate|]. cbn [map find_get] in H.
  destruct rd as [k' rev|lo hi rev limit].
  - cbn [model_read] in H. destruct rev as [|p].
    + cbn [N.eqb] in H. destruct (beqb k k') eqn:E; [apply beqb_eq in E; subst; injection H as <-; reflexivity|apply IH; exact H].
    + apply IH. exact H.
  - apply IH. exact H.
Qed.

Lemma round_sound post cur reads after : forall ops V n seen fin,
  after = map (model_read post cur) reads ->
  wfd V -> fresh V n -> n + N.of_nat (length ops) <= max_rev ->
  Forall (fun p => op_ok n (fst p)) ops ->
  (forall k0, ~ In k0 seen -> get_at V max_rev k0 = get_at post max_rev k0) ->
  model_round V n ops = Some fin ->
  round_ok cur reads after seen ops = true.
Proof.
  induction ops as [|[op res] ops IH]; intros V n seen fin Ea Hw Hf Hm Hok Hinv Hr; [reflexivity|].
  cbn [model_round round_ok] in *. inversion Hok as [|? ? Hok1 Hok2]; subst. cbn [fst] in Hok1.
  assert (Hm1 : n + 1 <= max_rev) by (cbn [length] in Hm; lia).
  pose proof (wop_step V n op Hw Hf Hm1 Hok1) as Hs.
  destruct (model_wop V n op) as [V' r]. destruct Hs as (Hw' & Hf' & Hoth & Er).
  destruct (wres_eqb r res) eqn:Eres; [|discriminate]. apply wres_eqb_eq in Eres. subst res.
  apply andb_true_iff. split.
  - destruct (existsb (beqb (wop_key op)) seen) eqn:Es; [reflexivity|].
    destruct (find_get (wop_key op) reads (map (model_read post cur) reads)) as [got|] eqn:Eg; [|reflexivity].
    apply find_get_model in Eg. subst got.
    rewrite <- Hinv; [rewrite Er; apply wres_eqb_refl|].
    intros Hin. assert (existsb (beqb (wop_key op)) seen = true); [|congruence].
    apply existsb_exists. exists (wop_key op). split; [exact Hin|apply beqb_refl].
  - apply (IH V' (n + 1) (wop_key op :: seen) fin eq_refl Hw' Hf').
    + cbn [length] in Hm. lia.
    + eapply Forall_impl; [|exact Hok2]. intros p Hp. eapply op_ok_mono; [exact Hp|lia].
    + intros k0 Hn. rewrite Hoth; [apply Hinv; intros Hi; apply Hn; right; exact Hi|].
      intros ->. apply Hn. left; reflexivity.
    + exact Hr.
Qed.

(* ---------- one variant without concurrent writers ---------- *)

Record variant_valid (p : bytes) (sk : list bytes) (V : store) (reads : list c07_read) (v : c07_variant) : Prop := {
  vv_seq : exists os, v7_oc v = map (fun o => ([], o)) os;             (* no writers interleaved *)
  vv_R : clamp (v7_cur v) 0 (v7_req v) <= max_rev;
  vv_reads : Forall (rd_ok (clamp (v7_cur v) 0 (v7_req v)) (v7_cur2 v)) reads;   (* reads at revisions >= R (0 = latest) *)
  vv_fresh : fresh V (v7_cur2 v + 1);                                  (* the round's revisions are above everything stored *)
  vv_bound : v7_cur2 v + 1 + N.of_nat (length (v7_round v)) <= max_rev;
  vv_ops : Forall (fun q => op_ok (v7_cur2 v + 1) (fst q)) (v7_round v)
}.

Lemma compact_all_filter R V ranges (os : list outcome) :
  let d := compact_all R 0 ranges (init_d V (map (fun o => ([], o)) os)) in
  store_ok V -> uniq_ver V ->
  d_ghost d = V /\ veq R (d_store d) V /\ (wfd V -> wfd (d_store d)) /\
  exists f, d_store d = filter f V /\ forall y, In y V -> f y = false -> touched ranges (rkey y).
Proof.
  cbv zeta. intros Hok Hu.
  set (oc := map (fun o : outcome => ([] : list rec, o)) os) in *.
  assert (Hnil : flat_map fst oc = []) by (unfold oc; clear; induction os as [|o os IH]; [reflexivity|exact IH]).
  assert (Hd0 : dinv R V (init_d V oc)).
  { constructor; cbn [init_d d_store d_ghost d_oc d_trace]; auto.
    - apply cinv_refl.
    - intros k r v Hin. unfold adds_of in Hin. cbn [d_oc init_d] in Hin. rewrite Hnil in Hin. destruct Hin. }
  destruct (compact_all_seq R V ranges (init_d V oc) Hd0 Hok) as ([Hc Hu' Hw Hoc Hs] & (_ & Hg & f & E & Hf) & Hwf); [exact Hnil|].
  cbn [init_d d_store d_ghost] in *. split; [exact Hg|]. rewrite Hg in Hc.
  split; [apply cinv_veq; assumption|]. split; [exact Hwf|]. exists f. split; assumption.
Qed.

Lemma fresh_filter f V n : fresh V n -> fresh (filter f V) n.
Proof.
  intros (H1 & H2 & H3). split; [exact H1|]. split; [intros k r v H|intros k r d H]; apply filter_In in H as [H _]; eauto.
Qed.

Lemma first_some_none {A} (g : A -> option N) l : (forall x, In x l -> g x = None) -> first_some g l = None.
Proof.
  induction l as [|x l IH]; intros H; [reflexivity|]. cbn [first_some]. rewrite (H x (or_introl eq_refl)).
  apply IH. intros y Hy. apply H. right; exact Hy.
Qed.

Lemma same_slot_refl' x : same_slot x x = true.
Proof. unfold same_slot. rewrite beqb_refl, N.eqb_refl, Bool.eqb_reflx. reflexivity. Qed.

Lemma kvr_eqb_eq a b : kvr_eqb a b = true -> a = b.
Proof.
  destruct a as [[k v] r], b as [[k' v'] r']. cbn [kvr_eqb]. intros H.
  apply andb_true_iff in H as [H H3]. apply andb_true_iff in H as [H1 H2].
  apply beqb_eq in H1, H2. apply N.eqb_eq in H3. congruence.
Qed.

Lemma rres_eqb7_eq a b : rres_eqb7 a b = true -> a = b.
Proof.
  destruct a as [x|l m|], b as [y|l' m'|]; cbn [rres_eqb7]; try discriminate; intros H.
  - destruct x as [[r v]|], y as [[r' v']|]; cbn [opt_eqb] in H; try discriminate; [|reflexivity].
    unfold nb_eqb in H. cbn [fst snd] in H. apply andb_true_iff in H as [H1 H2]. apply N.eqb_eq in H1. apply beqb_eq in H2. congruence.
  - apply andb_true_iff in H as [H1 H2]. apply (list_eqb_eq kvr_eqb kvr_eqb_eq) in H1. apply Bool.eqb_prop in H2. congruence.
  - reflexivity.
Qed.

Lemma list_eqb_refl {A} (eqb : A -> A -> bool) (Hr : forall a, eqb a a = true) l : list_eqb eqb l l = true.
Proof. induction l as [|a l IH]; [reflexivity|]. cbn. rewrite Hr, IH. reflexivity. Qed.

Lemma rres_eqb7_refl a : rres_eqb7 a a = true.
Proof.
  destruct a as [x|l m|]; cbn [rres_eqb7]; [| |reflexivity].
  - destruct x as [[r v]|]; [|reflexivity]. cbn. unfold nb_eqb. cbn. rewrite N.eqb_refl, beqb_refl. reflexivity.
  - rewrite Bool.eqb_reflx, andb_true_r. apply list_eqb_refl. intros [[k v] r]. cbn. rewrite !beqb_refl, N.eqb_refl. reflexivity.
Qed.

(* the clauses of the oracle for one variant *)
Theorem variant_sound p sk V reads cb v :
  StronglySorted rlt V -> store_ok V -> uniq_ver V -> wfd V ->
  alpha p -> Forall alpha sk -> (forall x, In x V -> alpha (rkey x)) ->
  variant_valid p sk V reads v ->
  variant_check p sk V reads cb v = true ->
  variant_oracle p sk V reads cb v = None.
Proof.
  intros Hs Hok Hu Hw Ap Ask Akeys [(os & Eoc) HR Hreads Hfresh Hbound Hops] Hc.
  unfold variant_check in Hc.
  set (R := clamp (v7_cur v) 0 (v7_req v)) in *.
  (* one pass, or - an iterator step having failed - a head of a range and the worker's second run *)
  assert (Hd : d_ghost (variant_pass p sk V v) = V /\ veq R (d_store (variant_pass p sk V v)) V /\
               (wfd V -> wfd (d_store (variant_pass p sk V v))) /\
               exists f, d_store (variant_pass p sk V v) = filter f V /\
                         forall y, In y V -> f y = false -> touched (ranges_of p sk) (rkey y)).
  { unfold variant_pass. fold R. rewrite Eoc. destruct (v7_iterfail v =? 0);
      [apply compact_all_filter|apply compact_all_f_filter]; assumption. }
  destruct Hd as (Hg & Hveq & Hwf & f & Ef & Hf).
  set (d := variant_pass p sk V v) in *.
  repeat (apply andb_true_iff in Hc as [Hc ?]).
  (* the dumps *)
  assert (Epost : apply_diff V (v7_post v) = filter f V).
  { apply store_eqb_eq in H2. rewrite <- H2, Ef. apply sort_sorted_id. apply sorted_filter. exact Hs. }
  rewrite Epost in *. rewrite Hg, (sort_sorted_id V Hs) in H1.
  apply (list_eqb_eq rres_eqb7 rres_eqb7_eq) in H1, H0.
  rewrite Ef in Hveq.
  unfold variant_oracle. rewrite Epost.
  (* nothing outside the backend's charge is touched *)
  assert (Hout : outside_untouched p sk V (filter f V) = true).
  { unfold outside_untouched. apply forallb_forall. intros x Hx. apply orb_true_iff.
    destruct (f x) eqn:Efx.
    - right. apply existsb_exists. exists x. split; [apply filter_In; auto|apply same_slot_refl'].
    - left. destruct (Hf x Hx Efx) as (lh & Hlh & Hk).
      rewrite <- (borders_all p sk (rkey x) Ap Ask (Akeys x Hx)). apply existsb_exists. exists lh. split; [exact Hlh|exact Hk]. }
  rewrite Hout. cbn [negb].
  (* reads at every revision >= R *)
  assert (Hrd : before_of cb v = after_of cb v).
  { rewrite <- H1, <- H0. apply map_ext_in. intros rd Hrd. symmetry.
    apply (model_read_filter R); auto. rewrite Forall_forall in Hreads. apply Hreads; exact Hrd. }
  rewrite Hrd, (list_eqb_refl rres_eqb7 rres_eqb7_refl). cbn [negb].
  (* the write round *)
  destruct (model_round (filter f V) (v7_cur2 v + 1) (v7_round v)) as [fin|] eqn:Er; [|discriminate].
  rewrite (round_sound (filter f V) (v7_cur2 v) reads (after_of cb v) (v7_round v) (filter f V) (v7_cur2 v + 1) [] fin); [reflexivity| | | | | | |exact Er].
  - symmetry. exact H0.
  - rewrite <- Ef. apply Hwf. exact Hw.
  - apply fresh_filter. exact Hfresh.
  - exact Hbound.
  - exact Hops.
  - reflexivity.
Qed.

(* ================================================================================================ *)
(* the borders clause                                                                               *)
(* ================================================================================================ *)

Lemma nodup_insert {A} (lt : A -> A -> bool) x l : ~ In x l -> NoDup l -> NoDup (insert_by lt x l).
Proof.
  induction l as [|y l IH]; intros Hn Hd; cbn [insert_by].
  - constructor; [intros []|constructor].
  - destruct (lt y x).
    + inversion Hd; subst. constructor.
      * intros Hy. apply in_insert_by in Hy as [->|Hy]; [apply Hn; left; reflexivity|contradiction].
      * apply IH; [intros H; apply Hn; right; exact H|assumption].
    + constructor; assumption.
Qed.

Lemma nodup_sort {A} (lt : A -> A -> bool) l : NoDup l -> NoDup (sort_by lt l).
Proof.
  unfold sort_by. induction 1 as [|x l Hn Hd IH]; cbn [fold_right]; [constructor|].
  apply nodup_insert; [|exact IH]. intros H. apply Hn. apply (proj1 (in_sort_by lt l x)). exact H.
Qed.

Lemma in_borders_of x rs : In x (borders_of rs) -> exists q, In q rs /\ (x = q ++ [47] \/ x = q ++ [48]).
Proof.
  induction rs as [|q rs IH]; cbn [borders_of flat_map app In]; [intros []|]. fold (borders_of rs).
  intros [<-|[<-|H]]; [exists q; auto|exists q; auto|]. destruct (IH H) as (q' & H1 & H2). exists q'. auto.
Qed.

Lemma nodup_borders rs : NoDup rs -> NoDup (borders_of rs).
Proof.
  induction 1 as [|q rs Hn Hd IH]; cbn [borders_of flat_map app]; [constructor|]. fold (borders_of rs).
  constructor; [|constructor; [|exact IH]].
  - intros [H|H].
    + apply app_inv_head in H. discriminate.
    + apply in_borders_of in H as (q' & Hq' & [H|H]); apply app_inj_tail in H as [H1 H2]; [subst; contradiction|discriminate].
  - intros H. apply in_borders_of in H as (q' & Hq' & [H|H]); apply app_inj_tail in H as [H1 H2]; [discriminate|subst; contradiction].
Qed.

Lemma unrel_nodup l : unrel l -> NoDup l.
Proof.
  induction 1 as [|x l Hf Hp IH]; constructor; [|exact IH].
  intros Hx. rewrite Forall_forall in Hf. destruct (Hf x Hx) as [H _]. rewrite has_prefix_refl in H. discriminate.
Qed.

(* the shape of the borders: empty, or the sorted two borders of each of a duplicate-free list of prefixes *)
Lemma compact_borders_shape p sk : alpha p -> Forall alpha sk ->
  compact_borders p sk = [] \/
  exists rs, compact_borders p sk = sort_by elt (borders_of rs) /\ Forall alpha rs /\ NoDup rs.
Proof.
  intros Ap Ask. unfold compact_borders.
  set (p' := with_slash p). set (ss := map with_slash sk).
  assert (Sss : Forall slashed ss).
  { unfold ss. apply Forall_forall. intros e He. apply in_map_iff in He as (q & <- & Hq). apply with_slash_slashed.
    rewrite Forall_forall in Ask. apply Ask; exact Hq. }
  destruct (existsb (fun s => has_prefix s p') ss) eqn:Eanc; [left; reflexivity|right].
  set (inside := filter (fun s => has_prefix p' s) ss).
  destruct (outer_spec inside) as (Hun & Hsub & Hcov). set (outer := outer_prefixes inside) in *.
  assert (Ses : Forall slashed (p' :: outer)).
  { constructor; [apply with_slash_slashed; exact Ap|]. apply Forall_forall. intros e He.
    specialize (Hsub e He). apply filter_In in Hsub as [Hsub _]. rewrite Forall_forall in Sss. apply Sss; exact Hsub. }
  destruct (flat_borders _ Ses) as (F1 & F2 & F3). rewrite F1.
  exists (map (@removelast N) (p' :: outer)). split; [reflexivity|]. split; [exact F2|].
  apply (NoDup_map_inv (fun r => r ++ [47])). rewrite F3. constructor; [|apply unrel_nodup; exact Hun].
  intros Hin. specialize (Hsub p' Hin). apply filter_In in Hsub as [Hsub _].
  assert (existsb (fun s => has_prefix s p') ss = true) by (apply existsb_exists; exists p'; split; [exact Hsub|apply has_prefix_refl]).
  congruence.
Qed.

Lemma alpha_borders rs : Forall alpha rs -> Forall alpha (borders_of rs).
Proof.
  induction 1 as [|q qs H1 H2 IH]; [constructor|].
  cbn [borders_of flat_map app]. constructor; [apply alpha_app; split; [exact H1|exact alpha_47]|].
  constructor; [apply alpha_app; split; [exact H1|exact alpha_48]|exact IH].
Qed.

Lemma even_borders rs : Nat.even (length (borders_of rs)) = true.
Proof. induction rs as [|q qs IH]; [reflexivity|]. cbn [borders_of flat_map app length]. exact IH. Qed.

Lemma enc_bleb a b : alpha a -> alpha b -> bleb (encode a 0) (encode b 0) = bleb a b.
Proof.
  intros Aa Ab. pose proof (bltb_negb_bleb (encode b 0) (encode a 0)) as H1. pose proof (bltb_negb_bleb b a) as H2.
  rewrite (enc_ltb b a Ab Aa) in H1. rewrite H2 in H1. apply Bool.negb_sym in H1. rewrite Bool.negb_involutive in H1. exact H1.
Qed.

Lemma pairs_map {A B} (f : A -> B) : forall l, pairs (map f l) = map (fun p => (f (fst p), f (snd p))) (pairs l).
Proof.
  apply (list_ind2 (fun l => pairs (map f l) = map (fun p => (f (fst p), f (snd p))) (pairs l))); [reflexivity|reflexivity|].
  intros a b t IH. cbn [map pairs fst snd]. rewrite IH. reflexivity.
Qed.

Lemma in_pairs_in {A} (a b : A) : forall l, In (a, b) (pairs l) -> In a l /\ In b l.
Proof.
  apply (list_ind2 (fun l => In (a, b) (pairs l) -> In a l /\ In b l)); [intros []|intros ? []|].
  intros x y t IH [H|H]; [inversion H; subst; cbn; auto|]. destruct (IH H). cbn. auto.
Qed.

Lemma pairs_strict : forall l, StronglySorted ble l -> NoDup l -> forall a b, In (a, b) (pairs l) -> bltb a b = true.
Proof.
  apply (list_ind2 (fun l => StronglySorted ble l -> NoDup l -> forall a b, In (a, b) (pairs l) -> bltb a b = true)).
  - intros _ _ a b [].
  - intros x _ _ a b [].
  - intros x y t IH Hs Hd a b [H|H].
    + inversion H; subst. inversion Hs as [|? ? _ Hf]; subst. inversion Hf as [|? ? Hab _]; subst.
      inversion Hd as [|? ? Hn _]; subst. unfold ble in Hab. unfold bltb.
      destruct (bcmp a b) eqn:E; [|reflexivity|congruence]. apply bcmp_eq in E. subst. exfalso. apply Hn. left; reflexivity.
    + inversion Hs as [|? ? Hs1 _]; subst. inversion Hs1; subst. inversion Hd as [|? ? _ Hd1]; subst. inversion Hd1; subst.
      apply IH; assumption.
Qed.

Lemma ascending_enc : forall l, StronglySorted ble l -> Forall alpha l -> ascending (map (fun b => encode b 0) l) = true.
Proof.
  induction l as [|a l IH]; intros Hs Ha; [reflexivity|].
  inversion Hs as [|? ? Hs1 Hf]; subst. inversion Ha as [|? ? Aa Al]; subst.
  cbn [map ascending]. destruct l as [|b l]; [reflexivity|]. cbn [map].
  inversion Hf as [|? ? Hab _]; subst. inversion Al as [|? ? Ab _]; subst.
  rewrite (enc_bleb a b Aa Ab). apply andb_true_iff. split.
  - unfold ble in Hab. unfold bleb. destruct (bcmp a b); congruence.
  - apply (IH Hs1 Al).
Qed.

Lemma existsb_ext_in {A} (f g : A -> bool) l : (forall x, In x l -> f x = g x) -> existsb f l = existsb g l.
Proof.
  induction l as [|q t IH]; intros E; [reflexivity|]. cbn [existsb].
  rewrite (E q (or_introl eq_refl)), IH; [reflexivity|]. intros q' Hq'. apply E. right; exact Hq'.
Qed.

Theorem borders_sound p sk V :
  alpha p -> Forall alpha sk -> (forall x, In x V -> alpha (rkey x)) ->
  borders_oracle p sk (map (fun b => encode b 0) (compact_borders p sk)) V = None.
Proof.
  intros Ap Ask Akeys. unfold borders_oracle.
  assert (Hshape : exists l, compact_borders p sk = l /\ StronglySorted ble l /\ Forall alpha l /\ NoDup l /\ Nat.even (length l) = true).
  { destruct (compact_borders_shape p sk Ap Ask) as [E|(rs & E & Ars & Hnd)]; rewrite E.
    - exists []. repeat split; constructor.
    - exists (sort_by elt (borders_of rs)). destruct (sort_sorted_b _ (alpha_borders rs Ars)) as (S1 & S2).
      repeat split; [exact S1|exact S2|apply nodup_sort, nodup_borders; exact Hnd|rewrite length_sort; apply even_borders]. }
  destruct Hshape as (l & El & Hs & Al & Hnd & Hev).
  assert (Hpp : pairs_proper (map (fun b => encode b 0) l) = true).
  { unfold pairs_proper. rewrite map_length, Hev, (ascending_enc l Hs Al), andb_true_r. cbn [andb].
    rewrite pairs_map. apply forallb_forall. intros q Hq. apply in_map_iff in Hq as ([a b] & <- & Hab). cbn [fst snd].
    destruct (in_pairs_in a b l Hab) as [Ia Ib]. rewrite Forall_forall in Al.
    rewrite (enc_ltb a b (Al a Ia) (Al b Ib)). apply (pairs_strict l Hs Hnd a b Hab). }
  rewrite El, Hpp. cbn [andb].
  assert (Hall : forallb (fun x => Bool.eqb (in_borders (map (fun b => encode b 0) l) (rkey x)) (in_charge p sk (rkey x))) V = true).
  { apply forallb_forall. intros x Hx. specialize (Akeys x Hx).
    rewrite <- (borders_all p sk (rkey x) Ap Ask Akeys). unfold ranges_of. rewrite El.
    unfold in_borders. rewrite pairs_map, existsb_map.
    assert (E : forall q, In q (pairs l) ->
      bleb (fst (encode (fst q) 0, encode (snd q) 0)) (encode (rkey x) 0) && bltb (encode (rkey x) 0) (snd (encode (fst q) 0, encode (snd q) 0))
      = bleb (fst q) (rkey x) && bltb (rkey x) (snd q)).
    { intros [a b] Hab. cbn [fst snd]. destruct (in_pairs_in a b l Hab) as [Ia Ib]. rewrite Forall_forall in Al.
      rewrite (enc_bleb a (rkey x) (Al a Ia) Akeys), (enc_ltb (rkey x) b Akeys (Al b Ib)). reflexivity. }
    rewrite (existsb_ext_in _ _ _ E). apply Bool.eqb_reflx. }
  rewrite Hall. reflexivity.
Qed.

(* ================================================================================================ *)
(* the case-level statement, variants without interleaved writers                                   *)
(* ================================================================================================ *)

Record c07_valid (c : c07_case) : Prop := {
  cv_prefix : alpha (c7_prefix c);
  cv_skipped : Forall alpha (c7_skipped c);
  cv_keys : forall x, In x (c7_pre c) -> alpha (rkey x) /\ rkey x <> [];
  cv_revs : forall k r v, In (RVer k r v) (c7_pre c) -> 0 < r;
  cv_wfd : wfd (c7_pre c);
  cv_variants : Forall (variant_valid (c7_prefix c) (c7_skipped c) (c7_pre c) (c7_reads c)) (c7_variants c)
}.

Theorem c07_oracle_sound_seq c : c07_valid c -> c07_check c = true -> c07_oracle c = None.
Proof.
  intros [Ap Ask Hkeys Hrevs Hw Hvs] Hc. unfold c07_check in Hc.
  apply andb_true_iff in Hc as [Hc Hv]. apply andb_true_iff in Hc as [Hc _]. apply andb_true_iff in Hc as [Hsorted Hb].
  apply sortedb_sorted in Hsorted.
  apply (list_eqb_eq beqb (fun a b => proj1 (beqb_eq a b))) in Hb.
  assert (Hok : store_ok (c7_pre c)).
  { constructor; [apply sorted_nodup; exact Hsorted|apply sorted_slot_inj; exact Hsorted|intros y Hy; apply Hkeys; exact Hy|exact Hrevs]. }
  assert (Hu : uniq_ver (c7_pre c)) by apply Hw.
  assert (Akeys : forall x, In x (c7_pre c) -> alpha (rkey x)) by (intros x Hx; apply Hkeys; exact Hx).
  unfold c07_oracle. rewrite <- Hb, (borders_sound _ _ _ Ap Ask Akeys).
  rewrite first_some_none; [reflexivity|].
  intros v Hin. rewrite Forall_forall in Hvs. rewrite forallb_forall in Hv.
  apply variant_sound; auto.
Qed.

(* per clause, for any variant (writers interleaved or not) *)

(* the borders clause does not depend on the variants *)
Theorem c07_borders_clause c :
  alpha (c7_prefix c) -> Forall alpha (c7_skipped c) -> (forall x, In x (c7_pre c) -> alpha (rkey x)) ->
  c07_check c = true -> borders_oracle (c7_prefix c) (c7_skipped c) (c7_borders c) (c7_pre c) = None.
Proof.
  intros Ap Ask Akeys Hc. unfold c07_check in Hc.
  apply andb_true_iff in Hc as [Hc _]. apply andb_true_iff in Hc as [Hc _]. apply andb_true_iff in Hc as [_ Hb].
  apply (list_eqb_eq beqb (fun a b => proj1 (beqb_eq a b))) in Hb. rewrite <- Hb. apply borders_sound; assumption.
Qed.

(* the reads clause, given what a pass with writers leaves: the store is the ghost store (initial
   records and every record the writers added) minus deleted records, with the same reads at R *)
Theorem c07_reads_clause R cur G f reads :
  StronglySorted rlt G -> uniq_ver G -> veq R (filter f G) G -> R <= max_rev ->
  Forall (rd_ok R cur) reads ->
  list_eqb rres_eqb7 (map (model_read G cur) reads) (map (model_read (filter f G) cur) reads) = true.
Proof.
  intros Hs Hu Hv HR Hrd.
  assert (E : map (model_read (filter f G) cur) reads = map (model_read G cur) reads).
  { apply map_ext_in. intros rd Hin. rewrite Forall_forall in Hrd. apply (model_read_filter R); auto. }
  rewrite E. apply list_eqb_refl. exact rres_eqb7_refl.
Qed.

(* the round clause, from any well-formed store the pass leaves *)
Theorem c07_round_clause post cur reads ops fin :
  wfd post -> fresh post (cur + 1) -> cur + 1 + N.of_nat (length ops) <= max_rev ->
  Forall (fun q => op_ok (cur + 1) (fst q)) ops ->
  model_round post (cur + 1) ops = Some fin ->
  round_ok cur reads (map (model_read post cur) reads) [] ops = true.
Proof.
  intros Hw Hf Hb Hops Hr.
  apply (round_sound post cur reads _ ops post (cur + 1) [] fin); auto.
Qed.
