(* C07_borders: the ranges built by getCompactBorders for the configurations without skipped prefixes and
   with one skipped prefix (the general statement is kept as C07_borders_full_statement in Props/C07.v). *)
From KB Require Import Base.Cases Model.Coder Model.CompactSys Model.C07Cases Proofs.Coder.
Local Open Scope N_scope.

Lemma last_is_app c p : last_is c (p ++ [c]) = true.
Proof.
  induction p as [|x p IH]; cbn [app last_is]; [apply N.eqb_refl|].
  destruct (p ++ [c]) eqn:E; [destruct p; discriminate|exact IH].
Qed.

Lemma prefix_end_opt_slash p : prefix_end_opt (p ++ [47]) = Some (p ++ [48]).
Proof.
  induction p as [|x p IH]; cbn [app prefix_end_opt]; [reflexivity|]. rewrite IH. reflexivity.
Qed.

Lemma prefix_end_slash p : prefix_end (p ++ [47]) = p ++ [48].
Proof. unfold prefix_end. rewrite prefix_end_opt_slash. reflexivity. Qed.

Lemma alpha_app a b : alpha (a ++ b) <-> alpha a /\ alpha b.
Proof. unfold alpha. apply Forall_app. Qed.

Lemma alpha_47 : alpha [47]. Proof. repeat constructor. Qed.
Lemma alpha_48 : alpha [48]. Proof. repeat constructor. Qed.

(* keys with prefix q/ are exactly the keys in [q/, q0) *)
Lemma slash_range q k : alpha q -> alpha k ->
  has_prefix (q ++ [47]) k = bleb (q ++ [47]) k && bltb k (q ++ [48]).
Proof.
  intros Hq Hk.
  assert (Hw : wf_bytes (q ++ [47])) by (apply alpha_wf; apply alpha_app; split; [exact Hq|exact alpha_47]).
  pose proof (prefix_end_opt_spec (q ++ [47]) (q ++ [48]) k Hw (alpha_wf _ Hk) (prefix_end_opt_slash q)) as H.
  apply Bool.eq_true_iff_eq. rewrite H, andb_true_iff. unfold bleb, bltb.
  destruct (bcmp (q ++ [47]) k); destruct (bcmp k (q ++ [48])); split; intros [H1 H2]; split; congruence.
Qed.

(* order of the encoded borders = order of the raw borders on the alphabet *)
Lemma enc_ltb a b : alpha a -> alpha b -> bltb (encode a 0) (encode b 0) = bltb a b.
Proof.
  intros Ha Hb. unfold bltb. rewrite (encode_cmp a 0 b 0 Ha Hb) by (vm_compute; reflexivity).
  unfold kr_cmp. destruct (bcmp a b); reflexivity.
Qed.

(* no skipped prefix: one range, exactly the keys under prefix/ *)
Theorem borders_none p k :
  alpha p -> alpha k -> last_is slash p = false ->
  ranges_of p [] = [(p ++ [47], p ++ [48])] /\
  existsb (fun lh => bleb (fst lh) k && bltb k (snd lh)) (ranges_of p []) = in_charge p [] k.
Proof.
  intros Hp Hk Hl.
  assert (Ha : alpha (p ++ [47])) by (apply alpha_app; split; [exact Hp|exact alpha_47]).
  assert (Hb : alpha (p ++ [48])) by (apply alpha_app; split; [exact Hp|exact alpha_48]).
  assert (E : ranges_of p [] = [(p ++ [47], p ++ [48])]).
  { unfold ranges_of, compact_borders. cbn [flat_map app]. unfold with_slash. rewrite Hl. change [slash] with [47].
    rewrite prefix_end_slash. unfold sort_by. cbn [fold_right insert_by].
    rewrite (enc_ltb _ _ Hb Ha).
    assert (Hlt : bltb (p ++ [48]) (p ++ [47]) = false).
    { unfold bltb. rewrite bcmp_app_same. reflexivity. }
    rewrite Hlt. reflexivity. }
  split; [exact E|]. rewrite E. cbn [existsb fst snd]. rewrite orb_false_r.
  unfold in_charge, with_slash. rewrite Hl. change [slash] with [47]. cbn [existsb negb]. rewrite andb_true_r.
  symmetry. apply slash_range; assumption.
Qed.

(* one skipped prefix s = p/t: two ranges, exactly the keys under prefix/ that are not under s/ *)
Theorem borders_one p t k :
  alpha p -> alpha t -> alpha k -> last_is slash p = false -> last_is slash (p ++ [47] ++ t) = false -> t <> [] ->
  let s := p ++ [47] ++ t in
  ranges_of p [s] = [(p ++ [47], s ++ [47]); (s ++ [48], p ++ [48])] /\
  existsb (fun lh => bleb (fst lh) k && bltb k (snd lh)) (ranges_of p [s]) = in_charge p [s] k.
Proof.
  intros Hp Ht Hk Hl Hls Hne. cbv zeta. set (s := p ++ [47] ++ t). assert (Hls' : last_is slash s = false) by exact Hls.
  assert (Hs : alpha s) by (unfold s; apply alpha_app; split; [exact Hp|apply alpha_app; split; [exact alpha_47|exact Ht]]).
  set (a := p ++ [47]). set (b := p ++ [48]). set (c := s ++ [47]). set (d := s ++ [48]).
  assert (Aa : alpha a) by (apply alpha_app; split; [exact Hp|exact alpha_47]).
  assert (Ab : alpha b) by (apply alpha_app; split; [exact Hp|exact alpha_48]).
  assert (Ac : alpha c) by (apply alpha_app; split; [exact Hs|exact alpha_47]).
  assert (Ad : alpha d) by (apply alpha_app; split; [exact Hs|exact alpha_48]).
  (* c and d have prefix a, hence lie in [a, b) *)
  assert (Pc : has_prefix a c = true).
  { unfold a, c, s. rewrite <- !app_assoc. cbn [app]. replace (p ++ 47 :: t ++ [47]) with ((p ++ [47]) ++ (t ++ [47])) by (rewrite <- app_assoc; reflexivity). apply has_prefix_app. }
  assert (Pd : has_prefix a d = true).
  { unfold a, d, s. rewrite <- !app_assoc. cbn [app]. replace (p ++ 47 :: t ++ [48]) with ((p ++ [47]) ++ (t ++ [48])) by (rewrite <- app_assoc; reflexivity). apply has_prefix_app. }
  unfold a in Pc, Pd. rewrite (slash_range p c Hp Ac) in Pc. rewrite (slash_range p d Hp Ad) in Pd. fold a b in Pc, Pd.
  apply andb_true_iff in Pc as [Pc1 Pc2]. apply andb_true_iff in Pd as [Pd1 Pd2].
  assert (Lcd : bcmp c d = Lt) by (unfold c, d; rewrite bcmp_app_same; reflexivity).
  assert (Lac : bcmp a c = Lt).
  { unfold bleb in Pc1. destruct (bcmp a c) eqn:E; try discriminate; [|reflexivity].
    apply bcmp_eq in E. exfalso. unfold a, c, s in E. rewrite <- !app_assoc in E. apply app_inv_head in E.
    cbn [app] in E. injection E as E. destruct t; [congruence|discriminate]. }
  assert (Lcb : bcmp c b = Lt) by (unfold bltb in Pc2; destruct (bcmp c b); try discriminate; reflexivity).
  assert (Ldb : bcmp d b = Lt) by (unfold bltb in Pd2; destruct (bcmp d b); try discriminate; reflexivity).
  assert (E : ranges_of p [s] = [(a, c); (d, b)]).
  { unfold ranges_of, compact_borders. cbn [flat_map app]. unfold with_slash. rewrite Hl. fold s. rewrite Hls'.
    change [slash] with [47]. rewrite !prefix_end_slash. fold a b c d.
    assert (B1 : bltb d c = false) by (unfold bltb; rewrite (bcmp_antisym c d), Lcd; reflexivity).
    assert (B2 : bltb c b = true) by (unfold bltb; rewrite Lcb; reflexivity).
    assert (B3 : bltb d b = true) by (unfold bltb; rewrite Ldb; reflexivity).
    assert (B4 : bltb c a = false) by (unfold bltb; rewrite (bcmp_antisym a c), Lac; reflexivity).
    unfold sort_by. cbn [fold_right insert_by].
    rewrite (enc_ltb d c Ad Ac), B1. cbn [insert_by]. rewrite (enc_ltb c b Ac Ab), B2.
    cbn [insert_by]. rewrite (enc_ltb d b Ad Ab), B3.
    cbn [insert_by]. rewrite (enc_ltb c a Ac Aa), B4.
    reflexivity. }
  split; [exact E|]. rewrite E. cbn [existsb fst snd]. rewrite orb_false_r.
  unfold in_charge. cbn [existsb]. unfold with_slash. rewrite Hl, Hls'. change [slash] with [47]. rewrite orb_false_r.
  rewrite (slash_range p k Hp Hk), (slash_range s k Hs Hk). fold a b c d.
  (* a < c < d < b: [a,c) u [d,b) = [a,b) minus [c,d) *)
  assert (Neg : forall x y, bltb x y = negb (bleb y x)).
  { intros x y. unfold bltb, bleb. rewrite (bcmp_antisym x y). destruct (bcmp x y); reflexivity. }
  assert (LtT : forall x y z, bltb x y = true -> bcmp y z = Lt -> bltb x z = true).
  { intros x y z H1 H2. unfold bltb in *. destruct (bcmp x y) eqn:Exy; try discriminate. rewrite (bcmp_lt_trans _ _ _ Exy H2). reflexivity. }
  assert (LeT : forall x y z, bcmp x y = Lt -> bleb y z = true -> bleb x z = true).
  { intros x y z H1 H2. unfold bleb in *. destruct (bcmp y z) eqn:Eyz; try discriminate.
    - apply bcmp_eq in Eyz. subst. rewrite H1. reflexivity.
    - rewrite (bcmp_lt_trans _ _ _ H1 Eyz). reflexivity. }
  destruct (bltb k c) eqn:Ekc.
  - (* k < c *)
    pose proof (LtT _ _ _ Ekc Lcd) as Ekd. pose proof (LtT _ _ _ Ekd Ldb) as Ekb.
    assert (Edk : bleb d k = false) by (rewrite Neg in Ekd; apply negb_true_iff in Ekd; exact Ekd).
    assert (Eck : bleb c k = false) by (rewrite Neg in Ekc; apply negb_true_iff in Ekc; exact Ekc).
    rewrite Edk, Ekb, Eck. cbn [andb orb negb]. rewrite !andb_true_r, orb_false_r. reflexivity.
  - assert (Eck : bleb c k = true) by (rewrite Neg in Ekc; apply negb_false_iff in Ekc; exact Ekc).
    pose proof (LeT _ _ _ Lac Eck) as Eak. rewrite Eck, Eak. cbn [andb orb].
    destruct (bleb d k) eqn:Edk.
    + (* d <= k *)
      assert (Ekd : bltb k d = false) by (rewrite Neg, Edk; reflexivity).
      rewrite Ekd. cbn [andb negb]. rewrite andb_true_r. reflexivity.
    + (* c <= k < d *)
      assert (Ekd : bltb k d = true) by (rewrite Neg, Edk; reflexivity).
      rewrite Ekd. cbn [andb negb]. rewrite andb_false_r. reflexivity.
Qed.

(* ================================================================================================ *)
(* any number of pairwise non-nested skipped prefixes under prefix/                                   *)
(* ================================================================================================ *)
From Coq Require Import Sorted.

Definition ble (a b : bytes) : Prop := bcmp a b <> Gt.

Definition cnt (k : bytes) (l : list bytes) : nat := length (filter (fun x => bleb x k) l).

Definition in_pairs (k : bytes) (l : list bytes) : bool :=
  existsb (fun lh => bleb (fst lh) k && bltb k (snd lh)) (pairs l).

Definition elt (a b : bytes) : bool := bltb (encode a 0) (encode b 0).

Lemma cnt_insert k x l : cnt k (insert_by elt x l) = cnt k (x :: l).
Proof.
  unfold cnt. induction l as [|y l IH]; cbn [insert_by]; [reflexivity|].
  destruct (elt y x); [|reflexivity]. cbn [filter] in *.
  destruct (bleb y k); destruct (bleb x k); cbn [length] in *; rewrite IH; reflexivity.
Qed.

Lemma cnt_sort k l : cnt k (sort_by elt l) = cnt k l.
Proof.
  unfold sort_by. induction l as [|x l IH]; [reflexivity|]. cbn [fold_right]. rewrite cnt_insert.
  unfold cnt in *. cbn [filter]. destruct (bleb x k); cbn [length]; rewrite IH; reflexivity.
Qed.

Lemma in_insert_elt x l y : In y (insert_by elt x l) <-> y = x \/ In y l.
Proof.
  induction l as [|z l IH]; cbn [insert_by]; [cbn; intuition congruence|].
  destruct (elt z x); cbn [In]; [rewrite IH|]; intuition congruence.
Qed.

Lemma length_insert x l : length (insert_by elt x l) = S (length l).
Proof. induction l as [|z l IH]; cbn [insert_by]; [reflexivity|]. destruct (elt z x); cbn [length]; [rewrite IH|]; reflexivity. Qed.

Lemma length_sort l : length (sort_by elt l) = length l.
Proof. unfold sort_by. induction l as [|x l IH]; [reflexivity|]. cbn [fold_right]. rewrite length_insert, IH. reflexivity. Qed.

Lemma insert_sorted_b x l :
  alpha x -> Forall alpha l -> StronglySorted ble l ->
  StronglySorted ble (insert_by elt x l) /\ Forall alpha (insert_by elt x l).
Proof.
  intros Ax. induction l as [|y l IH]; intros Al Hs; cbn [insert_by].
  - split; [constructor; constructor|constructor; [exact Ax|constructor]].
  - inversion Al as [|? ? Ay Al']; subst. inversion Hs as [|? ? Hs' Hf]; subst. rewrite Forall_forall in Hf.
    assert (Eelt : elt y x = bltb y x) by (unfold elt; apply enc_ltb; assumption). rewrite !Eelt.
    destruct (bltb y x) eqn:E.
    + destruct (IH Al' Hs') as (I1 & I2). split; [|constructor; assumption].
      constructor; [exact I1|]. apply Forall_forall. intros z Hz. apply in_insert_elt in Hz as [->|Hz]; [|apply Hf; exact Hz].
      unfold ble, bltb in *. destruct (bcmp y x); discriminate.
    + assert (Hxy : ble x y).
      { unfold ble, bltb in *. intros Hg. apply bcmp_gt_lt in Hg. rewrite Hg in E. discriminate. }
      split; [|constructor; [exact Ax|exact Al]].
      constructor; [exact Hs|]. constructor; [exact Hxy|].
      apply Forall_forall. intros z Hz. unfold ble. eapply bcmp_le_trans; [exact Hxy|apply Hf; exact Hz].
Qed.

Lemma sort_sorted_b l : Forall alpha l -> StronglySorted ble (sort_by elt l) /\ Forall alpha (sort_by elt l).
Proof.
  unfold sort_by. induction l as [|x l IH]; intros Al; cbn [fold_right]; [split; constructor|].
  inversion Al as [|? ? Ax Al']; subst. destruct (IH Al') as (I1 & I2). apply insert_sorted_b; assumption.
Qed.

Lemma list_ind2 {A} (P : list A -> Prop) :
  P [] -> (forall a, P [a]) -> (forall a b t, P t -> P (a :: b :: t)) -> forall l, P l.
Proof.
  intros H0 H1 H2. assert (H : forall l, P l /\ forall a, P (a :: l)).
  { induction l as [|x l [IH1 IH2]]; [split; [exact H0|exact H1]|]. split; [apply IH2|]. intros a. apply H2. exact IH1. }
  intros l. apply H.
Qed.

Lemma bltb_negb_bleb x y : bltb x y = negb (bleb y x).
Proof. unfold bltb, bleb. rewrite (bcmp_antisym x y). destruct (bcmp x y); reflexivity. Qed.

Lemma cnt_zero_below k b t : (forall z, In z t -> ble b z) -> bleb b k = false -> cnt k t = 0%nat.
Proof.
  intros Hf Hb. unfold cnt. induction t as [|z t IH]; [reflexivity|]. cbn [filter].
  assert (Hz : bleb z k = false).
  { destruct (bleb z k) eqn:E; [|reflexivity]. exfalso.
    assert (bleb b k = true); [|congruence]. unfold bleb in *.
    pose proof (Hf z (or_introl eq_refl)) as H1. unfold ble in H1.
    assert (H2 : bcmp z k <> Gt) by (destruct (bcmp z k); congruence).
    pose proof (bcmp_le_trans _ _ _ H1 H2) as H3. destruct (bcmp b k); congruence. }
  rewrite Hz. apply IH. intros w Hw. apply Hf. right; exact Hw.
Qed.

(* in a sorted list of even length, k lies in one of the consecutive pairs iff an odd number of elements is <= k *)
Lemma in_pairs_odd k : forall l,
  StronglySorted ble l -> Nat.even (length l) = true -> in_pairs k l = Nat.odd (cnt k l).
Proof.
  apply (list_ind2 (fun l => StronglySorted ble l -> Nat.even (length l) = true -> in_pairs k l = Nat.odd (cnt k l))).
  - reflexivity.
  - intros a _ H. discriminate.
  - intros a b t IH Hs He.
    inversion Hs as [|? ? Hs1 Hf1]; subst. inversion Hs1 as [|? ? Hs2 Hf2]; subst.
    rewrite Forall_forall in Hf1, Hf2.
    specialize (IH Hs2). cbn [length Nat.even] in He. specialize (IH He).
    unfold in_pairs in *. cbn [pairs existsb fst snd]. rewrite IH.
    assert (Hc : forall x y, cnt k (x :: y :: t) = ((if bleb x k then 1 else 0) + (if bleb y k then 1 else 0) + cnt k t)%nat).
    { intros x y. unfold cnt. cbn [filter]. destruct (bleb x k); destruct (bleb y k); reflexivity. }
    rewrite Hc.
    destruct (bleb b k) eqn:Eb.
    + (* k >= b: both counted, first pair misses *)
      assert (Ea : bleb a k = true).
      { unfold bleb in *. pose proof (Hf1 b (or_introl eq_refl)) as H1. unfold ble in H1.
        assert (H2 : bcmp b k <> Gt) by (destruct (bcmp b k); congruence).
        pose proof (bcmp_le_trans _ _ _ H1 H2) as H3. destruct (bcmp a k); congruence. }
      rewrite Ea, bltb_negb_bleb, Eb. cbn [negb andb orb Nat.add]. rewrite Nat.odd_succ, Nat.even_succ. reflexivity.
    + rewrite (cnt_zero_below k b t Hf2 Eb). rewrite bltb_negb_bleb, Eb. cbn [negb].
      destruct (bleb a k); reflexivity.
Qed.

(* counting the borders of a list of prefixes *)
Definition borders_of (qs : list bytes) : list bytes := flat_map (fun q => [q ++ [47]; q ++ [48]]) qs.

Fixpoint xor_all (bs : list bool) : bool := match bs with [] => false | b :: t => xorb b (xor_all t) end.

Lemma cnt_borders k qs :
  Nat.odd (cnt k (borders_of qs)) = xor_all (map (fun q => bleb (q ++ [47]) k && bltb k (q ++ [48])) qs).
Proof.
  induction qs as [|q qs IH]; [reflexivity|].
  cbn [borders_of flat_map app map xor_all]. fold (borders_of qs). rewrite <- IH.
  assert (Hc : forall x y t, cnt k (x :: y :: t) = ((if bleb x k then 1 else 0) + (if bleb y k then 1 else 0) + cnt k t)%nat).
  { intros x y t. unfold cnt. cbn [filter]. destruct (bleb x k); destruct (bleb y k); reflexivity. }
  rewrite Hc.
  assert (Hlt : bcmp (q ++ [47]) (q ++ [48]) = Lt) by (rewrite bcmp_app_same; reflexivity).
  rewrite bltb_negb_bleb.
  destruct (bleb (q ++ [48]) k) eqn:E2.
  - assert (E1 : bleb (q ++ [47]) k = true).
    { unfold bleb in *. assert (H2 : bcmp (q ++ [48]) k <> Gt) by (destruct (bcmp (q ++ [48]) k); congruence).
      assert (H1 : bcmp (q ++ [47]) (q ++ [48]) <> Gt) by congruence.
      pose proof (bcmp_le_trans _ _ _ H1 H2). destruct (bcmp (q ++ [47]) k); congruence. }
    rewrite E1. cbn [negb andb Nat.add]. rewrite Nat.odd_succ, Nat.even_succ. destruct (Nat.odd _); reflexivity.
  - destruct (bleb (q ++ [47]) k); cbn [negb andb Nat.add].
    + rewrite Nat.odd_succ. rewrite <- Nat.negb_odd. destruct (Nat.odd _); reflexivity.
    + destruct (Nat.odd _); reflexivity.
Qed.

(* prefixes of one key are comparable *)
Lemma prefix_comparable a : forall b k,
  has_prefix a k = true -> has_prefix b k = true -> has_prefix a b = true \/ has_prefix b a = true.
Proof.
  induction a as [|x a IH]; intros b k Ha Hb; [left; reflexivity|].
  destruct b as [|y b]; [right; reflexivity|]. destruct k as [|z k]; [discriminate|].
  cbn [has_prefix] in *. apply andb_true_iff in Ha as [E1 Ha]. apply andb_true_iff in Hb as [E2 Hb].
  apply N.eqb_eq in E1. apply N.eqb_eq in E2. subst. rewrite N.eqb_refl. cbn [andb]. eapply IH; eauto.
Qed.

Lemma prefix_trans a : forall b k, has_prefix a b = true -> has_prefix b k = true -> has_prefix a k = true.
Proof.
  induction a as [|x a IH]; intros b k Ha Hb; [reflexivity|].
  destruct b as [|y b]; [discriminate|]. destruct k as [|z k]; [discriminate|].
  cbn [has_prefix] in *. apply andb_true_iff in Ha as [E1 Ha]. apply andb_true_iff in Hb as [E2 Hb].
  apply N.eqb_eq in E1. apply N.eqb_eq in E2. subst. rewrite N.eqb_refl. cbn [andb]. eapply IH; eauto.
Qed.

(* with at most one true among bs, and each implying b0: b0 xor (xor of bs) = b0 && none of bs *)
Lemma xor_all_atmost1 (bs : list bool) :
  ForallOrdPairs (fun x y => x && y = false) bs -> xor_all bs = existsb (fun b => b) bs.
Proof.
  induction 1 as [|b bs Hf Hp IH]; [reflexivity|]. cbn [xor_all existsb]. rewrite IH.
  destruct b; [|destruct (existsb (fun b => b) bs); reflexivity]. cbn [xorb orb].
  assert (existsb (fun b => b) bs = false); [|rewrite H; reflexivity].
  clear -Hf. induction bs as [|c bs IH]; [reflexivity|]. inversion Hf as [|? ? Hc Hf']; subst. cbn [andb] in Hc. subst c.
  cbn [existsb orb]. apply IH. exact Hf'.
Qed.

Lemma with_slash_noslash p : last_is slash p = false -> with_slash p = p ++ [47].
Proof. intros H. unfold with_slash. rewrite H. reflexivity. Qed.

Lemma pairwise_unrelated_pairs sk k :
  Forall (fun s => last_is slash s = false) sk -> pairwise_unrelated sk = true ->
  ForallOrdPairs (fun x y => x && y = false) (map (fun s => has_prefix (s ++ [47]) k) sk).
Proof.
  induction sk as [|s sk IH]; intros Hl Hp; cbn [map]; [constructor|].
  inversion Hl as [|? ? Hs Hl']; subst. cbn [pairwise_unrelated] in Hp. apply andb_true_iff in Hp as [Hp1 Hp2].
  constructor; [|apply IH; assumption].
  apply Forall_forall. intros y Hy. apply in_map_iff in Hy as (u & <- & Hu).
  rewrite forallb_forall in Hp1. specialize (Hp1 u Hu). rewrite Forall_forall in Hl'. specialize (Hl' u Hu).
  rewrite (with_slash_noslash s Hs), (with_slash_noslash u Hl') in Hp1.
  apply andb_true_iff in Hp1 as [N1 N2]. apply negb_true_iff in N1. apply negb_true_iff in N2.
  destruct (has_prefix (s ++ [47]) k) eqn:E1; [|reflexivity].
  destruct (has_prefix (u ++ [47]) k) eqn:E2; [|reflexivity].
  destruct (prefix_comparable _ _ _ E1 E2); congruence.
Qed.

(* C07_borders: for every configuration whose skipped prefixes are under prefix/ and pairwise non-nested, the
   border pairs cover exactly the keys in charge *)
Theorem borders_general p sk k :
  alpha p -> Forall alpha sk -> alpha k -> last_is slash p = false ->
  Forall (fun s => last_is slash s = false) sk -> good_config p sk = true ->
  existsb (fun lh => bleb (fst lh) k && bltb k (snd lh)) (ranges_of p sk) = in_charge p sk k.
Proof.
  intros Ap Ask Ak Hlp Hls Hg. unfold good_config in Hg. apply andb_true_iff in Hg as [Hunder Hpair].
  (* the border list *)
  assert (Eb : compact_borders p sk = sort_by elt (borders_of (p :: sk))).
  { unfold compact_borders. f_equal. cbv zeta.
    assert (H : forall qs, Forall (fun s => last_is slash s = false) qs ->
              flat_map (fun q => [with_slash q; prefix_end (with_slash q)]) qs = borders_of qs).
    { induction qs as [|q qs IH]; intros Hq; [reflexivity|]. inversion Hq as [|? ? H1 H2]; subst.
      cbn [flat_map borders_of]. rewrite (with_slash_noslash q H1), prefix_end_slash, (IH H2). reflexivity. }
    apply H. constructor; assumption. }
  assert (Aall : Forall alpha (borders_of (p :: sk))).
  { assert (H : forall qs, Forall alpha qs -> Forall alpha (borders_of qs)).
    { induction qs as [|q qs IH]; intros Hq; [constructor|]. inversion Hq as [|? ? H1 H2]; subst.
      cbn [borders_of flat_map app]. constructor; [apply alpha_app; split; [exact H1|exact alpha_47]|].
      constructor; [apply alpha_app; split; [exact H1|exact alpha_48]|apply IH; exact H2]. }
    apply H. constructor; assumption. }
  destruct (sort_sorted_b _ Aall) as (Hsorted & _).
  assert (Heven : Nat.even (length (sort_by elt (borders_of (p :: sk)))) = true).
  { rewrite length_sort. clear. generalize (p :: sk). induction l as [|q qs IH]; [reflexivity|]. cbn [borders_of flat_map app length]. exact IH. }
  unfold ranges_of. rewrite Eb. fold (in_pairs k (sort_by elt (borders_of (p :: sk)))).
  rewrite (in_pairs_odd k _ Hsorted Heven), cnt_sort, cnt_borders. cbn [map xor_all].
  (* back to prefixes *)
  rewrite <- (slash_range p k Ap Ak).
  assert (Emap : map (fun q => bleb (q ++ [47]) k && bltb k (q ++ [48])) sk = map (fun s => has_prefix (s ++ [47]) k) sk).
  { apply map_ext_in. intros s Hs. symmetry. apply slash_range; [|exact Ak]. rewrite Forall_forall in Ask. apply Ask; exact Hs. }
  rewrite Emap, (xor_all_atmost1 _ (pairwise_unrelated_pairs sk k Hls Hpair)).
  unfold in_charge. rewrite (with_slash_noslash p Hlp).
  assert (Eex : existsb (fun b => b) (map (fun s => has_prefix (s ++ [47]) k) sk) = existsb (fun s => has_prefix (with_slash s) k) sk).
  { clear -Hls. induction sk as [|s sk IH]; [reflexivity|]. inversion Hls as [|? ? H1 H2]; subst.
    cbn [map existsb]. rewrite (with_slash_noslash s H1), (IH H2). reflexivity. }
  rewrite Eex.
  destruct (has_prefix (p ++ [47]) k) eqn:Ep; cbn [xorb andb].
  - destruct (existsb _ sk); reflexivity.
  - (* outside prefix/: outside every skipped prefix, which all lie under prefix/ *)
    destruct (existsb (fun s => has_prefix (with_slash s) k) sk) eqn:Ee; [|reflexivity]. exfalso.
    apply existsb_exists in Ee as (s & Hs & Hk). rewrite forallb_forall in Hunder. specialize (Hunder s Hs).
    rewrite (with_slash_noslash p Hlp) in Hunder. rewrite Forall_forall in Hls. rewrite (with_slash_noslash s (Hls s Hs)) in Hk.
    assert (Hps : has_prefix (p ++ [47]) (s ++ [47]) = true).
    { apply has_prefix_spec in Hunder as (t & ->). rewrite <- app_assoc. apply has_prefix_app. }
    rewrite (prefix_trans _ _ _ Hps Hk) in Ep. discriminate.
Qed.
