(* C07_borders: the ranges built by getCompactBorders (with the normalisation of the skipped prefixes) are exactly
   the keys in charge, for every configuration. *)
From KB Require Import Base.Cases Model.Coder Model.CompactSys Model.C07Cases Proofs.Coder.
Local Open Scope N_scope.

Lemma last_is_app c p : last_is c (p ++ [c]) = true.
Proof.
  induction p as [|x p IH]; cbn [app last_is]; [apply N.eqb_refl|].
  destruct (p ++ [c]) eqn:E; [destruct p; discriminate|exact IH].
Qed.

Lemma prefix_end_opt_slash p : prefix_end_opt (p ++ [47]) = Some (p ++ [48]).
Proof.
  induction p as [|x p IH]; cbn [app prefix_end_opt]; [reflexivity|]. rewrite IH. reflexivity.
Qed.

Lemma prefix_end_slash p : prefix_end (p ++ [47]) = p ++ [48].
Proof. unfold prefix_end. rewrite prefix_end_opt_slash. reflexivity. Qed.

Lemma alpha_app a b : alpha (a ++ b) <-> alpha a /\ alpha b.
Proof. unfold alpha. apply Forall_app. Qed.

Lemma alpha_47 : alpha [47]. Proof. repeat constructor. Qed.
Lemma alpha_48 : alpha [48]. Proof. repeat constructor. Qed.

(* keys with prefix q/ are exactly the keys in [q/, q0) *)
Lemma slash_range q k : alpha q -> alpha k ->
  has_prefix (q ++ [47]) k = bleb (q ++ [47]) k && bltb k (q ++ [48]).
Proof.
  intros Hq Hk.
  assert (Hw : wf_bytes (q ++ [47])) by (apply alpha_wf; apply alpha_app; split; [exact Hq|exact alpha_47]).
  pose proof (prefix_end_opt_spec (q ++ [47]) (q ++ [48]) k Hw (alpha_wf _ Hk) (prefix_end_opt_slash q)) as H.
  apply Bool.eq_true_iff_eq. rewrite H, andb_true_iff. unfold bleb, bltb.
  destruct (bcmp (q ++ [47]) k); destruct (bcmp k (q ++ [48])); split; intros [H1 H2]; split; congruence.
Qed.

(* order of the encoded borders = order of the raw borders on the alphabet *)
Lemma enc_ltb a b : alpha a -> alpha b -> bltb (encode a 0) (encode b 0) = bltb a b.
Proof.
  intros Ha Hb. unfold bltb. rewrite (encode_cmp a 0 b 0 Ha Hb) by (vm_compute; reflexivity).
  unfold kr_cmp. destruct (bcmp a b); reflexivity.
Qed.

(* ================================================================================================ *)
(* a parity count over the sorted borders                                                            *)
(* ================================================================================================ *)
From Coq Require Import Sorted.

Definition ble (a b : bytes) : Prop := bcmp a b <> Gt.

Definition cnt (k : bytes) (l : list bytes) : nat := length (filter (fun x => bleb x k) l).

Definition in_pairs (k : bytes) (l : list bytes) : bool :=
  existsb (fun lh => bleb (fst lh) k && bltb k (snd lh)) (pairs l).

Definition elt (a b : bytes) : bool := bltb (encode a 0) (encode b 0).

Lemma cnt_insert k x l : cnt k (insert_by elt x l) = cnt k (x :: l).
Proof.
  unfold cnt. induction l as [|y l IH]; cbn [insert_by]; [reflexivity|].
  destruct (elt y x); [|reflexivity]. cbn [filter] in *.
  destruct (bleb y k); destruct (bleb x k); cbn [length] in *; rewrite IH; reflexivity.
Qed.

Lemma cnt_sort k l : cnt k (sort_by elt l) = cnt k l.
Proof.
  unfold sort_by. induction l as [|x l IH]; [reflexivity|]. cbn [fold_right]. rewrite cnt_insert.
  unfold cnt in *. cbn [filter]. destruct (bleb x k); cbn [length]; rewrite IH; reflexivity.
Qed.

Lemma in_insert_elt x l y : In y (insert_by elt x l) <-> y = x \/ In y l.
Proof.
  induction l as [|z l IH]; cbn [insert_by]; [cbn; intuition congruence|].
  destruct (elt z x); cbn [In]; [rewrite IH|]; intuition congruence.
Qed.

Lemma length_insert x l : length (insert_by elt x l) = S (length l).
Proof. induction l as [|z l IH]; cbn [insert_by]; [reflexivity|]. destruct (elt z x); cbn [length]; [rewrite IH|]; reflexivity. Qed.

Lemma length_sort l : length (sort_by elt l) = length l.
Proof. unfold sort_by. induction l as [|x l IH]; [reflexivity|]. cbn [fold_right]. rewrite length_insert, IH. reflexivity. Qed.

Lemma insert_sorted_b x l :
  alpha x -> Forall alpha l -> StronglySorted ble l ->
  StronglySorted ble (insert_by elt x l) /\ Forall alpha (insert_by elt x l).
Proof.
  intros Ax. induction l as [|y l IH]; intros Al Hs; cbn [insert_by].
  - split; [constructor; constructor|constructor; [exact Ax|constructor]].
  - inversion Al as [|? ? Ay Al']; subst. inversion Hs as [|? ? Hs' Hf]; subst. rewrite Forall_forall in Hf.
    assert (Eelt : elt y x = bltb y x) by (unfold elt; apply enc_ltb; assumption). rewrite !Eelt.
    destruct (bltb y x) eqn:E.
    + destruct (IH Al' Hs') as (I1 & I2). split; [|constructor; assumption].
      constructor; [exact I1|]. apply Forall_forall. intros z Hz. apply in_insert_elt in Hz as [->|Hz]; [|apply Hf; exact Hz].
      unfold ble, bltb in *. destruct (bcmp y x); discriminate.
    + assert (Hxy : ble x y).
      { unfold ble, bltb in *. intros Hg. apply bcmp_gt_lt in Hg. rewrite Hg in E. discriminate. }
      split; [|constructor; [exact Ax|exact Al]].
      constructor; [exact Hs|]. constructor; [exact Hxy|].
      apply Forall_forall. intros z Hz. unfold ble. eapply bcmp_le_trans; [exact Hxy|apply Hf; exact Hz].
Qed.

Lemma sort_sorted_b l : Forall alpha l -> StronglySorted ble (sort_by elt l) /\ Forall alpha (sort_by elt l).
Proof.
  unfold sort_by. induction l as [|x l IH]; intros Al; cbn [fold_right]; [split; constructor|].
  inversion Al as [|? ? Ax Al']; subst. destruct (IH Al') as (I1 & I2). apply insert_sorted_b; assumption.
Qed.

Lemma list_ind2 {A} (P : list A -> Prop) :
  P [] -> (forall a, P [a]) -> (forall a b t, P t -> P (a :: b :: t)) -> forall l, P l.
Proof.
  intros H0 H1 H2. assert (H : forall l, P l /\ forall a, P (a :: l)).
  { induction l as [|x l [IH1 IH2]]; [split; [exact H0|exact H1]|]. split; [apply IH2|]. intros a. apply H2. exact IH1. }
  intros l. apply H.
Qed.

Lemma bltb_negb_bleb x y : bltb x y = negb (bleb y x).
Proof. unfold bltb, bleb. rewrite (bcmp_antisym x y). destruct (bcmp x y); reflexivity. Qed.

Lemma cnt_zero_below k b t : (forall z, In z t -> ble b z) -> bleb b k = false -> cnt k t = 0%nat.
Proof.
  intros Hf Hb. unfold cnt. induction t as [|z t IH]; [reflexivity|]. cbn [filter].
  assert (Hz : bleb z k = false).
  { destruct (bleb z k) eqn:E; [|reflexivity]. exfalso.
    assert (bleb b k = true); [|congruence]. unfold bleb in *.
    pose proof (Hf z (or_introl eq_refl)) as H1. unfold ble in H1.
    assert (H2 : bcmp z k <> Gt) by (destruct (bcmp z k); congruence).
    pose proof (bcmp_le_trans _ _ _ H1 H2) as H3. destruct (bcmp b k); congruence. }
  rewrite Hz. apply IH. intros w Hw. apply Hf. right; exact Hw.
Qed.

(* in a sorted list of even length, k lies in one of the consecutive pairs iff an odd number of elements is <= k *)
Lemma in_pairs_odd k : forall l,
  StronglySorted ble l -> Nat.even (length l) = true -> in_pairs k l = Nat.odd (cnt k l).
Proof.
  apply (list_ind2 (fun l => StronglySorted ble l -> Nat.even (length l) = true -> in_pairs k l = Nat.odd (cnt k l))).
  - reflexivity.
  - intros a _ H. discriminate.
  - intros a b t IH Hs He.
    inversion Hs as [|? ? Hs1 Hf1]; subst. inversion Hs1 as [|? ? Hs2 Hf2]; subst.
    rewrite Forall_forall in Hf1, Hf2.
    specialize (IH Hs2). cbn [length Nat.even] in He. specialize (IH He).
    unfold in_pairs in *. cbn [pairs existsb fst snd]. rewrite IH.
    assert (Hc : forall x y, cnt k (x :: y :: t) = ((if bleb x k then 1 else 0) + (if bleb y k then 1 else 0) + cnt k t)%nat).
    { intros x y. unfold cnt. cbn [filter]. destruct (bleb x k); destruct (bleb y k); reflexivity. }
    rewrite Hc.
    destruct (bleb b k) eqn:Eb.
    + (* k >= b: both counted, first pair misses *)
      assert (Ea : bleb a k = true).
      { unfold bleb in *. pose proof (Hf1 b (or_introl eq_refl)) as H1. unfold ble in H1.
        assert (H2 : bcmp b k <> Gt) by (destruct (bcmp b k); congruence).
        pose proof (bcmp_le_trans _ _ _ H1 H2) as H3. destruct (bcmp a k); congruence. }
      rewrite Ea, bltb_negb_bleb, Eb. cbn [negb andb orb Nat.add]. rewrite Nat.odd_succ, Nat.even_succ. reflexivity.
    + rewrite (cnt_zero_below k b t Hf2 Eb). rewrite bltb_negb_bleb, Eb. cbn [negb].
      destruct (bleb a k); reflexivity.
Qed.

(* counting the borders of a list of prefixes *)
Definition borders_of (qs : list bytes) : list bytes := flat_map (fun q => [q ++ [47]; q ++ [48]]) qs.

Fixpoint xor_all (bs : list bool) : bool := match bs with [] => false | b :: t => xorb b (xor_all t) end.

Lemma cnt_borders k qs :
  Nat.odd (cnt k (borders_of qs)) = xor_all (map (fun q => bleb (q ++ [47]) k && bltb k (q ++ [48])) qs).
Proof.
  induction qs as [|q qs IH]; [reflexivity|].
  cbn [borders_of flat_map app map xor_all]. fold (borders_of qs). rewrite <- IH.
  assert (Hc : forall x y t, cnt k (x :: y :: t) = ((if bleb x k then 1 else 0) + (if bleb y k then 1 else 0) + cnt k t)%nat).
  { intros x y t. unfold cnt. cbn [filter]. destruct (bleb x k); destruct (bleb y k); reflexivity. }
  rewrite Hc.
  assert (Hlt : bcmp (q ++ [47]) (q ++ [48]) = Lt) by (rewrite bcmp_app_same; reflexivity).
  rewrite bltb_negb_bleb.
  destruct (bleb (q ++ [48]) k) eqn:E2.
  - assert (E1 : bleb (q ++ [47]) k = true).
    { unfold bleb in *. assert (H2 : bcmp (q ++ [48]) k <> Gt) by (destruct (bcmp (q ++ [48]) k); congruence).
      assert (H1 : bcmp (q ++ [47]) (q ++ [48]) <> Gt) by congruence.
      pose proof (bcmp_le_trans _ _ _ H1 H2). destruct (bcmp (q ++ [47]) k); congruence. }
    rewrite E1. cbn [negb andb Nat.add]. rewrite Nat.odd_succ, Nat.even_succ. destruct (Nat.odd _); reflexivity.
  - destruct (bleb (q ++ [47]) k); cbn [negb andb Nat.add].
    + rewrite Nat.odd_succ. rewrite <- Nat.negb_odd. destruct (Nat.odd _); reflexivity.
    + destruct (Nat.odd _); reflexivity.
Qed.

(* prefixes of one key are comparable *)
Lemma prefix_comparable a : forall b k,
  has_prefix a k = true -> has_prefix b k = true -> has_prefix a b = true \/ has_prefix b a = true.
Proof.
  induction a as [|x a IH]; intros b k Ha Hb; [left; reflexivity|].
  destruct b as [|y b]; [right; reflexivity|]. destruct k as [|z k]; [discriminate|].
  cbn [has_prefix] in *. apply andb_true_iff in Ha as [E1 Ha]. apply andb_true_iff in Hb as [E2 Hb].
  apply N.eqb_eq in E1. apply N.eqb_eq in E2. subst. rewrite N.eqb_refl. cbn [andb]. eapply IH; eauto.
Qed.

Lemma prefix_trans a : forall b k, has_prefix a b = true -> has_prefix b k = true -> has_prefix a k = true.
Proof.
  induction a as [|x a IH]; intros b k Ha Hb; [reflexivity|].
  destruct b as [|y b]; [discriminate|]. destruct k as [|z k]; [discriminate|].
  cbn [has_prefix] in *. apply andb_true_iff in Ha as [E1 Ha]. apply andb_true_iff in Hb as [E2 Hb].
  apply N.eqb_eq in E1. apply N.eqb_eq in E2. subst. rewrite N.eqb_refl. cbn [andb]. eapply IH; eauto.
Qed.

(* with at most one true among bs, and each implying b0: b0 xor (xor of bs) = b0 && none of bs *)
Lemma xor_all_atmost1 (bs : list bool) :
  ForallOrdPairs (fun x y => x && y = false) bs -> xor_all bs = existsb (fun b => b) bs.
Proof.
  induction 1 as [|b bs Hf Hp IH]; [reflexivity|]. cbn [xor_all existsb]. rewrite IH.
  destruct b; [|destruct (existsb (fun b => b) bs); reflexivity]. cbn [xorb orb].
  assert (existsb (fun b => b) bs = false); [|rewrite H; reflexivity].
  clear -Hf. induction bs as [|c bs IH]; [reflexivity|]. inversion Hf as [|? ? Hc Hf']; subst. cbn [andb] in Hc. subst c.
  cbn [existsb orb]. apply IH. exact Hf'.
Qed.


(* ================================================================================================ *)
(* the normalisation keeps the outermost skipped prefixes                                             *)
(* ================================================================================================ *)

Lemma has_prefix_refl s : has_prefix s s = true.
Proof. induction s as [|x s IH]; [reflexivity|]. cbn [has_prefix]. rewrite N.eqb_refl. exact IH. Qed.

Definition unrel2 (a b : bytes) : Prop := has_prefix a b = false /\ has_prefix b a = false.
Definition unrel (l : list bytes) : Prop := ForallOrdPairs unrel2 l.

Lemma FOP_filter {A} (R : A -> A -> Prop) f l : ForallOrdPairs R l -> ForallOrdPairs R (filter f l).
Proof.
  induction 1 as [|x l Hf Hp IH]; cbn [filter]; [constructor|].
  destruct (f x); [|exact IH]. constructor; [|exact IH].
  apply Forall_forall. intros y Hy. apply filter_In in Hy as [Hy _]. rewrite Forall_forall in Hf. apply Hf. exact Hy.
Qed.

Lemma FOP_snoc {A} (R : A -> A -> Prop) l x : ForallOrdPairs R l -> (forall y, In y l -> R y x) -> ForallOrdPairs R (l ++ [x]).
Proof.
  induction 1 as [|z l Hf Hp IH]; intros Hx; cbn [app]; [constructor; [constructor|constructor]|].
  constructor; [|apply IH; intros y Hy; apply Hx; right; exact Hy].
  apply Forall_app. split; [exact Hf|constructor; [apply Hx; left; reflexivity|constructor]].
Qed.

Lemma add_outer_unrel acc s : unrel acc -> unrel (add_outer acc s).
Proof.
  intros H. unfold add_outer. destruct (existsb (fun t => has_prefix t s) acc) eqn:E; [exact H|].
  apply FOP_snoc; [apply FOP_filter; exact H|].
  intros y Hy. apply filter_In in Hy as [Hy Hn]. apply negb_true_iff in Hn. split; [|exact Hn].
  destruct (has_prefix y s) eqn:Ey; [|reflexivity]. exfalso.
  assert (existsb (fun t => has_prefix t s) acc = true) by (apply existsb_exists; eauto). congruence.
Qed.

Lemma add_outer_sub acc s t : In t (add_outer acc s) -> In t acc \/ t = s.
Proof.
  unfold add_outer. destruct (existsb _ acc); [auto|]. intros H. apply in_app_iff in H as [H|[H|[]]]; [|auto].
  apply filter_In in H as [H _]. auto.
Qed.

Lemma add_outer_cover acc s x :
  (exists t, In t acc /\ has_prefix t x = true) \/ x = s ->
  exists t, In t (add_outer acc s) /\ has_prefix t x = true.
Proof.
  unfold add_outer. destruct (existsb (fun t => has_prefix t s) acc) eqn:E.
  - intros [H | ->]; [exact H|]. apply existsb_exists in E. exact E.
  - intros [(t & Ht & Hp) | ->].
    + destruct (has_prefix s t) eqn:Est.
      * exists s. split; [apply in_app_iff; right; left; reflexivity|eapply prefix_trans; eauto].
      * exists t. split; [apply in_app_iff; left; apply filter_In; split; [exact Ht|rewrite Est; reflexivity]|exact Hp].
    + exists s. split; [apply in_app_iff; right; left; reflexivity|apply has_prefix_refl].
Qed.

Lemma outer_fold ss : forall acc,
  unrel acc ->
  unrel (fold_left add_outer ss acc) /\
  (forall t, In t (fold_left add_outer ss acc) -> In t acc \/ In t ss) /\
  (forall x, (exists t, In t acc /\ has_prefix t x = true) \/ In x ss ->
             exists t, In t (fold_left add_outer ss acc) /\ has_prefix t x = true).
Proof.
  induction ss as [|s ss IH]; intros acc Hu; cbn [fold_left].
  - split; [exact Hu|]. split; [auto|]. intros x [H|[]]. exact H.
  - destruct (IH (add_outer acc s) (add_outer_unrel acc s Hu)) as (I1 & I2 & I3). split; [exact I1|]. split.
    + intros t Ht. destruct (I2 t Ht) as [H|H]; [|right; right; exact H].
      destruct (add_outer_sub acc s t H) as [H' | ->]; [left; exact H'|right; left; reflexivity].
    + intros x [H | [-> | H]].
      * apply I3. left. apply add_outer_cover. left; exact H.
      * apply I3. left. apply add_outer_cover. right; reflexivity.
      * apply I3. right; exact H.
Qed.

Lemma outer_spec ss :
  unrel (outer_prefixes ss) /\ (forall t, In t (outer_prefixes ss) -> In t ss) /\
  (forall x, In x ss -> exists t, In t (outer_prefixes ss) /\ has_prefix t x = true).
Proof.
  destruct (outer_fold ss [] (FOP_nil _)) as (I1 & I2 & I3). split; [exact I1|]. split.
  - intros t Ht. destruct (I2 t Ht) as [[]|H]; exact H.
  - intros x Hx. apply I3. right; exact Hx.
Qed.

(* every with_slash'ed prefix is r ++ "/" *)
Definition slashed (e : bytes) : Prop := exists r, e = r ++ [47] /\ alpha r.

Lemma last_is_true c : forall q, last_is c q = true -> exists r, q = r ++ [c].
Proof.
  induction q as [|x q IH]; [discriminate|]. cbn [last_is]. destruct q as [|y q'].
  - intros H. apply N.eqb_eq in H. subst. exists []. reflexivity.
  - intros H. destruct (IH H) as (r & Hr). exists (x :: r). rewrite Hr. reflexivity.
Qed.

Lemma with_slash_slashed q : alpha q -> slashed (with_slash q).
Proof.
  intros Aq. unfold with_slash. destruct (last_is slash q) eqn:E.
  - destruct (last_is_true _ _ E) as (r & ->). exists r. split; [reflexivity|]. apply alpha_app in Aq. apply Aq.
  - exists q. split; [reflexivity|exact Aq].
Qed.

Lemma flat_borders es : Forall slashed es ->
  flat_map (fun q => [q; prefix_end q]) es = borders_of (map (@removelast N) es) /\
  Forall alpha (map (@removelast N) es) /\
  map (fun r => r ++ [47]) (map (@removelast N) es) = es.
Proof.
  induction 1 as [|e es (r & -> & Ar) Hf (I1 & I2 & I3)]; [repeat split; constructor|].
  cbn [flat_map map borders_of]. rewrite removelast_last, prefix_end_slash, I1, I3.
  repeat split. constructor; assumption.
Qed.

Lemma existsb_map {A B} (f : B -> bool) (g : A -> B) l : existsb f (map g l) = existsb (fun x => f (g x)) l.
Proof. induction l as [|x l IH]; [reflexivity|]. cbn [map existsb]. rewrite IH. reflexivity. Qed.

Lemma unrel_pairs es k : unrel es -> ForallOrdPairs (fun x y => x && y = false) (map (fun e => has_prefix e k) es).
Proof.
  induction 1 as [|e es Hf Hp IH]; cbn [map]; [constructor|]. constructor; [|exact IH].
  apply Forall_forall. intros y Hy. apply in_map_iff in Hy as (u & <- & Hu).
  rewrite Forall_forall in Hf. destruct (Hf u Hu) as [N1 N2].
  destruct (has_prefix e k) eqn:E1; [|reflexivity]. destruct (has_prefix u k) eqn:E2; [|reflexivity].
  destruct (prefix_comparable _ _ _ E1 E2); congruence.
Qed.

(* C07_borders, every configuration: the border pairs cover exactly the keys under prefix/ that are under no
   skipped prefix - nested, duplicated, out-of-range and range-covering skipped prefixes included *)
Theorem borders_all p sk k :
  alpha p -> Forall alpha sk -> alpha k ->
  existsb (fun lh => bleb (fst lh) k && bltb k (snd lh)) (ranges_of p sk) = in_charge p sk k.
Proof.
  intros Ap Ask Ak. unfold ranges_of, compact_borders, in_charge.
  set (p' := with_slash p). set (ss := map with_slash sk).
  assert (Ein : existsb (fun s => has_prefix (with_slash s) k) sk = existsb (fun s => has_prefix s k) ss)
    by (unfold ss; rewrite existsb_map; reflexivity).
  rewrite Ein.
  assert (Sss : Forall slashed ss).
  { unfold ss. apply Forall_forall. intros e He. apply in_map_iff in He as (q & <- & Hq). apply with_slash_slashed.
    rewrite Forall_forall in Ask. apply Ask; exact Hq. }
  destruct (existsb (fun s => has_prefix s p') ss) eqn:Eanc.
  - (* a skipped prefix contains the whole range *)
    cbn [pairs existsb]. apply existsb_exists in Eanc as (s & Hs & Hsp).
    destruct (has_prefix p' k) eqn:Ep; [|reflexivity]. cbn [andb].
    assert (existsb (fun s0 => has_prefix s0 k) ss = true); [|rewrite H; reflexivity].
    apply existsb_exists. exists s. split; [exact Hs|eapply prefix_trans; eauto].
  - set (inside := filter (fun s => has_prefix p' s) ss).
    destruct (outer_spec inside) as (Hun & Hsub & Hcov). set (outer := outer_prefixes inside) in *.
    assert (Ses : Forall slashed (p' :: outer)).
    { constructor; [apply with_slash_slashed; exact Ap|]. apply Forall_forall. intros e He.
      specialize (Hsub e He). apply filter_In in Hsub as [Hsub _]. rewrite Forall_forall in Sss. apply Sss; exact Hsub. }
    destruct (flat_borders _ Ses) as (F1 & F2 & F3). rewrite F1.
    set (rs := map (@removelast N) (p' :: outer)) in *.
    assert (Aall : Forall alpha (borders_of rs)).
    { clear -F2. induction F2 as [|q qs H1 H2 IH]; [constructor|].
      cbn [borders_of flat_map app]. constructor; [apply alpha_app; split; [exact H1|exact alpha_47]|].
      constructor; [apply alpha_app; split; [exact H1|exact alpha_48]|exact IH]. }
    destruct (sort_sorted_b _ Aall) as (Hsorted & _).
    assert (Heven : Nat.even (length (sort_by elt (borders_of rs))) = true).
    { rewrite length_sort. clear. generalize rs. induction rs0 as [|q qs IH]; [reflexivity|]. cbn [borders_of flat_map app length]. exact IH. }
    change (fun a b : bytes => bltb (encode a 0) (encode b 0)) with elt.
    fold (in_pairs k (sort_by elt (borders_of rs))).
    rewrite (in_pairs_odd k _ Hsorted Heven), cnt_sort, cnt_borders.
    assert (Emap : map (fun q => bleb (q ++ [47]) k && bltb k (q ++ [48])) rs = map (fun e => has_prefix e k) (p' :: outer)).
    { rewrite <- F3. rewrite map_map. apply map_ext_in. intros r Hr. symmetry. apply slash_range; [|exact Ak].
      rewrite Forall_forall in F2. apply F2; exact Hr. }
    rewrite Emap. cbn [map xor_all]. rewrite (xor_all_atmost1 _ (unrel_pairs outer k Hun)), existsb_map.
    destruct (has_prefix p' k) eqn:Ep; cbn [xorb andb].
    + (* under prefix/: under a skipped prefix iff under an outermost one *)
      assert (E : existsb (fun e => has_prefix e k) outer = existsb (fun s => has_prefix s k) ss).
      { apply Bool.eq_true_iff_eq. rewrite !existsb_exists. split.
        - intros (t & Ht & Hk). exists t. split; [|exact Hk]. specialize (Hsub t Ht). apply filter_In in Hsub. apply Hsub.
        - intros (s & Hs & Hk).
          assert (Hps : has_prefix p' s = true).
          { destruct (prefix_comparable _ _ _ Ep Hk) as [H|H]; [exact H|]. exfalso.
            assert (existsb (fun s0 => has_prefix s0 p') ss = true) by (apply existsb_exists; eauto). congruence. }
          destruct (Hcov s) as (t & Ht & Hts); [apply filter_In; split; assumption|].
          exists t. split; [exact Ht|eapply prefix_trans; eauto]. }
      rewrite E. destruct (existsb _ ss); reflexivity.
    + (* outside prefix/: outside every kept skipped prefix *)
      destruct (existsb (fun e => has_prefix e k) outer) eqn:Ee; [|reflexivity]. exfalso.
      apply existsb_exists in Ee as (t & Ht & Hk). specialize (Hsub t Ht). apply filter_In in Hsub as [_ Hpt].
      rewrite (prefix_trans _ _ _ Hpt Hk) in Ep. discriminate.
Qed.
