(* C07_borders: the ranges built by getCompactBorders for the configurations without skipped prefixes and
   with one skipped prefix (the general statement is kept as C07_borders_full_statement in Props/C07.v). *)
From KB Require Import Base.Cases Model.Coder Model.CompactSys Model.C07Cases Proofs.Coder.
Local Open Scope N_scope.

Lemma last_is_app c p : last_is c (p ++ [c]) = true.
Proof.
  induction p as [|x p IH]; cbn [app last_is]; [apply N.eqb_refl|].
  destruct (p ++ [c]) eqn:E; [destruct p; discriminate|exact IH].
Qed.

Lemma prefix_end_opt_slash p : prefix_end_opt (p ++ [47]) = Some (p ++ [48]).
Proof.
  induction p as [|x p IH]; cbn [app prefix_end_opt]; [reflexivity|]. rewrite IH. reflexivity.
Qed.

Lemma prefix_end_slash p : prefix_end (p ++ [47]) = p ++ [48].
Proof. unfold prefix_end. rewrite prefix_end_opt_slash. reflexivity. Qed.

Lemma alpha_app a b : alpha (a ++ b) <-> alpha a /\ alpha b.
Proof. unfold alpha. apply Forall_app. Qed.

Lemma alpha_47 : alpha [47]. Proof. repeat constructor. Qed.
Lemma alpha_48 : alpha [48]. Proof. repeat constructor. Qed.

(* keys with prefix q/ are exactly the keys in [q/, q0) *)
Lemma slash_range q k : alpha q -> alpha k ->
  has_prefix (q ++ [47]) k = bleb (q ++ [47]) k && bltb k (q ++ [48]).
Proof.
  intros Hq Hk.
  assert (Hw : wf_bytes (q ++ [47])) by (apply alpha_wf; apply alpha_app; split; [exact Hq|exact alpha_47]).
  pose proof (prefix_end_opt_spec (q ++ [47]) (q ++ [48]) k Hw (alpha_wf _ Hk) (prefix_end_opt_slash q)) as H.
  apply Bool.eq_true_iff_eq. rewrite H, andb_true_iff. unfold bleb, bltb.
  destruct (bcmp (q ++ [47]) k); destruct (bcmp k (q ++ [48])); split; intros [H1 H2]; split; congruence.
Qed.

(* order of the encoded borders = order of the raw borders on the alphabet *)
Lemma enc_ltb a b : alpha a -> alpha b -> bltb (encode a 0) (encode b 0) = bltb a b.
Proof.
  intros Ha Hb. unfold bltb. rewrite (encode_cmp a 0 b 0 Ha Hb) by (vm_compute; reflexivity).
  unfold kr_cmp. destruct (bcmp a b); reflexivity.
Qed.

(* no skipped prefix: one range, exactly the keys under prefix/ *)
Theorem borders_none p k :
  alpha p -> alpha k -> last_is slash p = false ->
  ranges_of p [] = [(p ++ [47], p ++ [48])] /\
  existsb (fun lh => bleb (fst lh) k && bltb k (snd lh)) (ranges_of p []) = in_charge p [] k.
Proof.
  intros Hp Hk Hl.
  assert (Ha : alpha (p ++ [47])) by (apply alpha_app; split; [exact Hp|exact alpha_47]).
  assert (Hb : alpha (p ++ [48])) by (apply alpha_app; split; [exact Hp|exact alpha_48]).
  assert (E : ranges_of p [] = [(p ++ [47], p ++ [48])]).
  { unfold ranges_of, compact_borders. cbn [flat_map app]. unfold with_slash. rewrite Hl. change [slash] with [47].
    rewrite prefix_end_slash. unfold sort_by. cbn [fold_right insert_by].
    rewrite (enc_ltb _ _ Hb Ha).
    assert (Hlt : bltb (p ++ [48]) (p ++ [47]) = false).
    { unfold bltb. rewrite bcmp_app_same. reflexivity. }
    rewrite Hlt. reflexivity. }
  split; [exact E|]. rewrite E. cbn [existsb fst snd]. rewrite orb_false_r.
  unfold in_charge, with_slash. rewrite Hl. change [slash] with [47]. cbn [existsb negb]. rewrite andb_true_r.
  symmetry. apply slash_range; assumption.
Qed.

(* one skipped prefix s = p/t: two ranges, exactly the keys under prefix/ that are not under s/ *)
Theorem borders_one p t k :
  alpha p -> alpha t -> alpha k -> last_is slash p = false -> last_is slash (p ++ [47] ++ t) = false -> t <> [] ->
  let s := p ++ [47] ++ t in
  ranges_of p [s] = [(p ++ [47], s ++ [47]); (s ++ [48], p ++ [48])] /\
  existsb (fun lh => bleb (fst lh) k && bltb k (snd lh)) (ranges_of p [s]) = in_charge p [s] k.
Proof.
  intros Hp Ht Hk Hl Hls Hne. cbv zeta. set (s := p ++ [47] ++ t). assert (Hls' : last_is slash s = false) by exact Hls.
  assert (Hs : alpha s) by (unfold s; apply alpha_app; split; [exact Hp|apply alpha_app; split; [exact alpha_47|exact Ht]]).
  set (a := p ++ [47]). set (b := p ++ [48]). set (c := s ++ [47]). set (d := s ++ [48]).
  assert (Aa : alpha a) by (apply alpha_app; split; [exact Hp|exact alpha_47]).
  assert (Ab : alpha b) by (apply alpha_app; split; [exact Hp|exact alpha_48]).
  assert (Ac : alpha c) by (apply alpha_app; split; [exact Hs|exact alpha_47]).
  assert (Ad : alpha d) by (apply alpha_app; split; [exact Hs|exact alpha_48]).
  (* c and d have prefix a, hence lie in [a, b) *)
  assert (Pc : has_prefix a c = true).
  { unfold a, c, s. rewrite <- !app_assoc. cbn [app]. replace (p ++ 47 :: t ++ [47]) with ((p ++ [47]) ++ (t ++ [47])) by (rewrite <- app_assoc; reflexivity). apply has_prefix_app. }
  assert (Pd : has_prefix a d = true).
  { unfold a, d, s. rewrite <- !app_assoc. cbn [app]. replace (p ++ 47 :: t ++ [48]) with ((p ++ [47]) ++ (t ++ [48])) by (rewrite <- app_assoc; reflexivity). apply has_prefix_app. }
  unfold a in Pc, Pd. rewrite (slash_range p c Hp Ac) in Pc. rewrite (slash_range p d Hp Ad) in Pd. fold a b in Pc, Pd.
  apply andb_true_iff in Pc as [Pc1 Pc2]. apply andb_true_iff in Pd as [Pd1 Pd2].
  assert (Lcd : bcmp c d = Lt) by (unfold c, d; rewrite bcmp_app_same; reflexivity).
  assert (Lac : bcmp a c = Lt).
  { unfold bleb in Pc1. destruct (bcmp a c) eqn:E; try discriminate; [|reflexivity].
    apply bcmp_eq in E. exfalso. unfold a, c, s in E. rewrite <- !app_assoc in E. apply app_inv_head in E.
    cbn [app] in E. injection E as E. destruct t; [congruence|discriminate]. }
  assert (Lcb : bcmp c b = Lt) by (unfold bltb in Pc2; destruct (bcmp c b); try discriminate; reflexivity).
  assert (Ldb : bcmp d b = Lt) by (unfold bltb in Pd2; destruct (bcmp d b); try discriminate; reflexivity).
  assert (E : ranges_of p [s] = [(a, c); (d, b)]).
  { unfold ranges_of, compact_borders. cbn [flat_map app]. unfold with_slash. rewrite Hl. fold s. rewrite Hls'.
    change [slash] with [47]. rewrite !prefix_end_slash. fold a b c d.
    assert (B1 : bltb d c = false) by (unfold bltb; rewrite (bcmp_antisym c d), Lcd; reflexivity).
    assert (B2 : bltb c b = true) by (unfold bltb; rewrite Lcb; reflexivity).
    assert (B3 : bltb d b = true) by (unfold bltb; rewrite Ldb; reflexivity).
    assert (B4 : bltb c a = false) by (unfold bltb; rewrite (bcmp_antisym a c), Lac; reflexivity).
    unfold sort_by. cbn [fold_right insert_by].
    rewrite (enc_ltb d c Ad Ac), B1. cbn [insert_by]. rewrite (enc_ltb c b Ac Ab), B2.
    cbn [insert_by]. rewrite (enc_ltb d b Ad Ab), B3.
    cbn [insert_by]. rewrite (enc_ltb c a Ac Aa), B4.
    reflexivity. }
  split; [exact E|]. rewrite E. cbn [existsb fst snd]. rewrite orb_false_r.
  unfold in_charge. cbn [existsb]. unfold with_slash. rewrite Hl, Hls'. change [slash] with [47]. rewrite orb_false_r.
  rewrite (slash_range p k Hp Hk), (slash_range s k Hs Hk). fold a b c d.
  (* a < c < d < b: [a,c) u [d,b) = [a,b) minus [c,d) *)
  assert (Neg : forall x y, bltb x y = negb (bleb y x)).
  { intros x y. unfold bltb, bleb. rewrite (bcmp_antisym x y). destruct (bcmp x y); reflexivity. }
  assert (LtT : forall x y z, bltb x y = true -> bcmp y z = Lt -> bltb x z = true).
  { intros x y z H1 H2. unfold bltb in *. destruct (bcmp x y) eqn:Exy; try discriminate. rewrite (bcmp_lt_trans _ _ _ Exy H2). reflexivity. }
  assert (LeT : forall x y z, bcmp x y = Lt -> bleb y z = true -> bleb x z = true).
  { intros x y z H1 H2. unfold bleb in *. destruct (bcmp y z) eqn:Eyz; try discriminate.
    - apply bcmp_eq in Eyz. subst. rewrite H1. reflexivity.
    - rewrite (bcmp_lt_trans _ _ _ H1 Eyz). reflexivity. }
  destruct (bltb k c) eqn:Ekc.
  - (* k < c *)
    pose proof (LtT _ _ _ Ekc Lcd) as Ekd. pose proof (LtT _ _ _ Ekd Ldb) as Ekb.
    assert (Edk : bleb d k = false) by (rewrite Neg in Ekd; apply negb_true_iff in Ekd; exact Ekd).
    assert (Eck : bleb c k = false) by (rewrite Neg in Ekc; apply negb_true_iff in Ekc; exact Ekc).
    rewrite Edk, Ekb, Eck. cbn [andb orb negb]. rewrite !andb_true_r, orb_false_r. reflexivity.
  - assert (Eck : bleb c k = true) by (rewrite Neg in Ekc; apply negb_false_iff in Ekc; exact Ekc).
    pose proof (LeT _ _ _ Lac Eck) as Eak. rewrite Eck, Eak. cbn [andb orb].
    destruct (bleb d k) eqn:Edk.
    + (* d <= k *)
      assert (Ekd : bltb k d = false) by (rewrite Neg, Edk; reflexivity).
      rewrite Ekd. cbn [andb negb]. rewrite andb_true_r. reflexivity.
    + (* c <= k < d *)
      assert (Ekd : bltb k d = true) by (rewrite Neg, Edk; reflexivity).
      rewrite Ekd. cbn [andb negb]. rewrite andb_false_r. reflexivity.
Qed.
