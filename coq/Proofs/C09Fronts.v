(* C09 — why the model and the oracle may be re-used behind the two front ends of the driver.
   metrics+<engine>: the decorator hands the commit's error on as it is, so the backend is given the same environment
   choice as without it (the re-formatting variant is not an engine the model knows: a definite error for an applied batch).
   etcd+<engine>: Txn hands the request to the backend once and maps each class of backend answer to the same class of
   client answer — an unknown outcome is an RPC error of that class, never Succeeded = true / false; what the driver
   records of a TxnResponse determines it, so the oracle's class clause on the recorded observation is a statement
   about what the etcd client was given. *)
From Coq Require Import ZifyN ZifyBool.
From KB Require Import Base.Cases Model.RetrySys Model.C09Cases Model.C09Fronts
  Proofs.RetryBase Proofs.RetryInv1 Proofs.RetryInv2 Proofs.RetryProps Proofs.RetryInv3 Proofs.RetryInvX Proofs.C09Cases Proofs.RetryWitness.
Local Open Scope N_scope.

(* ---------- metrics decorator ---------- *)
Theorem deco_transparent s b e : commit_via deco_commit s b e = commit s b e.
Proof. unfold commit_via, deco_commit. destruct (commit s b e). reflexivity. Qed.

Theorem front_id_run f : (forall e, f e = e) -> forall ls s, run s (map (front_label f) ls) = run s ls.
Proof.
  intros H ls. assert (map (front_label f) ls = ls) as ->; [|reflexivity].
  induction ls as [|l ls IH]; [reflexivity|]. cbn [map]. rewrite IH. f_equal.
  destruct l; cbn [front_label]; rewrite ?H; reflexivity.
Qed.

(* the re-formatting decorator over an applied batch with unknown outcome: no environment choice of the model gives the
   backend that pair (store changed, error of no class) — the backend is outside the engine contract it was verified
   against (seeded/C09-7) *)
Theorem deco_reformat_outside s b :
  cond_holds (b_cond b) (k_idx (s (b_key b))) = true -> apply_batch s b <> s ->
  forall e', commit s b e' <> commit_via deco_commit_reformat s b (EnvUnknown true false).
Proof.
  intros Hh Hne e'. unfold commit_via, commit. rewrite Hh. cbn [andb deco_commit_reformat is_cas is_notfound orb].
  destruct e' as [| | |a oc]; intros H; try discriminate.
  injection H as H. apply Hne. symmetry. exact H.
Qed.

(* ---------- etcd Txn ---------- *)
Theorem etcd_class op r : tresp_class (etcd_view op r) = resp_class r.
Proof. destruct r; reflexivity. Qed.

Theorem etcd_txn_class backend op : tresp_class (etcd_txn backend op) = resp_class (backend op).
Proof. apply etcd_class. Qed.

Theorem etcd_unknown_is_error backend op : backend op = RErr true -> etcd_txn backend op = TErr true.
Proof. unfold etcd_txn. intros ->. reflexivity. Qed.

Theorem etcd_decode_class t : resp_class (etcd_decode t) = tresp_class t.
Proof. destruct t as [u|[|] h kv]; reflexivity. Qed.

Theorem etcd_decode_inj t1 t2 : etcd_decode t1 = etcd_decode t2 -> t1 = t2.
Proof.
  destruct t1 as [u1|[|] h1 k1], t2 as [u2|[|] h2 k2]; cbn [etcd_decode]; intros H; try discriminate; injection H; intros; subst; reflexivity.
Qed.

Theorem etcd_roundtrip op r : resp_shape op r = true -> etcd_decode (etcd_view op r) = r.
Proof.
  destruct op, r as [h [x|]|h [x|]|u|h]; cbn [resp_shape etcd_view etcd_decode]; intros H; try discriminate; reflexivity.
Qed.

(* the oracle's class clause, evaluated on what the driver recorded of a TxnResponse, says: a request one of whose
   commits was answered "outcome unknown" was answered to the etcd client with an RPC error of the unknown class *)
Theorem etcd_class_clause t unk c q :
  class_ok {| o_d := OResp (etcd_decode t) unk; o_committed := c; o_queue := q |} = true <-> (unk = true -> t = TErr true).
Proof.
  unfold class_ok. cbn [o_d]. destruct unk.
  - destruct t as [[|]|[|] h kv]; cbn [etcd_decode]; split; intros H; try reflexivity; try discriminate;
      try (specialize (H eq_refl); discriminate).
  - split; [intros _ H; discriminate|reflexivity].
Qed.

(* C09_error_class carried through the front: in every reachable state, a finished request one of whose commits drew an
   unknown outcome is answered to the etcd client with the unknown-outcome error *)
Theorem etcd_error_class r0 ls :
  Forall wf_label ls -> let s := run (init_state r0) ls in
  forall t th r, get_thread t (s_threads s) = Some th -> t_unk th = true -> t_pc th = PDone r ->
  etcd_txn (fun _ => r) (t_op th) = TErr true.
Proof.
  intros W s t th r G U P. pose proof (error_class r0 ls W t th G U) as H. rewrite P in H. subst r. reflexivity.
Qed.

(* handing a failed write to the backend a second time (seeded/C09-8): the first commit landed with unknown outcome, the
   second attempt loses its compare against it — the client is told "failed condition", and the class clause on the
   recorded observation is false *)
Theorem etcd_twice_refuted :
  let first := fun _ : wop => RErr true in
  let second := fun _ : wop => RCond 13 (Some ([118; 50], 12)) in
  let t := etcd_txn_twice first second (OUpdate 0 [118; 50] 11) in
  t = TResp false 13 (Some ([118; 50], 12)) /\
  class_ok {| o_d := OResp (etcd_decode t) true; o_committed := 13; o_queue := 1 |} = false.
Proof. split; reflexivity. Qed.

(* ---------- every answer the model gives to a create / update / delete has the shape the etcd shim keeps ----------
   (a create carries no key-value, neither does a successful update): so the front's answer, decoded, IS the
   backend's answer — which is what the correspondence check compares per case *)
Definition ok_pc (op : wop) (p : pc) : Prop :=
  match p with
  | PDone r => resp_shape op r = true
  | PCompact2 _ => False
  | PCommit _ c _ | PCreateGet c | PNotify c _ | PRespond c _ | PReread c =>
      match op with ODelete _ _ => True | _ => c_old c = None end
  | PStart | PDelDeal _ _ => True
  end.

Lemma thread_step_ok s op p e s' p' u :
  op_is_write op = true -> ok_pc op p -> thread_step s op p e = (s', p', u) -> ok_pc op p'.
Proof.
  intros W O H. destruct op; try discriminate W; destruct p; cbn [thread_step ok_pc] in *; try contradiction;
    unfold create_decide in H;
    repeat match type of H with context [match ?x with _ => _ end] => destruct x eqn:? end;
    inversion H; subst; cbn [ok_pc resp_shape mk_ctx c_old]; auto.
  all: rewrite O; reflexivity.
Qed.

Definition shapes (s : state) : Prop :=
  forall t th, get_thread t (s_threads s) = Some th -> op_is_write (t_op th) = true -> ok_pc (t_op th) (t_pc th).

Lemma retry_step_threads s e : s_threads (retry_step s e) = s_threads s.
Proof.
  unfold retry_step.
  repeat match goal with |- context [match ?x with _ => _ end] => destruct x end; reflexivity.
Qed.

Lemma shapes_step s l : shapes s -> shapes (step s l).
Proof.
  intros S. destruct l as [t op|t e| |e|d]; unfold step, step_gen.
  - destruct (get_thread t (s_threads s)) eqn:G; [exact S|]. intros t' th' G' W'. cbn [s_threads set_threads] in G'.
    destruct (N.eq_dec t' t) as [->|Ne].
    + rewrite get_set_same in G'. injection G' as <-. exact I.
    + rewrite get_set_other in G' by exact Ne. apply (S t' th' G' W').
  - destruct (get_thread t (s_threads s)) as [th|] eqn:G; [|exact S].
    destruct (thread_step s (t_op th) (t_pc th) e) as [[s' p'] u] eqn:TS.
    destruct (thread_step_frame _ _ _ _ _ _ _ TS) as [_ [_ [_ [_ [_ [Hth _]]]]]].
    intros t' th' G' W'. cbn [s_threads set_threads] in G'. destruct (N.eq_dec t' t) as [->|Ne].
    + rewrite get_set_same in G'. injection G' as <-. cbn [t_op t_pc] in *.
      apply (thread_step_ok _ _ _ _ _ _ _ W' (S t th G W') TS).
    + rewrite get_set_other in G' by exact Ne. rewrite Hth in G'. apply (S t' th' G' W').
  - intros t' th' G'. change (step_gen false s LSeq) with (step s LSeq) in G'.
    assert (E : s_threads (seq_step false s) = s_threads s).
    { unfold seq_step. repeat match goal with |- context [match ?x with _ => _ end] => destruct x end; reflexivity. }
    rewrite E in G'. apply (S t' th' G').
  - intros t' th' G'. rewrite retry_step_threads in G'. apply (S t' th' G').
  - exact S.
Qed.

Lemma shapes_run ls : forall s0, shapes s0 -> shapes (run s0 ls).
Proof.
  induction ls as [|l ls IH]; intros s0 S0; [exact S0|]. change (run s0 (l :: ls)) with (run (step s0 l) ls).
  apply IH. apply shapes_step. exact S0.
Qed.

Theorem model_answers_shaped r0 ls :
  let s := run (init_state r0) ls in
  forall t th r, get_thread t (s_threads s) = Some th -> op_is_write (t_op th) = true -> t_pc th = PDone r ->
  resp_shape (t_op th) r = true /\ etcd_decode (etcd_txn (fun _ => r) (t_op th)) = r.
Proof.
  intros s t th r G W P.
  assert (S0 : shapes (init_state r0)) by (intros t0 th0 G0; discriminate G0).
  pose proof (shapes_run ls _ S0 t th G W) as O. rewrite P in O. cbn [ok_pc] in O. split; [exact O|]. apply etcd_roundtrip. exact O.
Qed.

(* ---------- tso.Commit (pkg/backend/tso, /repo 1eb892a: the committed revision is raised, never lowered) ----------
   The model's sequencer stores the revision it commits.  In every reachable state that revision is at least the
   committed one (it is the committed one + 1), so "store x" and "raise to x" are the same action: the model is the
   model of both versions of Commit. *)
Theorem tso_commit_raise_only r0 ls l :
  Forall wf_label ls -> let s := run (init_state r0) ls in
  N.max (s_committed s) (s_committed (step s l)) = s_committed (step s l).
Proof.
  intros W s. apply N.max_r. apply step_committed_mono. apply (reach_inv1 r0). apply reach_run; [exact W|apply reach_init].
Qed.

(* non-vacuity: a finished update whose commit landed with unknown outcome (request 2 of repaired_witness) *)
Lemma etcd_error_class_inhabited :
  let s := run (init_state 10) (firstn 17 repaired_witness) in
  Forall wf_label (firstn 17 repaired_witness) /\
  exists th, get_thread 2 (s_threads s) = Some th /\ t_unk th = true /\ t_pc th = PDone (RErr true) /\
             op_is_write (t_op th) = true /\ snap s 13 0 = Some (v2, 13) /\ s_committed s = 12.
Proof.
  split; [apply wf_labelsb_spec; reflexivity|]. vm_compute. eexists. repeat split; reflexivity.
Qed.
