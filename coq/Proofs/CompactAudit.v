(* C07: statements asked for by the audit of Props/C07.v - the ghost flag means the premise; the ghost store is the store
   that received the writers' commits consumed so far and none of the deletes; the list specification is inhabited by
   the model's List. *)
From KB Require Import Base.Cases Model.Coder Model.CompactSys Model.C07Cases Proofs.Coder
  Proofs.CompactSafe Proofs.CompactReads Proofs.CompactWf Proofs.CompactPass Proofs.CompactRanges Proofs.CompactExpiry
  Proofs.CompactWriters Proofs.CompactOracle.
From Coq Require Import Sorted.
Local Open Scope N_scope.

(* ---------- ds_safe = true means C07_safe_remove's premise ---------- *)

Lemma premiseb_sound R V x : premiseb R V x = true -> premise R V x.
Proof.
  destruct x as [k r d|k r v]; [intros _; exact I|]. cbn [premiseb premise]. intros H.
  apply orb_true_iff in H as [H|H]; [apply orb_true_iff in H as [H|H]|].
  - left. intros v' Hin. apply negb_true_iff in H.
    assert (existsb (same_slot (RVer k r v)) V = true); [|congruence].
    apply existsb_exists. exists (RVer k r v'). split; [exact Hin|]. apply same_slot_ver. eauto.
  - right; left. apply existsb_exists in H as ([|k' r' v'] & Hin & Hc); [discriminate|].
    apply andb_true_iff in Hc as [Hc H3]. apply andb_true_iff in Hc as [H1 H2].
    apply beqb_eq in H1. subst k'. exists r', v'. split; [exact Hin|]. split; [apply N.ltb_lt; exact H2|apply N.leb_le; exact H3].
  - right; right. apply andb_true_iff in H as [H H4]. apply andb_true_iff in H as [H H3]. apply andb_true_iff in H as [H1 H2].
    apply is_tomb_spec in H1. apply N.leb_le in H2. apply memb_spec in H3. split; [exact H1|]. split; [exact H2|]. split; [exact H3|].
    intros r' v' Hin. apply negb_true_iff in H4. destruct (N.le_gt_cases r r') as [Hle|Hgt]; [exact Hle|exfalso].
    assert (existsb (fun y => match y with RVer k' r0 _ => beqb k k' && (r0 <? r) | _ => false end) V = true); [|congruence].
    apply existsb_exists. exists (RVer k r' v'). split; [exact Hin|]. rewrite beqb_refl. cbn [andb]. apply N.ltb_lt. exact Hgt.
Qed.

(* ---------- the ghost store, pinned ---------- *)

(* the ghost store is the initial store with the writers' commits consumed so far applied, in order *)
Definition ghost_pin (G0 : store) (A0 : list rec) (d : dst) : Prop :=
  exists c, A0 = c ++ adds_of d /\ d_ghost d = apply_env c G0.

Lemma ed_pin R kind x d G0 A0 : ghost_pin G0 A0 d -> ghost_pin G0 A0 (engine_delete R kind x d).
Proof.
  intros (c & EA & EG).
  destruct (ed_cases R kind x d) as [[E _]|(Ed & Esk & adds & o & rest & o' & Hq & Eg & Eo & Et & Hres)];
    cbv zeta in *; [rewrite E; exists c; split; assumption|].
  exists (c ++ adds). unfold adds_of in *. rewrite Eo, Eg, EG, apply_env_app. split; [|reflexivity].
  destruct Hq as [(Eq & -> & _ & ->)|Eq]; rewrite Eq in EA; cbn [flat_map fst] in *.
  - rewrite app_nil_r in EA. rewrite !app_nil_r. exact EA.
  - rewrite <- app_assoc. exact EA.
Qed.

Lemma wbody_pin R x s G0 A0 : ghost_pin G0 A0 (w_d s) -> ghost_pin G0 A0 (w_d (wbody (cfg R) x s)).
Proof.
  intros H.
  destruct (R <? rrev x) eqn:HR; [rewrite wbody_skip by exact HR; exact H|].
  destruct (wbody_compact R x s HR) as (Ed & _). rewrite Ed.
  assert (KA : ghost_pin G0 A0 (stepA R x s)).
  { unfold stepA. destruct (beqb (rkey x) (w_pk s) && (0 <? w_pr s)); [apply ed_pin; exact H|exact H]. }
  assert (KB : ghost_pin G0 A0 (stepB R x (stepA R x s))).
  { unfold stepB. destruct (is_tomb (rval x)); [apply ed_pin; exact KA|exact KA]. }
  unfold stepC. destruct x as [k0 orev [|]|k0 r0 v0]; try exact KB.
  destruct (R <? orev); [exact KB|apply ed_pin; exact KB].
Qed.

Lemma wloop_pin R G0 A0 : forall snap s, ghost_pin G0 A0 (w_d s) -> ghost_pin G0 A0 (w_d (wloop (cfg R) snap s)).
Proof.
  induction snap as [|x t IH]; intros s H; cbn [wloop]; [exact H|].
  change (need_more (cfg R) (w_out s)) with true. cbn [negb].
  destruct (d_dead (w_d s)); [exact H|]. apply IH. apply wbody_pin. exact H.
Qed.

Lemma compact_all_pin R G0 A0 : forall ranges d, ghost_pin G0 A0 d -> ghost_pin G0 A0 (compact_all R 0 ranges d).
Proof.
  induction ranges as [|[lo hi] ranges IH]; intros d H; cbn [compact_all fold_left]; [exact H|].
  apply IH. cbn [fst snd]. unfold compact_range, compact_range_e. change (mkCfg R true 0 0 []) with (cfg R).
  apply wloop_pin. destruct H as (c & EA & EG). exists c. split; assumption.
Qed.

(* Backend.compact with writers: the ghost store is exactly the initial store with the commits of the consumed entries of oc
   applied, in order - no commit is dropped from it, nothing else is in it *)
Theorem compact_all_ghost R V ranges oc :
  let d := compact_all R 0 ranges (init_d V oc) in
  exists consumed, flat_map fst oc = consumed ++ flat_map fst (d_oc d) /\ d_ghost d = apply_env consumed V.
Proof.
  cbv zeta. apply (compact_all_pin R V (flat_map fst oc) ranges (init_d V oc)).
  exists []. split; reflexivity.
Qed.

(* ---------- the list specification is inhabited: the model's List satisfies it ---------- *)

Lemma in_list_keys ks V R k v r : In (k, v, r) (list_keys ks V R) <-> In k ks /\ get_at V R k = Some (r, v).
Proof.
  unfold list_keys. rewrite in_flat_map. split.
  - intros (k0 & Hk & Hin). destruct (get_at V R k0) as [[r0 v0]|] eqn:E; [|destruct Hin].
    destruct Hin as [Hin|[]]. injection Hin as <- <- <-. split; assumption.
  - intros [Hk E]. exists k. split; [exact Hk|]. rewrite E. left; reflexivity.
Qed.

Lemma list_keys_sorted V R : forall ks, StronglySorted klt ks ->
  StronglySorted (fun a b => bcmp (kvr_key a) (kvr_key b) = Lt) (list_keys ks V R).
Proof.
  induction 1 as [|k ks Hs IH Hf]; [constructor|]. unfold list_keys in *. cbn [flat_map].
  destruct (get_at V R k) as [[r v]|]; [|exact IH]. cbn [app]. constructor; [exact IH|].
  apply Forall_forall. intros [[k' v'] r'] Hin. apply in_list_keys in Hin as [Hin _]. rewrite Forall_forall in Hf.
  cbn [kvr_key fst]. exact (Hf _ Hin).
Qed.

Theorem list_at_spec V lo hi R :
  StronglySorted rlt V -> uniq_ver V -> list_spec V lo hi R (list_at V lo hi R).
Proof.
  intros Hs Hu. destruct (dedup_spec V None Hs) as (Sk & Hmem & _); [intros ? ? E; discriminate E|].
  unfold list_at. split.
  - apply list_keys_sorted. apply klt_sorted_filter. exact Sk.
  - intros k v r. rewrite in_list_keys, filter_In, Hmem, (get_at_spec V R k r v Hu). split.
    + intros [[_ Hr] Hv]. split; assumption.
    + intros [Hr Hv]. split; [split; [|exact Hr]|exact Hv]. split; [|discriminate].
      destruct Hv as [(Hin & _) _]. exists (RVer k r v). split; [exact Hin|reflexivity].
Qed.

(* List and Count of the model, unchanged by anything that keeps the reads at R *)
Theorem list_at_unchanged R A B lo hi R' :
  StronglySorted rlt A -> uniq_ver A -> StronglySorted rlt B -> uniq_ver B -> veq R A B -> R <= R' ->
  list_at A lo hi R' = list_at B lo hi R' /\ length (list_at A lo hi R') = length (list_at B lo hi R').
Proof.
  intros SA UA SB UB Hv HR.
  apply (list_unchanged R A B lo hi R'); [exact Hv|exact HR|apply list_at_spec; assumption|apply list_at_spec; assumption].
Qed.

(* List at any revision >= R is the same before and after (Count is its length: C07_list_at_unchanged) *)
Lemma list_spec_unchanged R A B lo hi R' l1 l2 :
  veq R A B -> R <= R' -> list_spec A lo hi R' l1 -> list_spec B lo hi R' l2 -> l1 = l2.
Proof. intros Hv HR H1 H2. exact (proj1 (list_unchanged R A B lo hi R' l1 l2 Hv HR H1 H2)). Qed.
