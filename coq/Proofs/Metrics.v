(* Soundness of the static metric-table check: if [check g t = true] then no sequence of
   emissions that are instances of rows of [t] makes the Prometheus wrapper panic. *)
From KB Require Import Base.Bytes Model.Metrics.
From Coq Require Import Permutation.
Open Scope N_scope.

(* ---------- reflection ---------- *)

Lemma seqb_eq a b : seqb a b = true <-> a = b.
Proof.
  unfold seqb, beqb. destruct (bcmp a b) eqn:E; split; intro H; try discriminate; try reflexivity.
  - apply bcmp_eq; exact E.
  - apply bcmp_eq in H. congruence.
  - apply bcmp_eq in H. congruence.
Qed.

Lemma seqb_refl a : seqb a a = true.
Proof. apply seqb_eq; reflexivity. Qed.

Lemma seqb_neq a b : seqb a b = false <-> a <> b.
Proof.
  split.
  - intros H E. apply seqb_eq in E. congruence.
  - intros H. destruct (seqb a b) eqn:E; [apply seqb_eq in E; contradiction|reflexivity].
Qed.

Lemma mem_In x l : mem x l = true <-> In x l.
Proof.
  induction l as [|y l IH]; simpl; [split; [discriminate|tauto]|].
  rewrite orb_true_iff, IH, seqb_eq. split; intros [H|H]; auto.
Qed.

Lemma mem_false x l : mem x l = false <-> ~ In x l.
Proof.
  rewrite <- mem_In. destruct (mem x l); split; intro H; try reflexivity; try discriminate.
  - exfalso; apply H; reflexivity.
Qed.

Lemma nodupb_NoDup l : nodupb l = true <-> NoDup l.
Proof.
  induction l as [|x l IH]; simpl; [split; [constructor|reflexivity]|].
  rewrite andb_true_iff, negb_true_iff, mem_false, IH. split.
  - intros [H1 H2]; constructor; assumption.
  - intros H; inversion H; auto.
Qed.

Lemma subsetb_incl a b : subsetb a b = true <-> incl a b.
Proof.
  unfold subsetb, incl. rewrite forallb_forall. split; intros H x Hx; apply mem_In; apply H; exact Hx.
Qed.

Lemma set_eqb_incl a b : set_eqb a b = true <-> incl a b /\ incl b a.
Proof. unfold set_eqb. rewrite andb_true_iff, !subsetb_incl. tauto. Qed.

Lemma NoDup_app_r {A} (a b : list A) : NoDup (a ++ b) -> NoDup b.
Proof. induction a as [|x a IH]; simpl; [tauto|]. intros H; inversion H; auto. Qed.

(* ---------- vector maps ---------- *)

Lemma vlookup_some n m v : vlookup n m = Some v -> In (n, v) m.
Proof.
  induction m as [|[k w] m IH]; simpl; [discriminate|].
  destruct (seqb n k) eqn:E.
  - intros H; injection H as ->. apply seqb_eq in E; subst. left; reflexivity.
  - intros H; right; apply IH; exact H.
Qed.

Lemma vlookup_none n m : vlookup n m = None -> forall v, ~ In (n, v) m.
Proof.
  induction m as [|[k w] m IH]; simpl; [intros _ v []|].
  destruct (seqb n k) eqn:E; [discriminate|].
  intros H v [Heq|Hin].
  - injection Heq as -> ->. rewrite seqb_refl in E. discriminate.
  - exact (IH H v Hin).
Qed.

(* ---------- labelsToMap ---------- *)

Definition keys (m : list (str * str)) : list str := map fst m.

Lemma map_put_keys_in k v m : In k (keys m) -> keys (map_put k v m) = keys m.
Proof.
  induction m as [|[k' v'] m IH]; simpl; [intros []|].
  destruct (seqb k k') eqn:E.
  - intros _. apply seqb_eq in E; subst. reflexivity.
  - intros [H|H]; [subst; rewrite seqb_refl in E; discriminate|].
    simpl. f_equal. apply IH; exact H.
Qed.

Lemma map_put_keys_notin k v m : ~ In k (keys m) -> keys (map_put k v m) = keys m ++ [k].
Proof.
  induction m as [|[k' v'] m IH]; simpl; [reflexivity|].
  intros H. destruct (seqb k k') eqn:E.
  - apply seqb_eq in E; subst. exfalso; apply H; left; reflexivity.
  - simpl. f_equal. apply IH. intro Hin; apply H; right; exact Hin.
Qed.

Lemma map_put_vals (P : str -> Prop) k v m :
  P v -> Forall P (map snd m) -> Forall P (map snd (map_put k v m)).
Proof.
  intros Hv. induction m as [|[k' v'] m IH]; simpl; intros H.
  - constructor; [exact Hv|constructor].
  - inversion H; subst. destruct (seqb k k'); simpl; constructor; auto.
Qed.

Lemma fold_put_keys l : forall m0,
  NoDup (keys m0 ++ keys l) ->
  keys (fold_left (fun m kv => map_put (fst kv) (snd kv) m) l m0) = keys m0 ++ keys l.
Proof.
  induction l as [|[k v] l IH]; intros m0 H; simpl.
  - rewrite app_nil_r. reflexivity.
  - simpl in H. assert (Hk : ~ In k (keys m0)).
    { apply NoDup_remove_2 in H. intro Hin; apply H; apply in_or_app; left; exact Hin. }
    rewrite IH.
    + rewrite map_put_keys_notin by exact Hk. rewrite <- app_assoc. reflexivity.
    + rewrite map_put_keys_notin by exact Hk. rewrite <- app_assoc. simpl.
      (* NoDup (keys m0 ++ k :: keys l) *)
      exact H.
Qed.

Lemma fold_put_vals (P : str -> Prop) l : forall m0,
  Forall P (map snd l) -> Forall P (map snd m0) ->
  Forall P (map snd (fold_left (fun m kv => map_put (fst kv) (snd kv) m) l m0)).
Proof.
  induction l as [|[k v] l IH]; intros m0 Hl H0; simpl; [exact H0|].
  inversion Hl; subst. apply IH; [assumption|]. apply map_put_vals; assumption.
Qed.

Lemma labels_to_map_keys g ls :
  NoDup (keys g ++ keys ls) -> keys (labels_to_map g ls) = keys g ++ keys ls.
Proof.
  intros H. unfold labels_to_map. rewrite fold_put_keys; simpl.
  - unfold keys. rewrite map_app. reflexivity.
  - unfold keys in *. rewrite map_app. exact H.
Qed.

Lemma labels_to_map_vals (P : str -> Prop) g ls :
  Forall P (map snd g) -> Forall P (map snd ls) -> Forall P (map snd (labels_to_map g ls)).
Proof.
  intros Hg Hl. unfold labels_to_map. apply fold_put_vals; [|constructor].
  rewrite map_app. apply Forall_app; split; assumption.
Qed.

(* ---------- instances ---------- *)

Lemma labels_in_names cs ls : labels_in cs ls = true -> map fst ls = map fst cs.
Proof.
  revert ls; induction cs as [|[n c] cs IH]; intros [|[n' v] ls]; simpl; try discriminate; [reflexivity|].
  rewrite !andb_true_iff. intros [[H1 _] H3]. apply seqb_eq in H1; subst. f_equal. apply IH; exact H3.
Qed.

Lemma labels_in_vals cs ls :
  labels_in cs ls = true -> forallb (fun l => vclass_safe (snd l)) cs = true ->
  Forall (fun v => valid_utf8 v = true) (map snd ls).
Proof.
  revert ls; induction cs as [|[n c] cs IH]; intros [|[n' v] ls]; simpl; try discriminate; [constructor|].
  rewrite !andb_true_iff. intros [[_ H2] H3] [Hs Hr]. constructor; [|apply IH; assumption].
  destruct c; simpl in *; try discriminate; try exact H2.
  - apply seqb_eq in H2; subst. exact Hs.
  - apply mem_In in H2. rewrite forallb_forall in Hs. apply Hs; exact H2.
Qed.

(* ---------- the invariant ---------- *)

Section Sound.
  Variable g : list (str * str).
  Variable t : list row.
  Definition gnames : list str := map fst g.
  Hypothesis Hcheck : check gnames t = true.
  Hypothesis Hgvals : Forall (fun v => valid_utf8 v = true) (map snd g).

  Definition vec_inv (k : kind) (m : vecmap) : Prop :=
    forall n names, In (n, names) m ->
      exists r, In r t /\ r_kind r = k /\ r_name r = Some n /\ names = gnames ++ row_names r.

  Definition reg_inv (s : wstate) : Prop :=
    forall fq, In fq (reg s) ->
      foreign fq = true \/ exists k n names, In (n, names) (vec_of k s) /\ fq = format_name n.

  Definition Inv (s : wstate) : Prop :=
    globals s = g /\ (forall k, vec_inv k (vec_of k s)) /\ reg_inv s.

  Lemma check_globals : Forall (fun v => valid_utf8 v = true) (map snd g).
  Proof. exact Hgvals. Qed.

  Lemma check_row r : In r t -> row_local_ok gnames r = true /\ forall r', In r' t -> rows_compatible r r' = true.
  Proof.
    intros Hr. pose proof Hcheck as H. unfold check in H.
    rewrite forallb_forall in H. specialize (H r Hr). unfold row_ok in H.
    apply andb_true_iff in H as [H1 H2]. split; [exact H1|]. rewrite forallb_forall in H2. exact H2.
  Qed.

  Lemma kind_eqb_eq a b : kind_eqb a b = true <-> a = b.
  Proof. destruct a, b; simpl; split; intro H; try discriminate; reflexivity. Qed.

  (* what row_local_ok gives, in Prop form *)
  Lemma row_local_facts r n cs :
    row_local_ok gnames r = true -> r_name r = Some n -> r_labels r = Some cs ->
    valid_metric_name (format_name n) = true /\ foreign (format_name n) = false /\
    forallb valid_label_name (gnames ++ map fst cs) = true /\ NoDup (gnames ++ map fst cs) /\
    forallb (fun l => vclass_safe (snd l)) cs = true /\
    (kind_eqb (r_kind r) Histogram && mem bucket_label (gnames ++ map fst cs) = false) /\
    (r_kind r = Counter -> r_sign r = NonNeg).
  Proof.
    unfold row_local_ok. intros H Hn Hc. rewrite Hn, Hc in H.
    repeat (apply andb_true_iff in H as [H ?]).
    rewrite negb_true_iff in *. rewrite nodupb_NoDup in *.
    repeat split; try assumption.
    intros Hk. rewrite Hk in *. destruct (r_sign r); [reflexivity|discriminate].
  Qed.

  Lemma row_names_labels r cs : r_labels r = Some cs -> row_names r = map fst cs.
  Proof. unfold row_names. intros ->. reflexivity. Qed.

  (* With(...) succeeds on a vector created by row r' when the emission is an instance of a compatible row r *)
  Lemma with_ok_compat k r r' n cs cs' ls :
    r_kind r' = k ->
    row_local_ok gnames r = true -> r_name r = Some n -> r_labels r = Some cs ->
    row_local_ok gnames r' = true -> r_name r' = Some n -> r_labels r' = Some cs' ->
    incl (map fst cs) (map fst cs') -> incl (map fst cs') (map fst cs) ->
    labels_in cs ls = true ->
    with_ok k (gnames ++ map fst cs') (labels_to_map g ls) = true.
  Proof.
    intros Hk Hr Hn Hc Hr' Hn' Hc' I1 I2 Hin.
    destruct (row_local_facts _ _ _ Hr Hn Hc) as (_ & _ & _ & Hnd & Hsafe & _ & _).
    destruct (row_local_facts _ _ _ Hr' Hn' Hc') as (_ & _ & _ & Hnd' & _ & Hle & _).
    pose proof (labels_in_names _ _ Hin) as Hnames.
    assert (Hkeys : keys (labels_to_map g ls) = gnames ++ map fst cs).
    { rewrite labels_to_map_keys; unfold keys, gnames in *; rewrite Hnames; [reflexivity|exact Hnd]. }
    unfold with_ok. rewrite !andb_true_iff. repeat split.
    - apply Nat.eqb_eq.
      replace (length (labels_to_map g ls)) with (length (keys (labels_to_map g ls)))
        by (unfold keys; apply map_length).
      rewrite Hkeys. rewrite !app_length. f_equal.
      apply Nat.le_antisymm; apply NoDup_incl_length; try assumption.
      + apply NoDup_app_r in Hnd; exact Hnd.
      + apply NoDup_app_r in Hnd'; exact Hnd'.
    - pose proof (labels_to_map_vals (fun v => valid_utf8 v = true) g ls check_globals
                    (labels_in_vals _ _ Hin Hsafe)) as Hv.
      rewrite forallb_forall. intros kv Hkv. rewrite Forall_forall in Hv. apply Hv.
      apply in_map; exact Hkv.
    - rewrite forallb_forall. intros x Hx. apply mem_In. fold (keys (labels_to_map g ls)). rewrite Hkeys.
      apply in_app_or in Hx as [Hx|Hx]; apply in_or_app; [left; exact Hx|right; apply I2; exact Hx].
    - rewrite Hk in Hle. rewrite Hle. reflexivity.
  Qed.

  Lemma instance_facts r e :
    instance_of r e = true ->
    r_kind r = e_kind e /\ exists cs, r_name r = Some (e_name e) /\ r_labels r = Some cs /\
    labels_in cs (e_labels e) = true /\ (r_sign r = NonNeg -> e_neg e = false).
  Proof.
    unfold instance_of. rewrite !andb_true_iff. intros [[Hk Hb] Hs].
    apply kind_eqb_eq in Hk. split; [exact Hk|].
    destruct (r_name r) as [n|]; [|discriminate]. destruct (r_labels r) as [cs|]; [|discriminate].
    apply andb_true_iff in Hb as [Hn Hl]. apply seqb_eq in Hn; subst.
    exists cs. repeat split; try assumption.
    intros Hsg. rewrite Hsg in Hs. apply negb_true_iff in Hs. exact Hs.
  Qed.

  Lemma rows_compatible_same r r' n :
    rows_compatible r r' = true -> r_name r = Some n -> r_name r' = Some n ->
    incl (row_names r) (row_names r') /\ incl (row_names r') (row_names r).
  Proof.
    unfold rows_compatible. intros H Hn Hn'. rewrite Hn, Hn' in H. rewrite seqb_refl in H.
    rewrite !andb_true_iff in H. destruct H as [_ H]. apply set_eqb_incl; exact H.
  Qed.

  Lemma rows_compatible_fq r r' n n' :
    rows_compatible r r' = true -> r_name r = Some n -> r_name r' = Some n' ->
    format_name n = format_name n' -> r_kind r = r_kind r' /\ n = n'.
  Proof.
    unfold rows_compatible. intros H Hn Hn' Hf. rewrite Hn, Hn' in H. rewrite Hf, seqb_refl in H.
    rewrite !andb_true_iff in H. destruct H as [[H1 H2] _]. apply kind_eqb_eq in H1. apply seqb_eq in H2. tauto.
  Qed.

  Lemma vec_of_set_same k m r s : vec_of k (set_vec k m r s) = m.
  Proof. destruct k; reflexivity. Qed.
  Lemma vec_of_set_other k k' m r s : k <> k' -> vec_of k' (set_vec k m r s) = vec_of k' s.
  Proof. destruct k, k'; intros H; try reflexivity; contradiction. Qed.
  Lemma reg_set k m r s : reg (set_vec k m r s) = r.
  Proof. destruct k; reflexivity. Qed.
  Lemma globals_set k m r s : globals (set_vec k m r s) = globals s.
  Proof. destruct k; reflexivity. Qed.

  Lemma kind_dec (a b : kind) : {a = b} + {a <> b}.
  Proof. decide equality. Qed.

  (* one emission that is an instance of a table row: no panic, invariant kept *)
  Lemma emit_step s e :
    Inv s -> (exists r, In r t /\ instance_of r e = true) ->
    exists s', emit s e = (s', Ok) /\ Inv s'.
  Proof.
    intros (Hg & Hvec & Hreg) (r & Hr & Hinst).
    destruct (instance_facts _ _ Hinst) as (Hk & cs & Hn & Hc & Hlin & Hsign).
    destruct (check_row _ Hr) as (Hloc & Hcompat).
    destruct (row_local_facts _ _ _ Hloc Hn Hc) as (Hvalid & Hforeign & Hlnames & Hnd & Hsafe & Hle & Hcnt).
    assert (Hneg : kind_eqb (e_kind e) Counter && e_neg e = false).
    { destruct (e_kind e) eqn:Ek; simpl; try reflexivity. apply Hsign. apply Hcnt. congruence. }
    unfold emit, get_vec.
    destruct (vlookup (e_name e) (vec_of (e_kind e) s)) as [names|] eqn:Hl.
    - (* the vector exists: created by a compatible row *)
      apply vlookup_some in Hl. destruct (Hvec _ _ _ Hl) as (r' & Hr' & Hk' & Hn' & Hnames).
      destruct (check_row _ Hr') as (Hloc' & _).
      assert (Hc' : exists cs', r_labels r' = Some cs').
      { unfold row_local_ok in Hloc'. rewrite Hn' in Hloc'. destruct (r_labels r'); [eauto|discriminate]. }
      destruct Hc' as (cs' & Hc').
      destruct (rows_compatible_same _ _ _ (Hcompat _ Hr') Hn Hn') as (I1 & I2).
      rewrite (row_names_labels _ _ Hc) in I1, I2. rewrite (row_names_labels _ _ Hc') in I1, I2.
      rewrite Hnames, (row_names_labels _ _ Hc'), Hg.
      rewrite (with_ok_compat (e_kind e) r r' (e_name e) cs cs' (e_labels e)); try assumption.
      rewrite Hneg. exists s. split; [reflexivity|]. repeat split; assumption.
    - (* first use: NewXVec + MustRegister *)
      pose proof (labels_in_names _ _ Hlin) as Hnm.
      assert (Hfresh : mem (format_name (e_name e)) (reg s) = false).
      { apply mem_false. intros Hin. destruct (Hreg _ Hin) as [Hf|(k' & n' & names' & Hin' & Hfq)].
        - congruence.
        - destruct (Hvec _ _ _ Hin') as (r' & Hr' & Hk' & Hn' & _).
          destruct (rows_compatible_fq _ _ _ _ (Hcompat _ Hr') Hn Hn' Hfq) as (Hkk & Hnn).
          assert (Hke : k' = e_kind e) by congruence.
          rewrite Hke, <- Hnn in Hin'.
          exact (vlookup_none _ _ Hl _ Hin'). }
      unfold label_names. rewrite Hg. fold gnames. rewrite Hnm.
      rewrite Hvalid, Hlnames, Hfresh. apply nodupb_NoDup in Hnd. rewrite Hnd. simpl.
      apply nodupb_NoDup in Hnd.
      assert (Hrefl : forall l : list str, incl l l) by (intros l x Hx; exact Hx).
      rewrite (with_ok_compat (e_kind e) r r (e_name e) cs cs (e_labels e)); try assumption; try apply Hrefl; try (symmetry; exact Hk).
      rewrite Hneg.
      eexists. split; [reflexivity|].
      split; [rewrite globals_set; exact Hg|]. split.
      + intros k. destruct (kind_dec (e_kind e) k) as [<-|Hne].
        * rewrite vec_of_set_same. intros n names [Heq|Hin].
          -- injection Heq as <- <-. exists r. repeat split; try assumption.
             rewrite (row_names_labels _ _ Hc). reflexivity.
          -- apply (Hvec (e_kind e)); exact Hin.
        * rewrite vec_of_set_other by exact Hne. apply Hvec.
      + intros fq Hin. rewrite reg_set in Hin. destruct Hin as [<-|Hin].
        * right. exists (e_kind e), (e_name e), (gnames ++ map fst cs). split; [|reflexivity].
          rewrite vec_of_set_same. left; reflexivity.
        * destruct (Hreg _ Hin) as [Hf|(k' & n' & names' & Hin' & Hfq)]; [left; exact Hf|].
          right. exists k', n', names'. split; [|exact Hfq].
          destruct (kind_dec (e_kind e) k') as [<-|Hne].
          -- rewrite vec_of_set_same. right; exact Hin'.
          -- rewrite vec_of_set_other by exact Hne. exact Hin'.
  Qed.

  Lemma run_sound es : forall s,
    Inv s -> Forall (fun e => exists r, In r t /\ instance_of r e = true) es ->
    Forall (fun o => o = Ok) (snd (run s es)) /\ Inv (fst (run s es)).
  Proof.
    induction es as [|e es IH]; intros s HI Hes; simpl; [split; [constructor|exact HI]|].
    inversion Hes as [|? ? He Hes']; subst.
    destruct (emit_step s e HI He) as (s' & Hemit & HI'). rewrite Hemit.
    specialize (IH s' HI' Hes'). destruct (run s' es) as [s2 os]. simpl in *.
    destruct IH as [H1 H2]. split; [constructor; [reflexivity|exact H1]|exact H2].
  Qed.

  Lemma init_inv reg0 : Forall (fun n => foreign n = true) reg0 -> Inv (init_state g reg0).
  Proof.
    intros Hf. split; [reflexivity|]. split.
    - intros k n names Hin. destruct k; simpl in Hin; contradiction.
    - intros fq Hin. left. rewrite Forall_forall in Hf. apply Hf; exact Hin.
  Qed.
End Sound.

(* every registry state reachable from a start-up registry that only holds the other collectors' names *)
Definition reachable (g : list (str * str)) (t : list row) (s : wstate) : Prop :=
  exists reg0 es, Forall (fun n => foreign n = true) reg0 /\
    Forall (fun e => exists r, In r t /\ instance_of r e = true) es /\
    s = fst (run (init_state g reg0) es).

Theorem metrics_sound : forall g t s e,
  check (map fst g) t = true -> Forall (fun v => valid_utf8 v = true) (map snd g) -> reachable g t s ->
  (exists r, In r t /\ instance_of r e = true) ->
  snd (emit s e) = Ok.
Proof.
  intros g t s e Hc Hv (reg0 & es & Hf & Hes & ->) He.
  destruct (run_sound g t Hc Hv es _ (init_inv g t reg0 Hf) Hes) as [_ HI].
  destruct (emit_step g t Hc Hv _ e HI He) as (s' & -> & _). reflexivity.
Qed.

Theorem metrics_run_sound : forall g t reg0 es,
  check (map fst g) t = true -> Forall (fun v => valid_utf8 v = true) (map snd g) ->
  Forall (fun n => foreign n = true) reg0 ->
  Forall (fun e => exists r, In r t /\ instance_of r e = true) es ->
  Forall (fun o => o = Ok) (snd (run (init_state g reg0) es)).
Proof.
  intros g t reg0 es Hc Hv Hf Hes.
  exact (proj1 (run_sound g t Hc Hv es _ (init_inv g t reg0 Hf) Hes)).
Qed.

(* the model's panics are real: each ingredient of the check is needed (used as Examples in Props) *)
