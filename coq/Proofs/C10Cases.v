(* The C10 oracle accepts every observation the model produces: this is the property, stated on
   the observable level the correspondence check uses. *)
From KB Require Import Base.Cases Model.Coder Model.C10Cases Proofs.Coder.
Local Open Scope N_scope.

Definition c10_valid (c : c10_case) : Prop :=
  match c with
  | KRound _ r _ => r < two64
  | KCmp _ r1 _ r2 _ => r1 < two64 /\ r2 < two64
  | KEncl _ _ r _ => r < two64
  | KRange _ _ _ r _ => r < two64
  | KBord _ _ _ _ r _ => r < two64
  | _ => True
  end.

Lemma dec_eqb_eq x y : dec_eqb x y = true <-> x = y.
Proof.
  destruct x, y; simpl; split; try congruence; try discriminate.
  - intros H. apply andb_true_iff in H as [H1 H2]. apply beqb_eq in H1. apply N.eqb_eq in H2. congruence.
  - intros H; injection H as -> ->. rewrite beqb_refl, N.eqb_refl. reflexivity.
Qed.

Lemma bleb_spec a b : bleb a b = true <-> bcmp a b <> Gt.
Proof. unfold bleb. destruct (bcmp a b); split; congruence. Qed.
Lemma bltb_spec a b : bltb a b = true <-> bcmp a b = Lt.
Proof. unfold bltb. destruct (bcmp a b); split; congruence. Qed.

Lemma in_bounds_spec lo hi x : in_bounds lo hi x = true <-> (bcmp lo x <> Gt /\ bcmp x hi = Lt).
Proof. unfold in_bounds. rewrite andb_true_iff, bleb_spec, bltb_spec. reflexivity. Qed.

Lemma bool_eq_iff (a b : bool) : (a = true <-> b = true) -> a = b.
Proof. destruct a, b; intros [H1 H2]; try reflexivity; [symmetry; apply H1|apply H2]; reflexivity. Qed.

Lemma with_slash_alpha p : alpha p -> alpha (with_slash p).
Proof.
  intros A. unfold with_slash. destruct (ends_slash p); [exact A|].
  apply Forall_app. split; [exact A|]. constructor; [unfold slash; lia|constructor].
Qed.

Lemma prefix_end_opt_app_some p x : x < 255 -> exists e, prefix_end_opt (p ++ [x]) = Some e.
Proof.
  intros Hx. induction p as [|y p IH]; cbn [app prefix_end_opt].
  - destruct (N.ltb_spec x 255); [eexists; reflexivity|lia].
  - destruct IH as [e ->]. eexists; reflexivity.
Qed.

Lemma rev_cons_decomp (p : bytes) x t : rev p = x :: t -> p = rev t ++ [x].
Proof. intros H. rewrite <- (rev_involutive p), H. reflexivity. Qed.

Lemma with_slash_end p : exists e, prefix_end_opt (with_slash p) = Some e.
Proof.
  unfold with_slash, ends_slash. destruct (rev p) as [|x t] eqn:R.
  - apply prefix_end_opt_app_some. unfold slash; lia.
  - destruct (N.eqb_spec x slash) as [->|_].
    + rewrite (rev_cons_decomp p slash t R). apply prefix_end_opt_app_some. unfold slash; lia.
    + apply prefix_end_opt_app_some. unfold slash; lia.
Qed.

Lemma c10_oracle_sound_raw c : c10_valid c -> c10_check_raw c = true -> c10_oracle c = None.
Proof.
  destruct c as [k r out|ik out|k r out|k1 r1 k2 r2 z|p out|b out|p k r inside|a b k r inside|cfg lo hi k r inside];
    cbn [c10_valid c10_check_raw c10_oracle]; intros V C; try reflexivity.
  - rewrite decode_encode in C by exact V. apply dec_eqb_eq in C. subst out.
    cbn [dec_eqb]. rewrite beqb_refl, N.eqb_refl. reflexivity.
  - destruct (alphab k1) eqn:A1; [|reflexivity]. destruct (alphab k2) eqn:A2; [|reflexivity].
    apply alphab_spec in A1, A2. destruct V as [V1 V2]. cbn [andb].
    rewrite encode_cmp in C by assumption. rewrite C. reflexivity.
  - unfold opt_eqb in C. destruct (parse_revision b) as [x|] eqn:P; destruct out as [y|]; try discriminate.
    + unfold parse_revision in P.
      destruct (Nat.eqb (length b) 8) eqn:E8; [reflexivity|].
      destruct (Nat.eqb (length b) 9) eqn:E9; [reflexivity|discriminate].
    + unfold parse_revision in P.
      destruct (Nat.eqb (length b) 8) eqn:E8; [discriminate|].
      destruct (Nat.eqb (length b) 9) eqn:E9; [discriminate|reflexivity].
  - destruct (alphab p) eqn:Ap; [|reflexivity]. destruct (alphab k) eqn:Ak; [|reflexivity].
    apply alphab_spec in Ap, Ak. cbn [andb]. unfold prefix_end in C.
    destruct (prefix_end_opt p) as [e|] eqn:E; [|reflexivity].
    apply Bool.eqb_prop in C. subst inside.
    replace (has_prefix p k) with (in_bounds (encode p 0) (encode e 0) (encode k r)).
    + rewrite Bool.eqb_reflx. reflexivity.
    + apply bool_eq_iff. rewrite in_bounds_spec. symmetry. apply prefix_bounds; assumption.
  - destruct (alphab a) eqn:Aa; [|reflexivity]. destruct (alphab b) eqn:Ab; [|reflexivity].
    destruct (alphab k) eqn:Ak; [|reflexivity].
    apply alphab_spec in Aa, Ab, Ak. cbn [andb].
    apply Bool.eqb_prop in C. subst inside.
    replace (bleb a k && bltb k b) with (in_bounds (encode a 0) (encode b 0) (encode k r)).
    + rewrite Bool.eqb_reflx. reflexivity.
    + apply bool_eq_iff. rewrite in_bounds_spec. rewrite andb_true_iff, bleb_spec, bltb_spec.
      symmetry. apply range_bounds; assumption.
  - destruct (alphab cfg) eqn:Ac; [|reflexivity]. destruct (alphab k) eqn:Ak; [|reflexivity].
    apply alphab_spec in Ac, Ak. cbn [andb].
    apply andb_true_iff in C as [C C3]. apply andb_true_iff in C as [C1 C2].
    apply beqb_eq in C1, C2. apply Bool.eqb_prop in C3. subst lo hi inside.
    destruct (with_slash_end cfg) as [e E]. unfold prefix_end. rewrite E.
    replace (has_prefix (with_slash cfg) k) with (in_bounds (encode (with_slash cfg) 0) (encode e 0) (encode k r)).
    + rewrite Bool.eqb_reflx. reflexivity.
    + apply bool_eq_iff. rewrite in_bounds_spec. symmetry.
      apply prefix_bounds; [apply with_slash_alpha; exact Ac|exact Ak|exact V|exact E].
Qed.

Lemma c10_validb_sound c : c10_validb c = true -> c10_valid c.
Proof.
  destruct c; cbn [c10_validb c10_valid]; intros H; try exact I;
    try (apply N.ltb_lt; exact H).
  apply andb_true_iff in H as [H1 H2]. split; apply N.ltb_lt; assumption.
Qed.

Lemma c10_oracle_sound c : c10_valid c -> c10_check c = true -> c10_oracle c = None.
Proof.
  intros V C. unfold c10_check in C. apply andb_true_iff in C as [_ C].
  apply c10_oracle_sound_raw; assumption.
Qed.

(* no side condition: the check evaluates validity itself *)
Lemma c10_oracle_sound_checked c : c10_check c = true -> c10_oracle c = None.
Proof.
  intros C. apply c10_oracle_sound; [|exact C].
  unfold c10_check in C. apply andb_true_iff in C as [V _]. apply c10_validb_sound; exact V.
Qed.

(* ---- audit items ---- *)

(* internalKey[4:len-9] would panic for 9 <= len < 13; that slice is never reached: the byte at len-9 then
   lies inside the magic prefix, none of whose bytes is the split byte, so Decode has already answered an error *)
Lemma decode_short ik : (length ik < 13)%nat -> forall k r, decode ik <> DecOk k r.
Proof.
  intros L k r. unfold decode.
  destruct (Nat.ltb (length ik) 4) eqn:E4; [discriminate|].
  destruct (beqb (firstn 4 ik) magic) eqn:EM; cbn [negb]; [|discriminate].
  destruct (Nat.ltb (length ik) 9) eqn:E9; [discriminate|].
  apply beqb_eq in EM.
  destruct ik as [|a [|b [|c [|d rest]]]]; try (cbn in E4; discriminate).
  cbn [firstn] in EM. unfold magic in EM. injection EM as -> -> -> ->.
  apply Nat.ltb_ge in E9. cbn [length] in L, E9.
  assert (H : (length rest = 5 \/ length rest = 6 \/ length rest = 7 \/ length rest = 8)%nat) by lia.
  cbn [length].
  destruct H as [H|[H|[H|H]]]; rewrite H; cbn; discriminate.
Qed.

Lemma with_slash_has_end p : prefix_end_opt (with_slash p) <> None.
Proof. destruct (with_slash_end p) as [e E]. rewrite E. discriminate. Qed.

Lemma encode_contiguous0 k k' r' r2 : alpha k -> alpha k' -> r' < two64 -> r2 < two64 ->
  bcmp (encode k 0) (encode k' r') <> Gt -> bcmp (encode k' r') (encode k r2) <> Gt -> k' = k.
Proof. intros Ak Ak' H1 H2. apply (encode_contiguous k 0 k' r' r2 Ak Ak'); [unfold two64; lia|exact H1|exact H2]. Qed.
