(* Lemmas for C16 (C16Race): etcd linearises conditional writes — of any set of guarded writes of one key that carry the
   same compared mod revision, applied in any serial order, at most one succeeds.  (The backend side of the same claim,
   under true concurrency, is C01_no_double_success.) *)
From Coq Require Import Sorted.
From KB Require Import Model.Etcd Model.C16Cases Proofs.Coder Proofs.Etcd Proofs.EtcdSim.
Local Open Scope Z_scope.

(* a guarded write of key k conditioned on "mod revision of k = e": create-if-absent (e = 0), guarded update, guarded delete *)
Inductive gwrite (k : bytes) (e : Z) : txn_req -> Prop :=
| GwCreate v u lease : union_mod u = 0 -> e = 0 -> gwrite k e (q_create k v u lease)
| GwUpdate v u lease lim : union_mod u = e -> gwrite k e (q_update k v u lease lim)
| GwDelete u lim : union_mod u = e -> e <> 0 -> gwrite k e (q_delete k u lim).

Definition succeeded (r : txn_resp) : bool := match r with TOk _ b _ => b | TErr => false end.

(* the transactions one after the other, each with the next revision *)
Fixpoint serial (s : estate) (nr : Z) (ts : list txn_req) : list bool :=
  match ts with
  | [] => []
  | t :: ts' => succeeded (snd (etcd_txn s nr t)) :: serial (fst (etcd_txn s nr t)) (nr + 1) ts'
  end.

Definition cmp_holds (s : estate) (k : bytes) (e : Z) : bool :=
  match e_find k (e_cur s) with Some y => k_mod y =? e | None => 0 =? e end.

Lemma cmp_holds_eval s k u : esorted (e_cur s) -> eval_cmps (e_cur s) [q_cmp k u] = cmp_holds s k (union_mod u).
Proof. intros Hs. rewrite (eval_mod_cmp s k u Hs). reflexivity. Qed.

Lemma etcd_create_closed se nr k v u lease : k <> [] -> esorted (e_cur se) ->
  etcd_txn se nr (q_create k v u lease) =
  if eval_cmps (e_cur se) [q_cmp k u] then
    match e_find k (e_cur se) with
    | None => let n := mkKv k v nr nr 1 lease in
        (mkE nr (Z.max (e_now se) nr) (e_set n (e_cur se)) ((nr, e_set n (e_cur se)) :: e_hist se) (e_events se ++ [WEv false n None]),
         TOk nr true [RsPut nr None])
    | Some o => let n := mkKv k v (k_create o) nr (k_ver o + 1) lease in
        (mkE nr (Z.max (e_now se) nr) (e_set n (e_cur se)) ((nr, e_set n (e_cur se)) :: e_hist se) (e_events se ++ [WEv false n (Some o)]),
         TOk nr true [RsPut nr None])
    end
  else (e_tick se nr, TOk (e_rev se) false []).
Proof.
  intros Hk Hs. unfold etcd_txn. rewrite (wf_create k v u lease Hk). cbn [negb].
  change (t_cmp (q_create k v u lease)) with [q_cmp k u].
  change (t_succ (q_create k v u lease)) with [q_put k v lease].
  change (t_fail (q_create k v u lease)) with (@nil reqop).
  destruct (eval_cmps (e_cur se) [q_cmp k u]); [|reflexivity].
  unfold q_put. cbn [apply_ops apply_op].
  destruct (e_find k (e_cur se)) as [o|] eqn:Ef.
  - rewrite (apply_put_old nr _ _ _ k v lease o Ef). reflexivity.
  - rewrite (apply_put_new nr _ _ _ k v lease Ef). reflexivity.
Qed.

Lemma cmp_after_put s nr k n h ev e : k_key n = k -> k_mod n = nr -> e < nr ->
  cmp_holds (mkE nr (Z.max (e_now s) nr) (e_set n (e_cur s)) h ev) k e = false.
Proof.
  intros Hk Hm He. unfold cmp_holds; cbn [e_cur]. rewrite e_find_set, Hk, beqb_refl, Hm. apply Z.eqb_neq. lia.
Qed.

Lemma cmp_after_del s nr k h ev e : e <> 0 ->
  cmp_holds (mkE nr (Z.max (e_now s) nr) (e_remove_range k [] (e_cur s)) h ev) k e = false.
Proof.
  intros He. unfold cmp_holds, e_remove_range; cbn [e_cur].
  rewrite (e_find_filter (fun key => negb (in_range k [] key))). cbn [in_range]. rewrite beqb_refl. cbn. destruct e; [lia|reflexivity|reflexivity].
Qed.

(* one step: sortedness is kept; a failed guard stays failed and the write fails; a successful write falsifies the guard;
   a write whose guard holds succeeds *)
Ltac step_true tac :=
  cbn [fst snd succeeded e_cur]; split; [tac|]; split; [intros H; discriminate H|];
  split; [intros _|intros _; reflexivity].
Ltac step_false Hs Ec :=
  cbn [fst snd succeeded]; split; [exact Hs|];
  split; [intros _; split; [reflexivity|unfold cmp_holds in *; cbn; exact Ec]|];
  split; intros H; discriminate H.

Lemma gwrite_step s nr k e t : gwrite k e t -> esorted (e_cur s) -> k <> [] -> e < nr ->
  esorted (e_cur (fst (etcd_txn s nr t)))
  /\ (cmp_holds s k e = false -> succeeded (snd (etcd_txn s nr t)) = false /\ cmp_holds (fst (etcd_txn s nr t)) k e = false)
  /\ (succeeded (snd (etcd_txn s nr t)) = true -> cmp_holds (fst (etcd_txn s nr t)) k e = false)
  /\ (cmp_holds s k e = true -> succeeded (snd (etcd_txn s nr t)) = true).
Proof.
  intros Hg Hs Hk He. destruct Hg as [v u lease Hu E0 | v u lease lim Hu | u lim Hu Hne].
  - (* create *)
    rewrite (etcd_create_closed s nr k v u lease Hk Hs), (cmp_holds_eval s k u Hs), Hu. subst e.
    destruct (cmp_holds s k 0) eqn:Ec.
    + destruct (e_find k (e_cur s)) as [o|] eqn:Ef; step_true ltac:(apply esorted_set; assumption);
        apply cmp_after_put; try reflexivity; assumption.
    + step_false Hs Ec.
  - (* update *)
    pose proof (cmp_holds_eval s k u Hs) as Hc. rewrite Hu in Hc.
    destruct (cmp_holds s k e) eqn:Ec.
    + destruct (e_find k (e_cur s)) as [o|] eqn:Ef.
      * rewrite (etcd_update_succ_old s nr k v u lease lim o Hk Hs Hc Ef). step_true ltac:(apply esorted_set; assumption).
        apply cmp_after_put; try reflexivity; assumption.
      * rewrite (etcd_update_succ_new s nr k v u lease lim Hk Hs Hc Ef). step_true ltac:(apply esorted_set; assumption).
        apply cmp_after_put; try reflexivity; assumption.
    + rewrite (etcd_update_fail s nr k v u lease lim Hk Hs Hc). step_false Hs Ec.
  - (* delete *)
    pose proof (cmp_holds_eval s k u Hs) as Hc. rewrite Hu in Hc.
    destruct (cmp_holds s k e) eqn:Ec.
    + destruct (e_find k (e_cur s)) as [o|] eqn:Ef.
      * rewrite (etcd_delete_succ s nr k u lim o Hk Hs Hc Ef). step_true ltac:(apply esorted_filter; assumption).
        apply cmp_after_del. assumption.
      * (* the guard "mod = e" with e <> 0 cannot hold on a missing key *)
        exfalso. unfold cmp_holds in Ec. rewrite Ef in Ec. apply Z.eqb_eq in Ec. lia.
    + rewrite (etcd_delete_fail s nr k u lim Hk Hs Hc). step_false Hs Ec.
Qed.

Definition count_true (l : list bool) : nat := List.length (filter (fun b => b) l).

Lemma all_fail_after s nr k e ts : Forall (gwrite k e) ts -> esorted (e_cur s) -> k <> [] -> e < nr ->
  cmp_holds s k e = false -> count_true (serial s nr ts) = 0%nat.
Proof.
  revert s nr. induction ts as [|t ts IH]; intros s nr Hts Hs Hk He Hc; [reflexivity|].
  inversion Hts as [|? ? Ht Hrest]; subst.
  destruct (gwrite_step s nr k e t Ht Hs Hk He) as (Hs' & Hfail & _ & _). destruct (Hfail Hc) as [Hf Hc'].
  cbn [serial]. unfold count_true. cbn [filter]. rewrite Hf. apply (IH _ (nr + 1) Hrest Hs' Hk ltac:(lia) Hc').
Qed.

(* at most one of any list of guarded writes on the same compared revision succeeds, whatever the order of the list *)
Lemma etcd_linearises : forall s nr k e ts, Forall (gwrite k e) ts -> esorted (e_cur s) -> k <> [] -> e < nr ->
  (count_true (serial s nr ts) <= 1)%nat.
Proof.
  intros s nr k e ts. revert s nr. induction ts as [|t ts IH]; intros s nr Hts Hs Hk He; [cbn; lia|].
  inversion Hts as [|? ? Ht Hrest]; subst.
  destruct (gwrite_step s nr k e t Ht Hs Hk He) as (Hs' & _ & Hsucc & _).
  cbn [serial]. unfold count_true. cbn [filter].
  destruct (succeeded (snd (etcd_txn s nr t))) eqn:E.
  - cbn [List.length]. pose proof (all_fail_after _ (nr + 1) k e ts Hrest Hs' Hk ltac:(lia) (Hsucc eq_refl)) as H0.
    unfold count_true in H0. rewrite H0. lia.
  - apply (IH _ (nr + 1) Hrest Hs' Hk). lia.
Qed.

(* and exactly one when the guard holds at the start and somebody writes *)
Lemma etcd_linearises_exact : forall s nr k e t ts, Forall (gwrite k e) (t :: ts) -> esorted (e_cur s) -> k <> [] -> e < nr ->
  cmp_holds s k e = true -> count_true (serial s nr (t :: ts)) = 1%nat.
Proof.
  intros s nr k e t ts Hts Hs Hk He Hc. inversion Hts as [|? ? Ht Hrest]; subst.
  destruct (gwrite_step s nr k e t Ht Hs Hk He) as (Hs' & _ & Hsucc & Hfirst).
  cbn [serial]. unfold count_true. cbn [filter]. rewrite (Hfirst Hc). cbn [List.length].
  pose proof (all_fail_after _ (nr + 1) k e ts Hrest Hs' Hk ltac:(lia) (Hsucc (Hfirst Hc))) as H0.
  unfold count_true in H0. rewrite H0. reflexivity.
Qed.

(* the C16Race oracle's clause (exactly one winner of each race) is the image of the lemma: whatever serial order the
   racing creates (the key is absent: the guard "mod = 0" holds) and the racing updates (the guard holds: they carry the
   revision just read) took in the reference, the counts are accepted; no other counts are *)
Lemma race_oracle_image : forall s1 nr1 k e1 t1 ts1 s2 nr2 e2 t2 ts2 clients rounds,
  Forall (gwrite k e1) (t1 :: ts1) -> esorted (e_cur s1) -> e1 < nr1 -> cmp_holds s1 k e1 = true ->
  Forall (gwrite k e2) (t2 :: ts2) -> esorted (e_cur s2) -> e2 < nr2 -> cmp_holds s2 k e2 = true -> k <> [] ->
  c16_oracle (C16Race clients rounds (N.of_nat (count_true (serial s1 nr1 (t1 :: ts1)))) (N.of_nat (count_true (serial s2 nr2 (t2 :: ts2))))) = None.
Proof.
  intros s1 nr1 k e1 t1 ts1 s2 nr2 e2 t2 ts2 clients rounds H1 Hs1 He1 Hc1 H2 Hs2 He2 Hc2 Hk.
  rewrite (etcd_linearises_exact s1 nr1 k e1 t1 ts1 H1 Hs1 Hk He1 Hc1), (etcd_linearises_exact s2 nr2 k e2 t2 ts2 H2 Hs2 Hk He2 Hc2).
  reflexivity.
Qed.

Lemma race_oracle_exact clients rounds mc mu : c16_oracle (C16Race clients rounds mc mu) = None <-> mc = 1%N /\ mu = 1%N.
Proof.
  cbn [c16_oracle]. destruct (N.eqb_spec mc 1), (N.eqb_spec mu 1); cbn; split; intros H; try discriminate H; try tauto; destruct H; contradiction.
Qed.

(* non-vacuity: eight racing creates of one key, then eight updates conditioned on the winner's revision *)
Definition race_key : bytes := [47; 97]%N.
Definition race_creates : list txn_req := map (fun v => q_create race_key [v] (UMod 0) 0) [1; 2; 3; 4; 5; 6; 7; 8]%N.
Definition race_updates : list txn_req := map (fun v => q_update race_key [v] (UMod 11) 0 0) [1; 2; 3; 4; 5; 6; 7; 8]%N.

Lemma race_example :
  serial (e_init 10) 11 race_creates = [true; false; false; false; false; false; false; false]
  /\ Forall (gwrite race_key 0) race_creates /\ Forall (gwrite race_key 11) race_updates
  /\ count_true (serial (fst (etcd_txn (e_init 10) 11 (q_create race_key [1%N] (UMod 0) 0))) 12 race_updates) = 1%nat.
Proof.
  split; [vm_compute; reflexivity|]. split; [|split; [|vm_compute; reflexivity]].
  - unfold race_creates. cbn [map]. repeat constructor.
  - unfold race_updates. cbn [map]. repeat constructor.
Qed.
