(* C17: the boolean validity of a case (Model/C17Valid.v) implies the hypotheses of the oracle-soundness theorems; the
   theorems restated on what the shards evaluate; the Backend.Compact step (SCompactReq) under the scanner theorems. *)
From KB Require Import Base.Cases Model.Coder Model.CompactSys Model.C07Cases Model.C07Valid Model.C17Cases Model.C17Valid
  Proofs.Coder Proofs.CompactFloor Proofs.CompactSafe Proofs.CompactWf Proofs.CompactPass Proofs.CompactRanges Proofs.CompactExpiry
  Proofs.CompactOracle Proofs.CompactTtl Proofs.CompactValid Proofs.CompactScan.
From Coq Require Import Sorted.
Local Open Scope N_scope.

Lemma monob_spec : forall evs now n, monob now n evs = true -> mono now n evs.
Proof.
  induction evs as [|ev evs IH]; intros now n H; [exact I|].
  destruct ev as [t k v rv|t k v rv|t k rv|t obs]; cbn [monob mono] in *.
  - apply andb_true_iff in H as [H H3]. apply andb_true_iff in H as [H1 H2]. apply N.leb_le in H1, H2. auto.
  - apply andb_true_iff in H as [H H3]. apply andb_true_iff in H as [H1 H2]. apply N.leb_le in H1, H2. auto.
  - apply andb_true_iff in H as [H H3]. apply andb_true_iff in H as [H1 H2]. apply N.leb_le in H1, H2. auto.
  - apply andb_true_iff in H as [H1 H2]. apply N.leb_le in H1. auto.
Qed.

(* the engine-TTL cases: validity decided *)
Lemma c17_validb_engine_ttl e prefix ttl_ms evs fin :
  c17_validb (KEngineTtl e prefix ttl_ms evs fin) = true ->
  mono 0 0 evs /\
  (forall V, ttl_run e prefix ttl_ms (mkTS [] []) evs = Some V ->
             wfd V /\ fresh V 1000000 /\ 1000000 + N.of_nat (length fin) <= max_rev).
Proof.
  cbn [c17_validb]. intros H. apply andb_true_iff in H as [Hm Hv]. split; [apply monob_spec; exact Hm|].
  intros V EV. rewrite EV in Hv. apply andb_true_iff in Hv as [Hv H3]. apply andb_true_iff in Hv as [H1 H2].
  split; [apply wfdb_spec; exact H1|]. split; [apply freshb_spec; exact H2|apply N.leb_le; exact H3].
Qed.

(* ---------- scanner histories: validity decided ---------- *)

Lemma store_okb_spec V : store_okb V = true -> store_ok V.
Proof.
  unfold store_okb. intros H. apply andb_true_iff in H as [H H3]. apply andb_true_iff in H as [H1 H2].
  apply sortedb_sorted in H1. constructor.
  - apply sorted_nodup. exact H1.
  - apply sorted_slot_inj. exact H1.
  - intros y Hy E. rewrite forallb_forall in H2. specialize (H2 _ Hy). rewrite E in H2. discriminate.
  - intros k r v Hy. rewrite forallb_forall in H3. specialize (H3 _ Hy). cbn in H3. apply N.ltb_lt. exact H3.
Qed.

Lemma scan_validb_spec : forall steps V, scan_validb V steps = true -> scan_valid V steps.
Proof.
  induction steps as [|st steps IH]; intros V H; [exact I|].
  destruct st as [d|now R lo hi oc d|now cur req lo hi oc d]; cbn [scan_validb scan_valid] in *.
  - apply IH. exact H.
  - repeat (apply andb_true_iff in H as [H ?]). destruct oc; [|discriminate].
    split; [reflexivity|]. split; [apply store_okb_spec; assumption|]. split; [apply wfdb_spec; assumption|apply IH; assumption].
  - repeat (apply andb_true_iff in H as [H ?]). destruct oc; [|discriminate].
    split; [reflexivity|]. split; [apply store_okb_spec; assumption|]. split; [apply wfdb_spec; assumption|apply IH; assumption].
Qed.

Lemma nodup_keysb_spec l : nodup_keysb l = true -> NoDup l.
Proof.
  induction l as [|k l IH]; intros H; [constructor|]. cbn [nodup_keysb] in H. apply andb_true_iff in H as [H1 H2].
  constructor; [|apply IH; exact H2]. intros Hin. apply negb_true_iff in H1.
  assert (existsb (beqb k) l = true); [|congruence]. apply existsb_exists. exists k. split; [exact Hin|apply beqb_refl].
Qed.

(* a scanner history without a writer inside a pass: the oracle reports nothing *)
Theorem kscan_sound prefix ttl sup pre steps fin extra :
  scan_validb pre steps = true -> scan_final_validb (store_after pre steps) fin = true ->
  c17_check (KScan prefix ttl sup pre steps fin extra) = true ->
  c17_oracle (KScan prefix ttl sup pre steps fin extra) = None.
Proof.
  intros Hv Hf Hc. cbn [c17_check c17_oracle] in *.
  apply andb_true_iff in Hc as [Hc He]. apply andb_true_iff in Hc as [_ Hc].
  destruct (scan_run (events_prefix prefix) ttl sup pre [] steps) as [Vf|] eqn:Er; [|discriminate].
  destruct (scan_sound prefix ttl sup steps pre [] [] Vf) as (Ho & EV); [intros x []|apply scan_validb_spec; exact Hv|exact Er|].
  rewrite Ho. cbn [worse]. subst Vf.
  unfold scan_final_validb in Hf. do 4 (apply andb_true_iff in Hf as [Hf ?]).
  rewrite (final_sound (store_after pre steps) fin (store_after pre steps) 1000000), He; [reflexivity| | | | | | |exact Hc].
  - apply wfdb_spec. exact Hf.
  - apply freshb_spec. exact H2.
  - apply N.leb_le. exact H1.
  - apply nodup_keysb_spec. exact H0.
  - apply Forall_forall. intros e Hin. rewrite forallb_forall in H. specialize (H _ Hin).
    destruct (snd (fst (fst e))) as [[r v]|]; [apply N.ltb_lt; exact H|exact I].
  - reflexivity.
Qed.

(* what the shards evaluate is covered by the theorems: a case of a claimed kind (scanner histories without a writer inside a
   pass, TTL choice, TTL arguments of a write, engine TTL) that passes c17_check_v has nothing for the oracle to report *)
Theorem c17_oracle_sound_v c : c17_check_v c = true -> c17_claimed c = true -> c17_oracle c = None.
Proof.
  unfold c17_check_v. intros H Hc. apply andb_true_iff in H as [Hv Hk].
  destruct c as [prefix ttl sup pre steps fin extra|prefix ettl k ttls|prefix ettl op lease k ttls|e prefix ttl_ms evs fin|].
  - cbn [c17_claimed c17_validb] in *. rewrite Hc in Hv. apply andb_true_iff in Hv as [Hv1 Hv2].
    apply kscan_sound; assumption.
  - apply c17_oracle_sound_ttl_choice. exact Hk.
  - apply c17_oracle_sound_ttl_write. exact Hk.
  - destruct (c17_validb_engine_ttl e prefix ttl_ms evs fin Hv) as (Hm & Hw).
    apply c17_engine_ttl_sound; assumption.
  - reflexivity.
Qed.

(* ---------- a compaction through Backend.Compact(req) at committed revision cur (SCompactReq) ---------- *)

(* pass and mark are at clamp cur 0 req, which never exceeds the committed revision: the mark of a request cannot cover
   revisions not handed out yet, however far ahead the request names one *)
Theorem scanner_marks_req evp sup ttl now cur req lo hi q d0 marks :
  incl q marks ->
  let R := clamp cur 0 req in
  R <= cur /\
  let '(q', tr, d) := scanner_compact evp sup ttl now R lo hi q d0 in
  incl q' (marks ++ [(R, now)]) /\
  (tr = 0 \/ exists m, old_mark_rev ttl now (marks ++ [(R, now)]) = Some m /\ tr <= m).
Proof.
  intros Hq. cbv zeta. split; [apply clamp_le|]. apply scanner_marks. exact Hq.
Qed.

Theorem scanner_expiry_tests_req prefix sup ttl now cur req lo hi q V oc marks :
  incl q marks ->
  let R := clamp cur 0 req in
  let '(q', tr, d) := scanner_compact (events_prefix prefix) sup ttl now R lo hi q (init_d V oc) in
  Forall (fun s => compaction_target R (ds_target s) \/
                   (In (ds_target s) V /\ negb (is_event_key prefix (rkey (ds_target s))) = false /\
                    exists m, old_mark_rev ttl now (marks ++ [(R, now)]) = Some m /\
                              negb (rec_rev (ds_target s) <=? m) = false)) (d_trace d).
Proof. intros Hq. cbv zeta. apply scanner_expiry_tests. exact Hq. Qed.

(* the model's step and the oracle's step for SCompactReq are those of SCompact at the clamped revision *)
Lemma scan_run_req evp ttl sup V q now cur req lo hi oc d t :
  scan_run evp ttl sup V q (SCompactReq now cur req lo hi oc d :: t) =
  scan_run evp ttl sup V q (SCompact now (clamp cur 0 req) lo hi oc d :: t).
Proof. reflexivity. Qed.

Lemma scan_oracle_req prefix ttl V marks now cur req lo hi oc d t :
  scan_oracle prefix ttl V marks (SCompactReq now cur req lo hi oc d :: t) =
  scan_oracle prefix ttl V marks (SCompact now (clamp cur 0 req) lo hi oc d :: t).
Proof. reflexivity. Qed.
