(* Invariants of RevSys, for every label list. *)
From KB Require Import Model.RevSys.
From Coq Require Import ZifyN ZifyNat ZifyBool Lia.
Local Open Scope N_scope.
Ltac Zify.zify_post_hook ::= Z.to_euclidean_division_equations.

Lemma mod_cap_inj a b c :
  c < a -> a < c + cap -> c < b -> b < c + cap -> a mod cap = b mod cap -> a = b.
Proof. unfold cap. intros. lia. Qed.

Lemma upd_same {A} (f : N -> A) i v : upd f i v i = v.
Proof. unfold upd. rewrite N.eqb_refl. reflexivity. Qed.

Lemma upd_other {A} (f : N -> A) i j v : j <> i -> upd f i v j = f j.
Proof. unfold upd. intros H. destruct (N.eqb_spec j i); [contradiction|reflexivity]. Qed.

Lemma mem_N_In x l : mem_N x l = true <-> In x l.
Proof.
  induction l as [|y l IH]; simpl; [split; [discriminate|tauto]|].
  rewrite orb_true_iff, IH. destruct (N.eqb_spec y x); split; intros H; auto.
  - destruct H as [H|H]; [discriminate|auto].
  - destruct H as [H|H]; [contradiction|auto].
Qed.

Lemma remove_N_In x y l : In y (remove_N x l) <-> In y l /\ y <> x.
Proof.
  induction l as [|z l IH]; simpl; [tauto|].
  destruct (N.eqb_spec z x) as [->|Hne]; simpl; rewrite IH; split; intros; intuition congruence.
Qed.

Lemma remove_N_NoDup x l : NoDup l -> NoDup (remove_N x l).
Proof.
  induction 1 as [|z l Hn Hd IH]; simpl; [constructor|].
  destruct (N.eqb_spec z x); [exact IH|]. constructor; [|exact IH].
  rewrite remove_N_In. tauto.
Qed.

(* the highest revision the sequencer has consumed *)
Definition frontier (s : rstate) : N :=
  match seq s with SqStore r | SqStoreCas r _ => r | _ => committed s end.

Record rinv (s : rstate) : Prop := {
  ri_fd : frontier s <= dealt s;
  ri_cf : committed s <= frontier s;
  ri_held : forall t r, In r (held s t) -> frontier s < r <= dealt s;
  ri_nodup : forall t, NoDup (held s t);
  ri_disj : forall t1 t2 r, In r (held s t1) -> In r (held s t2) -> t1 = t2;
  ri_excl : forall t r v, In r (held s t) -> slots s (r mod cap) = Some v -> sv_rev v <> r;
  ri_slot : forall i v, slots s i = Some v ->
            sv_rev v mod cap = i /\ frontier s < sv_rev v /\ sv_rev v < committed s + cap /\ sv_rev v <= dealt s;
  ri_acc : forall r, frontier s < r -> r <= dealt s ->
           (exists t, In r (held s t)) \/ (exists v, slots s (r mod cap) = Some v /\ sv_rev v = r);
  ri_seq : match seq s with
           | SqIdle => True
           | SqGot r => r = committed s + 1 /\ exists v, slots s (r mod cap) = Some v /\ sv_rev v = r
           | SqStore r => r = committed s + 1
           | SqStoreCas r cur => r = committed s + 1 /\ cur = committed s
           | SqLoadDealt r => committed s = r
           | SqCas r pre => committed s = r /\ r <= pre
           end
}.

Lemma rinv_init d0 : rinv (rinit d0).
Proof.
  constructor; unfold frontier; simpl; intros; try lia; try contradiction; try discriminate; auto.
  constructor.
Qed.

Lemma rinv_deal s t : rinv s -> rinv (r_deal s t).
Proof.
  intros I. destruct I as [Hfd Hcf Hh Hnd Hdj Hex Hsl Hacc Hsq].
  assert (Hfr : frontier (r_deal s t) = frontier s) by reflexivity.
  constructor; rewrite ?Hfr; simpl.
  - lia.
  - exact Hcf.
  - intros t' r. unfold upd. destruct (N.eqb_spec t' t) as [->|_].
    + simpl. intros [<-|Hin]; [lia|]. specialize (Hh _ _ Hin). lia.
    + intros Hin. specialize (Hh _ _ Hin). lia.
  - intros t'. unfold upd. destruct (N.eqb_spec t' t) as [->|_]; [|apply Hnd].
    constructor; [|apply Hnd]. intros Hin. specialize (Hh _ _ Hin). lia.
  - intros t1 t2 r. unfold upd.
    destruct (N.eqb_spec t1 t) as [->|H1]; destruct (N.eqb_spec t2 t) as [->|H2]; simpl; auto.
    + intros [<-|Hin] Hin2; [specialize (Hh _ _ Hin2); lia|]. exact (Hdj _ _ _ Hin Hin2).
    + intros Hin1 [<-|Hin]; [specialize (Hh _ _ Hin1); lia|]. exact (Hdj _ _ _ Hin1 Hin).
    + apply Hdj.
  - intros t' r v. unfold upd. destruct (N.eqb_spec t' t) as [->|_].
    + simpl. intros [<-|Hin] Hs; [|exact (Hex _ _ _ Hin Hs)].
      destruct (Hsl _ _ Hs) as (_ & _ & _ & Hle). lia.
    + apply Hex.
  - intros i v Hs. destruct (Hsl _ _ Hs) as (A & B & C & D). repeat split; auto; lia.
  - intros r Hlo Hhi. destruct (N.eq_dec r (dealt s + 1)) as [->|Hne].
    + left. exists t. rewrite upd_same. left. reflexivity.
    + destruct (Hacc r Hlo ltac:(lia)) as [[t' Hin]|Hs]; [|right; exact Hs].
      left. exists t'. unfold upd. destruct (N.eqb_spec t' t) as [->|_]; [right|]; exact Hin.
  - exact Hsq.
Qed.

Lemma sub64_ge a b : b <= a -> sub64 a b = a - b.
Proof. unfold sub64. intros H. destruct (N.ltb_spec a b); [lia|reflexivity]. Qed.

Lemma rinv_notify s t rev valid : rinv s -> In rev (held s t) -> rinv (r_notify s t rev valid).
Proof.
  intros I Hin. pose proof I as [Hfd Hcf Hh Hnd Hdj Hex Hsl Hacc Hsq].
  pose proof (Hh _ _ Hin) as Hrev.
  unfold r_notify. destruct (N.eqb_spec rev 0) as [->|Hnz]; [exact I|].
  rewrite sub64_ge by lia.
  destruct (N.leb_spec cap (rev - committed s)) as [Hfull|Hroom].
  - (* panic: nothing but the flag changes *)
    constructor; simpl; auto.
  - assert (Hfr : forall sl hd lg, frontier {| dealt := dealt s; committed := committed s; slots := sl; seq := seq s;
                                     held := hd; rlog := lg; rpanic := rpanic s |} = frontier s) by reflexivity.
    constructor; rewrite ?Hfr; simpl; auto.
    + intros t' r. unfold upd at 1. destruct (N.eqb_spec t' t) as [->|_]; [|apply Hh].
      rewrite remove_N_In. intros [H _]. apply (Hh _ _ H).
    + intros t'. unfold upd. destruct (N.eqb_spec t' t) as [->|_]; [|apply Hnd].
      apply remove_N_NoDup, Hnd.
    + intros t1 t2 r. unfold upd.
      destruct (N.eqb_spec t1 t) as [->|H1]; destruct (N.eqb_spec t2 t) as [->|H2]; auto;
        rewrite ?remove_N_In; intros; intuition eauto.
    + intros t' r v Hin' Hs.
      assert (Hr : In r (held s t') /\ r <> rev).
      { revert Hin'. unfold upd. destruct (N.eqb_spec t' t) as [->|Hne].
        - rewrite remove_N_In. tauto.
        - intros H. split; [exact H|]. intros ->. apply Hne. exact (Hdj _ _ _ H Hin). }
      destruct Hr as [Hr Hne]. revert Hs. unfold upd.
      destruct (N.eqb_spec (r mod cap) (rev mod cap)) as [_|_].
      * intros [= <-]. simpl. congruence.
      * apply (Hex t'). exact Hr.
    + intros i v. unfold upd. destruct (N.eqb_spec i (rev mod cap)) as [->|_].
      * intros [= <-]. simpl. repeat split; try lia.
      * apply Hsl.
    + intros r Hlo Hhi. destruct (N.eq_dec r rev) as [->|Hne].
      * right. eexists. rewrite upd_same. split; reflexivity.
      * destruct (Hacc r Hlo Hhi) as [[t' Hin']|[v [Hs Hv]]].
        -- left. exists t'. unfold upd. destruct (N.eqb_spec t' t) as [->|_]; [|exact Hin'].
           rewrite remove_N_In. tauto.
        -- right. exists v. split; [|exact Hv]. rewrite upd_other; [exact Hs|].
           intros Heq. destruct (Hsl _ _ Hs) as (_ & B & C & _). rewrite Hv in *.
           apply Hne. apply (mod_cap_inj r rev (committed s)); lia.
    + destruct (seq s); auto. destruct Hsq as [E [v [Hs Hv]]]. split; [exact E|].
      destruct (N.eq_dec (r mod cap) (rev mod cap)) as [Heq|Hneq].
      * (* the held revision cannot collide with the one the sequencer is taking *)
        exfalso. destruct (Hsl _ _ Hs) as (_ & B & C & _). rewrite Hv in *.
        assert (Hrr : r = rev) by (apply (mod_cap_inj r rev (committed s)); unfold frontier in *; simpl in *; lia).
        rewrite Hrr in Hs, Hv. exact (Hex _ _ _ Hin Hs Hv).
      * exists v. rewrite upd_other by exact Hneq. auto.
Qed.

Lemma rinv_seq s : rinv s -> rinv (r_seq s).
Proof.
  intros I. pose proof I as [Hfd Hcf Hh Hnd Hdj Hex Hsl Hacc Hsq].
  unfold r_seq. destruct (seq s) as [|r|r|r cur|r|r pre] eqn:Eseq.
  - (* idle: load *)
    destruct (slots s ((committed s + 1) mod cap)) as [v|] eqn:Es; [|exact I].
    assert (Hfr : frontier (set_seq s (SqGot (sv_rev v))) = frontier s)
      by (unfold frontier; simpl; rewrite Eseq; reflexivity).
    assert (Hv : sv_rev v = committed s + 1).
    { destruct (Hsl _ _ Es) as (A & B & C & _). unfold frontier in B. rewrite Eseq in B.
      apply (mod_cap_inj _ _ (committed s)); lia. }
    constructor; rewrite ?Hfr; simpl; auto.
    split; [exact Hv|]. exists v. rewrite Hv. auto.
  - (* clear the slot; the revision is now in transit *)
    destruct Hsq as [Er [v [Hs Hv]]].
    assert (Hf0 : frontier s = committed s) by (unfold frontier; rewrite Eseq; reflexivity).
    destruct (Hsl _ _ Hs) as (_ & _ & _ & Hrd). rewrite Hv in Hrd.
    constructor; unfold frontier; simpl; rewrite ?Hf0 in *.
    + lia.
    + lia.
    + intros t r' Hin. specialize (Hh _ _ Hin).
      assert (r' <> r) by (intros ->; exact (Hex _ _ _ Hin Hs Hv)). lia.
    + exact Hnd.
    + exact Hdj.
    + intros t r' v' Hin. unfold upd. destruct (N.eqb_spec (r' mod cap) (r mod cap)); [discriminate|].
      apply (Hex t). exact Hin.
    + intros i v'. unfold upd. destruct (N.eqb_spec i (r mod cap)); [discriminate|].
      intros Hs'. destruct (Hsl _ _ Hs') as (A & B & C & D). rewrite ?Hf0 in B.
      repeat split; auto. assert (sv_rev v' <> r); [|lia].
      intros Heq. apply n. rewrite <- A, Heq. reflexivity.
    + intros r' Hlo Hhi. destruct (Hacc r' ltac:(lia) Hhi) as [Hl|[v' [Hs' Hv']]]; [left; exact Hl|].
      right. exists v'. split; [|exact Hv']. rewrite upd_other; [exact Hs'|].
      intros Heq. destruct (Hsl _ _ Hs') as (_ & B & C & _). rewrite ?Hf0 in B. rewrite Hv' in B, C.
      assert (r' = r) by (apply (mod_cap_inj _ _ (committed s)); lia). lia.
    + exact Er.
  - (* raise-only commit: load committed *)
    assert (Hf0 : frontier s = r) by (unfold frontier; rewrite Eseq; reflexivity).
    constructor; unfold frontier; simpl; rewrite ?Hf0 in *; auto; try lia.
  - (* raise-only commit: the compare-and-swap succeeds, nobody else writes committed here *)
    destruct Hsq as [Er Ecur]. subst cur.
    assert (Hf0 : frontier s = r) by (unfold frontier; rewrite Eseq; reflexivity).
    destruct (N.leb_spec r (committed s)); [lia|]. rewrite N.eqb_refl.
    constructor; unfold frontier; simpl; rewrite ?Hf0 in *; auto; try lia.
    intros i v Hs. destruct (Hsl _ _ Hs) as (A & B & C & D). repeat split; auto; lia.
  - (* load dealt *)
    assert (Hf0 : frontier s = committed s) by (unfold frontier; rewrite Eseq; reflexivity).
    assert (Hfr : frontier (set_seq s (SqCas r (dealt s))) = frontier s) by (unfold frontier; simpl; rewrite Eseq; reflexivity).
    constructor; rewrite ?Hfr; simpl; auto. split; [exact Hsq|]. lia.
  - (* the compare-and-swap never fires *)
    destruct Hsq as [Ec Hle].
    destruct (N.ltb_spec pre r); [lia|].
    assert (Hfr : frontier (set_seq s SqIdle) = frontier s) by (unfold frontier; simpl; rewrite Eseq; reflexivity).
    constructor; rewrite ?Hfr; simpl; auto.
Qed.

Lemma rinv_step s l : rinv s -> rinv (rstep s l).
Proof.
  intros I. unfold rstep. destruct (renabled s l) eqn:E; [|exact I].
  destruct l as [t|t rev valid|].
  - apply rinv_deal, I.
  - unfold renabled in E. apply andb_true_iff in E. destruct E as [_ E]. apply orb_true_iff in E.
    destruct E as [E|E].
    + apply N.eqb_eq in E. subst rev. exact I.
    + apply rinv_notify; [exact I|]. apply mem_N_In, E.
  - apply rinv_seq, I.
Qed.

Lemma rinv_run ls : forall s, rinv s -> rinv (rrun ls s).
Proof. induction ls as [|l ls IH]; intros s I; simpl; [exact I|]. apply IH, rinv_step, I. Qed.

Theorem rinv_reachable ls d0 : rinv (rrun ls (rinit d0)).
Proof. apply rinv_run, rinv_init. Qed.

(* ---------- consequences ---------- *)

(* a revision that has been allocated and not yet reported is above the read revision *)
Lemma held_above_committed s t r : rinv s -> In r (held s t) -> committed s < r.
Proof. intros I Hin. pose proof (ri_held s I _ _ Hin). pose proof (ri_cf s I). lia. Qed.

Lemma held_le_dealt s t r : rinv s -> In r (held s t) -> r <= dealt s.
Proof. intros I Hin. pose proof (ri_held s I _ _ Hin). lia. Qed.

(* only Deal moves the allocation counter: the CAS in tso.Commit is dead *)
Lemma dealt_step s l : rinv s ->
  dealt (rstep s l) = match l with RDeal _ => if rpanic s then dealt s else dealt s + 1 | _ => dealt s end.
Proof.
  intros I. unfold rstep, renabled. destruct (rpanic s) eqn:Ep; simpl.
  - destruct l; reflexivity.
  - destruct l as [t|t rev valid|]; simpl.
    + reflexivity.
    + destruct (_ || _); [|reflexivity]. unfold r_notify.
      destruct (rev =? 0); [reflexivity|]. destruct (cap <=? _); reflexivity.
    + unfold r_seq. destruct (seq s) as [|r|r|r cur|r|r pre] eqn:Eseq; simpl; try reflexivity.
      * destruct (slots s _); reflexivity.
      * destruct (r <=? cur); [reflexivity|]. destruct (committed s =? cur); reflexivity.
      * pose proof (ri_seq s I) as H. rewrite Eseq in H. destruct H as [_ H].
        destruct (N.ltb_spec pre r); [lia|reflexivity].
Qed.

Lemma committed_mono_step s l : rinv s -> committed s <= committed (rstep s l).
Proof.
  intros I. unfold rstep. destruct (renabled s l); [|lia]. destruct l as [t|t rev valid|]; simpl; try lia.
  - unfold r_notify. destruct (rev =? 0); [lia|]. destruct (cap <=? _); simpl; lia.
  - unfold r_seq. destruct (seq s) as [|r|r|r cur|r|r pre] eqn:Eseq; simpl; try lia.
    + destruct (slots s _); simpl; lia.
    + pose proof (ri_seq s I) as H. rewrite Eseq in H.
      destruct (r <=? cur); simpl; [lia|]. destruct (committed s =? cur); simpl; lia.
    + destruct (pre <? r); simpl; lia.
Qed.

(* quiescence: nobody holds a revision and the sequencer finds nothing to take *)
Definition rquiescent (s : rstate) : Prop :=
  (forall t, held s t = []) /\ seq s = SqIdle /\ slots s ((committed s + 1) mod cap) = None.

Lemma quiescent_caught_up s : rinv s -> rquiescent s -> committed s = dealt s.
Proof.
  intros I (Hh & Hs & Hn).
  assert (Hf : frontier s = committed s) by (unfold frontier; rewrite Hs; reflexivity).
  pose proof (ri_fd s I) as Hfd. rewrite Hf in Hfd.
  destruct (N.eq_dec (committed s) (dealt s)) as [E|E]; [exact E|exfalso].
  destruct (ri_acc s I (committed s + 1)) as [[t Hin]|[v [Hv _]]]; try lia.
  - rewrite Hh in Hin. exact Hin.
  - rewrite Hn in Hv. discriminate.
Qed.

(* the five sequencer actions on a filled slot amount to: clear the slot, advance committed by one *)
Lemma seq_take_effect s v :
  rinv s -> rpanic s = false -> seq s = SqIdle -> slots s ((committed s + 1) mod cap) = Some v ->
  let s' := rrun seq_take_labels s in
  dealt s' = dealt s /\ committed s' = committed s + 1 /\ seq s' = SqIdle /\
  slots s' = upd (slots s) ((committed s + 1) mod cap) None /\
  held s' = held s /\ rlog s' = rlog s /\ rpanic s' = false.
Proof.
  intros I Hp Hs Hv.
  assert (Erev : sv_rev v = committed s + 1).
  { destruct (ri_slot s I _ _ Hv) as (A & B & C & _). unfold frontier in B. rewrite Hs in B.
    apply (mod_cap_inj _ _ (committed s)); lia. }
  pose proof (ri_slot s I _ _ Hv) as (_ & _ & _ & Hd).
  assert (Hstep : forall x, rpanic x = false -> rstep x RSeq = r_seq x).
  { intros x Hx. unfold rstep, renabled. rewrite Hx. reflexivity. }
  set (r := sv_rev v) in *.
  set (s1 := set_seq s (SqGot r)).
  set (s2 := {| dealt := dealt s; committed := committed s; slots := upd (slots s) (r mod cap) None;
                seq := SqStore r; held := held s; rlog := rlog s; rpanic := rpanic s |}).
  set (s2b := set_seq s2 (SqStoreCas r (committed s))).
  set (s3 := {| dealt := dealt s; committed := r; slots := upd (slots s) (r mod cap) None;
                seq := SqLoadDealt r; held := held s; rlog := rlog s; rpanic := rpanic s |}).
  set (s4 := set_seq s3 (SqCas r (dealt s))).
  set (s5 := set_seq s4 SqIdle).
  assert (E1 : rstep s RSeq = s1).
  { rewrite Hstep by exact Hp. unfold r_seq. rewrite Hs, Hv. reflexivity. }
  assert (E2 : rstep s1 RSeq = s2) by (rewrite Hstep by exact Hp; reflexivity).
  assert (E2b : rstep s2 RSeq = s2b) by (rewrite Hstep by exact Hp; reflexivity).
  assert (E3 : rstep s2b RSeq = s3).
  { rewrite Hstep by exact Hp. unfold r_seq. cbn [seq s2b set_seq committed s2].
    destruct (N.leb_spec r (committed s)); [lia|]. rewrite N.eqb_refl. reflexivity. }
  assert (E4 : rstep s3 RSeq = s4) by (rewrite Hstep by exact Hp; reflexivity).
  assert (E5 : rstep s4 RSeq = s5).
  { rewrite Hstep by exact Hp. unfold r_seq. cbn [seq s4 set_seq].
    match goal with |- context [?a <? ?b] => destruct (N.ltb_spec a b) as [Hlt|Hge] end; [|reflexivity].
    exfalso. cbn in Hlt. lia. }
  cbv [seq_take_labels rrun fold_left]. rewrite E1, E2, E2b, E3, E4, E5.
  cbn. unfold r in *. rewrite Erev. repeat split; auto.
Qed.

(* ---------- uniqueness of allocated revisions ---------- *)

Definition dealt_desc (s : rstate) : list N :=
  flat_map (fun e => match e with RvDealt _ r => [r] | _ => [] end) (rlog s).

(* newest first: strictly decreasing, all below hi *)
Fixpoint sdecr (hi : N) (l : list N) : Prop :=
  match l with
  | [] => True
  | x :: l' => x < hi /\ sdecr x l'
  end.

Record rloginv (s : rstate) : Prop := {
  rl_inv : rinv s;
  rl_decr : sdecr (dealt s + 1) (dealt_desc s)
}.

Lemma sdecr_weaken hi hi' l : hi <= hi' -> sdecr hi l -> sdecr hi' l.
Proof. destruct l; simpl; [auto|]. intros H (A & B). split; auto; lia. Qed.

Lemma rloginv_step s l : rloginv s -> rloginv (rstep s l).
Proof.
  intros [I D]. split; [apply rinv_step, I|].
  pose proof (dealt_step s l I) as Hd.
  unfold rstep in *. destruct (renabled s l) eqn:E; [|exact D].
  destruct l as [t|t rev valid|].
  - unfold dealt_desc. simpl. fold (dealt_desc s). split; [lia|]. exact D.
  - unfold r_notify in *. destruct (rev =? 0); [exact D|]. destruct (cap <=? _); [exact D|].
    unfold dealt_desc. simpl. exact D.
  - assert (Hl : rlog (r_seq s) = rlog s).
    { unfold r_seq. destruct (seq s) as [|r|r|r cur|r|r pre]; simpl; auto;
        [destruct (slots s _); auto|destruct (r <=? cur); auto; destruct (committed s =? cur); auto|destruct (pre <? r); auto]. }
    unfold dealt_desc. rewrite Hl. fold (dealt_desc s). rewrite Hd. exact D.
Qed.

Lemma rloginv_run ls : forall s, rloginv s -> rloginv (rrun ls s).
Proof. induction ls as [|l ls IH]; intros s I; simpl; [exact I|]. apply IH, rloginv_step, I. Qed.

Lemma rloginv_init d0 : rloginv (rinit d0).
Proof. split; [apply rinv_init|simpl; auto]. Qed.

Lemma sdecr_below hi l : sdecr hi l -> Forall (fun x => x < hi) l.
Proof.
  revert hi. induction l as [|x l IH]; intros hi; simpl; [constructor|].
  intros (A & B). constructor; [exact A|]. eapply Forall_impl; [|apply IH, B]. simpl. intros; lia.
Qed.

Lemma sdecr_NoDup hi l : sdecr hi l -> NoDup l.
Proof.
  revert hi. induction l as [|x l IH]; intros hi; simpl; [constructor|].
  intros (A & B). constructor; [|eapply IH, B].
  intros Hin. pose proof (sdecr_below _ _ B) as F. rewrite Forall_forall in F. specialize (F _ Hin). lia.
Qed.

(* no two allocations ever return the same revision *)
Theorem dealt_unique ls d0 : NoDup (dealt_revs (rrun ls (rinit d0))).
Proof.
  unfold dealt_revs. apply NoDup_rev.
  eapply sdecr_NoDup. apply (rl_decr _ (rloginv_run ls _ (rloginv_init d0))).
Qed.

(* ---------- the allocator with arbitrary concurrent Commit(rev) ---------- *)

Definition tinv (s : tstate) : Prop := sdecr (t_dealt s + 1) (map snd (t_log s)).

Lemma tinv_step s l : tinv s -> tinv (tstep false s l).
Proof.
  unfold tinv. intros I. destruct l as [t|t rev|t|t|t|t]; simpl.
  - split; [lia|exact I].
  - destruct (t_pc s t); exact I.
  - destruct (t_pc s t); exact I.
  - destruct (t_pc s t) as [|rev|rev cur|rev|rev pre]; try exact I.
    destruct (rev <=? cur); [exact I|]. destruct (t_committed s =? cur); exact I.
  - destruct (t_pc s t); exact I.
  - destruct (t_pc s t) as [|rev|rev cur|rev|rev pre]; try exact I. simpl.
    destruct (N.ltb_spec pre rev); [|exact I].
    destruct (N.eqb_spec (t_dealt s) pre) as [E|_]; [|exact I].
    eapply sdecr_weaken; [|exact I]. lia.
Qed.

(* the read revision of a node never moves backwards, whoever calls Commit with whatever revision (repo 1eb892a) *)
Lemma t_committed_mono_step plain s l : t_committed s <= t_committed (tstep plain s l).
Proof.
  unfold tstep, t_set_pc. destruct l as [t|t rev|t|t|t|t]; cbn [t_committed]; try lia;
    destruct (t_pc s t) as [|rev0|rev0 cur|rev0|rev0 pre]; cbn [t_committed]; try lia.
  destruct (N.leb_spec rev0 cur); cbn [t_committed]; [lia|].
  destruct (N.eqb_spec (t_committed s) cur); cbn [t_committed]; lia.
Qed.

Lemma t_committed_mono plain ls : forall s, t_committed s <= t_committed (trun plain ls s).
Proof.
  unfold trun. induction ls as [|l ls IH]; intros s; cbn [fold_left]; [lia|].
  eapply N.le_trans; [apply (t_committed_mono_step plain s l)|apply IH].
Qed.

Lemma tinv_run ls : forall s, tinv s -> tinv (trun false ls s).
Proof. induction ls as [|l ls IH]; intros s I; simpl; [exact I|]. apply IH, tinv_step, I. Qed.

(* whatever revisions Commit is called with, by however many threads, interleaved with Deal in any way:
   the dealt revisions are strictly increasing in the order of the Deal actions *)
Theorem tso_dealt_increasing ls d0 : sdecr (t_dealt (trun false ls (tinit d0)) + 1) (map snd (t_log (trun false ls (tinit d0)))).
Proof. apply tinv_run. simpl. exact Logic.I. Qed.

Theorem tso_dealt_unique ls d0 : NoDup (map snd (t_log (trun false ls (tinit d0)))).
Proof. eapply sdecr_NoDup, tso_dealt_increasing. Qed.

(* with a plain store in place of the compare-and-swap a revision is dealt twice *)
Definition tso_plain_witness : list tlabel :=
  [TCommit 9 12; TLoadC 9; TCasC 9; TLoad 9; TDeal 0; TDeal 1; TDeal 0; TCas 9; TDeal 1].

Lemma tso_plain_store_refuted :
  map snd (t_log (trun true tso_plain_witness (tinit 10))) = [13; 13; 12; 11]
  /\ map snd (t_log (trun false tso_plain_witness (tinit 10))) = [14; 13; 12; 11].
Proof. vm_compute. split; reflexivity. Qed.
