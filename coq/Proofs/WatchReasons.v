(* Why a watch is refused and why a subscriber is dropped: neither happens without its reason, so a Watch that always
   refuses or a hub that always drops does not satisfy the theorems.
   - refused  => the start revision is not 0 and, for the cache as FindEvents saw it (a prefix of the events cached so
                 far), either the cache was empty and S was not above the committed revision, or S lay below the
                 oldest cached revision (the needed history had been evicted or predates the cache);
   - dropped  => at some hub step of the run the subscriber was registered and its buffer held p_hub batches. *)
From Coq Require Import ZifyN ZifyNat ZifyBool Sorted.
From KB Require Import Base.Bytes Model.WatchSys Proofs.WatchRing Proofs.WatchSys Proofs.WatchCatchup Proofs.WatchNoPanic Proofs.WatchFrame.
Local Open Scope N_scope.

(* ------------------------------------------------------------------ refusal *)

Definition refusal_reason (l : N) (sigma : list event) (c S : N) : Prop :=
  S <> 0 /\ exists n, (n <= length sigma)%nat /\
    let sr := firstn n sigma in
    (sr = [] /\ S <= c) \/
    (sr <> [] /\ S <= e_rev (last sr ev0) /\ S < e_rev (hd ev0 (lastn (N.to_nat l) sr))).

Lemma decide_refuse pa l sr S P c :
  0 < l -> watch_decide pa S P (find_spec l sr S) c = DRefuse ->
  (sr = [] /\ S <= c) \/ (sr <> [] /\ S <= e_rev (last sr ev0) /\ S < e_rev (hd ev0 (lastn (N.to_nat l) sr))).
Proof.
  intros Hl. destruct sr as [|e0 t] eqn:E.
  - unfold find_spec, watch_decide. destruct (c <? S) eqn:Ec; [intros H; discriminate H|]. intros _. left. split; [reflexivity|apply N.ltb_ge; exact Ec].
  - rewrite <- E. assert (Hne : sr <> []) by (rewrite E; discriminate).
    rewrite find_spec_nonempty by (try exact Hne; lia). cbv zeta.
    destruct (_ <? S) eqn:Eh; [unfold watch_decide; intros H; discriminate H|].
    destruct (S <? _) eqn:El.
    + intros _. right. apply N.ltb_ge in Eh. apply N.ltb_lt in El. repeat split; assumption.
    + unfold watch_decide. rewrite all_some_map_Some. destruct (filter_by_prefix _ P); [intros H; discriminate H|].
      destruct (catchup_batch_size _ _); [|intros H; discriminate H]. destruct (chunks _ _ _); [|intros H; discriminate H].
      destruct (p_out pa <? _); intros H; discriminate H.
Qed.

Lemma refusal_reason_mono l sigma e c c' S :
  c <= c' -> refusal_reason l sigma c S -> refusal_reason l (sigma ++ e) c' S.
Proof.
  intros Hc [HS [n [Hn H]]]. split; [exact HS|]. exists n. split; [rewrite app_length; lia|].
  cbv zeta in *. rewrite firstn_app_le by exact Hn. destruct H as [[H1 H2]|H]; [left; split; [exact H1|lia]|right; exact H].
Qed.

Definition refused_ok (l : N) (s : sys) (w : watcher) : Prop :=
  w_phase w = PhRefused -> refusal_reason l (s_cached s) (s_committed s) (w_S w).

Definition all_refused_ok (l : N) (s : sys) : Prop := Forall (refused_ok l s) (s_ws s).

(* a watcher function that changes neither S nor a non-refused phase into a refused one *)
Definition keeps_refusal (f : watcher -> watcher) : Prop :=
  forall w, w_S (f w) = w_S w /\ (w_phase (f w) = PhRefused -> w_phase w = PhRefused).

Lemma kr_offer pa item : keeps_refusal (offer pa item).
Proof. intros w. unfold offer. destruct (w_reg w); [|auto]. destruct (_ <? _); cbn; auto. Qed.
Lemma kr_delete cd : keeps_refusal (fun w => delete_watcher w cd).
Proof. intros w. unfold delete_watcher. destruct (w_reg w); cbn; auto. Qed.
Lemma kr_read s : keeps_refusal (watch_read s).
Proof.
  intros w. unfold watch_read. destruct (w_phase w) eqn:E; try (rewrite ?E; auto; fail).
  destruct (w_S w =? 0); [rewrite E; auto|]. cbn. split; [reflexivity|discriminate].
Qed.
Lemma kr_proc pa : keeps_refusal (proc_step pa).
Proof.
  intros w. unfold proc_step. destruct (w_phase w) eqn:E; try (rewrite ?E; auto; fail).
  destruct (w_hold w).
  - destruct (_ <? _); cbn; rewrite ?E; split; try reflexivity; discriminate.
  - destruct (chan_recv (w_sub w)) as [[b c]|]; [cbn; rewrite ?E; split; try reflexivity; discriminate|].
    destruct (c_closed (w_sub w)); cbn; rewrite ?E; split; try reflexivity; discriminate.
Qed.
Lemma kr_consume : keeps_refusal consume_step.
Proof.
  intros w. unfold consume_step. destruct (chan_recv (w_out w)) as [[b c]|]; [cbn; auto|].
  destruct (c_closed (w_out w)); cbn; auto.
Qed.

Lemma refused_upd l s i f : keeps_refusal f -> all_refused_ok l s -> all_refused_ok l (upd_w s i f).
Proof.
  intros Hf H. unfold all_refused_ok, upd_w, s_set_ws in *. cbn [s_ws].
  assert (G : forall ws, Forall (refused_ok l s) ws -> Forall (refused_ok l (s_set_ws s (upd_nth i f (s_ws s)))) (upd_nth i f ws)).
  { intros ws. revert i. induction ws as [|h t IH]; intros i Hws; [destruct i; constructor|].
    apply Forall_cons_iff in Hws as [Hh Ht]. destruct i as [|i]; cbn [upd_nth]; constructor.
    - intros Hp. destruct (Hf h) as [HS Hph]. rewrite HS. apply Hh. apply Hph. exact Hp.
    - eapply Forall_impl; [|exact Ht]. intros w Hw. exact Hw.
    - exact Hh.
    - apply IH. exact Ht. }
  apply G. exact H.
Qed.

Lemma refused_step pa l s lb : 0 < l -> ginv l s -> all_refused_ok l s -> all_refused_ok l (step pa s lb).
Proof.
  intros Hl G H. unfold step. destruct (s_panic s); [exact H|].
  destruct lb as [we| | |order|i|sr pf|i|i|i|i|i].
  - destruct (s_cur s); [exact H|]. destruct (_ && _) eqn:Ec; [|exact H].
    apply andb_true_iff in Ec as [_ Er]. apply N.eqb_eq in Er.
    unfold all_refused_ok in *. cbn [s_ws]. eapply Forall_impl; [|exact H]. intros w Hw Hp. specialize (Hw Hp).
    unfold s_cached in *. cbn [s_cachedR s_committed].
    rewrite <- (app_nil_r (frev (s_cachedR s))). apply (refusal_reason_mono l _ [] (s_committed s)); [lia|exact Hw].
  - destruct (s_cur s) as [e|]; [|exact H]. destruct (ring_add _ _); [|exact H].
    unfold all_refused_ok in *. cbn [s_ws]. eapply Forall_impl; [|exact H]. intros w Hw Hp. specialize (Hw Hp).
    unfold s_cached in *. cbn [s_cachedR s_committed]. rewrite frev_cons.
    apply (refusal_reason_mono l _ [e] (s_committed s)); [lia|exact Hw].
  - destruct (s_cur s); [exact H|]. destruct (s_pending s); [exact H|]. destruct (_ <? _); exact H.
  - destruct (s_wchan s); [exact H|]. destruct (existsb _ _); [exact H|].
    unfold all_refused_ok in *. cbn [s_ws]. apply Forall_map. eapply Forall_impl; [|exact H]. intros w Hw Hp.
    destruct (kr_offer pa l0 w) as [HS Hph]. rewrite HS. apply Hw. apply Hph. exact Hp.
  - apply refused_upd; [|exact H]. intros w. destruct (_ && _); [apply kr_delete|auto].
  - unfold all_refused_ok, s_set_ws in *. cbn [s_ws]. apply Forall_app. split; [exact H|]. constructor; [|constructor].
    intros Hp. discriminate.
  - apply refused_upd; [|exact H]. apply kr_read.
  - (* the only place where a watch becomes refused *)
    assert (H' : all_refused_ok l (upd_w s i (watch_spawn pa s))).
    { unfold all_refused_ok, upd_w, s_set_ws in *. cbn [s_ws].
      pose proof (gi_ws _ _ G) as HW.
      assert (Gen : forall ws, Forall (refused_ok l s) ws -> Forall (winv l (s_cached s) (s_hub s)) ws ->
                    Forall (refused_ok l s) (upd_nth i (watch_spawn pa s) ws)).
      { intros ws. revert i. induction ws as [|h t IH]; intros i Hws HWs; [destruct i; constructor|].
        apply Forall_cons_iff in Hws as [Hh Ht]. apply Forall_cons_iff in HWs as [HWh HWt].
        destruct i as [|i]; cbn [upd_nth]; constructor; try assumption; [|apply IH; assumption].
        unfold refused_ok, watch_spawn. destruct (w_phase h) eqn:Eph; rewrite ?Eph; try (intros Hc; discriminate Hc).
        - destruct (w_S h =? 0); [cbn|rewrite Eph]; intros Hc; discriminate Hc.
        - destruct (wi_read _ _ _ _ HWh ret Eph) as [HS [n [Hn Hret]]].
          destruct (watch_decide pa (w_S h) (w_P h) ret (s_committed s)) eqn:Ed; cbn; try (intros Hc; discriminate Hc).
          intros _. rewrite Hret in Ed. split; [exact HS|]. exists n. split; [lia|].
          apply (decide_refuse pa l _ _ _ _ Hl Ed).
        - intros _. exact (Hh Eph). }
      exact (Gen _ H HW). }
    destruct (nth_error (s_ws s) i); [|exact H]. destruct (w_phase _); exact H'.
  - apply refused_upd; [|exact H]. apply kr_proc.
  - apply refused_upd; [|exact H]. apply kr_consume.
  - apply refused_upd; [|exact H]. intros w. cbn. auto.
Qed.

Theorem refused_for_a_reason pa l c0 ls i w :
  0 < l -> let s := run pa ls (init l c0) in
  nth_error (s_ws s) i = Some w -> w_phase w = PhRefused ->
  refusal_reason l (s_cached s) (s_committed s) (w_S w).
Proof.
  intros Hl s Hn Hp.
  assert (H : all_refused_ok l s).
  { unfold s. clear s Hn Hp. induction ls as [|lb ls IH] using rev_ind; [constructor|].
    rewrite run_snoc. apply refused_step; [exact Hl|apply reachable_inv; exact Hl|exact IH]. }
  unfold all_refused_ok in H. rewrite Forall_forall in H. exact (H w (nth_error_In _ _ Hn) Hp).
Qed.

(* ------------------------------------------------------------------ drop *)

Definition keeps_dropped (f : watcher -> watcher) : Prop := forall w, w_dropped (f w) = w_dropped w.

Lemma kd_delete cd : keeps_dropped (fun w => delete_watcher w cd).
Proof. intros w. unfold delete_watcher. destruct (w_reg w); reflexivity. Qed.
Lemma kd_read s : keeps_dropped (watch_read s).
Proof. intros w. unfold watch_read. destruct (w_phase w); try reflexivity. destruct (w_S w =? 0); reflexivity. Qed.
Lemma kd_spawn pa s : keeps_dropped (watch_spawn pa s).
Proof.
  intros w. unfold watch_spawn. destruct (w_phase w); try reflexivity.
  - destruct (w_S w =? 0); reflexivity.
  - destruct (watch_decide _ _ _ _ _); reflexivity.
Qed.
Lemma kd_proc pa : keeps_dropped (proc_step pa).
Proof.
  intros w. unfold proc_step. destruct (w_phase w); try reflexivity. destruct (w_hold w).
  - destruct (_ <? _); reflexivity.
  - destruct (chan_recv (w_sub w)) as [[b c]|]; [reflexivity|]. destruct (c_closed (w_sub w)); reflexivity.
Qed.
Lemma kd_consume : keeps_dropped consume_step.
Proof.
  intros w. unfold consume_step. destruct (chan_recv (w_out w)) as [[b c]|]; [reflexivity|]. destruct (c_closed (w_out w)); reflexivity.
Qed.

Lemma offer_dropped pa item w :
  w_dropped (offer pa item w) = true -> w_dropped w = true \/ (w_reg w = true /\ p_hub pa <= chan_len (w_sub w)).
Proof.
  unfold offer. destruct (w_reg w) eqn:Er; [|auto]. destruct (chan_len (w_sub w) <? p_hub pa) eqn:El; cbn; [auto|].
  intros _. right. split; [reflexivity|apply N.ltb_ge; exact El].
Qed.

(* one step back: a dropped watcher was dropped before, or this step is the hub item that found its buffer full *)
Lemma dropped_step_back pa s lb i w' :
  nth_error (s_ws (step pa s lb)) i = Some w' -> w_dropped w' = true ->
  (exists w, nth_error (s_ws s) i = Some w /\ w_dropped w = true) \/
  (exists o w, lb = LHubItem o /\ nth_error (s_ws s) i = Some w /\ w_reg w = true /\ p_hub pa <= chan_len (w_sub w)).
Proof.
  intros Hn Hd. unfold step in Hn. destruct (s_panic s); [left; exists w'; split; assumption|].
  assert (Hupd : forall k f, keeps_dropped f -> nth_error (s_ws (upd_w s k f)) i = Some w' ->
                 exists w, nth_error (s_ws s) i = Some w /\ w_dropped w = true).
  { intros k f Hf H. unfold upd_w, s_set_ws in H. cbn [s_ws] in H. rewrite nth_upd in H.
    destruct (Nat.eqb i k); [|exists w'; split; assumption].
    destruct (nth_error (s_ws s) i) as [w|]; [|discriminate]. cbn in H. injection H as <-.
    exists w. split; [reflexivity|]. rewrite <- (Hf w). exact Hd. }
  destruct lb as [we| | |order|k|sr pf|k|k|k|k|k].
  - left. exists w'. split; [|exact Hd]. destruct (s_cur s); [exact Hn|]. destruct (_ && _); exact Hn.
  - left. exists w'. split; [|exact Hd]. destruct (s_cur s); [|exact Hn]. destruct (ring_add _ _); exact Hn.
  - left. exists w'. split; [|exact Hd]. destruct (s_cur s); [exact Hn|]. destruct (s_pending s); [exact Hn|]. destruct (_ <? _); exact Hn.
  - destruct (s_wchan s) as [|item rest]; [left; exists w'; split; assumption|].
    destruct (existsb _ _); [left; exists w'; split; assumption|].
    cbn [s_ws] in Hn. rewrite nth_error_map in Hn. destruct (nth_error (s_ws s) i) as [w|] eqn:Ew; [|discriminate].
    cbn in Hn. injection Hn as <-. destruct (offer_dropped pa item w Hd) as [H|[H1 H2]].
    + left. exists w. split; [reflexivity|exact H].
    + right. exists order, w. repeat split; assumption.
  - left. apply (Hupd k (fun w => if w_ctx w && negb (w_ctxdone w) then delete_watcher w true else w)); [|exact Hn].
    intros w. destruct (_ && _); [apply kd_delete|reflexivity].
  - left. unfold s_set_ws in Hn. cbn [s_ws] in Hn.
    destruct (Nat.lt_ge_cases i (length (s_ws s))) as [Hi|Hi].
    + rewrite nth_error_app1 in Hn by exact Hi. exists w'. split; assumption.
    + rewrite nth_error_app2 in Hn by exact Hi. destruct (i - length (s_ws s))%nat as [|m]; cbn in Hn; [|destruct m; discriminate].
      injection Hn as <-. discriminate.
  - left. apply (Hupd k (watch_read s)); [apply kd_read|exact Hn].
  - left. destruct (nth_error (s_ws s) k); [|exists w'; split; assumption].
    apply (Hupd k (watch_spawn pa s)); [apply kd_spawn|]. destruct (w_phase _); exact Hn.
  - left. apply (Hupd k (proc_step pa)); [apply kd_proc|exact Hn].
  - left. apply (Hupd k consume_step); [apply kd_consume|exact Hn].
  - left. apply (Hupd k (fun w => w_set_ctx w true)); [intros w; reflexivity|exact Hn].
Qed.

Theorem dropped_for_a_reason pa l c0 ls : forall i w,
  nth_error (s_ws (run pa ls (init l c0))) i = Some w -> w_dropped w = true ->
  exists ls1 o ls2 w0, ls = ls1 ++ LHubItem o :: ls2 /\
    nth_error (s_ws (run pa ls1 (init l c0))) i = Some w0 /\ w_reg w0 = true /\ p_hub pa <= chan_len (w_sub w0).
Proof.
  induction ls as [|lb ls IH] using rev_ind; intros i w Hn Hd.
  - destruct i; discriminate.
  - rewrite run_snoc in Hn. destruct (dropped_step_back pa _ lb i w Hn Hd) as [[w1 [H1 H2]]|[o [w1 [-> [H1 [H2 H3]]]]]].
    + destruct (IH i w1 H1 H2) as [ls1 [o [ls2 [w0 [-> [Ha [Hb Hc]]]]]]].
      exists ls1, o, (ls2 ++ [lb]), w0. repeat split; try assumption. rewrite <- app_assoc. reflexivity.
    + exists ls, o, [], w1. repeat split; assumption.
Qed.
