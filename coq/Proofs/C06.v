(* C06: the events are exactly the applied writes; replaying the events of (R, R'] over the snapshot at R gives
   the snapshot at R' (pointwise on every key, for every prefix); compaction below R changes neither. *)
From Coq Require Import ZifyN ZifyNat ZifyBool Sorted.
From KB Require Import Base.Cases Model.WatchSys Model.C06Cases Proofs.WatchRing Proofs.WatchSys.
Local Open Scope N_scope.

(* ------------------------------------------------------------------ stores, pointwise *)

Lemma beqb_sym a b : beqb a b = beqb b a.
Proof.
  destruct (beqb a b) eqn:E.
  - apply beqb_eq in E. subst. symmetry. apply beqb_refl.
  - apply beqb_neq in E. symmetry. apply beqb_neq. congruence.
Qed.

Lemma st_get_set k x st k' : st_get k' (st_set k x st) = if beqb k k' then Some x else st_get k' st.
Proof.
  induction st as [|[k1 x1] t IH]; cbn [st_set st_get].
  - reflexivity.
  - destruct (bcmp k k1) eqn:C; cbn [st_get].
    + apply bcmp_eq in C. subst k1. destruct (beqb k k'); reflexivity.
    + reflexivity.
    + rewrite IH. destruct (beqb k1 k') eqn:E1; [|reflexivity].
      apply beqb_eq in E1. subst k'. destruct (beqb k k1) eqn:E2; [|reflexivity].
      apply beqb_eq in E2. subst k1. rewrite bcmp_refl in C. discriminate.
Qed.

Lemma st_get_del k st k' : st_get k' (st_del k st) = if beqb k k' then None else st_get k' st.
Proof.
  unfold st_del. induction st as [|[k1 x1] t IH]; cbn [filter st_get fst].
  - destruct (beqb k k'); reflexivity.
  - destruct (beqb k1 k) eqn:E1; cbn [negb].
    + apply beqb_eq in E1. subst k1. rewrite IH. destruct (beqb k k'); reflexivity.
    + cbn [st_get]. rewrite IH. destruct (beqb k1 k') eqn:E2; [|reflexivity].
      apply beqb_eq in E2. subst k'. rewrite beqb_sym, E1. reflexivity.
Qed.

Lemma st_get_in_prefix P st k : st_get k (in_prefix P st) = if has_prefix P k then st_get k st else None.
Proof.
  unfold in_prefix. induction st as [|[k1 x1] t IH]; cbn [filter st_get fst].
  - destruct (has_prefix P k); reflexivity.
  - destruct (has_prefix P k1) eqn:E1; cbn [st_get].
    + destruct (beqb k1 k) eqn:E2; [apply beqb_eq in E2; subst k1; rewrite E1; reflexivity|exact IH].
    + rewrite IH. destruct (beqb k1 k) eqn:E2; [apply beqb_eq in E2; subst k1; rewrite E1; reflexivity|reflexivity].
Qed.

(* the effect of one event on key k *)
Definition eff (k : bytes) (acc : option (bytes * N)) (e : event) : option (bytes * N) :=
  if beqb (e_key e) k then match e_ty e with VDelete => None | _ => Some (e_val e, e_rev e) end else acc.

Lemma st_get_apply_event st e k : st_get k (apply_event st e) = eff k (st_get k st) e.
Proof.
  unfold apply_event, eff. destruct (e_ty e); rewrite ?st_get_set, ?st_get_del; reflexivity.
Qed.

Lemma st_get_apply_events evs st k : st_get k (apply_events evs st) = fold_left (eff k) evs (st_get k st).
Proof.
  unfold apply_events. revert st; induction evs as [|e t IH]; intros st; [reflexivity|].
  cbn [fold_left]. rewrite IH, st_get_apply_event. reflexivity.
Qed.

Lemma live_no_key V k R : (forall x, In x V -> beqb (v_key x) k = false) -> live V k R = None.
Proof.
  intros H. unfold live, latest. induction V as [|x t IH]; [reflexivity|]. cbn [find].
  rewrite (H x) by (left; reflexivity). cbn [andb]. apply IH. intros y Hy. apply H. right. exact Hy.
Qed.

Lemma st_get_snapshot V R k : st_get k (snapshot V R) = live V k R.
Proof.
  unfold snapshot.
  assert (G : forall ks st, st_get k (fold_left (fun st k0 => match live V k0 R with Some x => st_set k0 x st | None => st end) ks st)
                            = if existsb (fun k0 => beqb k0 k) ks then (match live V k R with Some x => Some x | None => st_get k st end) else st_get k st).
  { induction ks as [|k0 t IH]; intros st; [reflexivity|]. cbn [fold_left existsb]. rewrite IH.
    destruct (beqb k0 k) eqn:E.
    - apply beqb_eq in E. subst k0. cbn [orb]. destruct (live V k R) as [x|] eqn:L.
      + destruct (existsb _ t); [reflexivity|]. rewrite st_get_set, beqb_refl. reflexivity.
      + destruct (existsb _ t); reflexivity.
    - cbn [orb]. destruct (live V k0 R) as [x0|]; [|reflexivity].
      rewrite st_get_set, E. reflexivity. }
  rewrite G. cbn [st_get]. destruct (existsb _ (map v_key V)) eqn:Ex.
  - destruct (live V k R); reflexivity.
  - symmetry. apply live_no_key. intros x Hx.
    destruct (beqb (v_key x) k) eqn:E; [|reflexivity]. exfalso.
    assert (existsb (fun k0 => beqb k0 k) (map v_key V) = true).
    { apply existsb_exists. exists (v_key x). split; [apply in_map; exact Hx|exact E]. }
    congruence.
Qed.

(* ------------------------------------------------------------------ reads = replay of the events from empty *)

Lemma versions_of_snoc slots we :
  versions_of (slots ++ [we]) = (if we_valid we then [version_of we] else []) ++ versions_of slots.
Proof.
  unfold versions_of. rewrite filter_app, map_app, rev_app_distr. cbn [filter].
  destruct (we_valid we); reflexivity.
Qed.

Lemma events_of_snoc slots we :
  events_of (slots ++ [we]) = events_of slots ++ (if we_valid we then [to_event we] else []).
Proof.
  unfold events_of. rewrite filter_app, map_app. cbn [filter]. destruct (we_valid we); reflexivity.
Qed.

Definition upto (R : N) (e : event) : bool := e_rev e <=? R.

Lemma live_is_replay slots k R :
  live (versions_of slots) k R = fold_left (eff k) (filter (upto R) (events_of slots)) None.
Proof.
  induction slots as [|we slots IH] using rev_ind; [reflexivity|].
  rewrite versions_of_snoc, events_of_snoc, filter_app, fold_left_app, <- IH.
  destruct (we_valid we); [|cbn [app filter fold_left]; reflexivity].
  cbn [app filter]. unfold upto. cbn [to_event e_rev].
  unfold live at 1, latest. cbn [find version_of v_key v_rev].
  destruct (we_rev we <=? R) eqn:ER.
  - cbn [fold_left]. unfold eff. cbn [to_event e_key e_ty e_val e_rev].
    destruct (beqb (we_key we) k) eqn:EK; cbn [andb].
    + unfold version_of. cbn [v_val v_rev]. destruct (we_verb we); reflexivity.
    + reflexivity.
  - rewrite andb_false_r. cbn [fold_left]. reflexivity.
Qed.

(* ------------------------------------------------------------------ windows of a revision-sorted event list *)

Lemma upto_split evs R R' :
  sorted evs -> R <= R' ->
  filter (upto R') evs = filter (upto R) evs ++ filter (fun e => (R <? e_rev e) && (e_rev e <=? R')) evs.
Proof.
  intros Hs HR. unfold sorted in Hs. induction Hs as [|h t Hs IH Hf]; [reflexivity|].
  unfold upto in *. cbn [filter]. destruct (e_rev h <=? R) eqn:E1.
  - apply N.leb_le in E1. replace (e_rev h <=? R') with true by (symmetry; apply N.leb_le; lia).
    replace (R <? e_rev h) with false by (symmetry; apply N.ltb_ge; lia). cbn [andb app]. f_equal. exact IH.
  - apply N.leb_gt in E1. replace (R <? e_rev h) with true by (symmetry; apply N.ltb_lt; lia). cbn [andb].
    assert (Hnone : filter (fun e => e_rev e <=? R) t = []).
    { apply filter_none. intros x Hx. rewrite Forall_forall in Hf. specialize (Hf x Hx). unfold lt_rev in Hf.
      apply N.leb_gt. lia. }
    rewrite Hnone in *. cbn [app] in *. destruct (e_rev h <=? R'); [f_equal|]; exact IH.
Qed.

Lemma fold_eff_filter k (q : event -> bool) evs acc :
  (forall e, In e evs -> q e = false -> beqb (e_key e) k = false) ->
  fold_left (eff k) (filter q evs) acc = fold_left (eff k) evs acc.
Proof.
  revert acc; induction evs as [|e t IH]; intros acc H; [reflexivity|]. cbn [filter].
  destruct (q e) eqn:Q; cbn [fold_left].
  - apply IH. intros x Hx. apply H. right. exact Hx.
  - rewrite IH by (intros x Hx; apply H; right; exact Hx).
    f_equal. unfold eff. rewrite (H e (or_introl eq_refl) Q). reflexivity.
Qed.

Lemma fold_eff_none k evs acc :
  (forall e, In e evs -> beqb (e_key e) k = false) -> fold_left (eff k) evs acc = acc.
Proof.
  revert acc; induction evs as [|e t IH]; intros acc H; [reflexivity|]. cbn [fold_left].
  rewrite IH by (intros x Hx; apply H; right; exact Hx). unfold eff. rewrite (H e) by (left; reflexivity). reflexivity.
Qed.

Lemma has_prefix_key_neq P k k' : has_prefix P k = true -> has_prefix P k' = false -> beqb k' k = false.
Proof. intros H1 H2. apply beqb_neq. intros ->. congruence. Qed.

(* the replay theorem, pointwise, for any slot sequence whose events are revision-sorted *)
Theorem replay_pointwise slots R R' P k :
  sorted (events_of slots) -> R <= R' ->
  st_get k (apply_events (filter (in_window R R' P) (events_of slots)) (in_prefix P (snapshot (versions_of slots) R)))
  = st_get k (in_prefix P (snapshot (versions_of slots) R')).
Proof.
  intros Hs HR. rewrite st_get_apply_events, !st_get_in_prefix, !st_get_snapshot.
  set (evs := events_of slots) in *.
  destruct (has_prefix P k) eqn:HP.
  - rewrite !live_is_replay. fold evs.
    rewrite (upto_split evs R R' Hs HR), fold_left_app.
    set (acc := fold_left (eff k) (filter (upto R) evs) None).
    assert (E : filter (in_window R R' P) evs
                = filter (fun e => has_prefix P (e_key e)) (filter (fun e => (R <? e_rev e) && (e_rev e <=? R')) evs)).
    { rewrite filter_filter. apply filter_ext. intros e. unfold in_window. reflexivity. }
    rewrite E. apply fold_eff_filter. intros e _ Hq. apply (has_prefix_key_neq P); assumption.
  - apply fold_eff_none. intros e He. apply filter_In in He as [_ Hw]. unfold in_window in Hw.
    apply andb_true_iff in Hw as [_ Hp]. apply beqb_neq. intros E. rewrite E in Hp. congruence.
Qed.

(* ------------------------------------------------------------------ the sequential write model *)

Lemma exec_from_slots V r h :
  let '(ws, V') := exec_from V r h in
  length ws = length h /\
  (forall i we, nth_error ws i = Some we -> we_rev we = r + 1 + N.of_nat i) /\
  V' = versions_of ws ++ V.
Proof.
  revert V r; induction h as [|a t IH]; intros V r; cbn [exec_from].
  - repeat split. intros i we H. destruct i; discriminate.
  - destruct (exec_one V (r + 1) a) as [we V1] eqn:E1.
    specialize (IH V1 (r + 1)). destruct (exec_from V1 (r + 1) t) as [ws V2].
    destruct IH as [Hlen [Hnum HV]].
    assert (Hwe : we_rev we = r + 1 /\ V1 = (if we_valid we then [version_of we] else []) ++ V).
    { unfold exec_one in E1. destruct (a_op a) as [k v|k v exp|k exp].
      - injection E1 as <- <-. cbn [we_rev we_valid]. split; [reflexivity|]. destruct (a_ok a && _); reflexivity.
      - destruct (exp =? 0); injection E1 as <- <-; cbn [we_rev we_valid]; (split; [reflexivity|]); destruct (a_ok a && _); reflexivity.
      - destruct (live V k top) as [[v0 r0]|]; injection E1 as <- <-; cbn [we_rev we_valid]; (split; [reflexivity|]); try reflexivity.
        destruct (a_ok a && _); reflexivity. }
    destruct Hwe as [Hrev HV1]. repeat split.
    + cbn [length]. lia.
    + intros i w Hi. destruct i as [|i]; cbn [nth_error] in Hi.
      * injection Hi as <-. lia.
      * rewrite (Hnum i w Hi). lia.
    + rewrite HV, HV1. change (we :: ws) with ([we] ++ ws). unfold versions_of.
      rewrite filter_app, map_app, rev_app_distr, <- app_assoc. f_equal. cbn [filter]. destruct (we_valid we); reflexivity.
Qed.

Lemma numbered_sorted (ws : list wevent) (r : N) :
  (forall i we, nth_error ws i = Some we -> we_rev we = r + 1 + N.of_nat i) -> sorted (events_of ws).
Proof.
  revert r; induction ws as [|we t IH]; intros r H; [constructor|].
  assert (Ht : sorted (events_of t)).
  { apply (IH (r + 1)). intros i w Hi. rewrite (H (S i) w Hi). lia. }
  unfold events_of. cbn [filter]. destruct (we_valid we); [|exact Ht]. cbn [map]. constructor; [exact Ht|].
  rewrite Forall_forall. intros x Hx. apply in_map_iff in Hx as [w [<- Hw]]. apply filter_In in Hw as [Hw _].
  apply In_nth_error in Hw as [i Hi]. unfold lt_rev. cbn [to_event e_rev].
  rewrite (H 0%nat we eq_refl), (H (S i) w Hi). lia.
Qed.

(* C06_replay over arbitrary histories of successful and failed writes *)
Theorem replay_exec c0 h R R' P k :
  R <= R' ->
  let '(slots, V) := exec c0 h in
  st_get k (apply_events (filter (in_window R R' P) (events_of slots)) (in_prefix P (snapshot V R)))
  = st_get k (in_prefix P (snapshot V R')).
Proof.
  intros HR. unfold exec. pose proof (exec_from_slots [] c0 h) as H.
  destruct (exec_from [] c0 h) as [slots V]. destruct H as [_ [Hnum HV]]. rewrite app_nil_r in HV. subst V.
  apply replay_pointwise; [apply (numbered_sorted slots c0 Hnum)|exact HR].
Qed.

(* a delete event carries the value and modification revision it superseded *)
Theorem delete_carries_prev V r a :
  let '(we, _) := exec_one V r a in
  we_valid we = true -> we_verb we = VDelete -> live V (we_key we) top = Some (we_val we, we_prev we).
Proof.
  unfold exec_one. destruct (a_op a) as [k v|k v exp|k exp].
  - cbn. intros _ H; discriminate.
  - destruct (exp =? 0); cbn; intros _ H; discriminate.
  - destruct (live V k top) as [[v0 r0]|] eqn:L; cbn [we_valid we_verb we_key we_val we_prev]; [|intros H; discriminate].
    intros _ _. exact L.
Qed.

(* ------------------------------------------------------------------ the producer emits exactly the valid slots *)

Definition cur_list (s : sys) : list event := match s_cur s with Some e => [e] | None => [] end.

Definition numbered (c0 : N) (slots : list wevent) : Prop :=
  forall i we, nth_error slots i = Some we -> we_rev we = c0 + 1 + N.of_nat i.

Lemma firstn_S_nth {A} (l : list A) i x : nth_error l i = Some x -> firstn (S i) l = firstn i l ++ [x].
Proof.
  revert i; induction l as [|h t IH]; intros [|i] H; cbn in *; try discriminate.
  - injection H as ->. reflexivity.
  - f_equal. apply IH. exact H.
Qed.

Definition prod_inv (c0 : N) (slots : list wevent) (s : sys) : Prop :=
  c0 <= s_committed s /\
  s_cached s ++ cur_list s = events_of (firstn (N.to_nat (s_committed s - c0)) slots).

Lemma prod_inv_step pa c0 slots s lb :
  numbered c0 slots -> (forall we, lb = LSeqTake we -> In we slots) ->
  prod_inv c0 slots s -> prod_inv c0 slots (step pa s lb).
Proof.
  intros Hnum Hin [Hc Hev]. unfold step. destruct (s_panic s); [split; assumption|].
  destruct lb as [we| | |order|i|sr pf|i|i|i|i|i]; try (split; assumption).
  - destruct (s_cur s) eqn:Ecur; [split; assumption|].
    destruct (_ && _) eqn:Econd; [|split; assumption].
    apply andb_true_iff in Econd as [_ Erev]. apply N.eqb_eq in Erev.
    specialize (Hin we eq_refl). apply In_nth_error in Hin as [i Hi].
    pose proof (Hnum i we Hi) as Hri.
    assert (Hi' : i = N.to_nat (s_committed s - c0)) by lia.
    unfold prod_inv, cur_list, s_cached in *. cbn [s_committed s_cur s_cachedR]. split; [lia|].
    replace (N.to_nat (we_rev we - c0)) with (S i) by lia.
    rewrite (firstn_S_nth _ _ _ Hi), events_of_snoc. rewrite Hi' at 1. rewrite <- Hev. rewrite Ecur. cbn [app]. rewrite app_nil_r.
    destruct (we_valid we); reflexivity.
  - destruct (s_cur s) as [e|] eqn:Ecur; [|split; assumption].
    destruct (ring_add _ _); [|split; assumption].
    unfold prod_inv, cur_list, s_cached in *. cbn [s_committed s_cur s_cachedR]. split; [exact Hc|].
    rewrite frev_cons, app_nil_r. rewrite Ecur in Hev. exact Hev.
  - destruct (s_cur s) eqn:Ecur; [split; assumption|]. destruct (s_pending s); [split; assumption|].
    destruct (_ <? _); [|split; assumption].
    unfold prod_inv, cur_list, s_cached in *. cbn [s_committed s_cur s_cachedR]. rewrite Ecur in Hev. split; assumption.
  - destruct (s_wchan s); [split; assumption|]. destruct (existsb _ _); split; assumption.
  - destruct (nth_error (s_ws s) i); [|split; assumption]. destruct (w_phase _); split; assumption.
Qed.

(* C06_events_are_versions: in every reachable state the events ever cached (plus the one built and about to be
   cached) are exactly map to_event of the successful slots with revision <= committed, in revision order *)
Theorem events_are_versions pa l c0 slots ls :
  numbered c0 slots -> (forall we, In (LSeqTake we) ls -> In we slots) ->
  let s := run pa ls (init l c0) in
  s_cached s ++ cur_list s = events_of (firstn (N.to_nat (s_committed s - c0)) slots).
Proof.
  intros Hnum Hin. cbv zeta.
  assert (H : prod_inv c0 slots (run pa ls (init l c0))).
  { induction ls as [|lb ls IH] using rev_ind.
    - split; [cbn; lia|]. cbn. replace (N.to_nat (c0 - c0)) with 0%nat by lia. reflexivity.
    - rewrite run_snoc. apply prod_inv_step; [exact Hnum| |].
      + intros we ->. apply Hin. apply in_app_iff. right. left. reflexivity.
      + apply IH. intros we Hwe. apply Hin. apply in_app_iff. left. exact Hwe. }
  exact (proj2 H).
Qed.

(* with the slots of the sequential write model *)
Theorem events_are_versions_exec pa l c0 h ls :
  (forall we, In (LSeqTake we) ls -> In we (fst (exec c0 h))) ->
  let s := run pa ls (init l c0) in
  s_cached s ++ cur_list s = events_of (firstn (N.to_nat (s_committed s - c0)) (fst (exec c0 h))) /\
  snd (exec c0 h) = versions_of (fst (exec c0 h)).
Proof.
  intros Hin. unfold exec in *. pose proof (exec_from_slots [] c0 h) as H.
  destruct (exec_from [] c0 h) as [slots V]. destruct H as [_ [Hnum HV]]. cbn [fst snd] in *. split.
  - apply events_are_versions; assumption.
  - rewrite HV. apply app_nil_r.
Qed.

(* ------------------------------------------------------------------ compaction *)

Definition newest_first (V : list version) : Prop := StronglySorted (fun a b => v_rev b < v_rev a) V.

Lemma find_filter {A} (q keep : A -> bool) l : find q (filter keep l) = find (fun x => keep x && q x) l.
Proof.
  induction l as [|h t IH]; [reflexivity|]. cbn [filter find]. destruct (keep h); cbn [find andb]; [rewrite IH|]; auto.
Qed.

Lemma find_split {A} (q : A -> bool) l x :
  find q l = Some x -> exists l1 l2, l = l1 ++ x :: l2 /\ q x = true /\ forall z, In z l1 -> q z = false.
Proof.
  induction l as [|h t IH]; [discriminate|]. cbn [find]. destruct (q h) eqn:Q.
  - intros H; injection H as ->. exists [], t. repeat split; [exact Q|intros z []].
  - intros H. destruct (IH H) as [l1 [l2 [-> [Hq Hl1]]]]. exists (h :: l1), l2. repeat split; [exact Hq|].
    intros z [<-|Hz]; [exact Q|apply Hl1; exact Hz].
Qed.

Lemma find_none_iff {A} (q : A -> bool) l : (forall z, In z l -> q z = false) -> find q l = None.
Proof.
  induction l as [|h t IH]; intros H; [reflexivity|]. cbn [find]. rewrite (H h) by (left; reflexivity).
  apply IH. intros z Hz. apply H. right. exact Hz.
Qed.

Lemma newest_first_split V l1 x l2 :
  newest_first V -> V = l1 ++ x :: l2 ->
  (forall z, In z l1 -> v_rev x < v_rev z) /\ (forall z, In z l2 -> v_rev z < v_rev x).
Proof.
  intros Hs ->. unfold newest_first in Hs. induction l1 as [|h t IH]; cbn [app] in Hs.
  - apply StronglySorted_inv in Hs as [_ Hf]. rewrite Forall_forall in Hf. split; [intros z []|exact Hf].
  - apply StronglySorted_inv in Hs as [Hs Hf]. destruct (IH Hs) as [H1 H2]. split; [|exact H2].
    intros z [<-|Hz]; [|apply H1; exact Hz]. rewrite Forall_forall in Hf. apply Hf. apply in_app_iff. right. left. reflexivity.
Qed.

(* the removal rule of a (possibly partial, possibly still running) compaction at `floor`: a removed version is
   removable, and with it every older version of the same key is removed *)
Definition compaction_rule (V : list version) (floor : N) (keep : version -> bool) : Prop :=
  forall x, In x V -> keep x = false ->
    removable V floor x = true /\
    (forall y, In y V -> beqb (v_key y) (v_key x) = true -> v_rev y < v_rev x -> keep y = false).

Theorem compaction_preserves_reads V floor keep k R :
  newest_first V -> compaction_rule V floor keep -> floor <= R ->
  live (filter keep V) k R = live V k R.
Proof.
  intros Hs Hrule HR. unfold live, latest.
  set (q := fun x : version => beqb (v_key x) k && (v_rev x <=? R)). rewrite find_filter.
  destruct (find q V) as [x|] eqn:F.
  - destruct (find_split q V x F) as [l1 [l2 [EV [Hqx Hl1]]]].
    destruct (newest_first_split V l1 x l2 Hs EV) as [Hnewer Holder].
    unfold q in Hqx. apply andb_true_iff in Hqx as [Hkx Hrx]. apply beqb_eq in Hkx. apply N.leb_le in Hrx.
    destruct (keep x) eqn:K.
    + (* the version that is read is kept: it is still the first match *)
      replace (find (fun x0 => keep x0 && q x0) V) with (Some x); [reflexivity|]. symmetry.
      rewrite EV. clear -Hl1 K Hkx Hrx. induction l1 as [|h t IH]; cbn [app find].
      * rewrite K. unfold q. rewrite Hkx, beqb_refl. replace (v_rev x <=? R) with true by (symmetry; apply N.leb_le; exact Hrx). reflexivity.
      * rewrite (Hl1 h) by (left; reflexivity). rewrite andb_false_r. apply IH. intros z Hz. apply Hl1. right. exact Hz.
    + (* removed: it was a tombstone (nothing newer is <= R), and all older versions went with it *)
      assert (Hx : In x V) by (rewrite EV; apply in_app_iff; right; left; reflexivity).
      destruct (Hrule x Hx K) as [Hrem Hclosed].
      unfold removable in Hrem. apply andb_true_iff in Hrem as [Hfl Hwhy]. apply N.leb_le in Hfl.
      assert (Htomb : v_val x = None).
      { destruct (v_val x) eqn:Ev; [|reflexivity]. cbn [orb] in Hwhy.
        apply existsb_exists in Hwhy as [y [Hy Hyc]]. apply andb_true_iff in Hyc as [Hyc Hyf]. apply andb_true_iff in Hyc as [Hyk Hyr].
        apply N.ltb_lt in Hyr. apply N.leb_le in Hyf. apply beqb_eq in Hyk.
        (* y is newer than x and <= floor <= R: it would have been found first *)
        rewrite EV in Hy. apply in_app_iff in Hy as [Hy|[Hy|Hy]].
        - specialize (Hl1 y Hy). unfold q in Hl1. rewrite Hyk, Hkx, beqb_refl in Hl1.
          replace (v_rev y <=? R) with true in Hl1 by (symmetry; apply N.leb_le; lia). discriminate.
        - subst y. lia.
        - specialize (Holder y Hy). lia. }
      rewrite Htomb.
      replace (find (fun x0 => keep x0 && q x0) V) with (@None version); [reflexivity|]. symmetry.
      apply find_none_iff. intros z Hz. destruct (keep z) eqn:Kz; [|reflexivity]. cbn [andb].
      destruct (q z) eqn:Qz; [|reflexivity]. exfalso.
      unfold q in Qz. apply andb_true_iff in Qz as [Hzk Hzr]. apply beqb_eq in Hzk.
      rewrite EV in Hz. apply in_app_iff in Hz as [Hz|[Hz|Hz]].
      * specialize (Hl1 z Hz). unfold q in Hl1. rewrite Hzk, beqb_refl, Hzr in Hl1. discriminate.
      * subst z. congruence.
      * assert (Hz' : In z V) by (rewrite EV; apply in_app_iff; right; right; exact Hz).
        rewrite (Hclosed z Hz') in Kz; [discriminate| |apply Holder; exact Hz].
        rewrite Hzk, Hkx. apply beqb_refl.
  - replace (find (fun x0 => keep x0 && q x0) V) with (@None version); [reflexivity|]. symmetry.
    apply find_none_iff. intros z Hz. rewrite (find_none _ _ F z Hz). apply andb_false_r.
Qed.

(* hence every snapshot at or above the floor is unchanged, key by key; the events do not depend on V at all *)
Corollary compaction_preserves_snapshot V floor keep k R :
  newest_first V -> compaction_rule V floor keep -> floor <= R ->
  st_get k (snapshot (filter keep V) R) = st_get k (snapshot V R).
Proof. intros. rewrite !st_get_snapshot. eapply compaction_preserves_reads; eassumption. Qed.

(* ------------------------------------------------------------------ from pointwise to equal range results *)

Definition key_lt (a b : bytes * (bytes * N)) : Prop := bcmp (fst a) (fst b) = Lt.
Definition ssorted (st : store) : Prop := StronglySorted key_lt st.

Lemma ssorted_filter p st : ssorted st -> ssorted (filter p st).
Proof.
  unfold ssorted. induction 1 as [|h t Hs IH Hf]; cbn [filter]; [constructor|].
  destruct (p h); [|exact IH]. constructor; [exact IH|].
  rewrite Forall_forall in *. intros x Hx. apply filter_In in Hx as [Hx _]. apply Hf. exact Hx.
Qed.

Lemma st_set_in k x st y : In y (st_set k x st) -> y = (k, x) \/ In y st.
Proof.
  induction st as [|[k1 x1] t IH]; cbn [st_set].
  - intros [<-|[]]. left. reflexivity.
  - destruct (bcmp k k1).
    + intros [<-|H]; [left; reflexivity|right; right; exact H].
    + intros [<-|H]; [left; reflexivity|right; exact H].
    + intros [<-|H]; [right; left; reflexivity|]. destruct (IH H) as [->|H']; [left; reflexivity|right; right; exact H'].
Qed.

Lemma ssorted_set k x st : ssorted st -> ssorted (st_set k x st).
Proof.
  unfold ssorted. induction 1 as [|[k1 x1] t Hs IH Hf]; cbn [st_set].
  - constructor; constructor.
  - destruct (bcmp k k1) eqn:C.
    + apply bcmp_eq in C. subst k1. constructor; [exact Hs|exact Hf].
    + constructor; [constructor; assumption|]. constructor; [exact C|].
      rewrite Forall_forall in *. intros y Hy. unfold key_lt in *. cbn [fst] in *.
      eapply bcmp_lt_trans; [exact C|apply Hf; exact Hy].
    + constructor; [exact IH|]. rewrite Forall_forall in *. intros y Hy.
      destruct (st_set_in _ _ _ _ Hy) as [->|Hy']; [|apply Hf; exact Hy'].
      unfold key_lt. cbn [fst]. apply bcmp_gt_lt. exact C.
Qed.

Lemma ssorted_snapshot V R : ssorted (snapshot V R).
Proof.
  unfold snapshot. assert (G : forall ks st, ssorted st ->
    ssorted (fold_left (fun st k => match live V k R with Some x => st_set k x st | None => st end) ks st)).
  { induction ks as [|k t IH]; intros st H; [exact H|]. cbn [fold_left]. apply IH.
    destruct (live V k R); [apply ssorted_set; exact H|exact H]. }
  apply G. constructor.
Qed.

Lemma ssorted_apply_events evs st : ssorted st -> ssorted (apply_events evs st).
Proof.
  unfold apply_events. revert st; induction evs as [|e t IH]; intros st H; [exact H|]. cbn [fold_left]. apply IH.
  unfold apply_event. destruct (e_ty e); try (apply ssorted_set; exact H). apply ssorted_filter. exact H.
Qed.

Lemma st_get_head_none k x t : Forall (key_lt (k, x)) t -> st_get k t = None.
Proof.
  induction t as [|[k1 x1] t IH]; intros H; [reflexivity|]. cbn [st_get].
  apply Forall_cons_iff in H as [H1 H2]. unfold key_lt in H1. cbn [fst] in H1.
  destruct (beqb k1 k) eqn:E; [apply beqb_eq in E; subst k1; rewrite bcmp_refl in H1; discriminate|]. apply IH. exact H2.
Qed.

Lemma ssorted_ext a b : ssorted a -> ssorted b -> (forall k, st_get k a = st_get k b) -> a = b.
Proof.
  unfold ssorted. intros Ha. revert b. induction Ha as [|[k1 x1] a' Hsa IH Hfa]; intros b Hb Hext.
  - destruct b as [|[k2 x2] b']; [reflexivity|]. specialize (Hext k2). cbn [st_get] in Hext. rewrite beqb_refl in Hext. discriminate.
  - destruct b as [|[k2 x2] b'].
    { specialize (Hext k1). cbn [st_get] in Hext. rewrite beqb_refl in Hext. discriminate. }
    apply StronglySorted_inv in Hb as [Hsb Hfb].
    destruct (bcmp k1 k2) eqn:C.
    + apply bcmp_eq in C. subst k2. pose proof (Hext k1) as H1. cbn [st_get] in H1. rewrite beqb_refl in H1. injection H1 as <-.
      f_equal. apply IH; [exact Hsb|]. intros k. specialize (Hext k). cbn [st_get] in Hext.
      destruct (beqb k1 k) eqn:E; [|exact Hext]. apply beqb_eq in E. subst k.
      rewrite (st_get_head_none k1 x1 a' Hfa), (st_get_head_none k1 x1 b' Hfb). reflexivity.
    + exfalso. specialize (Hext k1). cbn [st_get] in Hext. rewrite beqb_refl in Hext.
      destruct (beqb k2 k1) eqn:E; [apply beqb_eq in E; subst k2; rewrite bcmp_refl in C; discriminate|].
      rewrite (st_get_head_none k1 x1 b') in Hext; [discriminate|].
      rewrite Forall_forall in *. intros y Hy. unfold key_lt in *. cbn [fst] in *.
      eapply bcmp_lt_trans; [exact C|apply (Hfb y Hy)].
    + exfalso. apply bcmp_gt_lt in C. specialize (Hext k2). cbn [st_get] in Hext. rewrite beqb_refl in Hext.
      destruct (beqb k1 k2) eqn:E; [apply beqb_eq in E; subst k2; rewrite bcmp_refl in C; discriminate|].
      rewrite (st_get_head_none k2 x2 a') in Hext; [discriminate|].
      rewrite Forall_forall in *. intros y Hy. unfold key_lt in *. cbn [fst] in *.
      eapply bcmp_lt_trans; [exact C|apply (Hfa y Hy)].
Qed.

(* C06_replay as an equation between range results *)
Theorem replay_equal slots R R' P :
  sorted (events_of slots) -> R <= R' ->
  apply_events (filter (in_window R R' P) (events_of slots)) (in_prefix P (snapshot (versions_of slots) R))
  = in_prefix P (snapshot (versions_of slots) R').
Proof.
  intros Hs HR. apply ssorted_ext.
  - apply ssorted_apply_events. apply ssorted_filter. apply ssorted_snapshot.
  - apply ssorted_filter. apply ssorted_snapshot.
  - intros k. apply replay_pointwise; assumption.
Qed.

Theorem replay_exec_equal c0 h R R' P :
  R <= R' ->
  apply_events (filter (in_window R R' P) (events_of (fst (exec c0 h)))) (in_prefix P (snapshot (snd (exec c0 h)) R))
  = in_prefix P (snapshot (snd (exec c0 h)) R').
Proof.
  intros HR. unfold exec. pose proof (exec_from_slots [] c0 h) as H.
  destruct (exec_from [] c0 h) as [slots V]. destruct H as [_ [Hnum HV]]. rewrite app_nil_r in HV. cbn [fst snd]. subst V.
  apply replay_equal; [apply (numbered_sorted slots c0 Hnum)|exact HR].
Qed.

Theorem compaction_preserves_snapshot_equal V floor keep R :
  newest_first V -> compaction_rule V floor keep -> floor <= R ->
  snapshot (filter keep V) R = snapshot V R.
Proof.
  intros. apply ssorted_ext; try apply ssorted_snapshot. intros k. eapply compaction_preserves_snapshot; eassumption.
Qed.

(* ------------------------------------------------------------------ the oracle accepts what the model produces *)

Definition c06_valid (c : c06_case) : Prop :=
  match c with
  | KLw P slots R0 kv0 wok evs lists => sorted (events_of slots) /\ Forall (fun e => e_rev e <= top) (events_of slots)
  | KLf _ _ _ _ _ _ => False      (* runs with unknown outcomes are outside the theorems (C09): oracle only *)
  end.

Lemma kv_eqb_eq a b : kv_eqb a b = true -> a = b.
Proof.
  destruct a as [k [v r]], b as [k' [v' r']]. unfold kv_eqb. cbn [fst snd]. intros H.
  apply andb_true_iff in H as [H H3]. apply andb_true_iff in H as [H1 H2].
  apply beqb_eq in H1, H2. apply N.eqb_eq in H3. congruence.
Qed.
Lemma kv_eqb_refl a : kv_eqb a a = true.
Proof. destruct a as [k [v r]]. unfold kv_eqb. cbn [fst snd]. rewrite !beqb_refl, N.eqb_refl. reflexivity. Qed.
Lemma list_eqb_eq {A} (eqb : A -> A -> bool) : (forall a b, eqb a b = true -> a = b) -> forall x y, list_eqb eqb x y = true -> x = y.
Proof.
  intros H. induction x as [|a x IH]; intros [|b y]; cbn [list_eqb]; try discriminate; [reflexivity|].
  intros E. apply andb_true_iff in E as [E1 E2]. f_equal; [apply H; exact E1|apply IH; exact E2].
Qed.
Lemma list_eqb_refl {A} (eqb : A -> A -> bool) : (forall a, eqb a a = true) -> forall x, list_eqb eqb x x = true.
Proof. intros H. induction x as [|a x IH]; [reflexivity|]. cbn [list_eqb]. rewrite H, IH. reflexivity. Qed.
Lemma ev_eqb_eq a b : ev_eqb a b = true -> a = b.
Proof.
  destruct a as [t r k v kr], b as [t' r' k' v' kr']. unfold ev_eqb. cbn. intros H.
  repeat (apply andb_true_iff in H as [H ?]). apply beqb_eq in H1, H2. apply N.eqb_eq in H0, H3.
  destruct t, t'; try discriminate; congruence.
Qed.

Theorem c06_oracle_sound c : c06_valid c -> c06_check c = true -> c06_oracle c = None.
Proof.
  destruct c as [P slots R0 kv0 wok evs lists|P R0 kv0 evs Rf kvf]; [|intros []].
  cbn [c06_valid c06_check c06_oracle]. intros [Hs Htop] Hc. apply andb_true_iff in Hc as [_ Hc]. cbv zeta in Hc.
  apply andb_true_iff in Hc as [Hc _]. apply andb_true_iff in Hc as [Hc Hl]. apply andb_true_iff in Hc as [H0 He].
  destruct wok; cbn [negb orb] in *; [|reflexivity].
  apply (list_eqb_eq kv_eqb kv_eqb_eq) in H0. apply (list_eqb_eq ev_eqb ev_eqb_eq) in He.
  rewrite He at 1. unfold evs_eqb6 at 1. rewrite (list_eqb_refl ev_eqb ev_eqb_refl). cbn [andb].
  replace (forallb _ lists) with true; [reflexivity|]. symmetry. apply forallb_forall. intros [R' kv'] Hin.
  rewrite forallb_forall in Hl. specialize (Hl _ Hin). cbn [fst snd] in *.
  apply (list_eqb_eq kv_eqb kv_eqb_eq) in Hl. destruct (R' <? R0) eqn:ER; [reflexivity|]. apply N.ltb_ge in ER. cbn [orb].
  subst kv0 kv' evs. rewrite filter_filter.
  replace (filter (fun x => in_window R0 top P x && (e_rev x <=? R')) (events_of slots))
    with (filter (in_window R0 R' P) (events_of slots)).
  - rewrite (replay_equal slots R0 R' P Hs ER). unfold store_eqb. apply (list_eqb_refl kv_eqb kv_eqb_refl).
  - apply filter_ext_in. intros e He'. unfold in_window.
    rewrite Forall_forall in Htop. specialize (Htop e He'). apply N.leb_le in Htop. rewrite Htop.
    destruct (R0 <? e_rev e), (e_rev e <=? R'), (has_prefix P (e_key e)); reflexivity.
Qed.

(* ------------------------------------------------------------------ validity, decidably *)

Lemma ev_sortedb_sorted l : ev_sortedb l = true -> sorted l.
Proof.
  intros H. apply Sorted_StronglySorted; [intros a b c; unfold lt_rev; apply N.lt_trans|].
  induction l as [|a t IH]; [constructor|]. destruct t as [|b t']; [repeat constructor|].
  cbn [ev_sortedb] in H. apply andb_true_iff in H as [Hab Ht]. constructor; [apply IH; exact Ht|].
  constructor. unfold lt_rev. apply N.ltb_lt. exact Hab.
Qed.

Lemma c06_validb_valid c : c06_validb c = true -> c06_valid c.
Proof.
  destruct c as [P slots R0 kv0 wok evs lists|P R0 kv0 evs Rf kvf]; cbn [c06_validb c06_valid]; intros H; [|discriminate].
  apply andb_true_iff in H as [Hs Ht]. split; [apply ev_sortedb_sorted; exact Hs|].
  rewrite Forall_forall. rewrite forallb_forall in Ht. intros e He. apply N.leb_le. apply Ht. exact He.
Qed.

(* every list-then-watch case (plain, concurrent clients, mixed batches, hooked placements, partitioned stream, border
   on a version record) that passes the check satisfies the property: no hypothesis is left, c06_check evaluates
   validity itself *)
Theorem c06_check_sound P slots R0 kv0 wok evs lists :
  c06_check (KLw P slots R0 kv0 wok evs lists) = true -> c06_oracle (KLw P slots R0 kv0 wok evs lists) = None.
Proof.
  intros H. apply c06_oracle_sound; [|exact H]. apply c06_validb_valid.
  cbn [c06_check] in H. apply andb_true_iff in H as [H _]. exact H.
Qed.

(* ------------------------------------------------------------------ the composed statement: list, then watch *)
(* The watch system (all interleavings) fed with the slots of an arbitrary history of successful and failed writes:
   a watcher started at R+1 on prefix P whose stream is open and settled has received exactly what turns the range
   result at R into the range result at every later R' up to the committed revision. [C05_complete +
   C06_events_are_versions + C06_replay; what remains outside is C03: List at R returns snapshot V R.] *)

Lemma numbered_tail_above c0 slots k e :
  numbered c0 slots -> In e (events_of (skipn k slots)) -> c0 + N.of_nat k < e_rev e.
Proof.
  intros Hnum He. unfold events_of in He. apply in_map_iff in He as [we [<- Hwe]]. apply filter_In in Hwe as [Hwe _].
  apply In_nth_error in Hwe as [i Hi].
  assert (Hi' : nth_error slots (k + i) = Some we).
  { rewrite <- Hi. clear. revert slots; induction k as [|k IH]; intros [|h t]; cbn; auto. destruct i; reflexivity. }
  cbn [to_event e_rev]. rewrite (Hnum _ _ Hi'). lia.
Qed.

Theorem list_then_watch pa l c0 h ls i w R R' :
  0 < l ->
  (forall we, In (LSeqTake we) ls -> In we (fst (exec c0 h))) ->
  let s := run pa ls (init l c0) in
  nth_error (s_ws s) i = Some w -> settled s w -> w_S w = R + 1 ->
  R <= R' -> R' <= s_committed s ->
  apply_events (filter (fun e => e_rev e <=? R') (concat (w_got w))) (in_prefix (w_P w) (snapshot (snd (exec c0 h)) R))
  = in_prefix (w_P w) (snapshot (snd (exec c0 h)) R').
Proof.
  intros Hl Hin s Hn Hset HS HR HR'.
  pose proof (complete_settled pa l c0 ls i w Hl Hn Hset) as Hgot. fold s in Hgot.
  pose proof (events_are_versions_exec pa l c0 h ls Hin) as [Hev HV]. fold s in Hev.
  destruct Hset as [Hcur _]. unfold cur_list in Hev. rewrite Hcur, app_nil_r in Hev.
  rewrite <- (replay_exec_equal c0 h R R' (w_P w) HR).
  f_equal.
  rewrite Hgot, ideal_pos by lia. rewrite HS, Hev.
  set (slots := fst (exec c0 h)) in *. set (k := N.to_nat (s_committed s - c0)) in *.
  assert (Hnum : numbered c0 slots).
  { unfold slots, exec. pose proof (exec_from_slots [] c0 h) as H. destruct (exec_from [] c0 h) as [sl V]. destruct H as [_ [H _]]. exact H. }
  assert (Hc0 : c0 <= s_committed s).
  { pose proof (events_are_versions pa l c0 slots ls Hnum Hin) as _.
    assert (Hp : prod_inv c0 slots s).
    { unfold s. clear -Hnum Hin. induction ls as [|lb ls IH] using rev_ind.
      - split; [cbn; lia|]. cbn. replace (N.to_nat (c0 - c0)) with 0%nat by lia. reflexivity.
      - rewrite run_snoc. apply prod_inv_step; [exact Hnum| |].
        + intros we ->. apply Hin. apply in_app_iff. right. left. reflexivity.
        + apply IH. intros we Hwe. apply Hin. apply in_app_iff. left. exact Hwe. }
    exact (proj1 Hp). }
  unfold fltE. rewrite filter_filter.
  rewrite <- (firstn_skipn k slots) at 2. unfold events_of at 2. rewrite filter_app, map_app, filter_app.
  fold (events_of (firstn k slots)). fold (events_of (skipn k slots)).
  rewrite (filter_none _ (events_of (skipn k slots))).
  - rewrite app_nil_r. apply filter_ext. intros e. unfold in_window.
    replace (R + 1 <=? e_rev e) with (R <? e_rev e).
    + destruct (R <? e_rev e), (e_rev e <=? R'), (has_prefix (w_P w) (e_key e)); reflexivity.
    + destruct (R <? e_rev e) eqn:E1; [apply N.ltb_lt in E1; symmetry; apply N.leb_le; lia|apply N.ltb_ge in E1; symmetry; apply N.leb_gt; lia].
  - intros e He. pose proof (numbered_tail_above c0 slots k e Hnum He) as Hgt. unfold in_window.
    replace (e_rev e <=? R') with false by (symmetry; apply N.leb_gt; unfold k in Hgt; lia).
    rewrite andb_false_r. reflexivity.
Qed.

(* the composed statement for ANY resolved slot sequence numbered c0+1, c0+2, ... — concurrent writers included: the
   slot of revision r is whatever the writer that was dealt r reported, in whatever order the writers finished *)
Theorem list_then_watch_slots pa l c0 slots ls i w R R' :
  0 < l -> numbered c0 slots ->
  (forall we, In (LSeqTake we) ls -> In we slots) ->
  let s := run pa ls (init l c0) in
  nth_error (s_ws s) i = Some w -> settled s w -> w_S w = R + 1 ->
  R <= R' -> R' <= s_committed s ->
  apply_events (filter (fun e => e_rev e <=? R') (concat (w_got w))) (in_prefix (w_P w) (snapshot (versions_of slots) R))
  = in_prefix (w_P w) (snapshot (versions_of slots) R').
Proof.
  intros Hl Hnum Hin s Hn Hset HS HR HR'.
  pose proof (complete_settled pa l c0 ls i w Hl Hn Hset) as Hgot. fold s in Hgot.
  pose proof (events_are_versions pa l c0 slots ls Hnum Hin) as Hev. cbv zeta in Hev. fold s in Hev.
  destruct Hset as [Hcur _]. unfold cur_list in Hev. rewrite Hcur, app_nil_r in Hev.
  rewrite <- (replay_equal slots R R' (w_P w) (numbered_sorted slots c0 Hnum) HR).
  f_equal.
  rewrite Hgot, ideal_pos by lia. rewrite HS, Hev.
  set (k := N.to_nat (s_committed s - c0)) in *.
  assert (Hc0 : c0 <= s_committed s).
  { assert (Hp : prod_inv c0 slots s).
    { unfold s. clear -Hnum Hin. induction ls as [|lb ls IH] using rev_ind.
      - split; [cbn; lia|]. cbn. replace (N.to_nat (c0 - c0)) with 0%nat by lia. reflexivity.
      - rewrite run_snoc. apply prod_inv_step; [exact Hnum| |].
        + intros we ->. apply Hin. apply in_app_iff. right. left. reflexivity.
        + apply IH. intros we Hwe. apply Hin. apply in_app_iff. left. exact Hwe. }
    exact (proj1 Hp). }
  unfold fltE. rewrite filter_filter.
  rewrite <- (firstn_skipn k slots) at 2. unfold events_of at 2. rewrite filter_app, map_app, filter_app.
  fold (events_of (firstn k slots)). fold (events_of (skipn k slots)).
  rewrite (filter_none _ (events_of (skipn k slots))).
  - rewrite app_nil_r. apply filter_ext. intros e. unfold in_window.
    replace (R + 1 <=? e_rev e) with (R <? e_rev e).
    + destruct (R <? e_rev e), (e_rev e <=? R'), (has_prefix (w_P w) (e_key e)); reflexivity.
    + destruct (R <? e_rev e) eqn:E1; [apply N.ltb_lt in E1; symmetry; apply N.leb_le; lia|apply N.ltb_ge in E1; symmetry; apply N.leb_gt; lia].
  - intros e He. pose proof (numbered_tail_above c0 slots k e Hnum He) as Hgt. unfold in_window.
    replace (e_rev e <=? R') with false by (symmetry; apply N.leb_gt; unfold k in Hgt; lia).
    rewrite andb_false_r. reflexivity.
Qed.

(* ------------------------------------------------------------------ decidable forms of the compaction hypotheses *)

Fixpoint newest_firstb (V : list version) : bool :=
  match V with
  | a :: (b :: _) as t => (v_rev b <? v_rev a) && newest_firstb t
  | _ => true
  end.

Lemma newest_firstb_ok V : newest_firstb V = true -> newest_first V.
Proof.
  intros H. unfold newest_first. apply Sorted_StronglySorted; [intros a b c Hab Hbc; lia|].
  induction V as [|a t IH]; [constructor|]. destruct t as [|b t']; [repeat constructor|].
  cbn [newest_firstb] in H. apply andb_true_iff in H as [Hab Ht]. constructor; [apply IH; exact Ht|].
  constructor. apply N.ltb_lt. exact Hab.
Qed.

Definition compaction_ruleb (V : list version) (floor : N) (keep : version -> bool) : bool :=
  forallb (fun x => keep x ||
                    (removable V floor x &&
                     forallb (fun y => negb (beqb (v_key y) (v_key x) && (v_rev y <? v_rev x)) || negb (keep y)) V)) V.

Lemma compaction_ruleb_ok V floor keep : compaction_ruleb V floor keep = true -> compaction_rule V floor keep.
Proof.
  unfold compaction_ruleb, compaction_rule. intros H x Hx Hk. rewrite forallb_forall in H. specialize (H x Hx).
  rewrite Hk in H. cbn [orb] in H. apply andb_true_iff in H as [Hr Hc]. split; [exact Hr|].
  intros y Hy Hky Hlt. rewrite forallb_forall in Hc. specialize (Hc y Hy).
  rewrite Hky in Hc. replace (v_rev y <? v_rev x) with true in Hc by (symmetry; apply N.ltb_lt; exact Hlt).
  cbn [andb negb orb] in Hc. apply negb_true_iff in Hc. exact Hc.
Qed.

Fixpoint numberedb (r : N) (slots : list wevent) : bool :=
  match slots with
  | [] => true
  | we :: t => (we_rev we =? r + 1) && numberedb (r + 1) t
  end.

Lemma numberedb_ok c0 slots : numberedb c0 slots = true -> numbered c0 slots.
Proof.
  revert c0; induction slots as [|we t IH]; intros c0 H i x Hi; [destruct i; discriminate|].
  cbn [numberedb] in H. apply andb_true_iff in H as [Hr Ht]. apply N.eqb_eq in Hr.
  destruct i as [|i]; cbn [nth_error] in Hi.
  - injection Hi as <-. lia.
  - rewrite (IH (c0 + 1) Ht i x Hi). lia.
Qed.
