(* C06, fault cases (KLf): the convergence statement of the oracle, proved from Model/RetrySys.v.
   For every run of the retry system — any interleaving, any number of unknown outcomes (applied or not, on any commit
   of any request incl. the creator's second commit and the repair commit), definite failures, compactions — a range
   read served at any reachable state s0, the watch events above its header revision, and a range read at a later
   quiescent state s (retry queue drained, nothing in flight) satisfy exactly what c06_oracle evaluates on a KLf case:
   the stream is strictly increasing above R0 within the prefix, and replaying it (up to Rf) over the first range
   result gives the final range result.  [<- converges_core (C09_converges), run_facts, Inv3] *)
From Coq Require Import ZifyN ZifyNat ZifyBool Sorted.
From KB Require Import Base.Cases Model.RetrySys Model.C09Cases Model.C06Faults
  Proofs.RetryBase Proofs.RetryInv1 Proofs.RetryInv2 Proofs.RetryProps Proofs.RetryInv3 Proofs.RetryInvX Proofs.C09Cases Proofs.RetryWitness.
From KB Require Model.WatchSys Model.C06Cases Proofs.C06.
Local Open Scope N_scope.

Notation st_get := C06Cases.st_get.
Notation st_set := C06Cases.st_set.
Notation apply_events := C06Cases.apply_events.
Notation in_prefix := C06Cases.in_prefix.
Notation stream_ok := C06Cases.stream_ok.
Notation eff := C06.eff.

Section Enc.
Variable enc : key -> bytes.
Hypothesis enc_inj : forall a b, enc a = enc b -> a = b.

Lemma enc_eqb a b : beqb (enc a) (enc b) = (a =? b).
Proof.
  destruct (a =? b) eqn:E.
  - apply N.eqb_eq in E. subst. apply beqb_refl.
  - apply beqb_neq. intros H. apply enc_inj in H. apply N.eqb_neq in E. contradiction.
Qed.

(* ---------- range results ---------- *)
Definition rs_step (s : state) (R : N) (st : C06Cases.store) (k : key) : C06Cases.store :=
  match snap s R k with Some x => st_set (enc k) x st | None => st end.

Lemma rstore_fold ks s R : rstore enc ks s R = fold_left (rs_step s R) ks []. Proof. reflexivity. Qed.

Lemma rs_fold_other s R kb ks : forall st, (forall k, In k ks -> enc k <> kb) ->
  st_get kb (fold_left (rs_step s R) ks st) = st_get kb st.
Proof.
  induction ks as [|a t IH]; intros st H; [reflexivity|]. cbn [fold_left]. rewrite IH by (intros k Hk; apply H; right; exact Hk).
  unfold rs_step. destruct (snap s R a); [|reflexivity]. rewrite C06.st_get_set.
  destruct (beqb (enc a) kb) eqn:E; [|reflexivity]. apply beqb_eq in E. exfalso. apply (H a); [left; reflexivity|exact E].
Qed.

Lemma rs_fold_key s R k ks : forall st,
  st_get (enc k) (fold_left (rs_step s R) ks st) =
  if existsb (N.eqb k) ks then match snap s R k with Some x => Some x | None => st_get (enc k) st end else st_get (enc k) st.
Proof.
  induction ks as [|a t IH]; intros st; [reflexivity|]. cbn [fold_left existsb]. rewrite IH.
  assert (V : st_get (enc k) (rs_step s R st a) =
              if k =? a then match snap s R k with Some x => Some x | None => st_get (enc k) st end else st_get (enc k) st).
  { unfold rs_step. destruct (k =? a) eqn:E.
    - apply N.eqb_eq in E. subst a. destruct (snap s R k); [|reflexivity]. rewrite C06.st_get_set, beqb_refl. reflexivity.
    - destruct (snap s R a); [|reflexivity]. rewrite C06.st_get_set, enc_eqb, N.eqb_sym, E. reflexivity. }
  rewrite V. destruct (k =? a), (existsb (N.eqb k) t), (snap s R k); reflexivity.
Qed.

Lemma rstore_get_in ks s R k : In k ks -> st_get (enc k) (rstore enc ks s R) = snap s R k.
Proof.
  intros H. rewrite rstore_fold, rs_fold_key.
  assert (existsb (N.eqb k) ks = true) as -> by (apply existsb_exists; exists k; split; [exact H|apply N.eqb_refl]).
  destruct (snap s R k); reflexivity.
Qed.

Lemma rstore_get_out ks s R kb : (forall k, In k ks -> enc k <> kb) -> st_get kb (rstore enc ks s R) = None.
Proof. intros H. rewrite rstore_fold, rs_fold_other by exact H. reflexivity. Qed.

Lemma rstore_sorted ks s R : C06.ssorted (rstore enc ks s R).
Proof.
  rewrite rstore_fold. assert (G : forall st, C06.ssorted st -> C06.ssorted (fold_left (rs_step s R) ks st)).
  { induction ks as [|a t IH]; intros st H; [exact H|]. cbn [fold_left]. apply IH. unfold rs_step.
    destruct (snap s R a); [apply C06.ssorted_set|]; exact H. }
  apply G. constructor.
Qed.

(* ---------- events ---------- *)
Lemma tev_key ev : WatchSys.e_key (tev enc ev) = enc (e_key ev). Proof. reflexivity. Qed.
Lemma tev_rev ev : WatchSys.e_rev (tev enc ev) = e_rev ev. Proof. reflexivity. Qed.

Lemma eff_tev k acc ev :
  eff (enc k) acc (tev enc ev) =
  if e_key ev =? k then match e_verb ev with VDelete => None | _ => Some (e_val ev, e_rev ev) end else acc.
Proof.
  unfold eff. cbn [tev WatchSys.e_key WatchSys.e_ty WatchSys.e_val WatchSys.e_rev]. rewrite enc_eqb.
  destruct (e_key ev =? k); [|reflexivity]. destruct (e_verb ev); reflexivity.
Qed.

(* replaying oldest-first over a store = the newest event on the key decides *)
Lemma fold_replay k L init : fold_left (eff (enc k)) (map (tev enc) (rev L)) init = replay_key k L init.
Proof.
  induction L as [|a L IH]; [reflexivity|]. cbn [rev]. rewrite map_app, fold_left_app, IH. cbn [map fold_left replay_key].
  apply eff_tev.
Qed.

Lemma replay_filter_and k (a b : wevent -> bool) L init :
  (forall ev, In ev L -> e_key ev = k -> b ev = true) ->
  replay_key k (filter (fun ev => a ev && b ev) L) init = replay_key k (filter a L) init.
Proof.
  induction L as [|x L IH]; intros H; [reflexivity|]. cbn [filter].
  assert (IH' := IH (fun ev Hin => H ev (or_intror Hin))).
  destruct (e_key x =? k) eqn:E.
  - apply N.eqb_eq in E. rewrite (H x (or_introl eq_refl) E), andb_true_r. destruct (a x); [|exact IH'].
    cbn [replay_key]. rewrite E, N.eqb_refl. reflexivity.
  - destruct (a x), (b x); cbn [andb replay_key]; rewrite ?E; exact IH'.
Qed.

Lemma replay_no_key k L init : (forall ev, In ev L -> e_key ev <> k) -> replay_key k L init = init.
Proof.
  induction L as [|x L IH]; intros H; [reflexivity|]. cbn [replay_key].
  assert ((e_key x =? k) = false) as -> by (apply N.eqb_neq; apply H; left; reflexivity).
  apply IH. intros ev Hin. apply H. right. exact Hin.
Qed.

(* the stream of a watch: strictly increasing revisions above R0, keys under P *)
Fixpoint last_rev (d : N) (l : list WatchSys.event) : N :=
  match l with [] => d | e :: t => last_rev (WatchSys.e_rev e) t end.

Lemma stream_ok_app P d l t : stream_ok P d l = true -> stream_ok P (last_rev d l) t = true -> stream_ok P d (l ++ t) = true.
Proof.
  revert d; induction l as [|e l IH]; intros d H1 H2; [exact H2|]. cbn [app C06Cases.stream_ok last_rev] in *.
  apply andb_true_iff in H1 as [H1 H3]. rewrite H1. cbn [andb]. apply IH; assumption.
Qed.

Lemma last_rev_app d l e : last_rev d (l ++ [e]) = WatchSys.e_rev e.
Proof. revert d; induction l as [|x l IH]; intros d; [reflexivity|]. cbn [app last_rev]. apply IH. Qed.

Lemma stream_desc P R0 L : ev_desc L -> (forall ev, In ev L -> R0 < e_rev ev /\ has_prefix P (enc (e_key ev)) = true) ->
  stream_ok P R0 (map (tev enc) (rev L)) = true /\
  last_rev R0 (map (tev enc) (rev L)) = match L with [] => R0 | a :: _ => e_rev a end.
Proof.
  induction L as [|a L IH]; intros D H; [split; reflexivity|]. cbn [ev_desc] in D. destruct D as [D1 D2].
  destruct (IH D2 (fun ev Hin => H ev (or_intror Hin))) as [S1 S2].
  destruct (H a (or_introl eq_refl)) as [Ha1 Ha2].
  cbn [rev]. rewrite map_app. cbn [map]. split; [|apply last_rev_app].
  apply stream_ok_app; [exact S1|]. rewrite S2. cbn [C06Cases.stream_ok]. rewrite tev_rev, tev_key, Ha2, !andb_true_r.
  apply N.ltb_lt. destruct L as [|b L']; [exact Ha1|]. apply D1. left. reflexivity.
Qed.

Lemma ev_desc_filter p L : ev_desc L -> ev_desc (filter p L).
Proof.
  induction L as [|a L IH]; intros D; [exact I|]. cbn [ev_desc] in D. destruct D as [D1 D2]. cbn [filter].
  destruct (p a); [|apply IH; exact D2]. cbn [ev_desc]. split; [|apply IH; exact D2].
  intros ev' Hin. apply filter_In in Hin as [Hin _]. apply D1. exact Hin.
Qed.

Lemma filter_all {A} (p : A -> bool) l : (forall x, In x l -> p x = true) -> filter p l = l.
Proof. induction l as [|a l IH]; intros H; [reflexivity|]. cbn [filter]. rewrite (H a (or_introl eq_refl)), IH; [reflexivity|]. intros x Hx. apply H. right. exact Hx. Qed.
Lemma filter_none {A} (p : A -> bool) l : (forall x, In x l -> p x = false) -> filter p l = [].
Proof. induction l as [|a l IH]; intros H; [reflexivity|]. cbn [filter]. rewrite (H a (or_introl eq_refl)). apply IH. intros x Hx. apply H. right. exact Hx. Qed.

Lemma filter_rev_c {A} (p : A -> bool) l : filter p (rev l) = rev (filter p l).
Proof.
  induction l as [|a l IH]; [reflexivity|]. cbn [rev filter]. rewrite filter_app, IH. cbn [filter].
  destruct (p a); [reflexivity|apply app_nil_r].
Qed.

(* ---------- the statement ---------- *)
Definition wfilter (P : bytes) (R0 : N) (ev : wevent) : bool := (R0 <? e_rev ev) && has_prefix P (enc (e_key ev)).

Lemma watched_eq P R0 s : watched enc P R0 s = map (tev enc) (rev (filter (wfilter P R0) (s_events s))).
Proof. unfold watched. rewrite <- filter_rev_c. reflexivity. Qed.

Theorem klf_converges q ks P s0 s sF :
  reach q s0 -> leads s0 s -> quiescent s -> leads s sF ->
  (forall k, ~ In k ks -> vers s k = [] \/ has_prefix P (enc k) = false) ->
  C06Cases.c06_oracle (klf_of enc ks P s0 s sF) = None.
Proof.
  intros R0 L1 Q LF Hks.
  assert (R1 : reach q s) by (apply (leads_reach q _ _ R0 L1)).
  assert (RF : reach q sF) by (apply (leads_reach q _ _ R1 LF)).
  pose proof (reach_inv3 q s R1) as I3. pose proof (reach_inv3 q sF RF) as I3F.
  destruct L1 as [ls1 [W1 E1]]. destruct (run_facts q ls1 W1 s0 R0) as [Hc [Hsnap _]]. rewrite <- E1 in Hc, Hsnap.
  destruct LF as [lsF [WF EF]]. destruct (run_facts q lsF WF s R1) as [_ [_ [newer [Hev Hnew]]]]. rewrite <- EF in Hev.
  set (r0 := s_committed s0) in *. set (rf := s_committed s) in *.
  unfold klf_of. fold r0 rf. cbn [C06Cases.c06_oracle].
  (* the stream *)
  assert (S : stream_ok P r0 (watched enc P r0 sF) = true).
  { rewrite watched_eq. apply stream_desc.
    - apply ev_desc_filter. apply (a_sorted _ I3F).
    - intros ev Hin. apply filter_In in Hin as [_ Hin]. unfold wfilter in Hin. apply andb_true_iff in Hin as [H1 H2].
      apply N.ltb_lt in H1. split; assumption. }
  rewrite S. cbn [andb].
  (* only the events up to Rf count: those published in s *)
  assert (F : filter (fun e => WatchSys.e_rev e <=? rf) (watched enc P r0 sF) = watched enc P r0 s).
  { unfold watched. rewrite Hev, rev_app_distr, filter_app, map_app, filter_app.
    rewrite (filter_none _ (map (tev enc) (filter _ (rev newer)))), app_nil_r.
    - apply filter_all. intros x Hx. apply in_map_iff in Hx as [ev [<- Hin]]. apply filter_In in Hin as [Hin _].
      apply in_rev in Hin. rewrite tev_rev. apply N.leb_le. apply (a_evs _ I3 ev Hin).
    - intros x Hx. apply in_map_iff in Hx as [ev [<- Hin]]. apply filter_In in Hin as [Hin _].
      apply in_rev in Hin. rewrite tev_rev. apply N.leb_gt. apply Hnew. exact Hin. }
  rewrite F.
  (* every watched event's key is one of ks: it is under P and has a version *)
  assert (EK : forall ev, In ev (s_events s) -> has_prefix P (enc (e_key ev)) = true -> In (e_key ev) ks).
  { intros ev Hin HP. destruct (in_dec N.eq_dec (e_key ev) ks) as [H|H]; [exact H|]. exfalso.
    destruct (Hks _ H) as [Hv0|Hp]; [|congruence].
    destruct (a_valid _ I3 ev (al_ev _ _ Hin) (proj2 (a_evs _ I3 ev Hin))) as [v Hv]. rewrite Hv0 in Hv. exact Hv. }
  assert (X : apply_events (watched enc P r0 s) (in_prefix P (rstore enc ks s0 r0)) = in_prefix P (rstore enc ks s rf)).
  { apply C06.ssorted_ext.
    - apply C06.ssorted_apply_events, C06.ssorted_filter, rstore_sorted.
    - apply C06.ssorted_filter, rstore_sorted.
    - intros kb. rewrite C06.st_get_apply_events, !C06.st_get_in_prefix.
      destruct (has_prefix P kb) eqn:HP.
      + destruct (existsb (fun k => beqb (enc k) kb) ks) eqn:EX.
        * apply existsb_exists in EX as [k [Hk Ek]]. apply beqb_eq in Ek. subst kb.
          rewrite !rstore_get_in by exact Hk. rewrite watched_eq, fold_replay.
          unfold wfilter. rewrite replay_filter_and by (intros ev _ ->; exact HP).
          rewrite <- (Hsnap r0 k (N.le_refl _)).
          apply (converges_core s (reach_inv1 q s R1) (reach_inv2 q s R1) I3 (reach_invx q s R1) Q r0 k).
        * assert (NK : forall k, In k ks -> enc k <> kb).
          { intros k Hk E. assert (existsb (fun k => beqb (enc k) kb) ks = true); [|congruence].
            apply existsb_exists. exists k. split; [exact Hk|]. rewrite E. apply beqb_refl. }
          rewrite !rstore_get_out by exact NK. apply C06.fold_eff_none.
          intros e He. unfold watched in He. apply in_map_iff in He as [ev [<- Hin]]. apply filter_In in Hin as [Hin Hf].
          apply andb_true_iff in Hf as [_ Hf].
          apply in_rev in Hin. rewrite tev_key. apply beqb_neq. apply NK. apply EK; assumption.
      + apply C06.fold_eff_none. intros e He. unfold watched in He. apply in_map_iff in He as [ev [<- Hin]].
        apply filter_In in Hin as [_ Hin]. apply andb_true_iff in Hin as [_ Hin]. rewrite tev_key.
        apply beqb_neq. intros E. rewrite E in Hin. congruence. }
  rewrite X. unfold C06Cases.store_eqb. rewrite (C06.list_eqb_refl _ C06.kv_eqb_refl). reflexivity.
Qed.

End Enc.

(* the same on label lists: any three consecutive stretches of one run, the middle one ending quiescent *)
Theorem klf_converges_run enc r0 ks P ls0 ls1 lsF :
  (forall a b, enc a = enc b -> a = b) ->
  Forall wf_label ls0 -> Forall wf_label ls1 -> Forall wf_label lsF ->
  let s0 := run (init_state r0) ls0 in let s := run s0 ls1 in let sF := run s lsF in
  quiescentb s = true ->
  (forall k, ~ In k ks -> vers s k = [] \/ has_prefix P (enc k) = false) ->
  C06Cases.c06_oracle (klf_of enc ks P s0 s sF) = None.
Proof.
  intros Inj W0 W1 WF s0 s sF Q H.
  apply (klf_converges enc Inj r0 ks P s0 s sF); [apply reach_run; [exact W0|apply reach_init]|exists ls1; split; [exact W1|reflexivity]|
    apply quiescentb_spec; exact Q|exists lsF; split; [exact WF|reflexivity]|exact H].
Qed.

(* ---------- non-vacuity ---------- *)
Lemma enc_ex_inj a b : enc_ex a = enc_ex b -> a = b.
Proof.
  unfold enc_ex. destruct (a <? 4) eqn:A, (b <? 4) eqn:B; intros H.
  - apply (f_equal (fun l => nth 3 l 0)) in H. cbn [nth] in H. lia.
  - cbn [app] in H. discriminate.
  - cbn [app] in H. discriminate.
  - apply app_inv_head in H. apply (f_equal (@length N)) in H. rewrite !repeat_length in H. lia.
Qed.

Lemma enc_ex_cover k : ~ In k [0; 1; 2; 3] -> has_prefix prefix_ex (enc_ex k) = false.
Proof.
  intros H. unfold enc_ex. destruct (k <? 4) eqn:A; [|reflexivity]. exfalso. apply H. cbn [In]. lia.
Qed.

(* the first range read is served while two landed writes with unknown outcome are still unannounced (committed 12,
   dealt 14); a third write then fails to land, the first repair is itself answered "unknown"; the final range read is
   served after everything drained (committed 18) *)
Definition ex_s0 : state := run (init_state 10) (firstn 23 repaired_witness).
Definition ex_s : state := run ex_s0 (skipn 23 repaired_witness).

Lemma klf_example :
  C06Cases.c06_oracle (klf_of enc_ex [0; 1; 2; 3] prefix_ex ex_s0 ex_s ex_s) = None /\
  match klf_of enc_ex [0; 1; 2; 3] prefix_ex ex_s0 ex_s ex_s with
  | C06Cases.KLf _ R0 kv0 evs Rf kvf =>
      R0 = 12 /\ length kv0 = 2%nat /\ map WatchSys.e_rev evs = [17; 18] /\ Rf = 18 /\ kvf = [([47; 114; 47; 97], (v2, 18))] /\
      s_dealt ex_s0 = 14
  | _ => False
  end.
Proof.
  split.
  - apply (klf_converges enc_ex enc_ex_inj 10 [0; 1; 2; 3] prefix_ex ex_s0 ex_s ex_s).
    + apply reach_run; [apply wf_labelsb_spec; reflexivity|apply reach_init].
    + exists (skipn 23 repaired_witness). split; [apply wf_labelsb_spec; reflexivity|reflexivity].
    + apply quiescentb_spec. vm_compute. reflexivity.
    + apply leads_refl.
    + intros k H. right. apply enc_ex_cover. exact H.
  - vm_compute. repeat split; reflexivity.
Qed.
