(* C07, part 5: Backend.compact = one scan per border pair.  Sorting of the snapshot, composition of
   the per-scan theorem over the ranges (no concurrent writers), and "nothing outside the ranges is touched". *)
From KB Require Import Base.Cases Model.Coder Model.CompactSys Model.C07Cases
  Proofs.Coder Proofs.CompactSafe Proofs.CompactReads Proofs.CompactWf Proofs.CompactPass.
From Coq Require Import Sorted.
Local Open Scope N_scope.

(* ---------- rec_cmp is a strict total order on slots ---------- *)

Lemma rec_cmp_antisym a b : rec_cmp b a = CompOpp (rec_cmp a b).
Proof.
  unfold rec_cmp, kr_cmp. rewrite (bcmp_antisym (rkey a) (rkey b)).
  destruct (bcmp (rkey a) (rkey b)); cbn [CompOpp]; try reflexivity. apply N.compare_antisym.
Qed.

Lemma rlt_trans a b c : rlt a b -> rlt b c -> rlt a c.
Proof.
  intros H1 H2. apply rlt_cases in H1. apply rlt_cases in H2. unfold rlt, rec_cmp, kr_cmp.
  destruct H1 as [H1|[E1 L1]], H2 as [H2|[E2 L2]].
  - rewrite (bcmp_lt_trans _ _ _ H1 H2). reflexivity.
  - rewrite <- E2, H1. reflexivity.
  - rewrite E1, H2. reflexivity.
  - rewrite E1, E2, bcmp_refl. apply N.compare_lt_iff. lia.
Qed.

Lemma insert_sorted x l :
  StronglySorted rlt l -> (forall y, In y l -> rec_cmp y x <> Eq) -> StronglySorted rlt (insert_by rec_ltb x l).
Proof.
  induction l as [|y l IH]; intros Hs Hne; cbn [insert_by]; [constructor; constructor|].
  inversion Hs as [|? ? Hs' Hf]; subst. rewrite Forall_forall in Hf.
  destruct (rec_ltb y x) eqn:E.
  - constructor; [apply IH; [exact Hs'|intros z Hz; apply Hne; right; exact Hz]|].
    apply Forall_forall. intros z Hz. apply in_insert_by in Hz as [->|Hz]; [|apply Hf; exact Hz].
    unfold rec_ltb in E. unfold rlt. destruct (rec_cmp y x); try discriminate; reflexivity.
  - assert (Hxy : rlt x y).
    { unfold rlt. rewrite rec_cmp_antisym. unfold rec_ltb in E.
      destruct (rec_cmp y x) eqn:Ec; cbn [CompOpp]; try discriminate; [|reflexivity].
      exfalso. apply (Hne y); [left; reflexivity|exact Ec]. }
    constructor; [exact Hs|]. constructor; [exact Hxy|].
    apply Forall_forall. intros z Hz. eapply rlt_trans; [exact Hxy|apply Hf; exact Hz].
Qed.

Definition slot_inj (V : store) : Prop := forall a b, In a V -> In b V -> rec_cmp a b = Eq -> a = b.

Lemma sort_sorted l : NoDup l -> slot_inj l -> StronglySorted rlt (sort_by rec_ltb l).
Proof.
  induction l as [|x l IH]; intros Hn Hi; [constructor|].
  inversion Hn as [|? ? Hx Hn']; subst. unfold sort_by. cbn [fold_right]. apply insert_sorted.
  - apply IH; [exact Hn'|]. intros a b Ha Hb. apply Hi; right; assumption.
  - intros y Hy Ec. apply in_sort_by in Hy. apply Hx. rewrite <- (Hi y x); [exact Hy|right; exact Hy|left; reflexivity|exact Ec].
Qed.

Record store_ok (V : store) : Prop := {
  sk_nodup : NoDup V;
  sk_inj : slot_inj V;
  sk_keys : forall y, In y V -> rkey y <> [];
  sk_revs : forall k r v, In (RVer k r v) V -> 0 < r
}.

Lemma store_ok_filter f V : store_ok V -> store_ok (filter f V).
Proof.
  intros [H1 H2 H3 H4]. split.
  - apply NoDup_filter. exact H1.
  - intros a b Ha Hb. apply filter_In in Ha as [Ha _]. apply filter_In in Hb as [Hb _]. apply H2; assumption.
  - intros y Hy. apply filter_In in Hy as [Hy _]. apply H3; exact Hy.
  - intros k r v Hy. apply filter_In in Hy as [Hy _]. eapply H4; exact Hy.
Qed.

Lemma snap_ok_range lo hi V : store_ok V -> snap_ok (sort_by rec_ltb (filter (in_range lo hi) V)).
Proof.
  intros Hok. pose proof (store_ok_filter (in_range lo hi) V Hok) as [H1 H2 H3 H4]. split.
  - apply sort_sorted; assumption.
  - intros y Hy. apply in_sort_by in Hy. apply H3; exact Hy.
  - intros k r v Hy. apply in_sort_by in Hy. eapply H4; exact Hy.
Qed.

(* ---------- sequential scans shrink the store by a filter that only drops records of touched keys ---------- *)

Definition tsub (Q : bytes -> Prop) (A B : store) : Prop :=
  exists f, B = filter f A /\ forall y, In y A -> f y = false -> Q (rkey y).

Lemma tsub_refl Q A : tsub Q A A.
Proof.
  exists (fun _ => true). split; [|intros; discriminate].
  induction A as [|x A IH]; [reflexivity|]. cbn [filter]. f_equal. exact IH.
Qed.

Lemma filter_filter {A} (f g : A -> bool) l : filter g (filter f l) = filter (fun x => f x && g x) l.
Proof.
  induction l as [|x l IH]; [reflexivity|]. cbn [filter]. destruct (f x); cbn [filter andb]; [destruct (g x)|]; rewrite IH; reflexivity.
Qed.

Lemma tsub_trans Q A B C : tsub Q A B -> tsub Q B C -> tsub Q A C.
Proof.
  intros (f & -> & Hf) (g & -> & Hg). exists (fun x => f x && g x). split; [apply filter_filter|].
  intros y Hy E. destruct (f y) eqn:Ef; [|apply Hf; assumption].
  cbn [andb] in E. apply Hg; [apply filter_In; split; assumption|exact E].
Qed.

Lemma same_slot_key x y : same_slot x y = true -> rkey y = rkey x.
Proof.
  unfold same_slot. intros H. apply andb_true_iff in H as [H _]. apply andb_true_iff in H as [H _].
  apply beqb_eq in H. congruence.
Qed.

Lemma ed_tsub R kind x d (Q : bytes -> Prop) :
  adds_of d = [] -> Q (rkey x) ->
  adds_of (engine_delete R kind x d) = [] /\ d_ghost (engine_delete R kind x d) = d_ghost d /\
  tsub Q (d_store d) (d_store (engine_delete R kind x d)).
Proof.
  intros Ha HQ.
  destruct (ed_cases R kind x d) as [[E _]|(Ed & Esk & adds & o & rest & o' & Hq & Eg & Eo & Et & Hres)];
    cbv zeta in *; [rewrite E; split; [exact Ha|split; [reflexivity|apply tsub_refl]]|].
  assert (Hadds : adds = [] /\ flat_map fst rest = []).
  { destruct Hq as [(_ & -> & _ & ->)|Eq]; [auto|]. unfold adds_of in Ha. rewrite Eq in Ha. cbn [flat_map fst] in Ha.
    apply app_eq_nil in Ha. exact Ha. }
  destruct Hadds as [-> Hrest]. cbn [apply_env] in *.
  split; [unfold adds_of; rewrite Eo; exact Hrest|]. split; [exact Eg|].
  destruct Hres as [(_ & E & _)|[(_ & _ & E & _)|[(_ & E & _)|(_ & E & _)]]]; rewrite E; try apply tsub_refl.
  exists (fun y => negb (same_slot x y)). split; [reflexivity|].
  intros y _ Hf. apply negb_false_iff in Hf. rewrite (same_slot_key _ _ Hf). exact HQ.
Qed.

Definition tstep (Q : bytes -> Prop) (d d' : dst) : Prop :=
  adds_of d' = [] /\ d_ghost d' = d_ghost d /\ tsub Q (d_store d) (d_store d').

Lemma tstep_refl Q d : adds_of d = [] -> tstep Q d d.
Proof. intros H. split; [exact H|split; [reflexivity|apply tsub_refl]]. Qed.

Lemma tstep_trans Q a b c : tstep Q a b -> tstep Q b c -> tstep Q a c.
Proof. intros (A1 & A2 & A3) (B1 & B2 & B3). split; [exact B1|split; [congruence|eapply tsub_trans; eauto]]. Qed.

Lemma wbody_tsub R x s (Q : bytes -> Prop) :
  adds_of (w_d s) = [] -> Q (rkey x) -> tstep Q (w_d s) (w_d (wbody (cfg R) x s)).
Proof.
  intros Ha HQ.
  destruct (R <? rrev x) eqn:HR; [rewrite wbody_skip by exact HR; apply tstep_refl; exact Ha|].
  destruct (wbody_compact R x s HR) as (Ed & _). rewrite Ed.
  assert (KA : tstep Q (w_d s) (stepA R x s)).
  { unfold stepA. destruct (beqb (rkey x) (w_pk s) && (0 <? w_pr s)) eqn:Eb; [|apply tstep_refl; exact Ha].
    apply andb_true_iff in Eb as [Ek _]. apply beqb_eq in Ek.
    apply ed_tsub; [exact Ha|cbn [rkey]; rewrite <- Ek; exact HQ]. }
  assert (KB : tstep Q (stepA R x s) (stepB R x (stepA R x s))).
  { unfold stepB. destruct (is_tomb (rval x)); [apply ed_tsub; [apply KA|exact HQ]|apply tstep_refl; apply KA]. }
  pose proof (tstep_trans _ _ _ _ KA KB) as KAB.
  eapply tstep_trans; [exact KAB|].
  unfold stepC. destruct x as [k0 orev [|]|k0 r0 v0]; try (apply tstep_refl; apply KAB).
  destruct (R <? orev); [apply tstep_refl; apply KAB|]. apply ed_tsub; [apply KAB|exact HQ].
Qed.

Lemma wloop_tsub R (Q : bytes -> Prop) : forall snap s,
  adds_of (w_d s) = [] -> (forall x, In x snap -> Q (rkey x)) ->
  tstep Q (w_d s) (w_d (wloop (cfg R) snap s)).
Proof.
  induction snap as [|x t IH]; intros s Ha HQ; cbn [wloop]; [apply tstep_refl; exact Ha|].
  change (need_more (cfg R) (w_out s)) with true. cbn [negb].
  destruct (d_dead (w_d s)); [apply tstep_refl; exact Ha|].
  pose proof (wbody_tsub R x s Q Ha (HQ x (or_introl eq_refl))) as A.
  eapply tstep_trans; [exact A|]. apply IH; [apply A|intros y Hy; apply HQ; right; exact Hy].
Qed.

(* ---------- one range, then all ranges ---------- *)

Definition key_in (lo hi k : bytes) : Prop := bleb lo k && bltb k hi = true.

Lemma range_seq R U lo hi d :
  dinv R U d -> store_ok (d_store d) -> adds_of d = [] ->
  dinv R U (compact_range R 0 lo hi d) /\
  tstep (key_in lo hi) d (compact_range R 0 lo hi d) /\
  (wfd (d_store d) -> wfd (d_store (compact_range R 0 lo hi d))).
Proof.
  intros Hd Hok Ha. unfold compact_range, compact_range_e in *. change (mkCfg R true 0 0 []) with (cfg R) in *.
  set (snap := sort_by rec_ltb (filter (in_range lo hi) (d_store d))) in *.
  set (d0 := mkD (d_store d) (d_ghost d) [] (d_oc d) (d_dead d) (d_trace d)) in *.
  assert (Hsnap_in : forall y, In y snap -> In y (d_store d) /\ in_range lo hi y = true).
  { intros y Hy. apply in_sort_by in Hy. apply filter_In in Hy. exact Hy. }
  assert (Hd0 : dinv R U d0) by (destruct Hd; constructor; assumption).
  assert (Hl : linv (wfd (d_store d)) R U snap [] snap (init_w d0)).
  { constructor; cbn [init_w w_d w_pr w_pk w_pv d0 d_store].
    - exact Hd0.
    - intros Hw. split; [exact Ha|exact Hw].
    - intros y Hy _. apply Hsnap_in. exact Hy.
    - intros k r v Hin _ (y & Hy & Hk). apply in_sort_by. apply filter_In. split; [exact Hin|].
      destruct (Hsnap_in y Hy) as [_ Hr]. unfold in_range in *. cbn [rkey]. rewrite <- Hk. exact Hr.
    - lia.
    - intros k r v []. }
  destruct (wloop_inv (wfd (d_store d)) R U snap snap [] (init_w d0) eq_refl (snap_ok_range lo hi _ Hok) Hl) as (H1 & H2).
  assert (T : tstep (key_in lo hi) (w_d (init_w d0)) (w_d (wloop (cfg R) snap (init_w d0)))).
  { apply wloop_tsub; [exact Ha|]. intros x Hx. destruct (Hsnap_in x Hx) as [_ Hr]. exact Hr. }
  split; [exact H1|]. split; [exact T|]. intros Hw. apply H2. exact Hw.
Qed.

Lemma tsub_ok Q A B : tsub Q A B -> store_ok A -> store_ok B.
Proof. intros (f & -> & _) H. apply store_ok_filter. exact H. Qed.

Definition touched (ranges : list (bytes * bytes)) (k : bytes) : Prop :=
  exists lh, In lh ranges /\ key_in (fst lh) (snd lh) k.

Lemma tstep_weaken (Q Q' : bytes -> Prop) a b : (forall k, Q k -> Q' k) -> tstep Q a b -> tstep Q' a b.
Proof.
  intros H (A1 & A2 & f & E & Hf). split; [exact A1|split; [exact A2|]]. exists f. split; [exact E|]. intros y Hy Ey. apply H. eauto.
Qed.

Lemma compact_all_seq R U : forall ranges d,
  dinv R U d -> store_ok (d_store d) -> adds_of d = [] ->
  dinv R U (compact_all R 0 ranges d) /\
  tstep (touched ranges) d (compact_all R 0 ranges d) /\
  (wfd (d_store d) -> wfd (d_store (compact_all R 0 ranges d))).
Proof.
  induction ranges as [|[lo hi] ranges IH]; intros d Hd Hok Ha; cbn [compact_all fold_left] in *.
  - split; [exact Hd|]. split; [apply tstep_refl; exact Ha|auto].
  - cbn [fst snd] in *.
    destruct (range_seq R U lo hi d Hd Hok Ha) as (A1 & A2 & A4).
    pose proof A2 as (A2a & _ & A3).
    destruct (IH (compact_range R 0 lo hi d) A1 (tsub_ok _ _ _ A3 Hok) A2a) as (B1 & B2 & B3).
    split; [exact B1|]. split; [|intros Hw; apply B3, A4, Hw].
    eapply tstep_trans.
    + eapply tstep_weaken; [|exact A2]. intros k Hk. exists (lo, hi). split; [left; reflexivity|exact Hk].
    + eapply tstep_weaken; [|exact B2]. intros k (lh & Hlh & Hk). exists lh. split; [right; exact Hlh|exact Hk].
Qed.

(* C07_pass for Backend.compact (all border pairs), no concurrent writers: every delete safe, reads at
   every revision >= R unchanged, relaxed well-formedness kept, and every record that disappeared belongs
   to a key inside one of the ranges (nothing outside the compaction ranges is touched) *)
Theorem compact_all_safe R V ranges (os : list outcome) :
  let d := compact_all R 0 ranges (init_d V (map (fun o => ([], o)) os)) in
  store_ok V -> uniq_ver V ->
  Forall (fun s => ds_safe s = true) (d_trace d) /\
  veq R (d_store d) V /\
  (forall y, In y (d_store d) -> In y V) /\
  (forall y, In y V -> In y (d_store d) \/ touched ranges (rkey y)) /\
  (wfd V -> wfd (d_store d)).
Proof.
  cbv zeta. intros Hok Hu.
  set (oc := map (fun o : outcome => ([] : list rec, o)) os) in *.
  assert (Hnil : flat_map fst oc = []) by (unfold oc; clear; induction os as [|o os IH]; [reflexivity|exact IH]).
  assert (Hd0 : dinv R V (init_d V oc)).
  { constructor; cbn [init_d d_store d_ghost d_oc d_trace]; auto.
    - apply cinv_refl.
    - intros k r v Hin. unfold adds_of in Hin. cbn [d_oc init_d] in Hin. rewrite Hnil in Hin. destruct Hin. }
  destruct (compact_all_seq R V ranges (init_d V oc) Hd0 Hok) as ([Hc Hu' Hw Hoc Hs] & (_ & Hg & f & E & Hf) & Hwf); [exact Hnil|].
  cbn [init_d d_store d_ghost] in *. rewrite Hg in Hc.
  split; [exact Hs|]. split; [|split; [|split]].
  - apply cinv_veq; assumption.
  - intros y Hy. rewrite E in Hy. apply filter_In in Hy as [Hy _]. exact Hy.
  - intros y Hy. destruct (f y) eqn:Ef; [left; rewrite E; apply filter_In; split; assumption|right; apply Hf; assumption].
  - exact Hwf.
Qed.
