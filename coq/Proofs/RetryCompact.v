(* C09 / C06 — compaction's deletions interleaved with the retry system (Model/RetryCompact.v).
   A simulation: the store with deletions (physical) and the store without them (logical) run in lockstep on the base
   labels; all control state is equal, index records are equal, and per key the physical version list is a part of
   the logical one whose missing records were removed under C07_safe_remove's premise at a revision <= the floor.
   Consequences: every read at a revision >= the floor, every decision a request or the retry loop takes, every answer
   and every published event are the same — so C09_converges and the KLf statement of C06 hold with deletions. *)
From Coq Require Import ZifyN ZifyNat ZifyBool.
From KB Require Import Base.Cases Model.RetrySys Model.RetryCompact
  Proofs.RetryBase Proofs.RetryInv1 Proofs.RetryInv2 Proofs.RetryProps Proofs.RetryInv3 Proofs.RetryInvX Proofs.C09Cases.
Local Open Scope N_scope.

(* ---------- version lists: reads by membership ---------- *)
Lemma latest_le_max vs R r v : latest_le vs R = Some (r, v) -> forall r' v', In (r', v') vs -> r' <= R -> r' <= r.
Proof.
  revert r v. induction vs as [|[r1 v1] vs IH]; intros r v; cbn [latest_le]; [discriminate|].
  destruct (latest_le vs R) as [[r0 v0]|] eqn:L.
  - destruct ((r1 <=? R) && (r0 <? r1)) eqn:C; intros H; injection H as <- <-; intros r' v' [E|Hin] Hle.
    + injection E as <- <-. lia.
    + specialize (IH r0 v0 eq_refl r' v' Hin Hle). lia.
    + injection E as <- <-. lia.
    + apply (IH r0 v0 eq_refl r' v' Hin Hle).
  - destruct (r1 <=? R) eqn:C; [|discriminate]. intros H; injection H as <- <-. intros r' v' [E|Hin] Hle.
    + injection E as <- <-. lia.
    + pose proof (latest_le_none vs R L r' v' Hin). lia.
Qed.

Lemma latest_le_char vs R r v :
  desc vs -> In (r, v) vs -> r <= R -> (forall r' v', In (r', v') vs -> r' <= R -> r' <= r) -> latest_le vs R = Some (r, v).
Proof.
  intros D Hin Hle Hmax. destruct (latest_le vs R) as [[r0 v0]|] eqn:L.
  - destruct (latest_le_in vs R r0 v0 L) as [H0 H0le]. pose proof (latest_le_max vs R r0 v0 L r v Hin Hle).
    pose proof (Hmax r0 v0 H0 H0le). assert (r0 = r) by lia. subst r0. rewrite (desc_unique vs r v0 v D H0 Hin). reflexivity.
  - pose proof (latest_le_none vs R L r v Hin). lia.
Qed.

Lemma latest_le_none_if vs R : (forall r v, In (r, v) vs -> R < r) -> latest_le vs R = None.
Proof.
  intros H. destruct (latest_le vs R) as [[r0 v0]|] eqn:L; [|reflexivity].
  destruct (latest_le_in vs R r0 v0 L) as [H0 H0le]. specialize (H r0 v0 H0). lia.
Qed.

Lemma latest_desc vs : desc vs -> latest vs = match vs with [] => None | x :: _ => Some x end.
Proof. intros D. destruct vs as [|[r v] rest]; [reflexivity|]. apply (desc_latest _ r v rest D eq_refl). Qed.

Lemma desc_filter f vs : desc vs -> desc (filter f vs).
Proof.
  induction vs as [|[r v] vs IH]; intros D; [exact I|]. cbn [desc] in D. destruct D as [D1 D2]. cbn [filter].
  destruct (f (r, v)); [|apply IH; exact D2]. cbn [desc]. split; [|apply IH; exact D2].
  intros r' v' Hin. apply filter_In in Hin as [Hin _]. apply (D1 r' v' Hin).
Qed.

(* ---------- the per-key relation ---------- *)
(* F: the floor (largest compaction revision so far); vp: physical versions; vl: logical versions *)
Definition gone_ok (F : N) (vp vl : list (N * value)) (r : N) (v : value) : Prop :=
  r <= F /\ ((exists r2 v2, In (r2, v2) vl /\ r < r2 <= F) \/ (is_tomb v = true /\ forall r' v', In (r', v') vp -> r <= r')).

Definition K (F : N) (vp vl : list (N * value)) : Prop :=
  desc vp /\ (forall r v, In (r, v) vp -> In (r, v) vl) /\
  (forall r v, In (r, v) vl -> In (r, v) vp \/ gone_ok F vp vl r v).

Lemma K_refl F vs : desc vs -> K F vs vs.
Proof. intros D. split; [exact D|]. split; [auto|]. intros r v H. left. exact H. Qed.

Lemma K_mono F F' vp vl : F <= F' -> K F vp vl -> K F' vp vl.
Proof.
  intros Hle [D [S G]]. split; [exact D|]. split; [exact S|]. intros r v H. destruct (G r v H) as [H1|[H1 H2]]; [left; exact H1|right].
  split; [lia|]. destruct H2 as [[r2 [v2 [H3 H4]]]|H2]; [left; exists r2, v2; split; [exact H3|lia]|right; exact H2].
Qed.

(* reads at or above the floor agree *)
Lemma K_snap F vp vl R : desc vl -> K F vp vl -> F <= R -> snap_vers vp R = snap_vers vl R.
Proof.
  intros Dl [Dp [S G]] HF. unfold snap_vers. destruct (latest_le vl R) as [[r v]|] eqn:L.
  - destruct (latest_le_in vl R r v L) as [Hin Hle]. pose proof (latest_le_max vl R r v L) as Hmax.
    destruct (G r v Hin) as [Hp|[H1 [[r2 [v2 [H3 H4]]]|[Ht Hall]]]].
    + rewrite (latest_le_char vp R r v Dp Hp Hle); [reflexivity|]. intros r' v' H' Hle'. apply (Hmax r' v' (S r' v' H') Hle').
    + specialize (Hmax r2 v2 H3). lia.
    + rewrite Ht. destruct (latest_le vp R) as [[r0 v0]|] eqn:Lp; [|reflexivity].
      destruct (latest_le_in vp R r0 v0 Lp) as [H0 H0le]. pose proof (Hall r0 v0 H0). pose proof (Hmax r0 v0 (S r0 v0 H0) H0le).
      assert (r0 = r) by lia. subst r0. rewrite (desc_unique vl r v0 v Dl (S r v0 H0) Hin), Ht. reflexivity.
  - rewrite latest_le_none_if; [reflexivity|]. intros r v H. apply (latest_le_none vl R L r v (S r v H)).
Qed.

(* the newest version: the same, or it is gone — then it was a tombstone at or below the floor and nothing is left *)
Lemma K_latest F vp vl : desc vl -> K F vp vl ->
  latest vp = latest vl \/ (exists r v, latest vl = Some (r, v) /\ r <= F /\ is_tomb v = true /\ vp = []).
Proof.
  intros Dl [Dp [S G]]. rewrite (latest_desc vl Dl). destruct vl as [|[r v] rest].
  - left. destruct vp as [|[r' v'] vp']; [reflexivity|]. destruct (S r' v' (or_introl eq_refl)).
  - cbn [desc] in Dl. destruct Dl as [Dl1 Dl2].
    assert (Hmax : forall r' v', In (r', v') ((r, v) :: rest) -> r' <= r).
    { intros r' v' [E|H]; [injection E as <- <-; lia|]. specialize (Dl1 r' v' H). lia. }
    destruct (G r v (or_introl eq_refl)) as [Hp|[H1 [[r2 [v2 [H3 H4]]]|[Ht Hall]]]].
    + left. rewrite (latest_desc vp Dp). destruct vp as [|[r0 v0] vp']; [destruct Hp|]. f_equal.
      cbn [desc] in Dp. destruct Dp as [Dp1 _]. destruct Hp as [E|Hp]; [exact E|].
      specialize (Dp1 r v Hp). specialize (Hmax r0 v0 (S r0 v0 (or_introl eq_refl))). lia.
    + specialize (Hmax r2 v2 H3). lia.
    + destruct vp as [|[r0 v0] vp'].
      * right. exists r, v. auto.
      * left. pose proof (Hall r0 v0 (or_introl eq_refl)). pose proof (Hmax r0 v0 (S r0 v0 (or_introl eq_refl))).
        assert (r0 = r) by lia. subst r0. rewrite (latest_desc _ Dp). f_equal. f_equal.
        apply (desc_unique ((r, v) :: rest) r v0 v); [cbn [desc]; auto|apply S; left; reflexivity|left; reflexivity].
Qed.

Lemma K_user_get F vp vl : desc vl -> K F vp vl -> user_get vp = user_get vl.
Proof.
  intros Dl Kk. unfold user_get. destruct (K_latest F vp vl Dl Kk) as [->|[r [v [-> [_ [Ht ->]]]]]]; [reflexivity|].
  cbn [latest]. rewrite Ht. reflexivity.
Qed.

(* a new version above everything *)
Lemma K_cons F vp vl r v : F < r -> (forall r' v', In (r', v') vl -> r' < r) -> K F vp vl -> K F ((r, v) :: vp) ((r, v) :: vl).
Proof.
  intros HF Hnew [Dp [S G]]. split; [|split].
  - cbn [desc]. split; [|exact Dp]. intros r' v' H. apply (Hnew r' v' (S r' v' H)).
  - intros r' v' [E|H]; [left; exact E|right; apply S; exact H].
  - intros r' v' [E|H]; [left; left; exact E|]. destruct (G r' v' H) as [H1|[H1 H2]]; [left; right; exact H1|right].
    split; [exact H1|]. destruct H2 as [[r2 [v2 [H3 H4]]]|[Ht Hall]].
    + left. exists r2, v2. split; [right; exact H3|exact H4].
    + right. split; [exact Ht|]. intros r0 v0 [E|H0]; [injection E as <- <-; lia|apply (Hall r0 v0 H0)].
Qed.

(* one deletion under C07_safe_remove's premise at R *)
Definition premise1 (R : N) (vs : list (N * value)) (r : N) : Prop :=
  (forall v', ~ In (r, v') vs)
  \/ (exists r2 v2, In (r2, v2) vs /\ r < r2 <= R)
  \/ (exists v, is_tomb v = true /\ r <= R /\ In (r, v) vs /\ forall r' v', In (r', v') vs -> r <= r').

Lemma K_del F R vp vl r : desc vl -> premise1 R vp r -> K F vp vl ->
  K (N.max F R) (filter (fun x => negb (fst x =? r)) vp) vl.
Proof.
  intros Dl P Kk. apply (K_mono F (N.max F R)) in Kk; [|lia]. destruct Kk as [Dp [S G]].
  set (vp' := filter (fun x => negb (fst x =? r)) vp).
  assert (Sub : forall r0 v0, In (r0, v0) vp' -> In (r0, v0) vp) by (intros r0 v0 H; apply filter_In in H as [H _]; exact H).
  split; [apply desc_filter; exact Dp|]. split; [intros r0 v0 H; apply S, Sub; exact H|].
  intros r0 v0 H. destruct (G r0 v0 H) as [Hp|[H1 H2]].
  - destruct (N.eq_dec r0 r) as [->|Ne].
    + right. destruct P as [P|[[r2 [v2 [P1 P2]]]|[v [Pt [PR [Pin Pall]]]]]].
      * destruct (P v0 Hp).
      * split; [|left; exists r2, v2; split; [apply S; exact P1|lia]].
        assert (r < r2 <= R) by exact P2. lia.
      * rewrite (desc_unique vp r v0 v Dp Hp Pin) in *. split; [lia|]. right. split; [exact Pt|].
        intros r' v' H'. apply (Pall r' v' (Sub r' v' H')).
    + left. apply filter_In. split; [exact Hp|]. cbn [fst]. apply negb_true_iff, N.eqb_neq. exact Ne.
  - right. split; [exact H1|]. destruct H2 as [H2|[Ht Hall]]; [left; exact H2|right]. split; [exact Ht|].
    intros r' v' H'. apply (Hall r' v' (Sub r' v' H')).
Qed.

(* ---------- stores ---------- *)
Definition SRel (F : N) (sp sl : store) : Prop :=
  (forall k, k_idx (sp k) = k_idx (sl k)) /\ (forall k, K F (k_vers (sp k)) (k_vers (sl k))).

Lemma commit_rel (sp sl : store) b e : (forall k, k_idx (sp k) = k_idx (sl k)) ->
  exists (ap : bool) (eo : option err), commit sp b e = ((if ap then apply_batch sp b else sp), eo) /\
                commit sl b e = ((if ap then apply_batch sl b else sl), eo).
Proof.
  intros Hi. unfold commit. rewrite Hi. destruct e as [| | |a oc].
  - destruct (cond_holds (b_cond b) (k_idx (sl (b_key b)))).
    + exists true, None. split; reflexivity.
    + exists false, (Some (ECas true (k_idx (sl (b_key b))))). split; reflexivity.
  - exists false, (Some EOther). split; reflexivity.
  - exists false, (Some (ECas false None)). split; reflexivity.
  - exists (a && cond_holds (b_cond b) (k_idx (sl (b_key b)))), (Some (EUncertain oc)). split; reflexivity.
Qed.

Lemma SRel_apply F sp sl b :
  SRel F sp sl -> F < b_rev b -> (forall r' v', In (r', v') (k_vers (sl (b_key b))) -> r' < b_rev b) ->
  SRel F (apply_batch sp b) (apply_batch sl b).
Proof.
  intros [Hi Hk] HF Hnew. split; intros k; unfold apply_batch; destruct (k =? b_key b) eqn:E; cbn [k_idx k_vers]; auto.
  apply N.eqb_eq in E. subst k. apply K_cons; auto.
Qed.

(* what one action changes in the store: nothing, or one batch *)
Definition store_move (sp sp' sl sl' : store) : Prop :=
  (sp' = sp /\ sl' = sl) \/ (exists b, sp' = apply_batch sp b /\ sl' = apply_batch sl b).

Lemma thread_step_rel l (sp : store) op p e l' p' u :
  (forall k, k_idx (sp k) = k_idx (s_store l k)) ->
  (forall k, user_get (k_vers (sp k)) = user_get (k_vers (s_store l k))) ->
  thread_step l op p e = (l', p', u) ->
  exists sp', thread_step (set_store l sp) op p e = (set_store l' sp', p', u) /\ store_move sp sp' (s_store l) (s_store l').
Proof.
  intros Hi Hu H. destruct p.
  3: { cbn [thread_step s_store set_store] in *. destruct (commit_rel sp (s_store l) b e Hi) as [ap [eo [Ep El]]].
       rewrite Ep. rewrite El in H.
       exists (if ap then apply_batch sp b else sp).
       assert (M : store_move sp (if ap then apply_batch sp b else sp) (s_store l) (if ap then apply_batch (s_store l) b else s_store l)).
       { destruct ap; [right; exists b; split; reflexivity|left; split; reflexivity]. }
       destruct st; [destruct eo as [er|]; [destruct (is_cas er); [destruct er as [[|] [old|]| | | |]|]|]|];
         inversion H; subst; (split; [reflexivity|exact M]). }
  all: destruct op; cbn [thread_step s_store set_store s_dealt s_committed s_queue op_key] in *; rewrite ?Hu, ?Hi;
    repeat match type of H with context [match ?x with _ => _ end] => destruct x eqn:? end;
    inversion H; subst; exists sp; (split; [reflexivity|left; split; reflexivity]).
Qed.

Lemma retry_step_rel F l (sp : store) e :
  (forall k, desc (k_vers (s_store l k))) -> SRel F sp (s_store l) ->
  (forall node, retry_node (s_retry l) = Some node -> F < e_rev node) ->
  exists sp', retry_step (set_store l sp) e = set_store (retry_step l e) sp' /\
              store_move sp sp' (s_store l) (s_store (retry_step l e)).
Proof.
  intros Dl [Hi Hk] HF. unfold retry_step. cbn [s_retry s_queue s_now s_store s_dealt set_store].
  destruct (s_retry l) as [|node|node val|node val rev|node rev eo|node st] eqn:R.
  - destruct (s_queue l) as [|[node t] q]; [|destruct (s_now l - t <? retry_interval)];
      exists sp; (split; [reflexivity|left; split; reflexivity]).
  - destruct e; try (exists sp; split; [reflexivity|left; split; reflexivity]).
    specialize (HF node eq_refl).
    destruct (K_latest F _ _ (Dl (e_key node)) (Hk (e_key node))) as [->|[r [v [EL [Hr [Ht Ep]]]]]].
    + destruct (latest (k_vers (s_store l (e_key node)))) as [[m v]|]; [destruct (negb (m =? e_rev node))|];
        exists sp; (split; [reflexivity|left; split; reflexivity]).
    + exists sp. rewrite Ep, EL. cbn [latest].
      assert ((r =? e_rev node) = false) as -> by (apply N.eqb_neq; lia). cbn [negb].
      split; [reflexivity|left; split; reflexivity].
  - exists sp. split; [reflexivity|left; split; reflexivity].
  - destruct (commit_rel sp (s_store l) (mk_batch (e_key node) (CIs (e_rev node, is_tomb val)) rev (is_tomb val) val) e Hi) as [ap [eo [Ep El]]].
    rewrite Ep, El. exists (if ap then apply_batch sp (mk_batch (e_key node) (CIs (e_rev node, is_tomb val)) rev (is_tomb val) val) else sp).
    split; [reflexivity|]. cbn [s_store set_retry set_store].
    destruct ap; [right; eexists; split; reflexivity|left; split; reflexivity].
  - destruct eo as [er|]; [destruct (is_cas er)|]; exists sp; (split; [reflexivity|left; split; reflexivity]).
  - exists sp. split; [reflexivity|left; split; reflexivity].
Qed.

Lemma seq_step_rel sw l (sp : store) :
  seq_step sw (set_store l sp) = set_store (seq_step sw l) sp /\ s_store (seq_step sw l) = s_store l.
Proof.
  unfold seq_step. cbn [s_seq s_slots s_committed s_queue s_now s_events set_store].
  destruct (s_seq l) as [|ev|ev].
  - destruct (s_slots l (s_committed l + 1)) as [ev|]; [|split; reflexivity].
    destruct (e_valid ev); [|destruct (e_unc ev)]; split; reflexivity.
  - destruct sw; split; reflexivity.
  - destruct sw; split; reflexivity.
Qed.

Lemma step_move F l (sp : store) lab :
  Inv1 l -> Inv2 l -> (forall ev t, In (ev, t) (s_queue l) -> F < e_rev ev) -> SRel F sp (s_store l) ->
  exists sp', step (set_store l sp) lab = set_store (step l lab) sp' /\ store_move sp sp' (s_store l) (s_store (step l lab)).
Proof.
  intros I1 I2 HQ S. destruct lab as [t op|t e| |e|d]; unfold step, step_gen.
  - cbn [s_threads set_store]. destruct (get_thread t (s_threads l)); exists sp; (split; [reflexivity|left; split; reflexivity]).
  - cbn [s_threads set_store]. destruct (get_thread t (s_threads l)) as [th|]; [|exists sp; split; [reflexivity|left; split; reflexivity]].
    destruct (thread_step l (t_op th) (t_pc th) e) as [[l' p'] u] eqn:TS.
    destruct (thread_step_rel l sp (t_op th) (t_pc th) e l' p' u (proj1 S)) as [sp' [E M]]; [|exact TS|].
    + intros k. apply (K_user_get F); [apply (v_desc _ I2 k)|apply (proj2 S k)].
    + rewrite E. exists sp'. split; [reflexivity|exact M].
  - destruct (seq_step_rel false l sp) as [E1 E2]. exists sp. rewrite E1, E2. split; [reflexivity|left; split; reflexivity].
  - apply (retry_step_rel F l sp e (v_desc _ I2) S).
    intros node Hn. destruct (i_rhead _ I1 node Hn) as [t [rest Hq]]. apply (HQ node t). rewrite Hq. left. reflexivity.
  - exists sp. split; [reflexivity|left; split; reflexivity].
Qed.

Lemma step_rel F l (sp : store) lab :
  Inv1 l -> Inv2 l -> wf_label lab -> F <= s_committed l ->
  (forall ev t, In (ev, t) (s_queue l) -> F < e_rev ev) -> SRel F sp (s_store l) ->
  exists sp', step (set_store l sp) lab = set_store (step l lab) sp' /\ SRel F sp' (s_store (step l lab)).
Proof.
  intros I1 I2 W HF HQ S. destruct (step_move F l sp lab I1 I2 HQ S) as [sp' [E M]]. exists sp'. split; [exact E|].
  destruct M as [[-> E2]|[b [-> E2]]]; rewrite E2; [exact S|].
  pose proof (v_desc _ (inv2_step l lab I1 W I2) (b_key b)) as D. unfold vers in D. rewrite E2 in D.
  unfold apply_batch in D at 1. rewrite N.eqb_refl in D. cbn [k_vers desc] in D. destruct D as [D1 _].
  apply SRel_apply; [exact S| |exact D1].
  destruct (step_vers l lab (b_key b) I1 I2 W) as [H|[r [v [H Hr]]]]; unfold vers in H; rewrite E2 in H;
    unfold apply_batch in H at 1; rewrite N.eqb_refl in H; cbn [k_vers] in H.
  - exfalso. apply (f_equal (@length _)) in H. cbn [length] in H. lia.
  - injection H as <- _. lia.
Qed.

(* ---------- well-formed extended labels ---------- *)
(* a revision Backend.Compact may use in state s (C09_compact_capped: the capped revision is one) *)
Definition cap_ok (s : state) (R : N) : Prop :=
  R <= s_committed s /\ forall ev t, In (ev, t) (s_queue s) -> R < e_rev ev.

Definition xwf (s : state) (x : xlabel) : Prop :=
  match x with
  | XL l => wf_label l
  | XDel k r R => cap_ok s R /\ premise1 R (k_vers (s_store s k)) r
  end.

Fixpoint xwf_all (s : state) (xs : list xlabel) : Prop :=
  match xs with [] => True | x :: xs' => xwf s x /\ xwf_all (xstep s x) xs' end.

Fixpoint floor_from (F : N) (xs : list xlabel) : N :=
  match xs with
  | [] => F
  | XDel _ _ R :: xs' => floor_from (N.max F R) xs'
  | _ :: xs' => floor_from F xs'
  end.

Lemma floor_from_le F xs : F <= floor_from F xs.
Proof. revert F; induction xs as [|[l|k r R] xs IH]; intros F; cbn [floor_from]; [lia|apply IH|]. specialize (IH (N.max F R)). lia. Qed.

Lemma retry_step_queue s e : s_queue (retry_step s e) = s_queue s \/ s_queue (retry_step s e) = pop_head (s_queue s).
Proof.
  unfold retry_step.
  repeat match goal with |- context [match ?x with _ => _ end] => destruct x eqn:? end;
    cbn [s_queue set_rlast set_retry set_dealt set_store set_slots set_queue]; auto.
Qed.

(* the queue only loses nodes or gains one above the committed revision *)
Lemma step_queue_new s l ev t : Inv1 s -> In (ev, t) (s_queue (step s l)) -> In (ev, t) (s_queue s) \/ s_committed s < e_rev ev.
Proof.
  intros I H. destruct l as [t0 op|t0 e| |e|d]; unfold step, step_gen in H.
  - destruct (get_thread t0 (s_threads s)); left; exact H.
  - destruct (get_thread t0 (s_threads s)) as [th|]; [|left; exact H].
    destruct (thread_step s (t_op th) (t_pc th) e) as [[s' p'] u] eqn:TS.
    destruct (thread_step_frame _ _ _ _ _ _ _ TS) as [_ [_ [_ [Hq _]]]]. cbn [s_queue set_threads] in H. rewrite Hq in H. left. exact H.
  - unfold seq_step in H. destruct (s_seq s) as [|ev0|ev0] eqn:Q.
    + destruct (s_slots s (s_committed s + 1)) as [ev0|]; [|left; exact H].
      destruct (e_valid ev0); [|destruct (e_unc ev0)]; left; exact H.
    + cbn [s_queue set_seq set_queue] in H. apply in_app_iff in H as [H|[H|[]]]; [left; exact H|]. injection H as <- _.
      right. assert (Hs : seq_ev (s_seq s) = Some ev0) by (rewrite Q; reflexivity). destruct (i_seq _ I ev0 Hs) as [Hr _]. lia.
    + left. exact H.
  - left. destruct (retry_step_queue s e) as [E|E]; rewrite E in H; [exact H|].
    unfold pop_head in H. destruct (s_queue s); [destruct H|right; exact H].
  - left. exact H.
Qed.

(* ---------- the simulation ---------- *)
Record Rel (F : N) (p l : state) : Prop := {
  rl_same : p = set_store l (s_store p);
  rl_store : SRel F (s_store p) (s_store l);
  rl_floor : F <= s_committed l;
  rl_queue : forall ev t, In (ev, t) (s_queue l) -> F < e_rev ev
}.

Lemma Rel_init r0 : Rel 0 (init_state r0) (init_state r0).
Proof.
  constructor; [reflexivity| |cbn; lia|intros ev t []].
  split; [reflexivity|]. intros k. apply K_refl. exact I.
Qed.

Lemma xstep_sim q F p l x :
  reach q l -> Rel F p l -> xwf p x ->
  match x with
  | XL lab => Rel F (xstep p x) (step l lab) /\ reach q (step l lab)
  | XDel _ _ R => Rel (N.max F R) (xstep p x) l
  end.
Proof.
  intros Rl [Es S HF HQ] W. pose proof (reach_inv1 q l Rl) as I1. pose proof (reach_inv2 q l Rl) as I2.
  destruct x as [lab|k r R]; cbn [xwf xstep] in *.
  - split; [|apply reach_step; assumption].
    destruct (step_rel F l (s_store p) lab I1 I2 W HF HQ S) as [sp' [E S']]. rewrite Es, E.
    constructor; [reflexivity|exact S'|pose proof (step_committed_mono l lab I1); lia|].
    intros ev t H. destruct (step_queue_new l lab ev t I1 H) as [H1|H1]; [apply (HQ ev t H1)|lia].
  - destruct W as [[C1 C2] P]. rewrite Es in C1, C2. cbn [s_committed s_queue set_store] in C1, C2.
    constructor.
    + rewrite Es at 1. reflexivity.
    + cbn [s_store set_store]. destruct S as [Hi Hk]. split; intros k0; unfold del_ver; destruct (k0 =? k) eqn:E; cbn [k_idx k_vers]; auto.
      * apply N.eqb_eq in E. subst k0. apply K_del; [apply (v_desc _ I2 k)|exact P|apply Hk].
      * apply (K_mono F); [lia|apply Hk].
    + lia.
    + intros ev t H. specialize (HQ ev t H). specialize (C2 ev t H). lia.
Qed.

Theorem xrun_sim q xs : forall F p l,
  reach q l -> Rel F p l -> xwf_all p xs ->
  Rel (floor_from F xs) (xrun p xs) (run l (base_labels xs)) /\ reach q (run l (base_labels xs)) /\
  Forall wf_label (base_labels xs).
Proof.
  induction xs as [|x xs IH]; intros F p l Rl R W; [split; [exact R|split; [exact Rl|constructor]]|].
  cbn [xwf_all] in W. destruct W as [W1 W2]. pose proof (xstep_sim q F p l x Rl R W1) as H.
  destruct x as [lab|k r R0]; cbn [xrun fold_left base_labels flat_map floor_from app].
  - destruct H as [H1 H2]. destruct (IH F (xstep p (XL lab)) (step l lab) H2 H1 W2) as [A [B C]].
    split; [exact A|]. split; [exact B|]. constructor; [exact W1|exact C].
  - apply (IH (N.max F R0) (xstep p (XDel k r R0)) l Rl H W2).
Qed.

(* ---------- the guards are decidable ---------- *)
Lemma premise1b_spec R vs r : premise1b R vs r = true -> premise1 R vs r.
Proof.
  unfold premise1b, premise1. intros H. apply orb_true_iff in H as [H|H]; [apply orb_true_iff in H as [H|H]|].
  - left. intros v' Hin. apply negb_true_iff in H. assert (existsb (fun x => fst x =? r) vs = true); [|congruence].
    apply existsb_exists. exists (r, v'). split; [exact Hin|apply N.eqb_refl].
  - right. left. apply existsb_exists in H as [[r2 v2] [Hin H]]. cbn [fst] in H. exists r2, v2. split; [exact Hin|lia].
  - right. right. apply andb_true_iff in H as [H H3]. apply andb_true_iff in H as [H1 H2].
    apply existsb_exists in H1 as [[r1 v1] [Hin H1]]. cbn [fst snd] in H1. apply andb_true_iff in H1 as [H1 Ht].
    apply N.eqb_eq in H1. subst r1. exists v1. split; [exact Ht|]. split; [lia|]. split; [exact Hin|].
    intros r' v' Hin'. rewrite forallb_forall in H3. specialize (H3 (r', v') Hin'). cbn [fst] in H3. lia.
Qed.

Lemma cap_okb_spec s R : cap_okb s R = true -> cap_ok s R.
Proof.
  unfold cap_okb, cap_ok. intros H. apply andb_true_iff in H as [H1 H2]. split; [lia|].
  intros ev t Hin. rewrite forallb_forall in H2. specialize (H2 (ev, t) Hin). cbn [fst] in H2. lia.
Qed.

Definition xwfb (s : state) (x : xlabel) : bool :=
  match x with
  | XL l => wf_labelb l
  | XDel k r R => cap_okb s R && premise1b R (k_vers (s_store s k)) r
  end.

Fixpoint xwf_allb (s : state) (xs : list xlabel) : bool :=
  match xs with [] => true | x :: xs' => xwfb s x && xwf_allb (xstep s x) xs' end.

Lemma xwf_allb_spec xs : forall s, xwf_allb s xs = true -> xwf_all s xs.
Proof.
  induction xs as [|x xs IH]; intros s H; [exact I|]. cbn [xwf_allb] in H. apply andb_true_iff in H as [H1 H2].
  split; [|apply IH; exact H2]. destruct x as [l|k r R]; cbn [xwfb xwf] in *.
  - apply wf_labelb_spec. exact H1.
  - apply andb_true_iff in H1 as [A B]. split; [apply cap_okb_spec; exact A|apply premise1b_spec; exact B].
Qed.
