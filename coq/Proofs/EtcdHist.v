(* Lemmas for C16, part 4: histories of supported requests, and arbitrary structurally valid transactions. *)
From Coq Require Import Sorted.
From KB Require Import Model.Etcd Model.C16Cases Proofs.Coder Proofs.Etcd Proofs.EtcdSim Proofs.EtcdRead.
Local Open Scope Z_scope.

(* ------------------------------------------------------------------ scope: the Kubernetes requests *)

(* a transaction of one of the four shapes, with an expected revision that is zero, correct or stale
   (any revision up to the current one), on a key that may exist, be missing or have been deleted;
   minus the signatures of findings F1/F2 (delete with expected revision 0, unguarded delete of a
   missing key) and F6 (reserved value); values may be empty *)
Definition txn_in_scope (sb : bstate) (se : estate) (t : txn_req) : Prop :=
  match canonical t with
  | Some (ShCreate k v) => k <> [] /\ v <> tombstone
  | Some (ShUpdate k v e) => k <> [] /\ v <> tombstone /\ 0 <= e <= Z.of_N (b_rev sb)
  | Some (ShDelete k e) => k <> [] /\ 0 < e <= Z.of_N (b_rev sb)
  | Some (ShDeleteU k) => k <> [] /\ e_find k (e_cur se) <> None
  | None => False
  end.

(* point reads and range reads over [a, b) with a < b and any limit (minus F3: more than limit+1 keys under a limit) at
   any revision from 0 (= the latest) up to the current one (the models have no compaction; a revision above the current
   one is outside: etcd answers ErrFutureRev; minus F7: revision 1888 with a range end is the partition request);
   counts at the latest revision (the Count path ignores the request's revision) *)
Inductive read_in_scope (se : estate) : range_req -> Prop :=
| RsGet k lim z : k <> [] -> 0 <= z <= e_now se -> read_in_scope se (mkRange k [] lim z false false)
| RsList a b limit z : a <> [] -> b <> [] -> b <> [0%N] -> bltb a b = true -> 0 <= z <= e_now se -> z <> partition_magic ->
    limit + 1 < two63 ->
    (limit <= 0 \/ lenZ (e_range (view se z) a b) <= limit + 1) -> read_in_scope se (list_req_at a b limit z)
| RsCount a b : a <> [] -> b <> [] -> b <> [0%N] -> lenZ (e_range (e_cur se) a b) < two63 ->
    read_in_scope se (count_req a b).

Inductive kreq := KTxn (t : txn_req) | KRead (r : range_req).

Inductive presp :=
| PT (p : option (bool * list pitem))
| PR (p : option (list pkv * Z * bool)).

(* one request on both systems; the interpreter's transaction gets the revision the shim deals *)
Definition step_both (sb : bstate) (se : estate) (q : kreq) : bstate * estate * (presp * presp) :=
  match q with
  | KTxn t =>
      let r1 := shim_txn sb t in
      let r2 := etcd_txn se (Z.of_N (b_rev sb) + 1) t in
      (fst r1, fst r2, (PT (proj_txn t (snd r1)), PT (proj_txn t (snd r2))))
  | KRead r => (sb, se, (PR (proj_range (shim_range sb r)), PR (proj_range (etcd_range se r))))
  end.

Fixpoint run_both (sb : bstate) (se : estate) (qs : list kreq) : bstate * estate * list (presp * presp) :=
  match qs with
  | [] => (sb, se, [])
  | q :: qs' =>
      let '(sb', se', p) := step_both sb se q in
      let '(sb'', se'', ps) := run_both sb' se' qs' in
      (sb'', se'', p :: ps)
  end.

Fixpoint in_scope_run (sb : bstate) (se : estate) (qs : list kreq) : Prop :=
  match qs with
  | [] => True
  | q :: qs' =>
      bounded sb
      /\ match q with KTxn t => txn_in_scope sb se t | KRead r => read_in_scope se r end
      /\ let '(sb', se', _) := step_both sb se q in in_scope_run sb' se' qs'
  end.

Lemma sim_txn_scope sb se t : R sb se -> bounded sb -> txn_in_scope sb se t -> sim_ok t sb se.
Proof.
  intros HR Hb Hs. unfold txn_in_scope in Hs. destruct (canonical t) as [sh|] eqn:Ec; [|contradiction].
  pose proof (canonical_inv t sh Ec) as Hinv. destruct sh as [k v|k v e|k e|k].
  - destruct Hinv as (u & lease & Hu & ->). destruct Hs as (Hk & Hv). apply sim_create; assumption.
  - destruct Hinv as (u & lease & lim & Hu & ->). destruct Hs as (Hk & Hv & He). apply sim_update_scope; try assumption. lia.
  - destruct Hinv as (u & lim & Hu & ->). destruct Hs as (Hk & He). apply sim_delete_scope; try assumption. lia.
  - destruct Hinv as (lim & ->). destruct Hs as (Hk & He).
    destruct (e_find k (e_cur se)) as [y|] eqn:Ef; [|congruence]. eapply sim_deleteu_live; eassumption.
Qed.

Lemma sim_read_scope sb se r : R sb se -> bounded sb -> read_in_scope se r ->
  proj_range (shim_range sb r) = proj_range (etcd_range se r).
Proof.
  intros HR Hb Hs. destruct Hs.
  - apply sim_get_at; try assumption. rewrite <- (R_now _ _ HR). assumption.
  - apply sim_list_at; try assumption. rewrite <- (R_now _ _ HR). assumption.
  - apply sim_count; assumption.
Qed.

Lemma supported_run : forall qs sb se, R sb se -> in_scope_run sb se qs ->
  let '(sb', se', ps) := run_both sb se qs in
  Forall (fun p => fst p = snd p) ps /\ (forall p, In p ps -> fst p <> PT None) /\ R sb' se'.
Proof.
  induction qs as [|q qs IH]; intros sb se HR Hs; cbn [run_both].
  - split; [constructor|]. split; [intros p []|assumption].
  - cbn [in_scope_run] in Hs. destruct Hs as (Hb & Hq & Hrest).
    destruct q as [t|r]; cbn [step_both] in *.
    + destruct (sim_txn_scope sb se t HR Hb Hq) as (Hp & Hne & HR' & _).
      specialize (IH _ _ HR' Hrest).
      destruct (run_both (fst (shim_txn sb t)) (fst (etcd_txn se (Z.of_N (b_rev sb) + 1) t)) qs) as [[sb'' se''] ps].
      destruct IH as (IH1 & IH2 & IH3). split; [|split; [|assumption]].
      * constructor; [cbn; rewrite Hp; reflexivity|assumption].
      * intros p [<-|Hin]; [|apply IH2; assumption]. cbn. intros [= E]. apply Hne.
        destruct (snd (shim_txn sb t)); [reflexivity|discriminate E].
    + pose proof (sim_read_scope sb se r HR Hb Hq) as Hp.
      specialize (IH _ _ HR Hrest).
      destruct (run_both sb se qs) as [[sb'' se''] ps].
      destruct IH as (IH1 & IH2 & IH3). split; [|split; [|assumption]].
      * constructor; [cbn; rewrite Hp; reflexivity|assumption].
      * intros p [<-|Hin]; [|apply IH2; assumption]. cbn. discriminate.
Qed.

(* from the empty store: responses agree under the projection, nothing is rejected, the two stores hold the same keys,
   values and mod revisions in the same order, and so do the two MVCC histories at every revision up to the current one *)
Lemma supported_from_init : forall base qs,
  in_scope_run (b_init base) (e_init (Z.of_N base)) qs ->
  let '(sb', se', ps) := run_both (b_init base) (e_init (Z.of_N base)) qs in
  Forall (fun p => fst p = snd p) ps /\ (forall p, In p ps -> fst p <> PT None)
  /\ map pk (e_cur se') = b_proj (b_kv sb') (b_rev sb')
  /\ (forall q, (q <= b_rev sb')%N -> map pk (hist_at (e_hist se') (Z.of_N q)) = b_proj (b_kv sb') q).
Proof.
  intros base qs Hs. pose proof (supported_run qs _ _ (R_init base) Hs) as H.
  destruct (run_both (b_init base) (e_init (Z.of_N base)) qs) as [[sb' se'] ps].
  destruct H as (H1 & H2 & H3). split; [assumption|]. split; [assumption|]. split; [apply store_eq; assumption|apply (R_hist _ _ H3)].
Qed.

(* ------------------------------------------------------------------ watch: the two event logs agree *)

Lemma events_agree sb se : R sb se -> map proj_event (e_events se) = map proj_event (map shim_event (b_events sb)).
Proof. apply R_ev. Qed.

(* ------------------------------------------------------------------ arbitrary transactions *)

Definition int64 (z : Z) : Prop := - two63 <= z < two63.

(* the expected revision of a canonical shape is an int64, written values are not the reserved one *)
Definition fields_ok (t : txn_req) : Prop :=
  match canonical t with
  | Some (ShCreate _ v) => v <> tombstone
  | Some (ShUpdate _ v e) => v <> tombstone /\ int64 e
  | Some (ShDelete _ e) => int64 e
  | _ => True
  end.

(* the signatures of the findings on one transaction *)
Definition finding_sig (se : estate) (t : txn_req) : Prop :=
  (recognised t = true /\ canonical t = None)                                   (* F4 recogniser looseness *)
  \/ (recognised t = false /\ isCompact t = true)                               (* F5 canned compaction reply *)
  \/ (exists k, canonical t = Some (ShDelete k 0))                              (* F1/F2 delete with expected revision 0 *)
  \/ (exists k, canonical t = Some (ShDeleteU k) /\ e_find k (e_cur se) = None). (* F1 unguarded delete of a missing key *)

Lemma not_recognised sb t : recognised t = false -> isCompact t = false -> shim_txn sb t = (sb, TErr).
Proof.
  unfold recognised, shim_txn. destruct (isCreate t); [discriminate|]. destruct (isDelete t) as [[? ?]|]; [discriminate|].
  destruct (isUpdate t) as [[[[? ?] ?] ?]|]; [discriminate|]. intros _ ->. reflexivity.
Qed.

Lemma R_tick_same sb se : R sb se -> R sb (e_tick se (Z.of_N (b_rev sb))).
Proof.
  intros HR. pose proof (R_now _ _ HR) as Hn. pose proof (R_rev _ _ HR) as Hr. destruct HR. constructor; cbn; try assumption; rewrite Hn in *; lia.
Qed.

Lemma canonical_recognised t sh : canonical t = Some sh -> recognised t = true.
Proof.
  intros H. pose proof (canonical_inv t sh H) as Hi. destruct sh.
  - destruct Hi as (u & lease & Hu & ->). unfold recognised, isCreate, q_create, q_cmp, q_put, get_mod; cbn. rewrite Hu. reflexivity.
  - destruct Hi as (u & lease & lim & Hu & ->). reflexivity.
  - destruct Hi as (u & lim & Hu & ->). reflexivity.
  - destruct Hi as (lim & ->). reflexivity.
Qed.

Lemma canonical_key_wf t sh : canonical t = Some sh -> txn_wf t = true -> shape_key sh <> [].
Proof.
  intros H Hwf. pose proof (canonical_inv t sh H) as Hi. destruct sh; cbn [shape_key].
  - destruct Hi as (u & lease & Hu & ->). unfold txn_wf, q_create in Hwf; cbn in Hwf. unfold cmp_wf in Hwf; cbn in Hwf.
    destruct (beqb k []) eqn:E; [discriminate|]. apply beqb_neq. exact E.
  - destruct Hi as (u & lease & lim & Hu & ->). unfold txn_wf, q_update in Hwf; cbn in Hwf. unfold cmp_wf in Hwf; cbn in Hwf.
    destruct (beqb k []) eqn:E; [discriminate|]. apply beqb_neq. exact E.
  - destruct Hi as (u & lim & Hu & ->). unfold txn_wf, q_delete in Hwf; cbn in Hwf. unfold cmp_wf in Hwf; cbn in Hwf.
    destruct (beqb k []) eqn:E; [discriminate|]. apply beqb_neq. exact E.
  - destruct Hi as (lim & ->). unfold txn_wf, q_deleteu in Hwf; cbn in Hwf.
    destruct (beqb k []) eqn:E; [discriminate|]. apply beqb_neq. exact E.
Qed.

(* every structurally valid transaction: rejected with nothing stored, or executed as that very request *)
Lemma unsupported_except : forall sb se t,
  R sb se -> bounded sb -> txn_wf t = true -> fields_ok t -> ~ finding_sig se t ->
  rejected t sb se \/ sim_ok t sb se.
Proof.
  intros sb se t HR Hb Hwf Hf Hnf.
  destruct (canonical t) as [sh|] eqn:Ec.
  - pose proof (canonical_key_wf t sh Ec Hwf) as Hk.
    pose proof (canonical_inv t sh Ec) as Hinv. unfold fields_ok in Hf. rewrite Ec in Hf.
    destruct sh as [k v|k v e|k e|k]; cbn [shape_key] in Hk.
    + destruct Hinv as (u & lease & Hu & ->). right. apply sim_create; assumption.
    + destruct Hinv as (u & lease & lim & Hu & ->). destruct Hf as (Hv & Hi). unfold int64 in Hi.
      destruct (Z_lt_le_dec e 0) as [Hneg|Hpos]; [left; apply sim_update_hostile; try assumption; lia|].
      destruct (Z_le_gt_dec e (Z.of_N (b_rev sb) + 1)) as [Hle|Hgt].
      * right. apply sim_update_scope; try assumption. lia.
      * left. apply sim_update_hostile; try assumption. lia.
    + destruct Hinv as (u & lim & Hu & ->). unfold int64 in Hf.
      assert (He0 : e <> 0).
      { intros ->. apply Hnf. right. right. left. exists k. exact Ec. }
      destruct (e_find k (e_cur se)) as [y|] eqn:Ef.
      * destruct (Z_lt_le_dec e 0) as [Hneg|Hpos]; [left; eapply sim_delete_hostile; try eassumption; lia|].
        destruct (Z_le_gt_dec e (Z.of_N (b_rev sb) + 1)) as [Hle|Hgt].
        -- right. apply sim_delete_scope; try assumption. lia.
        -- left. eapply sim_delete_hostile; try eassumption. lia.
      * right. apply sim_delete_missing; try assumption. lia.
    + destruct Hinv as (lim & ->).
      destruct (e_find k (e_cur se)) as [y|] eqn:Ef.
      * right. eapply sim_deleteu_live; eassumption.
      * exfalso. apply Hnf. right. right. right. exists k. split; assumption.
  - destruct (recognised t) eqn:Er.
    + exfalso. apply Hnf. left. split; assumption.
    + destruct (isCompact t) eqn:Eco.
      * exfalso. apply Hnf. right. left. split; assumption.
      * left. unfold rejected. rewrite (not_recognised sb t Er Eco). cbn [fst snd].
        split; [reflexivity|]. split; [reflexivity|]. split; [reflexivity|]. apply R_tick_same. assumption.
Qed.

(* ------------------------------------------------------------------ witnesses of the findings on the model *)

Definition kA : bytes := [47; 97]%N.        (* "/a" *)
Definition kB : bytes := [47; 98]%N.        (* "/b" *)
Definition kC : bytes := [47; 99]%N.
Definition kLo : bytes := [47]%N.
Definition kHi : bytes := [48]%N.
Definition v1 : bytes := [49]%N.
Definition v2 : bytes := [50]%N.

Definition both (sb : bstate) (se : estate) (t : txn_req) :=
  (proj_txn t (snd (shim_txn sb t)), proj_txn t (snd (etcd_txn se (Z.of_N (b_rev sb) + 1) t)),
   b_proj (b_kv (fst (shim_txn sb t))) (b_rev (fst (shim_txn sb t))),
   map pk (e_cur (fst (etcd_txn se (Z.of_N (b_rev sb) + 1) t)))).

Definition after_create_a : bstate * estate :=
  let t := q_create kA v1 (UMod 0) 0 in
  (fst (shim_txn (b_init 10) t), fst (etcd_txn (e_init 10) 11 t)).

(* F1: unguarded delete of a missing key: Succeeded false vs true *)
Lemma refute_unguarded_missing :
  both (b_init 10) (e_init 10) (q_deleteu kA 0) =
  (Some (false, []), Some (true, [PRange []; PSkip]), [], []).
Proof. vm_compute. reflexivity. Qed.

(* F2: guarded delete with expected revision 0 on an existing key: deleted vs failure branch *)
Lemma refute_guarded_zero :
  both (fst after_create_a) (snd after_create_a) (q_delete kA (UMod 0) 0) =
  (Some (true, [PSkip]), Some (false, [PRange [(kA, v1, 11)]]), [], [(kA, v1, 11)]).
Proof. vm_compute. reflexivity. Qed.

(* F4: the put names /a, the compare names /b: etcd writes /a, the shim writes /b *)
Lemma refute_recogniser_key :
  let t := mkTxn [q_cmp kB (UMod 0)] [q_put kA v2 0] [q_get kB 0] in
  canonical t = None /\ recognised t = true /\
  both (b_init 10) (e_init 10) t =
  (Some (true, [PSkip]), Some (true, [PSkip]), [(kB, v2, 11)], [(kA, v2, 11)]).
Proof. vm_compute. repeat split. Qed.

(* F5: the apiserver's compaction transaction gets a canned failure, etcd executes it *)
Lemma refute_compact :
  let t := mkTxn [mkCmp REqual TVersion compact_rev_key (UVersion 0) []] [q_put compact_rev_key v1 0] [q_get compact_rev_key 0] in
  recognised t = false /\ isCompact t = true /\
  both (b_init 10) (e_init 10) t =
  (Some (false, [PRange [(@nil N, @nil N, 0)]]), Some (true, [PSkip]), [], [(compact_rev_key, v1, 11)]).
Proof. vm_compute. repeat split. Qed.

(* F3: Count under a limit: limit+1 vs the total *)
Definition three_keys : bstate * estate :=
  let s1 := after_create_a in
  let t2 := q_create kB v1 (UMod 0) 0 in
  let s2 := (fst (shim_txn (fst s1) t2), fst (etcd_txn (snd s1) 12 t2)) in
  let t3 := q_create kC v1 (UMod 0) 0 in
  (fst (shim_txn (fst s2) t3), fst (etcd_txn (snd s2) 13 t3)).

Lemma refute_count_limit :
  let r := list_req kLo kHi 1 in
  proj_range (shim_range (fst three_keys) r) = Some ([(kA, v1, 11)], 2, true)
  /\ proj_range (etcd_range (snd three_keys) r) = Some ([(kA, v1, 11)], 3, true).
Proof. vm_compute. split; reflexivity. Qed.

(* F6: the reserved value reads as "not found" *)
Lemma refute_reserved_value :
  let t := q_create kA tombstone (UMod 0) 0 in
  let r := mkRange kA [] 0 0 false false in
  proj_range (shim_range (fst (shim_txn (b_init 10) t)) r) = Some ([], 0, false)
  /\ proj_range (etcd_range (fst (etcd_txn (e_init 10) 11 t)) r) = Some ([(kA, tombstone, 11)], 1, false).
Proof. vm_compute. split; reflexivity. Qed.

(* the witness of the former finding C16-F8: a key with an empty value is returned by a point read, as by etcd *)
Lemma empty_value_read :
  let t := q_create kA [] (UMod 0) 0 in
  let r := mkRange kA [] 0 0 false false in
  proj_range (shim_range (fst (shim_txn (b_init 10) t)) r) = Some ([(kA, [], 11)], 1, false)
  /\ proj_range (etcd_range (fst (etcd_txn (e_init 10) 11 t)) r) = Some ([(kA, [], 11)], 1, false).
Proof. vm_compute. split; reflexivity. Qed.

(* F7: a range read at revision 1888 returns partition borders *)
Lemma refute_partition_magic :
  let r := mkRange kLo kHi 0 1888 false false in
  exists x y, shim_range (mkB 5000 [] []) r = ROk 5000 [x; y] 2 false
  /\ etcd_range (mkE 5000 5000 [] [] []) r = ROk 5000 [] 0 false.
Proof. vm_compute. eexists. eexists. split; reflexivity. Qed.

(* the boundary of the read scope: a count carrying a past revision is answered at the latest one (the Count path of
   backendShim passes key and end only); etcd counts the store as of that revision *)
Lemma count_at_revision_witness :
  let t1 := q_create kA v1 (UMod 0) 0 in
  let t2 := q_create kB v1 (UMod 0) 0 in
  let r := mkRange kLo kHi 0 11 true false in
  let sb := fst (shim_txn (fst (shim_txn (b_init 10) t1)) t2) in
  let se := fst (etcd_txn (fst (etcd_txn (e_init 10) 11 t1)) 12 t2) in
  proj_range (shim_range sb r) = Some ([], 2, false) /\ proj_range (etcd_range se r) = Some ([], 1, false).
Proof. vm_compute. split; reflexivity. Qed.

(* non-vacuity: a history in scope that exercises every shape and read, with a stale revision *)
Definition sample_history : list kreq :=
  [KTxn (q_create kA v1 (UMod 0) 0);                 (* rev 11 *)
   KTxn (q_create kA v2 (UMod 0) 0);                 (* exists: fails, burns 12 *)
   KTxn (q_update kA v2 (UMod 11) 0 0);              (* correct: 13 *)
   KTxn (q_update kA v1 (UMod 11) 0 0);              (* stale: failure get *)
   KTxn (q_update kB v1 (UMod 0) 0 0);               (* create through the update path: 15 *)
   KRead (mkRange kA [] 0 0 false false);
   KRead (list_req kLo kHi 1);
   KRead (count_req kLo kHi);
   KTxn (q_delete kA (UMod 11) 0);                   (* stale: failure get *)
   KTxn (q_delete kA (UMod 13) 0);                   (* correct *)
   KTxn (q_update kA v1 (UMod 13) 0 0);              (* deleted key, its last revision: fails *)
   KTxn (q_deleteu kB 0);
   KTxn (q_delete kB (UMod 15) 0);                   (* missing key *)
   KRead (list_req kLo kHi 0);
   KRead (mkRange kA [] 0 11 false false);           (* past revisions: /a as first created *)
   KRead (mkRange kA [] 0 12 false false);           (* a burnt revision names the store of 11 *)
   KRead (list_req_at kLo kHi 0 15);                 (* both keys live *)
   KRead (list_req_at kLo kHi 1 17);                 (* /a deleted, /b still there *)
   KRead (mkRange kB [] 0 14 false false)].          (* before /b existed *)

Ltac scope_tac :=
  repeat match goal with
         | |- _ /\ _ => split
         | |- True => exact I
         | |- read_in_scope _ _ => first [apply RsGet | apply RsList | apply RsCount]
         | |- _ \/ _ => first [left; vm_compute; intros; discriminate | right; vm_compute; intros; discriminate]
         | |- _ = _ => reflexivity
         | |- _ -> False => let H := fresh in intros H; discriminate H
         | |- _ <> partition_magic => let H := fresh in unfold partition_magic; intros H; discriminate H
         | |- _ <> _ => let H := fresh in intros H; discriminate H
         | |- (_ < _)%Z => vm_compute; reflexivity
         | |- (_ <= _)%Z => vm_compute; intros; discriminate
         end.

Lemma sample_in_scope : in_scope_run (b_init 10) (e_init 10) sample_history.
Proof. vm_compute. scope_tac. Qed.

(* ------------------------------------------------------------------ the full statements and their refutation *)

Definition shape_request (t : txn_req) : Prop := exists sh, canonical t = Some sh /\ shape_key sh <> [].

(* every request of one of the four shapes with an expected revision between zero and the current one *)
Definition supported_full_statement : Prop :=
  forall sb se t, R sb se -> bounded sb -> shape_request t ->
    (forall sh, canonical t = Some sh -> 0 <= shape_exp sh <= Z.of_N (b_rev sb)) ->
    sim_ok t sb se.

Lemma supported_full_refuted : ~ supported_full_statement.
Proof.
  intros H.
  specialize (H (b_init 10) (e_init 10) (q_deleteu kA 0) (R_init 10)).
  assert (Hb : bounded (b_init 10)) by (unfold bounded, two63; cbn; lia).
  assert (Hs : shape_request (q_deleteu kA 0)) by (exists (ShDeleteU kA); split; [reflexivity|discriminate]).
  specialize (H Hb Hs). destruct H as [Hp _].
  - intros sh [= <-]. cbn. lia.
  - vm_compute in Hp. discriminate Hp.
Qed.

Definition unsupported_full_statement : Prop :=
  forall sb se t, R sb se -> bounded sb -> txn_wf t = true -> fields_ok t -> rejected t sb se \/ sim_ok t sb se.

Lemma unsupported_full_refuted : ~ unsupported_full_statement.
Proof.
  intros H.
  set (t := mkTxn [q_cmp kB (UMod 0)] [q_put kA v2 0] [q_get kB 0]).
  assert (Hb : bounded (b_init 10)) by (unfold bounded, two63; cbn; lia).
  destruct (H (b_init 10) (e_init 10) t (R_init 10) Hb eq_refl I) as [[Hr _]|[_ [_ [HR _]]]].
  - vm_compute in Hr. discriminate Hr.
  - (* the shim wrote /b, the interpreter wrote /a *)
    pose proof (R_kv _ _ HR kA) as Hk. vm_compute in Hk. discriminate Hk.
Qed.

(* ------------------------------------------------------------------ what a recognised request is executed as *)

(* The recognisers look at part of the request only (F4).  Every recognised request is executed exactly as the canonical
   request of the shape it was taken for, built from the fields the recogniser reads: key and value of the put, compared
   key and put value for an update, deleted key and compared revision for a delete.  A create whose put carries a flag is
   rejected. *)
Definition executed_as (t : txn_req) : option txn_req :=
  match isCreate t with
  | Some p => if p_ign_lease p || p_ign_val p || p_prev_kv p then None
              else Some (q_create (p_key p) (p_val p) (UMod 0) (p_lease p))
  | None =>
      match isDelete t with
      | Some (rev, key) => Some (match t_cmp t with [] => q_deleteu key 0 | _ => q_delete key (UMod rev) 0 end)
      | None =>
          match isUpdate t with
          | Some (rev, key, val, lease) => Some (q_update key val (UMod rev) lease 0)
          | None => None
          end
      end
  end.

Lemma canonical_q_create k v lease : canonical (q_create k v (UMod 0) lease) = Some (ShCreate k v).
Proof. unfold canonical, q_create, q_cmp, q_put, mod_eq_on, plain_put, is_mod_eq, get_mod; cbn. rewrite !beqb_refl. reflexivity. Qed.
Lemma canonical_q_update k v e lease : canonical (q_update k v (UMod e) lease 0) = Some (ShUpdate k v e).
Proof. unfold canonical, q_update, q_cmp, q_put, q_get, mod_eq_on, plain_put, plain_get, is_mod_eq, get_mod; cbn. rewrite !beqb_refl. reflexivity. Qed.
Lemma canonical_q_delete k e : canonical (q_delete k (UMod e) 0) = Some (ShDelete k e).
Proof. unfold canonical, q_delete, q_cmp, q_del, q_get, mod_eq_on, plain_del, plain_get, is_mod_eq, get_mod; cbn. rewrite !beqb_refl. reflexivity. Qed.
Lemma canonical_q_deleteu k : canonical (q_deleteu k 0) = Some (ShDeleteU k).
Proof. unfold canonical, q_deleteu, q_del, q_get, plain_del, plain_get; cbn. rewrite !beqb_refl. reflexivity. Qed.

Lemma recognised_executed_as sb t : recognised t = true ->
  match executed_as t with
  | Some t' => shim_txn sb t = shim_txn sb t' /\ canonical t' <> None
  | None => shim_txn sb t = (sb, TErr)
  end.
Proof.
  unfold recognised, executed_as. intros Hr. destruct (isCreate t) as [p|] eqn:Ec.
  - destruct (p_ign_lease p || p_ign_val p || p_prev_kv p) eqn:Ef.
    + unfold shim_txn. rewrite Ec, Ef. reflexivity.
    + split; [|rewrite canonical_q_create; discriminate].
      unfold shim_txn at 1 2. rewrite Ec, Ef. reflexivity.
  - destruct (isDelete t) as [[rev key]|] eqn:Ed.
    + split; [|destruct (t_cmp t); [rewrite canonical_q_deleteu|rewrite canonical_q_delete]; discriminate].
      unfold shim_txn at 1. rewrite Ec, Ed.
      destruct (t_cmp t) as [|c cs] eqn:Ecmp.
      * assert (rev = 0).
        { unfold isDelete in Ed. rewrite Ecmp in Ed. destruct (t_fail t); [|discriminate].
          destruct (t_succ t) as [|[| | |] [|[| | |] [|]]]; try discriminate. injection Ed as <- _. reflexivity. }
        subst rev. reflexivity.
      * reflexivity.
    + destruct (isUpdate t) as [[[[rev key] val] lease]|] eqn:Eu; [|discriminate Hr].
      split; [|rewrite canonical_q_update; discriminate].
      unfold shim_txn at 1. rewrite Ec, Ed, Eu. reflexivity.
Qed.

(* on a request that is one of the shapes the translation changes nothing the shapes say *)
Lemma executed_as_canonical t sh : canonical t = Some sh -> exists t', executed_as t = Some t' /\ canonical t' = Some sh.
Proof.
  intros Hc. pose proof (canonical_inv t sh Hc) as Hinv. destruct sh as [k v|k v e|k e|k].
  - destruct Hinv as (u & lease & Hu & ->). exists (q_create k v (UMod 0) lease). split; [|apply canonical_q_create].
    unfold executed_as, isCreate, q_create, q_cmp, q_put, get_mod; cbn. rewrite Hu. reflexivity.
  - destruct Hinv as (u & lease & lim & Hu & ->). exists (q_update k v (UMod e) lease 0). split; [|apply canonical_q_update].
    unfold executed_as; cbn. unfold get_mod; cbn. rewrite Hu. reflexivity.
  - destruct Hinv as (u & lim & Hu & ->). exists (q_delete k (UMod e) 0). split; [|apply canonical_q_delete].
    unfold executed_as; cbn. unfold get_mod; cbn. rewrite Hu. reflexivity.
  - destruct Hinv as (lim & ->). exists (q_deleteu k 0). split; [|apply canonical_q_deleteu]. reflexivity.
Qed.

(* the witness of F4 under the translation: a compare on /b, a put of /a, a failure get of /b is executed as the guarded
   update of /b *)
Lemma executed_as_witness :
  executed_as (mkTxn [q_cmp kB (UMod 0)] [q_put kA v2 0] [q_get kB 0]) = Some (q_update kB v2 (UMod 0) 0 0).
Proof. reflexivity. Qed.

(* non-vacuity of the "rejected" alternatives *)
Lemma unsupported_example :
  let t := mkTxn [] [q_put kA v1 0] [] in
  txn_wf t = true /\ recognised t = false /\ rejected t (b_init 10) (e_init 10).
Proof.
  cbv zeta. split; [reflexivity|]. split; [reflexivity|]. unfold rejected.
  rewrite (not_recognised (b_init 10) (mkTxn [] [q_put kA v1 0] []) eq_refl eq_refl). cbn [fst snd]. split; [reflexivity|]. split; [reflexivity|]. split; [reflexivity|]. apply (R_tick_same _ _ (R_init 10)).
Qed.

Lemma hostile_example : rejected (q_update kA v1 (UMod (-1)) 0 0) (b_init 10) (e_init 10).
Proof.
  apply sim_update_hostile; [apply (R_init 10)|unfold bounded, two63; cbn; lia|]. left. cbn. unfold two63. lia.
Qed.
