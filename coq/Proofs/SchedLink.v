(* The link between the request records the oracles derive from the scheduler trace and the model's run:
   the clause no_overtake_rec of progress_ok. *)
From KB Require Import Model.KeySys Model.C01Cases Model.C02Cases Model.C04Cases.
From KB Require Import Proofs.RevSys Proofs.KeySys Proofs.KeySysLog Proofs.KeySysChain Proofs.KeySysJust Proofs.KeySysUniq Proofs.SchedCases.
From Coq Require Import ZifyN ZifyNat ZifyBool Lia.
Local Open Scope N_scope.

Section Link.
Variable cidx0 : bool.

(* a step of another thread (or of the sequencer) leaves thread t's program counter and window alone *)
Lemma kstep_other s l t : label_tid l <> Some t ->
  thr (kstep cidx0 s l) t = thr s t /\ cur_dealt t (log (kstep cidx0 s l)) = cur_dealt t (log s).
Proof.
  intros Hne. destruct (rpanic (rs s)) eqn:Hp; [unfold kstep; rewrite Hp; auto|].
  rewrite (kstep_mid cidx0 s l Hp). destruct (mid_other cidx0 s l t Hne) as (A & _ & _).
  split; [exact A|]. cbn [log observe].
  destruct (log_entry_tid cidx0 s l) as [->|[e [-> E]]]; [reflexivity|].
  apply cur_dealt_other. intros Heq. apply Hne. rewrite E, Heq. reflexivity.
Qed.

Lemma engine_not_idle s t e : thr (step_engine cidx0 s t e) t = PIdle -> thr s t = PIdle.
Proof.
  unfold step_engine. destruct (thr s t) eqn:Ht; try (rewrite Ht; auto);
    repeat match goal with |- context [match ?x with _ => _ end] => destruct x end;
    try (rewrite Ht; auto); simpl; rewrite ?upd_same; try discriminate;
    unfold create_decide; match goal with |- context [if ?x then _ else _] => destruct x end; discriminate.
Qed.

Lemma deal_not_idle s t : thr (step_deal s t) t = PIdle -> thr s t = PIdle.
Proof.
  unfold step_deal. destruct (thr s t) eqn:Ht; try (rewrite Ht; auto); unfold do_deal;
    repeat match goal with |- context [if ?x then _ else _] => destruct x end; simpl; rewrite upd_same; discriminate.
Qed.

Lemma notify_not_idle s t : thr (step_notify s t) t = PIdle -> thr s t = PIdle.
Proof.
  unfold step_notify. destruct (thr s t) eqn:Ht; try (rewrite Ht; auto).
  match goal with |- context [if rpanic ?x then _ else _] => destruct (rpanic x) end; simpl; [rewrite Ht; discriminate|].
  rewrite upd_same. destruct w, r; discriminate.
Qed.

(* the acting thread's own steps other than invoke and return keep it inside its request and its window *)
Lemma own_step_window s t l x :
  winv (kstep cidx0 s l) -> thr s t <> PIdle -> cur_dealt t (log s) = [x] ->
  (l = LDeal t \/ l = LNotify t \/ exists e, l = LEngine t e) ->
  thr (kstep cidx0 s l) t <> PIdle /\ cur_dealt t (log (kstep cidx0 s l)) = [x].
Proof.
  intros W Hni Hcd Hl. destruct (rpanic (rs s)) eqn:Hp; [unfold kstep in *; rewrite Hp in *; auto|].
  rewrite (kstep_mid cidx0 s l Hp) in *. cbn [thr log observe] in *.
  destruct Hl as [->|[->|[e ->]]]; simpl kmid in *.
  - split; [intros H; apply Hni, deal_not_idle, H|].
    pose proof (w_len _ W t) as Hlen. cbn [log observe] in Hlen. revert Hlen.
    unfold step_deal. destruct (thr s t); try (intros _; exact Hcd); unfold do_deal;
      repeat match goal with |- context [if ?x then _ else _] => destruct x end;
      simpl; rewrite N.eqb_refl, Hcd; simpl; lia.
  - split; [intros H; apply Hni, notify_not_idle, H|].
    unfold step_notify. destruct (thr s t); try exact Hcd.
    match goal with |- context [if rpanic ?x then _ else _] => destruct (rpanic x) end; exact Hcd.
  - split; [intros H; apply Hni, (engine_not_idle s t e), H|].
    unfold step_engine. destruct (thr s t); try exact Hcd;
      repeat match goal with |- context [match ?x with _ => _ end] => destruct x end; exact Hcd.
Qed.

(* ---------- induction over the local run of a thread ---------- *)

Lemma run_local_ind (Inv : state -> list resp -> Prop) t :
  (forall s new l, Inv s new -> rpanic (rs s) = false ->
     ((exists q, l = LInvoke t q /\ thr s t = PIdle) \/ l = LDeal t \/ l = LNotify t) -> Inv (kstep cidx0 s l) new) ->
  (forall s new r, Inv s new -> rpanic (rs s) = false -> thr s t = PReturn r -> Inv (kstep cidx0 s (LReturn t)) (new ++ [r])) ->
  forall fuel s queue acc s' qu ac ls new0,
    run_local cidx0 fuel s t queue (acc ++ new0) = (s', qu, ac, ls) -> Inv s new0 ->
    exists new, ac = acc ++ new /\ Inv s' new.
Proof.
  intros Hstep Hret. induction fuel as [|fuel IH]; intros s queue acc s' qu ac ls new0 H I0; simpl in H.
  - injection H as <- <- <- <-. eauto.
  - destruct (rpanic (rs s)) eqn:Hp; [injection H as <- <- <- <-; eauto|].
    destruct (is_engine_pc (thr s t)); [injection H as <- <- <- <-; eauto|].
    assert (Hgo : forall l queue0,
               ((exists q, l = LInvoke t q /\ thr s t = PIdle) \/ l = LDeal t \/ l = LNotify t) ->
               (let '(s1, qu1, ac1, ls1) := run_local cidx0 fuel (kstep cidx0 s l) t queue0 (acc ++ new0) in (s1, qu1, ac1, l :: ls1))
               = (s', qu, ac, ls) -> exists new, ac = acc ++ new /\ Inv s' new).
    { intros l queue0 Hl E.
      destruct (run_local cidx0 fuel (kstep cidx0 s l) t queue0 (acc ++ new0)) as [[[s1 qu1] ac1] ls1] eqn:Er.
      injection E as <- <- <- <-. eapply IH; [exact Er|]. apply Hstep; auto. }
    destruct (thr s t) eqn:Ht; try (eapply Hgo; [|exact H]; auto).
    + destruct queue as [|q0 queue']; [injection H as <- <- <- <-; eauto|].
      eapply Hgo; [|exact H]. left. eauto.
    + rewrite <- app_assoc in H.
      destruct (run_local cidx0 fuel (kstep cidx0 s (LReturn t)) t queue (acc ++ new0 ++ [r])) as [[[s1 qu1] ac1] ls1] eqn:Er.
      injection H as <- <- <- <-. eapply IH; [exact Er|]. apply Hret; auto.
Qed.

(* other threads are not touched *)
Lemma run_local_other fuel s t queue acc s' qu ac ls t' : t' <> t ->
  run_local cidx0 fuel s t queue acc = (s', qu, ac, ls) ->
  thr s' t' = thr s t' /\ cur_dealt t' (log s') = cur_dealt t' (log s).
Proof.
  intros Hne H. rewrite <- (app_nil_r acc) in H.
  set (Inv := fun (s1 : state) (_ : list resp) => thr s1 t' = thr s t' /\ cur_dealt t' (log s1) = cur_dealt t' (log s)).
  assert (Hs : forall s1 new l, Inv s1 new -> rpanic (rs s1) = false ->
     ((exists q, l = LInvoke t q /\ thr s1 t = PIdle) \/ l = LDeal t \/ l = LNotify t) -> Inv (kstep cidx0 s1 l) new).
  { intros s1 new l [A B] _ Hl.
    assert (Hl' : label_tid l <> Some t') by (destruct Hl as [[q [-> _]] | [-> | ->]]; simpl; intros [= E]; congruence).
    destruct (kstep_other s1 l t' Hl') as [C D]. unfold Inv. rewrite C, D. auto. }
  assert (Hr : forall s1 new r, Inv s1 new -> rpanic (rs s1) = false -> thr s1 t = PReturn r -> Inv (kstep cidx0 s1 (LReturn t)) (new ++ [r])).
  { intros s1 new r [A B] _ _.
    assert (Hl' : label_tid (LReturn t) <> Some t') by (simpl; intros [= E]; congruence).
    destruct (kstep_other s1 (LReturn t) t' Hl') as [C D]. unfold Inv. rewrite C, D. auto. }
  destruct (run_local_ind Inv t Hs Hr _ _ _ _ _ _ _ _ _ H) as [new [_ R]]; [split; reflexivity|exact R].
Qed.

(* the first answer a thread gives after it stood inside a request with window [x] carries x, if any revision *)
Definition win_inv (lo : N) (t : tid) (x : N) (s : state) (new : list resp) : Prop :=
  kinv s /\ uinv lo s /\ winv s /\
  (new = [] -> thr s t <> PIdle /\ cur_dealt t (log s) = [x]) /\
  (forall r rest, new = r :: rest -> forall x', resp_exact_rev r = Some x' -> x' = x).

Lemma run_local_window lo fuel s t queue acc s' qu ac ls x :
  run_local cidx0 fuel s t queue acc = (s', qu, ac, ls) ->
  kinv s -> uinv lo s -> winv s -> thr s t <> PIdle -> cur_dealt t (log s) = [x] ->
  exists new, ac = acc ++ new /\ win_inv lo t x s' new.
Proof.
  intros H I U W Hni Hcd. rewrite <- (app_nil_r acc) in H.
  assert (Hs : forall s1 new l, win_inv lo t x s1 new -> rpanic (rs s1) = false ->
     ((exists q, l = LInvoke t q /\ thr s1 t = PIdle) \/ l = LDeal t \/ l = LNotify t) -> win_inv lo t x (kstep cidx0 s1 l) new).
  { intros s1 new l (I1 & U1 & W1 & A & B) Hp Hl.
    pose proof (winv_step cidx0 s1 l W1) as W2.
    split; [apply kinv_step, I1|]. split; [apply uinv_step; assumption|]. split; [exact W2|]. split; [|exact B].
    intros ->. destruct (A eq_refl) as [A1 A2].
    apply own_step_window; auto. destruct Hl as [[q [-> Hidle]] | [-> | ->]]; auto. contradiction. }
  assert (Hr : forall s1 new r, win_inv lo t x s1 new -> rpanic (rs s1) = false -> thr s1 t = PReturn r ->
                                win_inv lo t x (kstep cidx0 s1 (LReturn t)) (new ++ [r])).
  { intros s1 new r (I1 & U1 & W1 & A & B) Hp Hr.
    split; [apply kinv_step, I1|]. split; [apply uinv_step; assumption|]. split; [apply winv_step, W1|]. split.
    - intros E. destruct new; discriminate.
    - intros r0 rest E x' Hx. destruct new as [|r1 new'].
      + simpl in E. injection E as <- <-. destruct (A eq_refl) as [_ A2].
        pose proof (u_ret _ _ U1 t r x' Hr Hx) as Hin. rewrite A2 in Hin. destruct Hin as [<-|[]]. reflexivity.
      + simpl in E. injection E as <- <-. eapply B; eauto. }
  apply (run_local_ind (win_inv lo t x) t Hs Hr _ _ _ _ _ _ _ _ _ H).
  split; [exact I|]. split; [exact U|]. split; [exact W|]. split; [intros _; auto|intros r rest E; discriminate].
Qed.

(* ---------- resume and the free-running sequencer ---------- *)

Lemma resume_other s t e queue s' qu ac ls t' : t' <> t ->
  resume cidx0 s t e queue = (s', qu, ac, ls) ->
  thr s' t' = thr s t' /\ cur_dealt t' (log s') = cur_dealt t' (log s).
Proof.
  intros Hne H. unfold resume in H. destruct (is_engine_pc (thr s t)).
  - destruct (run_local cidx0 resume_fuel _ _ _ _) as [[[s2 qu2] ac2] ls2] eqn:E2. injection H as <- _ _ _.
    destruct (run_local_other _ _ _ _ _ _ _ _ _ t' Hne E2) as [A B].
    destruct (kstep_other s (LEngine t e) t') as [C D]; [simpl; intros [= E]; congruence|].
    rewrite A, B, C, D. auto.
  - eapply run_local_other; eauto.
Qed.

Lemma resume_window lo s t e queue s' qu ac ls x :
  resume cidx0 s t e queue = (s', qu, ac, ls) ->
  kinv s -> uinv lo s -> winv s -> thr s t <> PIdle -> cur_dealt t (log s) = [x] ->
  win_inv lo t x s' ac.
Proof.
  intros H I U W Hni Hcd. unfold resume in H. destruct (is_engine_pc (thr s t)).
  - destruct (run_local cidx0 resume_fuel _ _ _ _) as [[[s2 qu2] ac2] ls2] eqn:E2. injection H as <- _ <- _.
    pose proof (winv_step cidx0 s (LEngine t e) W) as W2.
    destruct (own_step_window s t (LEngine t e) x W2 Hni Hcd) as [A B]; [eauto|].
    destruct (run_local_window lo _ _ _ _ _ _ _ _ _ x E2 (kinv_step _ _ _ I) (uinv_step _ _ _ _ I U) W2 A B) as [new [-> R]].
    exact R.
  - destruct (run_local_window lo _ _ _ _ _ _ _ _ _ x H I U W Hni Hcd) as [new [-> R]]. exact R.
Qed.

Lemma seq_all_frame fuel : forall s t,
  thr (seq_all cidx0 fuel s) t = thr s t /\ cur_dealt t (log (seq_all cidx0 fuel s)) = cur_dealt t (log s).
Proof.
  induction fuel as [|fuel IH]; intros s t; simpl; [auto|].
  destruct (enabled s LSeqTake); [|auto].
  destruct (IH (kstep cidx0 s LSeqTake) t) as [A B]. destruct (kstep_other s LSeqTake t) as [C D]; [discriminate|].
  rewrite A, B, C, D. auto.
Qed.

(* a generic relational carry: P relates the start state to the states reached *)
Lemma resume_rel (R : state -> Prop) s t e queue s' qu ac ls :
  (forall s1 l, R s1 -> R (kstep cidx0 s1 l)) -> resume cidx0 s t e queue = (s', qu, ac, ls) -> R s -> R s'.
Proof.
  intros Hstep H R0. unfold resume in H. destruct (is_engine_pc (thr s t)).
  - destruct (run_local cidx0 resume_fuel _ _ _ _) as [[[s2 qu2] ac2] ls2] eqn:E2. injection H as <- _ _ _.
    eapply (run_local_P cidx0 R Hstep); [exact E2|apply Hstep, R0].
  - eapply (run_local_P cidx0 R Hstep); eauto.
Qed.

Lemma seq_all_rel (R : state -> Prop) fuel :
  (forall s1 l, R s1 -> R (kstep cidx0 s1 l)) -> forall s, R s -> R (seq_all cidx0 fuel s).
Proof.
  intros Hstep. induction fuel as [|fuel IH]; intros s R0; simpl; [exact R0|].
  destruct (enabled s LSeqTake); [apply IH, Hstep, R0|exact R0].
Qed.

Definition base_inv (lo : N) (s0 : state) (s : state) : Prop :=
  kinv s /\ uinv lo s /\ winv s /\ (forall x, unresolved s x -> unresolved s0 x).

Lemma base_inv_step lo s0 s l : base_inv lo s0 s -> base_inv lo s0 (kstep cidx0 s l).
Proof.
  intros (I & U & W & G). split; [apply kinv_step, I|]. split; [apply uinv_step; assumption|]. split; [apply winv_step, W|].
  intros x Hx. apply G. eapply unresolved_step; eauto.
Qed.
End Link.

(* ---------- the records walk, coupled with the model run ---------- *)

Lemma lookup_set_same {A} (d : A) k x l : lookup d k (set_assoc k x l) = x.
Proof.
  induction l as [|[k' y] l IH]; simpl; [rewrite N.eqb_refl; reflexivity|].
  destruct (N.eqb_spec k' k) as [->|Hne]; simpl; [rewrite N.eqb_refl; reflexivity|].
  destruct (N.eqb_spec k' k); [contradiction|exact IH].
Qed.

Lemma lookup_set_other {A} (d : A) k k' x l : k' <> k -> lookup d k' (set_assoc k x l) = lookup d k' l.
Proof.
  intros Hne. induction l as [|[k0 y] l IH]; simpl.
  - destruct (N.eqb_spec k k'); [congruence|reflexivity].
  - destruct (N.eqb_spec k0 k) as [->|Hn0]; simpl.
    + destruct (N.eqb_spec k k'); [congruence|reflexivity].
    + destruct (N.eqb_spec k0 k'); [reflexivity|exact IH].
Qed.

Definition dflt : tstat := {| ts_queue := []; ts_inv := None; ts_commit := None; ts_hold := None; ts_inj := false |}.

Lemma emit_none t i : forall resps ts ts' recs,
  emit t i ts resps = (ts', recs) -> ts_commit ts = None ->
  ts_commit ts' = None /\ Forall (fun x => rr_commit x = None) recs.
Proof.
  induction resps as [|r resps IH]; intros ts ts' recs H Hc; simpl in H.
  - injection H as <- <-. auto.
  - destruct (ts_queue ts) as [|q0 queue']; [injection H as <- <-; auto|].
    destruct (emit t i _ resps) as [ts2 recs2] eqn:E. injection H as <- <-.
    destruct (IH _ _ _ E eq_refl) as [A B]. split; [exact A|]. constructor; [exact Hc|exact B].
Qed.

Lemma emit_cons t i ts r rest ts' recs :
  emit t i ts (r :: rest) = (ts', recs) ->
  ts_commit ts' = None /\
  (recs = [] \/ exists rec recs', recs = rec :: recs' /\ rr_resp rec = r /\ rr_commit rec = ts_commit ts /\
                                  Forall (fun x => rr_commit x = None) recs').
Proof.
  intros H. simpl in H. destruct (ts_queue ts) as [|q0 queue']; [injection H as <- <-; auto|].
  destruct (emit t i _ rest) as [ts2 recs2] eqn:E. injection H as <- <-.
  destruct (emit_none _ _ _ _ _ _ E eq_refl) as [A B]. split; [exact A|]. right. eauto 10.
Qed.

Definition step_ts (i : nat) (st : sstep) (ts : tstat) : tstat :=
  {| ts_queue := ts_queue ts;
     ts_inv := match ts_inv ts with Some j => Some j | None => Some i end;
     ts_commit := match st_kind st with KBatch => Some i | _ => ts_commit ts end;
     ts_hold := match st_kind st with KHold => Some i | _ => ts_hold ts end;
     ts_inj := ts_inj ts || negb (env_eqb (st_env st) EnvOk) |}.

Lemma records_cons i tss st steps :
  records i tss (st :: steps) =
  (let '(ts2, recs) := emit (st_t st) i (step_ts i st (lookup dflt (st_t st) tss)) (st_resps st) in
   recs ++ records (S i) (set_assoc (st_t st) ts2 tss) steps).
Proof. reflexivity. Qed.

Definition coup (s : state) (tss : list (tid * tstat)) (past : list N) : Prop :=
  forall t c, ts_commit (lookup dflt t tss) = Some c ->
    (c < length past)%nat /\ thr s t <> PIdle /\
    exists x, cur_dealt t (log s) = [x] /\ Forall (fun v => v < x) (firstn c past).

Definition gpast (s : state) (past : list N) : Prop :=
  forall x, unresolved s x -> Forall (fun v => v < x) past.

Definition rec_ok (all : list N) (r : rrec) : Prop :=
  match resp_exact_rev (rr_resp r), rr_commit r with
  | Some x, Some c => Forall (fun v => v < x) (firstn c all)
  | _, _ => True
  end.

Lemma firstn_app_le {A} (l l' : list A) c : (c <= length l)%nat -> firstn c (l ++ l') = firstn c l.
Proof. intros H. rewrite firstn_app. replace (c - length l)%nat with 0%nat by lia. simpl. apply app_nil_r. Qed.

Section Main.
Variable cidx0 : bool.
Variable lo : N.

Lemma coupled_records steps : forall s queues prev sf qf tss past,
  run_steps cidx0 s queues prev steps = Some (sf, qf) ->
  kinv s -> uinv lo s -> winv s -> coup s tss past -> gpast s past ->
  forall r, In r (records (length past) tss steps) -> rec_ok (past ++ map st_sample steps) r.
Proof.
  induction steps as [|st steps IH]; intros s queues prev sf qf tss past H I U W C G r Hr; [contradiction|].
  cbn [run_steps] in H. rewrite records_cons in Hr.
  set (t := st_t st) in *. set (i := length past) in *.
  set (ts := lookup dflt t tss) in *.
  (* what the step does on the model side *)
  assert (Hstep : exists s2 resps,
             run_steps cidx0 s2 (if ekind_eqb (st_kind st) KHold then queues else set_assoc t (snd (fst (fst (resume cidx0 s t (st_env st) (lookup [] t queues))))) queues)
                       (st_sample st) steps = Some (sf, qf) /\
             resps = st_resps st /\ st_sample st <= committed (rs s2) /\
             base_inv lo s s2 /\
             (forall t', t' <> t -> thr s2 t' = thr s t' /\ cur_dealt t' (log s2) = cur_dealt t' (log s)) /\
             (st_kind st = KBatch -> is_commit_pc (thr s t) = true) /\
             (forall x, thr s t <> PIdle -> cur_dealt t (log s) = [x] ->
                (resps = [] -> thr s2 t <> PIdle /\ cur_dealt t (log s2) = [x]) /\
                (forall r1 rest, resps = r1 :: rest -> forall x', resp_exact_rev r1 = Some x' -> x' = x))).
  { assert (B0 : base_inv lo s s) by (split; [exact I|split; [exact U|split; [exact W|auto]]]).
    destruct (ekind_eqb (st_kind st) KHold) eqn:Ek.
    - (* held commit: no model step *)
      match type of H with (if ?c then _ else _) = _ => destruct c eqn:Ec; [|discriminate] end.
      repeat (apply andb_true_iff in Ec; destruct Ec as [Ec ?]).
      exists (seq_all cidx0 seq_fuel s), []. split; [exact H|].
      split; [destruct (st_resps st); [reflexivity|discriminate]|]. split; [apply N.leb_le; assumption|].
      split; [apply (seq_all_rel cidx0 (base_inv lo s)); [apply base_inv_step|exact B0]|].
      split; [intros t' _; apply seq_all_frame|].
      split; [intros Hk; destruct (st_kind st); discriminate|].
      intros x Hni Hcd. split; [|intros r1 rest E; discriminate].
      intros _. destruct (seq_all_frame cidx0 seq_fuel s t) as [A B]. rewrite A, B. auto.
    - destruct (resume cidx0 s t (st_env st) (lookup [] t queues)) as [[[s1 qu] resps] ls] eqn:Er.
      match type of H with (if ?c then _ else _) = _ => destruct c eqn:Ec; [|discriminate] end.
      repeat (apply andb_true_iff in Ec; destruct Ec as [Ec ?]).
      exists (seq_all cidx0 seq_fuel s1), resps. cbn [fst snd]. split; [exact H|].
      split; [apply list_eqb_resp_eq; assumption|]. split; [apply N.leb_le; assumption|].
      assert (B1 : base_inv lo s s1) by (apply (resume_rel cidx0 (base_inv lo s) _ _ _ _ _ _ _ _ (base_inv_step cidx0 lo s) Er B0)).
      split; [apply (seq_all_rel cidx0 (base_inv lo s)); [apply base_inv_step|exact B1]|].
      split.
      { intros t' Hne. destruct (resume_other cidx0 _ _ _ _ _ _ _ _ t' Hne Er) as [A B].
        destruct (seq_all_frame cidx0 seq_fuel s1 t') as [A' B']. rewrite A', B', A, B. auto. }
      split.
      { intros Hk. rewrite Hk in Ec. unfold pc_kind in Ec. destruct (is_commit_pc (thr s t)); [reflexivity|].
        destruct (thr s t); discriminate. }
      intros x Hni Hcd.
      destruct (resume_window cidx0 lo _ _ _ _ _ _ _ _ x Er I U W Hni Hcd) as (_ & _ & _ & A & B).
      split; [|exact B]. intros E. destruct (A E) as [A1 A2].
      destruct (seq_all_frame cidx0 seq_fuel s1 t) as [A' B']. rewrite A', B'. auto. }
  destruct Hstep as (s2 & resps & Hrun & Hresps & Hsample & (I2 & U2 & W2 & G2) & Hoth & Hbatch & Hwin).
  clear H.
  (* the records side *)
  set (ts1 := step_ts i st ts) in *.
  destruct (emit t i ts1 (st_resps st)) as [ts2 recs] eqn:Eem.
  (* the window the pending commit step refers to *)
  assert (Hts1 : forall c, ts_commit ts1 = Some c ->
             (c <= i)%nat /\ thr s t <> PIdle /\ exists x, cur_dealt t (log s) = [x] /\ Forall (fun v => v < x) (firstn c past)).
  { intros c Hc. unfold ts1, step_ts in Hc. cbn [ts_commit] in Hc.
    destruct (st_kind st) eqn:Ek; try (destruct (C t c Hc) as (A1 & A2 & A3); split; [lia|split; assumption]).
    injection Hc as <-. specialize (Hbatch eq_refl).
    assert (Hrev : exists x, pc_rev (thr s t) = Some x) by (revert Hbatch; destruct (thr s t); simpl; intros Hb; try discriminate Hb; eauto).
    destruct Hrev as [x Hx].
    assert (Hheld : In x (held (rs s) t)) by (rewrite (ki_held s I); unfold held_of; rewrite Hx; left; reflexivity).
    split; [lia|]. split; [intros E; rewrite E in Hbatch; discriminate|].
    exists x. split.
    - pose proof (u_held _ _ U t x Hheld) as Hin. pose proof (w_len _ W t) as Hlen.
      destruct (cur_dealt t (log s)) as [|y [|z l]]; [contradiction|destruct Hin as [->|[]]; reflexivity|simpl in Hlen; lia].
    - unfold i. rewrite firstn_all. apply G. right. eauto. }
  apply in_app_or in Hr. destruct Hr as [Hr|Hr].
  - (* a record emitted in this step *)
    unfold rec_ok. destruct (resp_exact_rev (rr_resp r)) as [x'|] eqn:Ex; [|exact Logic.I].
    destruct (rr_commit r) as [c|] eqn:Ecm; [|exact Logic.I].
    destruct (st_resps st) as [|r1 rest] eqn:Ers; [simpl in Eem; injection Eem as <- <-; contradiction|].
    destruct (emit_cons _ _ _ _ _ _ _ Eem) as [_ [->|(rec & recs' & -> & Er1 & Ec1 & Hnone)]]; [contradiction|].
    destruct Hr as [<-|Hr]; [|rewrite Forall_forall in Hnone; rewrite (Hnone _ Hr) in Ecm; discriminate].
    rewrite Ec1 in Ecm. destruct (Hts1 c Ecm) as (Hci & Hni & x & Hcd & Hall).
    destruct (Hwin x Hni Hcd) as [_ Hfirst]. rewrite Er1 in Ex.
    rewrite (Hfirst r1 rest Hresps x' Ex).
    rewrite firstn_app_le by (fold i; lia). exact Hall.
  - (* later records: the induction hypothesis on the coupled state *)
    replace (S i) with (length (past ++ [st_sample st])) in Hr by (rewrite app_length; simpl; fold i; lia).
    replace (past ++ map st_sample (st :: steps)) with ((past ++ [st_sample st]) ++ map st_sample steps)
      by (rewrite <- app_assoc; reflexivity).
    eapply (IH _ _ _ _ _ _ _ Hrun I2 U2 W2); [| |exact Hr].
    + (* coupling *)
      intros t' c Hc. destruct (N.eq_dec t' t) as [->|Hne].
      * rewrite lookup_set_same in Hc.
        destruct (st_resps st) as [|r1 rest] eqn:Ers.
        -- simpl in Eem. injection Eem as <- <-. destruct (Hts1 c Hc) as (Hci & Hni & x & Hcd & Hall).
           destruct (Hwin x Hni Hcd) as [Hkeep _]. destruct (Hkeep Hresps) as [K1 K2].
           split; [rewrite app_length; simpl; fold i; lia|]. split; [exact K1|].
           exists x. split; [exact K2|]. rewrite firstn_app_le by (fold i; lia). exact Hall.
        -- destruct (emit_cons _ _ _ _ _ _ _ Eem) as [Hn _]. rewrite Hn in Hc. discriminate.
      * rewrite lookup_set_other in Hc by exact Hne. destruct (C t' c Hc) as (A1 & A2 & x & A3 & A4).
        destruct (Hoth t' Hne) as [B1 B2]. rewrite B1, B2.
        split; [rewrite app_length; simpl; lia|]. split; [exact A2|]. exists x. split; [exact A3|].
        rewrite firstn_app_le by lia. exact A4.
    + (* every unresolved revision is above every sample taken so far *)
      intros x Hx. apply Forall_app. split; [apply G, G2, Hx|].
      constructor; [|constructor]. pose proof (unresolved_above _ _ I2 Hx). lia.
Qed.
End Main.

Lemma init_tss_commit (progs : list (tid * list req)) t :
  ts_commit (lookup dflt t (map (fun tq => (fst tq, {| ts_queue := snd tq; ts_inv := None; ts_commit := None; ts_hold := None; ts_inj := false |})) progs)) = None.
Proof.
  induction progs as [|[t0 q0] progs IH]; simpl; [reflexivity|]. destruct (t0 =? t); [reflexivity|exact IH].
Qed.

(* the clause no_overtake_rec of progress_ok: every sample taken before the step in which a write committed is
   below the write's revision *)
Theorem sched_no_overtake_sound c : sched_valid c -> sched_check_core c = true ->
  forallb (no_overtake_rec c) (case_records c) = true.
Proof.
  intros V H. unfold sched_check_core in H.
  destruct (run_steps (sc_cidx0 c) _ _ _ _) as [[sf qf]|] eqn:Er; [|discriminate].
  pose proof (sched_valid_wf c V) as W.
  apply forallb_forall. intros r Hr. unfold case_records in Hr.
  assert (Hok : rec_ok ([] ++ map st_sample (sc_steps c)) r).
  { eapply (coupled_records (sc_cidx0 c) (sc_d0 c) _ _ _ _ _ _ _ [] Er).
    - apply kinv_init, W.
    - apply uinv_init.
    - apply winv_init.
    - intros t cc Hc. rewrite (init_tss_commit (sc_progs c) t) in Hc. discriminate.
    - intros x _. constructor.
    - exact Hr. }
  simpl in Hok. unfold rec_ok in Hok. unfold no_overtake_rec, samples.
  destruct (resp_exact_rev (rr_resp r)); [|reflexivity]. destruct (rr_commit r); [|reflexivity].
  apply forallb_forall. intros v Hv. rewrite Forall_forall in Hok. apply N.ltb_lt, Hok, Hv.
Qed.

Theorem sched_no_overtake_sound_checked c : sched_check c = true -> forallb (no_overtake_rec c) (case_records c) = true.
Proof. intros H. destruct (sched_check_split c H). apply sched_no_overtake_sound; assumption. Qed.

(* ---------- every request gets exactly one record ---------- *)

Definition inflight (s : state) (t : tid) : list req := match cur s t with Some q => [q] | None => [] end.

Lemma kstep_cur_own cidx0 s l t :
  rpanic (rs s) = false -> (l = LDeal t \/ l = LNotify t \/ exists e, l = LEngine t e) ->
  cur (kstep cidx0 s l) t = cur s t.
Proof.
  intros Hp Hl. rewrite (kstep_mid cidx0 s l Hp). cbn [cur observe].
  destruct Hl as [->|[->|[e ->]]]; simpl kmid.
  - destruct (deal_ghost s t) as (A & _). rewrite A. reflexivity.
  - destruct (notify_ghost s t) as (A & _). rewrite A. reflexivity.
  - destruct (engine_ghost cidx0 s t e) as (A & _). rewrite A. reflexivity.
Qed.

Lemma kstep_cur_other cidx0 s l t : label_tid l <> Some t -> cur (kstep cidx0 s l) t = cur s t.
Proof.
  intros Hne. destruct (rpanic (rs s)) eqn:Hp; [unfold kstep; rewrite Hp; reflexivity|].
  rewrite (kstep_mid cidx0 s l Hp). destruct (mid_other cidx0 s l t Hne) as (_ & A & _). exact A.
Qed.

Lemma run_local_queue cidx0 fuel : forall s t queue acc s' qu ac ls,
  run_local cidx0 fuel s t queue acc = (s', qu, ac, ls) -> curinv s ->
  exists new reqs, ac = acc ++ new /\ length reqs = length new /\
                   inflight s t ++ queue = reqs ++ inflight s' t ++ qu /\ curinv s'.
Proof.
  induction fuel as [|fuel IH]; intros s t queue acc s' qu ac ls H C; simpl in H.
  - injection H as <- <- <- <-. exists [], []. rewrite app_nil_r. auto.
  - destruct (rpanic (rs s)) eqn:Hp; [injection H as <- <- <- <-; exists [], []; rewrite app_nil_r; auto|].
    destruct (is_engine_pc (thr s t)); [injection H as <- <- <- <-; exists [], []; rewrite app_nil_r; auto|].
    assert (Hgo : forall l, (l = LDeal t \/ l = LNotify t) ->
               (let '(s1, qu1, ac1, ls1) := run_local cidx0 fuel (kstep cidx0 s l) t queue acc in (s1, qu1, ac1, l :: ls1))
               = (s', qu, ac, ls) ->
               exists new reqs, ac = acc ++ new /\ length reqs = length new /\
                                inflight s t ++ queue = reqs ++ inflight s' t ++ qu /\ curinv s').
    { intros l Hl E.
      destruct (run_local cidx0 fuel (kstep cidx0 s l) t queue acc) as [[[s1 qu1] ac1] ls1] eqn:Er.
      injection E as <- <- <- <-.
      destruct (IH _ _ _ _ _ _ _ _ Er (curinv_step cidx0 s l C)) as (new & reqs & A1 & A2 & A3 & A4).
      exists new, reqs. split; [exact A1|]. split; [exact A2|]. split; [|exact A4]. rewrite <- A3. unfold inflight.
      rewrite (kstep_cur_own cidx0 s l t Hp); [reflexivity|]. destruct Hl as [->| ->]; auto. }
    destruct (thr s t) eqn:Ht; try (eapply Hgo; [|exact H]; auto).
    + (* idle: invoke the next request, if any *)
      destruct queue as [|q0 queue']; [injection H as <- <- <- <-; exists [], []; rewrite app_nil_r; auto|].
      destruct (run_local cidx0 fuel (kstep cidx0 s (LInvoke t q0)) t queue' acc) as [[[s1 qu1] ac1] ls1] eqn:Er.
      injection H as <- <- <- <-.
      destruct (IH _ _ _ _ _ _ _ _ Er (curinv_step cidx0 s _ C)) as (new & reqs & A1 & A2 & A3 & A4).
      exists new, reqs. split; [exact A1|]. split; [exact A2|]. split; [|exact A4]. rewrite <- A3.
      assert (E0 : inflight s t = []) by (unfold inflight; rewrite (proj1 (C t) Ht); reflexivity).
      assert (E1 : inflight (kstep cidx0 s (LInvoke t q0)) t = [q0]).
      { unfold inflight. rewrite (kstep_mid cidx0 s _ Hp). cbn [cur observe kmid]. unfold step_invoke. rewrite Ht.
        simpl. rewrite upd_same. reflexivity. }
      rewrite E0, E1. reflexivity.
    + (* a response *)
      destruct (run_local cidx0 fuel (kstep cidx0 s (LReturn t)) t queue (acc ++ [r])) as [[[s1 qu1] ac1] ls1] eqn:Er.
      injection H as <- <- <- <-.
      destruct (IH _ _ _ _ _ _ _ _ Er (curinv_step cidx0 s _ C)) as (new & reqs & A1 & A2 & A3 & A4).
      destruct (proj2 (C t)) as [q0 Hq0]; [rewrite Ht; discriminate|].
      exists (r :: new), (q0 :: reqs). split; [rewrite A1, <- app_assoc; reflexivity|]. split; [simpl; lia|].
      split; [|exact A4].
      assert (E0 : inflight s t = [q0]) by (unfold inflight; rewrite Hq0; reflexivity).
      assert (E1 : inflight (kstep cidx0 s (LReturn t)) t = []).
      { unfold inflight. rewrite (kstep_mid cidx0 s _ Hp). cbn [cur observe kmid]. unfold step_return. rewrite Ht.
        simpl. rewrite upd_same. reflexivity. }
      rewrite E0. rewrite E1 in A3. simpl in *. rewrite A3. reflexivity.
Qed.

Lemma emit_pop t i : forall resps ts reqs rest ts' recs,
  ts_queue ts = reqs ++ rest -> length reqs = length resps ->
  emit t i ts resps = (ts', recs) ->
  length recs = length resps /\ map rr_q recs = reqs /\ map rr_resp recs = resps /\ (resps <> [] \/ ts' = ts) /\ ts_queue ts' = rest.
Proof.
  induction resps as [|r resps IH]; intros ts reqs rest ts' recs Hq Hl H; simpl in H.
  - injection H as <- <-. destruct reqs; [|discriminate]. simpl in Hq. auto 10.
  - destruct reqs as [|q0 reqs]; [discriminate|]. simpl in Hq. rewrite Hq in H.
    destruct (emit t i _ resps) as [ts2 recs2] eqn:E. injection H as <- <-.
    assert (Hl' : length reqs = length resps) by (simpl in Hl; lia).
    destruct (IH {| ts_queue := reqs ++ rest; ts_inv := Some i; ts_commit := None; ts_hold := None; ts_inj := false |} reqs rest _ _ eq_refl Hl' E) as (A & B & C & _ & D).
    simpl. rewrite A, B, C. repeat split; auto. left. discriminate.
Qed.

Fixpoint records_end (i : nat) (tss : list (tid * tstat)) (steps : list sstep) : list (tid * tstat) :=
  match steps with
  | [] => tss
  | st :: steps' =>
      let '(ts2, _) := emit (st_t st) i (step_ts i st (lookup dflt (st_t st) tss)) (st_resps st) in
      records_end (S i) (set_assoc (st_t st) ts2 tss) steps'
  end.

Definition qtot (tss : list (tid * tstat)) : nat := length (flat_map (fun p => ts_queue (snd p)) tss).

Lemma qtot_set_assoc t ts tss :
  (qtot (set_assoc t ts tss) + length (ts_queue (lookup dflt t tss)) = qtot tss + length (ts_queue ts))%nat.
Proof.
  unfold qtot. induction tss as [|[t0 ts0] tss IH]; simpl.
  - rewrite app_nil_r. lia.
  - destruct (N.eqb_spec t0 t) as [->|Hne]; simpl; rewrite !app_length; lia.
Qed.

Definition k1 (s : state) (queues : list (tid * list req)) (tss : list (tid * tstat)) : Prop :=
  forall t, ts_queue (lookup dflt t tss) = inflight s t ++ lookup [] t queues.

Lemma seq_all_cur cidx0 fuel : forall s t, cur (seq_all cidx0 fuel s) t = cur s t.
Proof.
  induction fuel as [|fuel IH]; intros s t; simpl; [reflexivity|].
  destruct (enabled s LSeqTake); [|reflexivity]. rewrite IH. apply kstep_cur_other. discriminate.
Qed.

Lemma run_local_cur_other cidx0 fuel s t queue acc s' qu ac ls t' : t' <> t ->
  run_local cidx0 fuel s t queue acc = (s', qu, ac, ls) -> cur s' t' = cur s t'.
Proof.
  intros Hne H. rewrite <- (app_nil_r acc) in H.
  set (Inv := fun (s1 : state) (_ : list resp) => cur s1 t' = cur s t').
  assert (Hs : forall s1 new l, Inv s1 new -> rpanic (rs s1) = false ->
     ((exists q, l = LInvoke t q /\ thr s1 t = PIdle) \/ l = LDeal t \/ l = LNotify t) -> Inv (kstep cidx0 s1 l) new).
  { intros s1 new l A _ Hl. unfold Inv. rewrite kstep_cur_other; [exact A|].
    destruct Hl as [[q [-> _]] | [-> | ->]]; simpl; intros [= E]; congruence. }
  assert (Hr : forall s1 new r, Inv s1 new -> rpanic (rs s1) = false -> thr s1 t = PReturn r -> Inv (kstep cidx0 s1 (LReturn t)) (new ++ [r])).
  { intros s1 new r A _ _. unfold Inv. rewrite kstep_cur_other; [exact A|]. simpl. intros [= E]. congruence. }
  destruct (run_local_ind cidx0 Inv t Hs Hr _ _ _ _ _ _ _ _ _ H) as [new [_ R]]; [reflexivity|exact R].
Qed.

Lemma resume_queue cidx0 s t e queue s' qu ac ls :
  resume cidx0 s t e queue = (s', qu, ac, ls) -> curinv s ->
  exists reqs, length reqs = length ac /\ inflight s t ++ queue = reqs ++ inflight s' t ++ qu /\ curinv s' /\
               (forall t', t' <> t -> cur s' t' = cur s t').
Proof.
  intros H C. unfold resume in H. destruct (is_engine_pc (thr s t)) eqn:Ee.
  - destruct (run_local cidx0 resume_fuel _ _ _ _) as [[[s2 qu2] ac2] ls2] eqn:E2. injection H as <- <- <- _.
    destruct (run_local_queue _ _ _ _ _ _ _ _ _ _ E2 (curinv_step cidx0 s _ C)) as (new & reqs & A1 & A2 & A3 & A4).
    simpl in A1. subst ac2. exists reqs. split; [exact A2|]. split; [|split; [exact A4|]].
    + rewrite <- A3. unfold inflight.
      destruct (rpanic (rs s)) eqn:Hp; [unfold kstep; rewrite Hp; reflexivity|].
      rewrite (kstep_cur_own cidx0 s _ t Hp); [reflexivity|]. right. right. eauto.
    + intros t' Hne. rewrite (run_local_cur_other _ _ _ _ _ _ _ _ _ _ t' Hne E2).
      apply kstep_cur_other. simpl. intros [= E]. congruence.
  - destruct (run_local_queue _ _ _ _ _ _ _ _ _ _ H C) as (new & reqs & A1 & A2 & A3 & A4).
    simpl in A1. subst ac. exists reqs. split; [exact A2|]. split; [exact A3|]. split; [exact A4|].
    intros t' Hne. eapply run_local_cur_other; eauto.
Qed.

Lemma coupled_count cidx0 steps : forall s queues prev sf qf tss i,
  run_steps cidx0 s queues prev steps = Some (sf, qf) -> curinv s -> k1 s queues tss ->
  (length (records i tss steps) + qtot (records_end i tss steps) = qtot tss)%nat /\
  k1 sf qf (records_end i tss steps) /\ curinv sf.
Proof.
  induction steps as [|st steps IH]; intros s queues prev sf qf tss i H C K; cbn [run_steps] in H.
  - injection H as <- <-. simpl. auto.
  - rewrite records_cons. cbn [records_end].
    set (t := st_t st) in *. set (ts1 := step_ts i st (lookup dflt t tss)) in *.
    destruct (emit t i ts1 (st_resps st)) as [ts2 recs] eqn:Eem.
    assert (Hq1 : ts_queue ts1 = inflight s t ++ lookup [] t queues) by (unfold ts1, step_ts; simpl; apply K).
    destruct (ekind_eqb (st_kind st) KHold) eqn:Ek.
    + match type of H with (if ?c then _ else _) = _ => destruct c eqn:Ec; [|discriminate] end.
      repeat (apply andb_true_iff in Ec; destruct Ec as [Ec ?]).
      assert (Hr0 : st_resps st = []) by (destruct (st_resps st); [reflexivity|discriminate]).
      rewrite Hr0 in Eem. simpl in Eem. injection Eem as <- <-.
      assert (C2 : curinv (seq_all cidx0 seq_fuel s)).
      { apply (seq_all_rel cidx0 curinv); [intros; apply curinv_step; assumption|exact C]. }
      destruct (IH _ _ _ _ _ (set_assoc t ts1 tss) (S i) H C2) as (A1 & A2 & A3).
      * intros t'. unfold inflight. rewrite seq_all_cur. destruct (N.eq_dec t' t) as [->|Hne].
        -- rewrite lookup_set_same. exact Hq1.
        -- rewrite lookup_set_other by exact Hne. apply K.
      * split; [|auto]. simpl. pose proof (qtot_set_assoc t ts1 tss) as Hq.
        assert (length (ts_queue (lookup dflt t tss)) = length (ts_queue ts1)) by reflexivity. lia.
    + destruct (resume cidx0 s t (st_env st) (lookup [] t queues)) as [[[s1 qu] resps] ls] eqn:Er.
      match type of H with (if ?c then _ else _) = _ => destruct c eqn:Ec; [|discriminate] end.
      repeat (apply andb_true_iff in Ec; destruct Ec as [Ec ?]).
      match goal with Hl : list_eqb resp_eqb _ _ = true |- _ => apply list_eqb_resp_eq in Hl; subst resps end.
      destruct (resume_queue _ _ _ _ _ _ _ _ _ Er C) as (reqs & R1 & R2 & R3 & R4).
      rewrite R2 in Hq1.
      destruct (emit_pop _ _ _ _ _ _ _ _ Hq1 R1 Eem) as (E1 & _ & _ & _ & E5).
      assert (C2 : curinv (seq_all cidx0 seq_fuel s1)).
      { apply (seq_all_rel cidx0 curinv); [intros; apply curinv_step; assumption|exact R3]. }
      destruct (IH _ _ _ _ _ (set_assoc t ts2 tss) (S i) H C2) as (A1 & A2 & A3).
      * intros t'. unfold inflight. rewrite seq_all_cur. destruct (N.eq_dec t' t) as [->|Hne].
        -- rewrite !lookup_set_same. exact E5.
        -- rewrite !lookup_set_other by exact Hne. rewrite (R4 t' Hne). apply K.
      * split; [|auto]. rewrite app_length. pose proof (qtot_set_assoc t ts2 tss) as Hq.
        assert (Hl1 : length (ts_queue (lookup dflt t tss)) = length (ts_queue ts1)) by reflexivity.
        rewrite Hl1, Hq1, E5 in Hq. rewrite !app_length in Hq. lia.
Qed.

Lemma set_assoc_keys {A} k (x : A) l :
  map fst (set_assoc k x l) = if mem_N k (map fst l) then map fst l else map fst l ++ [k].
Proof.
  induction l as [|[k0 y] l IH]; simpl; [reflexivity|].
  destruct (N.eqb_spec k0 k) as [->|Hne]; simpl; [reflexivity|]. rewrite IH. destruct (mem_N k (map fst l)); reflexivity.
Qed.

Lemma set_assoc_NoDup {A} k (x : A) l : NoDup (map fst l) -> NoDup (map fst (set_assoc k x l)).
Proof.
  intros H. rewrite set_assoc_keys. destruct (mem_N k (map fst l)) eqn:E; [exact H|].
  assert (Hn : ~ In k (map fst l)) by (intros Hin; apply mem_N_In in Hin; congruence).
  clear E. induction (map fst l) as [|a m IHm]; simpl; [constructor; [intros []|constructor]|].
  inversion H; subst. constructor.
  - intros Hin. apply in_app_or in Hin. destruct Hin as [Hin|[<-|[]]]; [contradiction|]. apply Hn. left. reflexivity.
  - apply IHm; [assumption|]. intros Hin. apply Hn. right. exact Hin.
Qed.

Lemma set_assoc_In {A} k (x : A) l k' : In k' (map fst l) \/ k' = k -> In k' (map fst (set_assoc k x l)).
Proof.
  rewrite set_assoc_keys. destruct (mem_N k (map fst l)) eqn:E; intros [H| ->]; auto.
  - apply mem_N_In, E.
  - apply in_or_app. auto.
  - apply in_or_app. right. left. reflexivity.
Qed.

Definition active_in (s : state) (queues : list (tid * list req)) : Prop :=
  forall t, thr s t <> PIdle -> In t (map fst queues).

Lemma coupled_keys cidx0 steps : forall s queues prev sf qf tss i,
  run_steps cidx0 s queues prev steps = Some (sf, qf) -> active_in s queues -> NoDup (map fst tss) ->
  active_in sf qf /\ NoDup (map fst (records_end i tss steps)).
Proof.
  induction steps as [|st steps IH]; intros s queues prev sf qf tss i H N D; cbn [run_steps] in H.
  - injection H as <- <-. auto.
  - cbn [records_end]. set (t := st_t st) in *.
    destruct (emit t i (step_ts i st (lookup dflt t tss)) (st_resps st)) as [ts2 recs] eqn:Eem.
    destruct (ekind_eqb (st_kind st) KHold) eqn:Ek.
    + match type of H with (if ?c then _ else _) = _ => destruct c eqn:Ec; [|discriminate] end.
      eapply IH; [exact H| |apply set_assoc_NoDup, D].
      intros t' Hni. apply N. destruct (seq_all_frame cidx0 seq_fuel s t') as [A _]. rewrite <- A. exact Hni.
    + destruct (resume cidx0 s t (st_env st) (lookup [] t queues)) as [[[s1 qu] resps] ls] eqn:Er.
      match type of H with (if ?c then _ else _) = _ => destruct c eqn:Ec; [|discriminate] end.
      eapply IH; [exact H| |apply set_assoc_NoDup, D].
      intros t' Hni. destruct (seq_all_frame cidx0 seq_fuel s1 t') as [A _]. rewrite A in Hni.
      apply set_assoc_In. destruct (N.eq_dec t' t) as [->|Hne]; [auto|]. left. apply N.
      destruct (resume_other cidx0 _ _ _ _ _ _ _ _ t' Hne Er) as [B _]. rewrite <- B. exact Hni.
Qed.

Lemma lookup_map_tss (progs : list (tid * list req)) t :
  ts_queue (lookup dflt t (map (fun tq => (fst tq, {| ts_queue := snd tq; ts_inv := None; ts_commit := None; ts_hold := None; ts_inj := false |})) progs))
  = lookup [] t progs.
Proof. induction progs as [|[t0 q0] progs IH]; simpl; [reflexivity|]. destruct (t0 =? t); [reflexivity|exact IH]. Qed.

Lemma qtot_map_tss (progs : list (tid * list req)) :
  qtot (map (fun tq => (fst tq, {| ts_queue := snd tq; ts_inv := None; ts_commit := None; ts_hold := None; ts_inj := false |})) progs)
  = length (flat_map snd progs).
Proof. unfold qtot. induction progs as [|[t0 q0] progs IH]; simpl; [reflexivity|]. rewrite !app_length, IH. reflexivity. Qed.

Lemma qtot_zero tss : NoDup (map fst tss) -> (forall t, ts_queue (lookup dflt t tss) = []) -> qtot tss = 0%nat.
Proof.
  unfold qtot. induction tss as [|[t0 ts0] tss IH]; simpl; intros D H; [reflexivity|].
  inversion D as [|? ? Hn D']; subst.
  pose proof (H t0) as H0. simpl in H0. rewrite N.eqb_refl in H0. rewrite H0. simpl. apply IH; [exact D'|].
  intros t. specialize (H t). simpl in H. destruct (N.eqb_spec t0 t) as [Eq|_]; [subst t|exact H].
  (* t0 does not occur in the tail: its lookup there is the default *)
  clear -Hn. induction tss as [|[t1 ts1] tss IH]; simpl; [reflexivity|].
  destruct (N.eqb_spec t1 t0) as [->|_]; [exfalso; apply Hn; left; reflexivity|]. apply IH. intros Hin. apply Hn. right. exact Hin.
Qed.

Lemma sched_core_final c sf qf :
  run_steps (sc_cidx0 c) (kinit (sc_d0 c) (store_of (sc_init c))) (sc_progs c) (sc_d0 c) (sc_steps c) = Some (sf, qf) ->
  sched_check_core c = true ->
  (forall t q, In (t, q) qf -> q = [] /\ thr sf t = PIdle).
Proof.
  intros Er H. unfold sched_check_core in H. rewrite Er in H.
  apply andb_true_iff in H. destruct H as [H _]. apply andb_true_iff in H. destruct H as [H _].
  apply andb_true_iff in H. destruct H as [H _]. apply andb_true_iff in H. destruct H as [H _].
  apply andb_true_iff in H. destruct H as [H _]. apply andb_true_iff in H. destruct H as [H _].
  apply andb_true_iff in H. destruct H as [H _]. apply andb_true_iff in H. destruct H as [Hq Hi].
  intros t q Hin. rewrite forallb_forall in Hq, Hi. specialize (Hq _ Hin). specialize (Hi _ Hin). simpl in *.
  split; [destruct q; [reflexivity|discriminate]|destruct (thr sf t); try discriminate; reflexivity].
Qed.

(* the clause records_complete: every request of the case has exactly one record *)
Theorem sched_records_complete_sound c : sched_valid c -> sched_check_core c = true ->
  records_complete c (case_records c) = true.
Proof.
  intros (V1 & V2 & V3) H. pose proof H as H'. unfold sched_check_core in H.
  destruct (run_steps (sc_cidx0 c) _ _ _ _) as [[sf qf]|] eqn:Er; [|discriminate].
  pose proof (sched_core_final c sf qf Er H') as Hfin.
  set (tss0 := map (fun tq => (fst tq, {| ts_queue := snd tq; ts_inv := None; ts_commit := None; ts_hold := None; ts_inj := false |})) (sc_progs c)).
  destruct (coupled_count (sc_cidx0 c) _ _ _ _ _ _ tss0 0%nat Er) as (A1 & A2 & A3).
  { apply curinv_init. }
  { intros t. unfold tss0. rewrite lookup_map_tss. reflexivity. }
  destruct (coupled_keys (sc_cidx0 c) _ _ _ _ _ _ tss0 0%nat Er) as (B1 & B2).
  { intros t Hni. exfalso. apply Hni. reflexivity. }
  { unfold tss0. rewrite map_map. simpl. exact V1. }
  assert (Hz : qtot (records_end 0 tss0 (sc_steps c)) = 0%nat).
  { apply qtot_zero; [exact B2|]. intros t. rewrite A2.
    assert (Hidle : thr sf t = PIdle).
    { destruct (in_dec N.eq_dec t (map fst qf)) as [Hin|Hnin].
      - apply in_map_iff in Hin. destruct Hin as [[t' q'] [Eq Hin]]. simpl in Eq. subst t'.
        apply (Hfin _ _ Hin).
      - destruct (thr sf t) eqn:Et; try reflexivity; exfalso; apply Hnin, B1; rewrite Et; discriminate. }
    unfold inflight. rewrite (proj1 (A3 t) Hidle). simpl.
    clear -Hfin. induction qf as [|[t1 q1] qf IH]; simpl; [reflexivity|].
    destruct (N.eqb_spec t1 t) as [->|_]; [apply (Hfin t q1); left; reflexivity|].
    apply IH. intros t0 q0 Hin. apply Hfin. right. exact Hin. }
  unfold records_complete, case_records. fold tss0. apply Nat.eqb_eq.
  unfold tss0 in A1 at 3. rewrite qtot_map_tss in A1. unfold nreqs. lia.
Qed.

Theorem sched_records_complete_sound_checked c : sched_check c = true -> records_complete c (case_records c) = true.
Proof. intros H. destruct (sched_check_split c H). apply sched_records_complete_sound; assumption. Qed.
