(* The contract's conditional operations, characterised independently of the definition of bop_step / batch_eval:
   put-if-absent, compare-and-swap and compare-and-delete take effect exactly when their condition holds, with exactly
   the stated effect; a batch is applied as a whole or fails at its first failing condition after a successful prefix. *)
From KB Require Import Base.Cases Model.Store Proofs.Store.
Local Open Scope N_scope.

Definition same_elsewhere (s s' : store) (k : bytes) : Prop := forall k', k' <> k -> get s' k' = get s k'.

(* ---------- put-if-absent ---------- *)

Lemma putnx_iff m c k v t : (exists c', batch_eval m c [PutIfNotExist k v t] = Applied c') <-> get (st c) k = None.
Proof.
  unfold batch_eval. cbn [batch_go bop_step]. destruct (get (st c) k) as [x|]; split.
  - intros [c' H]. discriminate.
  - discriminate.
  - reflexivity.
  - intros _. eexists. reflexivity.
Qed.

Lemma putnx_effect m c k v t c' : batch_eval m c [PutIfNotExist k v t] = Applied c' ->
  get (st c') k = Some v /\ same_elsewhere (st c) (st c') k.
Proof.
  unfold batch_eval. cbn [batch_go bop_step]. destruct (get (st c) k); [discriminate|]. intros [= <-]. cbn [st].
  split; [apply get_set_same|]. intros k' Hk. apply get_set_other. exact Hk.
Qed.

Lemma putnx_fails m c k v t i a : batch_eval m c [PutIfNotExist k v t] = CondFailed i a ->
  i = 0%nat /\ a = get (st c) k /\ a <> None.
Proof.
  unfold batch_eval. cbn [batch_go bop_step]. destruct (get (st c) k) as [x|]; [|discriminate].
  intros [= <- <-]. repeat split. discriminate.
Qed.

(* ---------- compare-and-swap ---------- *)

Lemma cas_iff m c k nv ov t : (exists c', batch_eval m c [CAS k nv ov t] = Applied c') <-> get (st c) k = Some ov.
Proof.
  unfold batch_eval. cbn [batch_go bop_step]. destruct (get (st c) k) as [x|].
  - destruct (beqb x ov) eqn:E; split.
    + intros _. apply beqb_eq in E. congruence.
    + intros _. eexists. reflexivity.
    + intros [c' H]. discriminate.
    + intros [= ->]. rewrite beqb_refl in E. discriminate.
  - split; [intros [c' H]; discriminate|discriminate].
Qed.

Lemma cas_effect m c k nv ov t c' : batch_eval m c [CAS k nv ov t] = Applied c' ->
  get (st c') k = Some nv /\ same_elsewhere (st c) (st c') k.
Proof.
  unfold batch_eval. cbn [batch_go bop_step]. destruct (get (st c) k) as [x|]; [|discriminate].
  destruct (beqb x ov); [|discriminate]. intros [= <-]. cbn [st].
  split; [apply get_set_same|]. intros k' Hk. apply get_set_other. exact Hk.
Qed.

Lemma cas_fails m c k nv ov t i a : batch_eval m c [CAS k nv ov t] = CondFailed i a ->
  i = 0%nat /\ a = get (st c) k /\ a <> Some ov.
Proof.
  unfold batch_eval. cbn [batch_go bop_step]. destruct (get (st c) k) as [x|].
  - destruct (beqb x ov) eqn:E; [discriminate|]. intros [= <- <-]. repeat split.
    intros [= ->]. rewrite beqb_refl in E. discriminate.
  - intros [= <- <-]. repeat split. discriminate.
Qed.

(* ---------- compare-and-delete, in both readings ---------- *)

Lemma delcur_value_iff c k v stamp : (exists c', batch_eval ByValue c [DelCur k v stamp] = Applied c') <-> get (st c) k = Some v.
Proof.
  unfold batch_eval. cbn [batch_go bop_step]. unfold delcur_holds. destruct (get (st c) k) as [x|].
  - destruct (beqb x v) eqn:E; split.
    + intros _. apply beqb_eq in E. congruence.
    + intros _. eexists. reflexivity.
    + intros [c' H]. discriminate.
    + intros [= ->]. rewrite beqb_refl in E. discriminate.
  - split; [intros [c' H]; discriminate|discriminate].
Qed.

Lemma delcur_version_iff c k v stamp :
  (exists c', batch_eval ByVersion c [DelCur k v stamp] = Applied c') <->
  (get (st c) k <> None /\ get (stamps c) k = Some stamp).
Proof.
  unfold batch_eval. cbn [batch_go bop_step]. unfold delcur_holds, nbeqb. destruct (get (st c) k) as [x|].
  - destruct (get (stamps c) k) as [n|]; cbn [opt_eqb].
    + destruct (n =? stamp) eqn:E; split.
      * intros _. apply N.eqb_eq in E. subst. split; [discriminate|reflexivity].
      * intros _. eexists. reflexivity.
      * intros [c' H]. discriminate.
      * intros [_ [= ->]]. rewrite N.eqb_refl in E. discriminate.
    + split; [intros [c' H]; discriminate|intros [_ H]; discriminate].
  - split; [intros [c' H]; discriminate|intros [H _]; congruence].
Qed.

Lemma delcur_effect m c k v stamp c' : batch_eval m c [DelCur k v stamp] = Applied c' ->
  get (st c') k = None /\ same_elsewhere (st c) (st c') k.
Proof.
  unfold batch_eval. cbn [batch_go bop_step]. destruct (delcur_holds m (st c) (stamps c) k v stamp); [|discriminate].
  intros [= <-]. cbn [st]. split; [apply get_remove_same|]. intros k' Hk. apply get_remove_other. exact Hk.
Qed.

(* ---------- all or nothing ---------- *)

Lemma batch_go_fails m nc ops : forall w z idx i a, batch_go m nc w z idx ops = inr (i, a) ->
  exists pre o post w' z', ops = pre ++ o :: post /\ i = (idx + length pre)%nat /\
                           batch_go m nc w z idx pre = inl (w', z') /\ bop_step m nc w' z' o = inr a.
Proof.
  induction ops as [|o rest IH]; intros w z idx i a; cbn [batch_go]; [discriminate|].
  destruct (bop_step m nc w z o) as [[w1 z1]|a1] eqn:E.
  - intros H. destruct (IH _ _ _ _ _ H) as (pre & o' & post & w' & z' & -> & -> & Hp & Hs).
    exists (o :: pre), o', post, w', z'. repeat split; [cbn; lia| |exact Hs]. cbn [batch_go]. rewrite E. exact Hp.
  - intros [= <- <-]. exists [], o, rest, w, z. repeat split; [cbn; lia|exact E].
Qed.

(* a failed batch: the operations before index i all succeeded (on the working copy), operation i is the first whose
   condition fails, `actual` is what it found; the answer carries no new state — nothing is applied *)
Lemma batch_fails_at_first m c ops i a : batch_eval m c ops = CondFailed i a ->
  exists pre o post w z, ops = pre ++ o :: post /\ length pre = i /\
                         batch_go m (clock c + 1) (st c) (stamps c) 0 pre = inl (w, z) /\
                         bop_step m (clock c + 1) w z o = inr a.
Proof.
  unfold batch_eval. destruct ops as [|o0 rest]; [discriminate|].
  destruct (batch_go m (clock c + 1) (st c) (stamps c) 0 (o0 :: rest)) as [[w z]|[i' a']] eqn:E; [discriminate|].
  intros [= <- <-]. destruct (batch_go_fails _ _ _ _ _ _ _ _ E) as (pre & o & post & w & z & Hops & Hi & Hp & Hs).
  exists pre, o, post, w, z. repeat split; auto.
Qed.

(* an applied batch: every operation succeeded in order, and the new map is the working copy at the end *)
Lemma batch_applied_all m c ops c' : batch_eval m c ops = Applied c' -> ops <> [] ->
  batch_go m (clock c + 1) (st c) (stamps c) 0 ops = inl (st c', stamps c').
Proof.
  unfold batch_eval. destruct ops as [|o0 rest]; [congruence|].
  destruct (batch_go m (clock c + 1) (st c) (stamps c) 0 (o0 :: rest)) as [[w z]|[i a]]; [|discriminate].
  intros [= <-] _. reflexivity.
Qed.
