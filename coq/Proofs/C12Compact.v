(* Engine independence of Compact: the scan worker with compaction (worker.run, compact = true) deletes through
   KvStorage.Del and KvStorage.DelCurrent while it walks a snapshot.  DelCurrent is by value on memkv/TiKV and by
   version on Badger; the two readings agree on a record that is unchanged since the snapshot and on a record that is
   gone, and a compaction pass only deletes — so every snapshot record is, at any time of the pass, either unchanged
   (value and write stamp) or missing.  With that invariant the pass over any adapter that refines the contract does
   what the pass over the reference adapter does. *)
From KB Require Import Base.Cases Model.Store Model.Adapters Model.C11Cases Model.Coder Model.BackendSeq
  Proofs.Store Proofs.AdapterLists Proofs.Adapters Proofs.Coder Proofs.C12Indep.
Local Open Scope N_scope.

(* every stored key carries a write stamp (only needed for the by-version reading) *)
Definition stamped_ok {A m} (S : sim A m) : Prop :=
  forall s c k v, sim_R A m S s c -> get (st c) k = Some v -> get (stamps c) k <> None.

(* the by-value adapters never look at stamps: the condition is only required under ByVersion *)
Definition stamped_if_version {A m} (S : sim A m) : Prop :=
  match m with ByValue => True | ByVersion => stamped_ok S end.

Lemma stamped_memkv : stamped_if_version sim_memkv. Proof. exact I. Qed.
Lemma stamped_tikv : stamped_if_version sim_tikv. Proof. exact I. Qed.

Lemma stamped_badger : stamped_if_version sim_badger.
Proof.
  intros s c k v (Hst & Hzs & _) G. rewrite Hzs. rewrite Hst in G. unfold b_vers, b_store in *.
  rewrite (get_map_val (@fst bytes N)) in G. rewrite (get_map_val (@snd bytes N)).
  destruct (get (b_map s) k); cbn [option_map] in *; [discriminate|discriminate G].
Qed.

Lemma stamped_wrapper A m (S : sim A m) : stamped_if_version S -> stamped_if_version (sim_wrapper A m S).
Proof. unfold stamped_if_version. destruct m; [auto|]. intros H s c k v HR. exact (H s c k v HR). Qed.

(* ---------- a snapshot record against the current contract state ---------- *)

Definition ikey (i : item) : bytes := fst (fst i).
Definition ival (i : item) : bytes := snd (fst i).

Definition fresh (m : dcmode) (c : cstore) (i : item) : Prop :=
  get (st c) (ikey i) = Some (ival i) /\
  match m with ByValue => True | ByVersion => get (stamps c) (ikey i) = Some (snd i) end.

Definition fresh_or_missing (m : dcmode) (c : cstore) (i : item) : Prop :=
  get (st c) (ikey i) = None \/ fresh m c i.

Definition removed (c : cstore) (k : bytes) : cstore :=
  mk_cstore (Store.remove (st c) k) (Store.remove (stamps c) k) (clock c + 1).

Lemma fom_removed m c k i : fresh_or_missing m c i -> fresh_or_missing m (removed c k) i.
Proof.
  intros H. unfold fresh_or_missing, fresh, removed. cbn [st stamps].
  destruct (beqb (ikey i) k) eqn:E.
  - apply beqb_eq in E. rewrite E. left. apply get_remove_same.
  - apply beqb_neq in E. rewrite !get_remove_other by exact E. exact H.
Qed.

Lemma batch_eval_del m c k : batch_eval m c [Del k] = Applied (removed c k).
Proof. reflexivity. Qed.

Lemma batch_eval_delcur_missing m c i : get (st c) (ikey i) = None ->
  batch_eval m c [item_bop i] = CondFailed 0 None.
Proof.
  intros G. unfold item_bop, batch_eval. cbn [batch_go bop_step]. unfold delcur_holds.
  unfold ikey in G. rewrite G. reflexivity.
Qed.

Lemma batch_eval_delcur_fresh m c i : fresh m c i ->
  batch_eval m c [item_bop i] = Applied (removed c (ikey i)).
Proof.
  intros [G Hz]. unfold item_bop, batch_eval. cbn [batch_go bop_step]. unfold delcur_holds.
  unfold ikey, ival in *. rewrite G. destruct m.
  - rewrite beqb_refl. reflexivity.
  - rewrite Hz. unfold nbeqb. cbn [opt_eqb]. rewrite N.eqb_refl. reflexivity.
Qed.

(* ---------- the relation with the contract state made explicit ---------- *)

Section Compact.
Context (VP : bytes -> Prop) (HVP : forall v, v <> [] -> VP v).
Context {A : adapter} {m : dcmode} (S : sim A m) (Hplain : plain_ok VP S) (Hstamped : stamped_if_version S) (prefix : bytes).

Definition RelC (s : a_state A) (c : cstore) (r : store) : Prop :=
  sim_R A m S s c /\ st c = r /\ sorted r /\ sorted (stamps c).

Lemma relc_rel s c r : RelC s c r -> Rel S s r.
Proof. intros H. exists c. exact H. Qed.

(* KvStorage.Del *)
Lemma relc_del s c r k : RelC s c r ->
  snd (a_del A s k) = ROk /\ RelC (fst (a_del A s k)) (removed c k) (Store.remove r k).
Proof.
  intros (HR & <- & Hs & Hz). rewrite (sim_del A m S s k). cbn [fst snd].
  destruct (sim_batch A m S s c [Del k] HR (okb_del A m S k)) as [Hp Hrel]. rewrite batch_eval_del in *.
  cbn [batch_proj_ok] in Hp. apply andb_true_iff in Hp as [Hc _].
  destruct (snd (fst (a_batch A s [Del k]))); try discriminate. split; [reflexivity|].
  repeat split; cbn [removed st stamps]; try assumption.
  - apply remove_sorted; exact Hs.
  - apply remove_sorted; exact Hz.
Qed.

(* KvStorage.DelCurrent of a snapshot record that is unchanged or gone *)
Lemma relc_delcur s c r i : RelC s c r -> item_ok A m S i -> fresh_or_missing m c i ->
  exists c', (c' = c \/ c' = removed c (ikey i)) /\
             RelC (fst (fst (a_delcur A s i))) c' (fst (fst (r_batch r [item_bop i]))) /\
             snd (fst (a_delcur A s i)) = snd (fst (r_batch r [item_bop i])) /\
             (snd (fst (a_delcur A s i)) = ROk \/ snd (fst (a_delcur A s i)) = RCond).
Proof.
  intros (HR & <- & Hs & Hz) Hok Hfm. rewrite (sim_delcur A m S s i).
  destruct (sim_batch A m S s c [item_bop i] HR (okb_delcur A m S i Hok)) as [Hp Hrel].
  unfold r_batch. destruct Hfm as [Hmiss|Hfr].
  - rewrite (batch_eval_delcur_missing m c i Hmiss) in *.
    rewrite (batch_eval_delcur_missing ByValue (cs_of (st c)) i Hmiss).
    cbn [batch_proj_ok] in Hp. apply andb_true_iff in Hp as [Hc _].
    destruct (snd (fst (a_batch A s [item_bop i]))) eqn:Ecl; try discriminate.
    exists c. split; [left; reflexivity|]. cbn [fst snd].
    split; [split; [exact Hrel|repeat split; assumption]|]. split; [reflexivity|right; reflexivity].
  - rewrite (batch_eval_delcur_fresh m c i Hfr) in *.
    assert (Hfr' : fresh ByValue (cs_of (st c)) i) by (split; [exact (proj1 Hfr)|exact I]).
    rewrite (batch_eval_delcur_fresh ByValue (cs_of (st c)) i Hfr').
    cbn [batch_proj_ok] in Hp. apply andb_true_iff in Hp as [Hc _].
    destruct (snd (fst (a_batch A s [item_bop i]))) eqn:Ecl; try discriminate.
    exists (removed c (ikey i)). split; [right; reflexivity|]. cbn [fst snd removed st stamps cs_of].
    split; [|split; [reflexivity|left; reflexivity]].
    repeat split; cbn [removed st stamps]; try assumption.
    + apply remove_sorted; exact Hs.
    + apply remove_sorted; exact Hz.
Qed.

(* ---------- the worker ---------- *)

Definition WrelC (wa : wstate A) (c : cstore) (wr : wstate radapter) : Prop :=
  RelC (w_st A wa) c (w_st radapter wr) /\ w_pkey A wa = w_pkey radapter wr /\ w_prev A wa = w_prev radapter wr /\
  w_pval A wa = w_pval radapter wr /\ w_res A wa = w_res radapter wr /\ w_failed A wa = w_failed radapter wr.

Definition all_fom (c : cstore) (items : list item) : Prop := Forall (fresh_or_missing m c) items.

Lemma all_fom_removed c k items : all_fom c items -> all_fom (removed c k) items.
Proof. intros H. eapply Forall_impl; [|exact H]. intros i. apply fom_removed. Qed.

Lemma wrelc_emit wa c wr : WrelC wa c wr -> WrelC (emit_prev A wa) c (emit_prev radapter wr).
Proof.
  intros (HR & H1 & H2 & H3 & H4 & H5). unfold emit_prev. rewrite H1, H2, H3, H4, H5.
  destruct ((0 <? w_prev radapter wr) && negb (beqb (w_pval radapter wr) tombstone)); cbn; (split; [exact HR|repeat split; assumption]).
Qed.

Lemma wrelc_set wa c wr k r v : WrelC wa c wr -> WrelC (set_prev A wa k r v) c (set_prev radapter wr k r v).
Proof. intros (HR & H1 & H2 & H3 & H4 & H5). unfold set_prev. cbn. split; [exact HR|repeat split; assumption]. Qed.

(* compactKey *)
Lemma wrelc_compact_key wa c wr ik raw items : WrelC wa c wr -> all_fom c items ->
  exists c', WrelC (compact_key_rec A wa ik raw) c' (compact_key_rec radapter wr ik raw) /\ all_fom c' items.
Proof.
  intros (HR & H1 & H2 & H3 & H4 & H5) Hf. unfold compact_key_rec, compact_with. rewrite H5.
  destruct (negb match w_failed radapter wr with [] => true | _ :: _ => false end && beqb (w_failed radapter wr) raw).
  - exists c. split; [split; [exact HR|repeat split; assumption]|exact Hf].
  - destruct (relc_del _ _ _ ik HR) as [Hcl HR'].
    destruct (a_del A (w_st A wa) ik) as [s' cl]. cbn [fst snd] in *. subst cl. cbn [a_del radapter].
    exists (removed c ik). split; [|apply all_fom_removed; exact Hf].
    cbn. split; [exact HR'|repeat split; assumption].
Qed.

(* compactCurrent *)
Lemma wrelc_compact_current wa c wr ia ir raw items : WrelC wa c wr -> all_fom c items ->
  item_kv ia = item_kv ir -> item_ok A m S ia -> fresh_or_missing m c ia ->
  exists c', WrelC (compact_current A wa ia raw) c' (compact_current radapter wr ir raw) /\ all_fom c' items.
Proof.
  intros (HR & H1 & H2 & H3 & H4 & H5) Hf Hkv Hok Hfm. unfold compact_current, compact_with. rewrite H5.
  destruct (negb match w_failed radapter wr with [] => true | _ :: _ => false end && beqb (w_failed radapter wr) raw).
  - exists c. split; [split; [exact HR|repeat split; assumption]|exact Hf].
  - destruct (relc_delcur _ _ _ ia HR Hok Hfm) as (c' & Hc' & HR' & Hcl & Hcls).
    assert (Hb : r_batch (w_st radapter wr) [item_bop ir] = r_batch (w_st radapter wr) [item_bop ia]).
    { (* the reference adapter compares by value: the stamp of the record is irrelevant *)
      unfold item_kv in Hkv. destruct ia as [[ka va] za], ir as [[kr vr] zr]. cbn [fst snd] in Hkv.
      injection Hkv as -> ->. reflexivity. }
    cbn [a_delcur radapter]. rewrite Hb.
    destruct (a_delcur A (w_st A wa) ia) as [[s' cl] cf]. destruct (r_batch (w_st radapter wr) [item_bop ia]) as [[r' cl'] cf'].
    cbn [fst snd] in *. subst cl'.
    exists c'. split.
    + assert (Hfl : match cl with ROk | RCond => w_failed radapter wr | _ => raw end = w_failed radapter wr)
        by (destruct Hcls as [-> | ->]; reflexivity).
      cbn. rewrite Hfl. split; [exact HR'|repeat split; assumption].
    + destruct Hc' as [-> | ->]; [exact Hf|apply all_fom_removed; exact Hf].
Qed.

Lemma rel_worker_true rev lim : forall ia ir wa wr c,
  map item_kv ia = map item_kv ir -> WrelC wa c wr -> all_fom c ia -> Forall (item_ok A m S) ia ->
  match worker_loop A true rev lim ia wa, worker_loop radapter true rev lim ir wr with
  | None, None => True
  | Some (wa', f), Some (wr', f') => f = f' /\ exists c', WrelC wa' c' wr'
  | _, _ => False
  end.
Proof.
  induction ia as [|[[ik v] z] ta IH]; intros [|[[ik' v'] z'] tr] wa wr c Hm HW Hf Hok; cbn [map] in Hm; try discriminate.
  - cbn [worker_loop]. split; [reflexivity|]. exists c. exact HW.
  - pose proof Hm as Hm0. unfold item_kv in Hm. cbn [fst snd] in Hm. injection Hm as <- <- Hm. cbn [worker_loop].
    assert (Hnm : need_more A lim wa = need_more radapter lim wr).
    { unfold need_more. destruct HW as (_ & _ & _ & _ & -> & _). reflexivity. }
    rewrite Hnm. destruct (need_more radapter lim wr); cbn [negb]; [|split; [reflexivity|exists c; exact HW]].
    inversion Hok as [|? ? Hok1 Hok']; subst.
    assert (Hf' : forall c0, all_fom c0 ((ik, v, z) :: ta) -> all_fom c0 ta) by (intros c0 H0; inversion H0; assumption).
    destruct (decode ik) as [| |uk r]; [exact I|apply (IH tr wa wr c); auto|].
    destruct (rev <? r); [apply (IH tr wa wr c); auto|]. cbn [andb].
    assert (Hpk : w_pkey A wa = w_pkey radapter wr) by (destruct HW as (_ & -> & _); reflexivity).
    assert (Hpv : w_prev A wa = w_prev radapter wr) by (destruct HW as (_ & _ & -> & _); reflexivity).
    rewrite Hpk, Hpv.
    (* w1: a new raw key emits the previous one; the same raw key deletes the previous version *)
    assert (H1 : exists c1,
               WrelC (if negb (beqb uk (w_pkey radapter wr)) then emit_prev A wa
                      else if 0 <? w_prev radapter wr
                           then compact_key_rec A wa (encode (w_pkey radapter wr) (w_prev radapter wr)) (w_pkey radapter wr)
                           else wa) c1
                     (if negb (beqb uk (w_pkey radapter wr)) then emit_prev radapter wr
                      else if 0 <? w_prev radapter wr
                           then compact_key_rec radapter wr (encode (w_pkey radapter wr) (w_prev radapter wr)) (w_pkey radapter wr)
                           else wr) /\ all_fom c1 ((ik, v, z) :: ta)).
    { destruct (negb (beqb uk (w_pkey radapter wr))).
      - exists c. split; [apply wrelc_emit; exact HW|exact Hf].
      - destruct (0 <? w_prev radapter wr).
        + apply (wrelc_compact_key wa c wr); assumption.
        + exists c. split; assumption. }
    destruct H1 as (c1 & HW1 & Hf1).
    set (wa1 := if negb (beqb uk (w_pkey radapter wr)) then emit_prev A wa
                else if 0 <? w_prev radapter wr
                     then compact_key_rec A wa (encode (w_pkey radapter wr) (w_prev radapter wr)) (w_pkey radapter wr)
                     else wa) in *.
    set (wr1 := if negb (beqb uk (w_pkey radapter wr)) then emit_prev radapter wr
                else if 0 <? w_prev radapter wr
                     then compact_key_rec radapter wr (encode (w_pkey radapter wr) (w_prev radapter wr)) (w_pkey radapter wr)
                     else wr) in *.
    (* w2: a tombstone record is deleted *)
    assert (H2 : exists c2,
               WrelC (if beqb v tombstone then compact_key_rec A wa1 ik uk else wa1) c2
                     (if beqb v tombstone then compact_key_rec radapter wr1 ik uk else wr1) /\ all_fom c2 ((ik, v, z) :: ta)).
    { destruct (beqb v tombstone).
      - apply (wrelc_compact_key wa1 c1 wr1); assumption.
      - exists c1. split; assumption. }
    destruct H2 as (c2 & HW2 & Hf2).
    set (wa2 := if beqb v tombstone then compact_key_rec A wa1 ik uk else wa1) in *.
    set (wr2 := if beqb v tombstone then compact_key_rec radapter wr1 ik uk else wr1) in *.
    destruct ((r =? 0) && Nat.eqb (length v) 9).
    + destruct (rev <? from_be (firstn 8 v)).
      * apply (IH tr wa2 wr2 c2); auto.
      * assert (Hcur : fresh_or_missing m c2 (ik, v, z)) by (inversion Hf2; assumption).
        destruct (wrelc_compact_current wa2 c2 wr2 (ik, v, z) (ik, v, z') uk ta HW2 (Hf' _ Hf2) eq_refl Hok1 Hcur)
          as (c3 & HW3 & Hf3).
        apply (IH tr _ _ c3); auto. apply wrelc_set. exact HW3.
    + apply (IH tr _ _ c2); auto. apply wrelc_set. exact HW2.
Qed.

(* the snapshot of the pass: everything the interval holds, unchanged at that moment *)
Lemma snapshot_items s c r a b : RelC s c r ->
  a_iter A s a b 0 = citems m c a b /\ all_fom c (citems m c a b) /\ Forall (item_ok A m S) (citems m c a b) /\
  map item_kv (citems m c a b) = map item_kv (a_iter radapter r a b 0).
Proof.
  intros (HR & <- & Hs & Hz). destruct (sim_iter A m S s c a b 0 HR) as [n [Hn Hle]].
  unfold min_count in Hle. cbn [N.eqb] in Hle. rewrite firstn_all2 in Hn by exact Hle.
  split; [exact Hn|]. split; [|split].
  - apply Forall_forall. intros i Hi. right. unfold citems in Hi. apply in_map_iff in Hi as [[k v] [<- Hkv]].
    apply iter_all_in in Hkv as [Hkv _]. unfold fresh, mk_item, ikey, ival. cbn [fst snd].
    pose proof (in_get (st c) k v Hs Hkv) as G. split; [exact G|].
    unfold stamped_if_version in Hstamped. destruct m; [exact I|].
    unfold stamp_of. pose proof (Hstamped s c k v HR G) as Hz'. destruct (get (stamps c) k); [reflexivity|congruence].
  - apply Forall_forall. intros i Hi. eapply (sim_item A m S); eauto.
  - cbn [a_iter radapter]. unfold citems. rewrite !map_map. apply map_ext. intros [k v]. reflexivity.
Qed.

Lemma rel_worker_run_true rev lim s r a b : Rel S s r ->
  match worker_run A true rev lim s a b, worker_run radapter true rev lim r a b with
  | None, None => True
  | Some (s', _), Some (r', _) => Rel S s' r'
  | _, _ => False
  end.
Proof.
  intros (c & HR). unfold worker_run.
  destruct (snapshot_items s c r a b HR) as (Hit & Hf & Hok & Hm). rewrite Hit.
  assert (HW : WrelC (mk_ws A s [] 0 [] [] []) c (mk_ws radapter r [] 0 [] [] [])) by (cbn; repeat split; apply HR).
  pose proof (rel_worker_true rev lim _ _ _ _ c Hm HW Hf Hok) as H.
  destruct (worker_loop A true rev lim (citems m c a b) (mk_ws A s [] 0 [] [] [])) as [[wa f]|];
    destruct (worker_loop radapter true rev lim (a_iter radapter r a b 0) (mk_ws radapter r [] 0 [] [] [])) as [[wr f']|];
    try contradiction; [|exact I].
  destruct H as [<- (c' & HW')].
  assert (Hst : forall wa0 wr0, WrelC wa0 c' wr0 -> Rel S (w_st A wa0) (w_st radapter wr0)).
  { intros wa0 wr0 (HR0 & _). exists c'. exact HR0. }
  destruct f; [apply Hst; exact HW'|].
  assert (Hnm : need_more A lim wa = need_more radapter lim wr).
  { unfold need_more. destruct HW' as (_ & _ & _ & _ & -> & _). reflexivity. }
  rewrite Hnm. destruct (need_more radapter lim wr); apply Hst; [apply wrelc_emit|]; exact HW'.
Qed.

(* ---------- Compact ---------- *)

Lemma rel_set_compact_record s r rev : Rel S s r ->
  exists s' r' e fl, set_compact_record A prefix s rev = (s', e, fl) /\
                     set_compact_record radapter prefix r rev = (r', e, fl) /\ Rel S s' r'.
Proof.
  intros HR. unfold set_compact_record. rewrite (rel_get S s r _ HR). cbn [a_get radapter]. unfold get_result.
  assert (Hp1 : Forall (bop_plain VP) [PutIfNotExist (compact_key prefix) (be64 rev) 0]).
  { repeat constructor. cbn [bop_plain]. apply HVP, be64_nonempty. }
  destruct (get r (compact_key prefix)) as [[|v0 vt]|].
  - destruct (rel_batch2 VP S Hplain s r _ HR Hp1) as (s1 & cl & cf & r1 & E1 & E1' & HR1 & _).
    cbn [a_batch radapter]. rewrite E1, E1'. do 4 eexists. split; [reflexivity|]. split; [reflexivity|exact HR1].
  - destruct (uint64_of (v0 :: vt)) as [cr|]; [|do 4 eexists; split; [reflexivity|]; split; [reflexivity|exact HR]].
    destruct (rev <? cr); [do 4 eexists; split; [reflexivity|]; split; [reflexivity|exact HR]|].
    assert (Hp2 : Forall (bop_plain VP) [CAS (compact_key prefix) (be64 rev) (v0 :: vt) 0]).
    { repeat constructor. cbn [bop_plain]. apply HVP, be64_nonempty. }
    destruct (rel_batch2 VP S Hplain s r _ HR Hp2) as (s1 & cl & cf & r1 & E1 & E1' & HR1 & _).
    cbn [a_batch radapter]. rewrite E1, E1'. do 4 eexists. split; [reflexivity|]. split; [reflexivity|exact HR1].
  - destruct (rel_batch2 VP S Hplain s r _ HR Hp1) as (s1 & cl & cf & r1 & E1 & E1' & HR1 & _).
    cbn [a_batch radapter]. rewrite E1, E1'. do 4 eexists. split; [reflexivity|]. split; [reflexivity|exact HR1].
Qed.

Lemma rel_check_race_compact s r rev : Rel S s r ->
  exists s' r' e, check_compact_race A prefix s rev true = (s', e) /\
                  check_compact_race radapter prefix r rev true = (r', e) /\ Rel S s' r'.
Proof.
  intros HR. unfold check_compact_race. rewrite (rel_get S s r _ HR). cbn [a_get radapter]. unfold get_result.
  assert (Hp : Forall (bop_plain VP) [Put (compact_key prefix) (be64 rev) 0]).
  { repeat constructor. cbn [bop_plain]. apply HVP, be64_nonempty. }
  destruct (rel_batch2 VP S Hplain s r _ HR Hp) as (s1 & cl & cf & r1 & E1 & E1' & HR1 & _).
  cbn [a_batch radapter].
  destruct (get r (compact_key prefix)) as [v|].
  - destruct (Nat.eqb (length v) 8 && (rev <? from_be v)).
    + do 3 eexists. split; [reflexivity|]. split; [reflexivity|exact HR].
    + rewrite E1, E1'. do 3 eexists. split; [reflexivity|]. split; [reflexivity|exact HR1].
  - rewrite E1, E1'. do 3 eexists. split; [reflexivity|]. split; [reflexivity|exact HR1].
Qed.

Lemma rel_q_compact st rt revision : RelB S st rt ->
  exists st' rt' p, q_compact A prefix st revision = (st', p) /\ q_compact radapter prefix rt revision = (rt', p) /\ RelB S st' rt'.
Proof.
  intros [HR Hrev]. unfold q_compact. rewrite Hrev.
  set (rv := if (revision =? 0) || (k_rev radapter rt <? revision) then k_rev radapter rt else revision).
  destruct (rel_set_compact_record (k_st A st) (k_st radapter rt) rv HR) as (s1 & r1 & e & fl & E1 & E2 & HR1).
  rewrite E1, E2.
  assert (fin : forall s' r' (p : resp), Rel S s' r' ->
            exists st' rt' p', (mk_bs A s' (k_rev radapter rt), p) = (st', p') /\
                               (mk_bs radapter r' (k_rev radapter rt), p) = (rt', p') /\ RelB S st' rt').
  { intros s' r' p H. do 3 eexists. split; [reflexivity|]. split; [reflexivity|]. split; [exact H|reflexivity]. }
  destruct e as [[]|]; try (apply fin; exact HR1).
  destruct (rel_check_race_compact s1 r1 rv HR1) as (s2 & r2 & e2 & E3 & E4 & HR2). rewrite E3, E4.
  destruct e2 as [[]|]; try (apply fin; exact HR2).
  pose proof (rel_worker_run_true rv 0%nat s2 r2 (encode (with_slash prefix) 0) (encode (prefix_end (with_slash prefix)) 0) HR2) as Hw.
  destruct (worker_run A true rv 0 s2 (encode (with_slash prefix) 0) (encode (prefix_end (with_slash prefix)) 0)) as [[s3 k3]|];
    destruct (worker_run radapter true rv 0 r2 (encode (with_slash prefix) 0) (encode (prefix_end (with_slash prefix)) 0)) as [[r3 k3']|];
    try contradiction; apply fin; assumption.
Qed.

(* ---------- Count and ListByStream: the read-only scan again ---------- *)

Lemma rel_q_count st rt a b : RelB S st rt -> q_count A prefix st a b = q_count radapter prefix rt a b.
Proof.
  intros [HR Hrev]. unfold q_count. rewrite Hrev.
  pose proof (rel_check_race S prefix (k_st A st) (k_st radapter rt) (k_rev radapter rt) HR) as Hc.
  destruct (check_compact_race A prefix (k_st A st) (k_rev radapter rt) false) as [s1 e1].
  destruct (check_compact_race radapter prefix (k_st radapter rt) (k_rev radapter rt) false) as [r1 e2]. cbn [snd] in Hc. subst e2.
  destruct e1 as [[]|]; try reflexivity.
  pose proof (rel_worker_run_false S (k_rev radapter rt) 0%nat _ _ (encode a 0) (encode b 0) HR) as Hw.
  destruct (worker_run A false (k_rev radapter rt) 0 (k_st A st) (encode a 0) (encode b 0)) as [[s2 kvs]|];
    destruct (worker_run radapter false (k_rev radapter rt) 0 (k_st radapter rt) (encode a 0) (encode b 0)) as [[r2 kvs']|];
    try contradiction; [|reflexivity].
  subst kvs'. reflexivity.
Qed.

Lemma rel_q_stream st rt a b rev : RelB S st rt -> q_stream A prefix st a b rev = q_stream radapter prefix rt a b rev.
Proof.
  intros [HR Hrev]. unfold q_stream. rewrite Hrev.
  set (req := if rev =? 0 then k_rev radapter rt else rev).
  pose proof (rel_check_race S prefix (k_st A st) (k_st radapter rt) req HR) as Hc.
  destruct (check_compact_race A prefix (k_st A st) req false) as [s1 e1].
  destruct (check_compact_race radapter prefix (k_st radapter rt) req false) as [r1 e2]. cbn [snd] in Hc. subst e2.
  destruct e1 as [[]|]; try reflexivity.
  pose proof (rel_worker_run_false S req 0%nat _ _ (encode a 0) (encode b 0) HR) as Hw.
  destruct (worker_run A false req 0 (k_st A st) (encode a 0) (encode b 0)) as [[s2 kvs]|];
    destruct (worker_run radapter false req 0 (k_st radapter rt) (encode a 0) (encode b 0)) as [[r2 kvs']|];
    try contradiction; [|reflexivity].
  subst kvs'. reflexivity.
Qed.

(* ---------- every sequential history that writes no empty value ---------- *)

Definition hist_ok (q : req) : Prop :=
  match q with
  | QCreate _ v | QUpdate _ v _ => VP v
  | _ => True
  end.

Lemma rel_q_step_all st rt q : RelB S st rt -> hist_ok q ->
  exists st' rt' p ev, q_step A prefix st q = (st', p, ev) /\ q_step radapter prefix rt q = (rt', p, ev) /\ RelB S st' rt'.
Proof.
  intros HB Hq. destruct q as [k v|k v rev|k rev|k rev|a b rev limit|rev|a b|a b rev|].
  - apply (rel_q_step VP HVP S Hplain prefix st rt (QCreate k v) HB Hq).
  - apply (rel_q_step VP HVP S Hplain prefix st rt (QUpdate k v rev) HB Hq).
  - apply (rel_q_step VP HVP S Hplain prefix st rt (QDelete k rev) HB I).
  - apply (rel_q_step VP HVP S Hplain prefix st rt (QGet k rev) HB I).
  - apply (rel_q_step VP HVP S Hplain prefix st rt (QList a b rev limit) HB I).
  - cbn [q_step]. destruct (rel_q_compact st rt rev HB) as (st' & rt' & p & E1 & E2 & HB').
    rewrite E1, E2. do 4 eexists. split; [reflexivity|]. split; [reflexivity|exact HB'].
  - cbn [q_step]. rewrite (rel_q_count st rt a b HB). do 4 eexists. split; [reflexivity|]. split; [reflexivity|exact HB].
  - cbn [q_step]. rewrite (rel_q_stream st rt a b rev HB). do 4 eexists. split; [reflexivity|]. split; [reflexivity|exact HB].
  - cbn [q_step]. do 4 eexists. split; [reflexivity|]. split; [reflexivity|]. destruct HB as [HR Hrev]. split; assumption.
Qed.

Lemma rel_q_run_all qs : forall st rt, RelB S st rt -> Forall hist_ok qs ->
  exists st' rt' rs evs, q_run A prefix st qs = (st', rs, evs) /\ q_run radapter prefix rt qs = (rt', rs, evs) /\ RelB S st' rt'.
Proof.
  induction qs as [|q rest IH]; intros st rt HB Hok; cbn [q_run].
  - do 4 eexists. split; [reflexivity|]. split; [reflexivity|exact HB].
  - inversion Hok as [|? ? Hq Hrest]; subst.
    destruct (rel_q_step_all st rt q HB Hq) as (st1 & rt1 & p & ev & E1 & E2 & HB1). rewrite E1, E2.
    destruct (IH st1 rt1 HB1 Hrest) as (st2 & rt2 & rs & evs & E3 & E4 & HB2). rewrite E3, E4.
    destruct p; do 4 eexists; (split; [reflexivity|]); (split; [reflexivity|]); first [exact HB2|exact HB1].
Qed.

Lemma rel_run_history_all init qs : Forall hist_ok qs ->
  run_history A prefix init qs = run_history radapter prefix init qs.
Proof.
  intros Hok. unfold run_history.
  assert (HB : RelB S (mk_bs A (a_init A) init) (mk_bs radapter (a_init radapter) init)).
  { split; [|reflexivity]. exists (cs_of []). cbn. repeat split; try constructor. apply (sim_init A m S). }
  destruct (rel_q_run_all qs _ _ HB Hok) as (st' & rt' & rs & evs & E1 & E2 & [HR' _]). rewrite E1, E2.
  destruct HR' as (c & HR & Hc & _). rewrite (sim_dump A m S _ _ HR), Hc. reflexivity.
Qed.

End Compact.

(* any two adapters that refine the contract — whichever reading of DelCurrent each implements — give the same
   transcript and leave the same raw contents, on every sequential history whose written values both accept *)
Theorem engine_independent (VP : bytes -> Prop) (HVP : forall v, v <> [] -> VP v) A mA (SA : sim A mA) B mB (SB : sim B mB) prefix init qs :
  plain_ok VP SA -> stamped_if_version SA -> plain_ok VP SB -> stamped_if_version SB -> Forall (hist_ok VP) qs ->
  run_history A prefix init qs = run_history B prefix init qs.
Proof.
  intros HA HA' HB HB' Hok.
  rewrite (rel_run_history_all VP HVP SA HA HA' prefix init qs Hok), (rel_run_history_all VP HVP SB HB HB' prefix init qs Hok).
  reflexivity.
Qed.
