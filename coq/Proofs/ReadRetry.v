(* runWithBackoffRetry: a worker retried after iterator failures returns what a fault-free worker returns,
   provided the failed attempts left nothing behind that reset() does not clear. *)
From KB Require Import Base.Bytes Base.Cases Model.Coder Model.ReadSys Model.ReadRetry Proofs.Coder Proofs.ReadSys.
From Coq Require Import ZifyN ZifyNat ZifyBool.
Local Open Scope N_scope.

(* every run starts with receiver.reset(): only rcv_reset of the receiver matters *)
Lemma worker_run_reset R recs rc1 rc2 : rcv_reset rc1 = rcv_reset rc2 -> worker_run R recs rc1 = worker_run R recs rc2.
Proof. intros E. unfold worker_run. rewrite E. reflexivity. Qed.

Lemma rc_after_fail_reset R recs rc1 rc2 n : rcv_reset rc1 = rcv_reset rc2 -> rc_after_fail R recs rc1 n = rc_after_fail R recs rc2 n.
Proof. intros E. unfold rc_after_fail. rewrite E. reflexivity. Qed.

(* what a failed attempt leaves behind is cleared by the next reset *)
Definition fail_clean (R : N) (recs : list kv) (rc : receiver) : Prop :=
  forall n, rcv_reset (rc_after_fail R recs rc n) = rcv_reset rc.

Theorem retry_fault_free R recs rc : fail_clean R recs rc -> forall faults steps rc', rcv_reset rc' = rcv_reset rc ->
  (length faults < steps)%nat -> retry_from R recs rc' faults steps = Some (worker_run R recs rc).
Proof.
  intros FC. induction faults as [|n t IH]; intros steps rc' E L; destruct steps as [|steps']; try (cbn in L; lia).
  - cbn [retry_from]. rewrite (worker_run_reset R recs rc' rc E). reflexivity.
  - cbn [retry_from]. apply IH; [|cbn in L; lia].
    rewrite (rc_after_fail_reset R recs rc' rc n E). apply FC.
Qed.

(* List / Count receivers: reset clears everything *)
Definition nonstream (rc : receiver) : Prop := match rc with RStream _ _ _ => False | _ => True end.

Lemma append_reset rc k v r : nonstream rc -> rcv_reset (rcv_append rc k v r) = rcv_reset rc /\ nonstream (rcv_append rc k v r).
Proof. destruct rc; cbn; intros H; try contradiction; auto. Qed.

Lemma wstep_reset R st k r v : nonstream (w_rc st) ->
  rcv_reset (w_rc (wstep R st k r v)) = rcv_reset (w_rc st) /\ nonstream (w_rc (wstep R st k r v)).
Proof.
  intros NS. unfold wstep. destruct (R <? r); [auto|].
  destruct (negb (beqb k (w_pk st))); cbn [w_rc]; [|auto].
  destruct (w_live st); [|auto]. unfold w_emit. cbn [w_rc]. apply append_reset. exact NS.
Qed.

Lemma wloop_reset R : forall recs st, nonstream (w_rc st) ->
  match wloop R recs st with
  | WPanic => True
  | WLimit st' | WEof st' => rcv_reset (w_rc st') = rcv_reset (w_rc st)
  end.
Proof.
  induction recs as [|[ik v] t IH]; intros st NS; cbn [wloop].
  - destruct (negb (rcv_need_more (w_rc st))); reflexivity.
  - destruct (negb (rcv_need_more (w_rc st))); [reflexivity|].
    destruct (decode ik) as [| |k r]; [exact I|apply IH; exact NS|].
    destruct (wstep_reset R st k r v NS) as [E NS'].
    specialize (IH (wstep R st k r v) NS'). destruct (wloop R t (wstep R st k r v)); [exact I| |]; rewrite IH; exact E.
Qed.

Lemma nonstream_fail_clean R recs rc : nonstream rc -> fail_clean R recs rc.
Proof.
  intros NS n. unfold rc_after_fail.
  assert (NS0 : nonstream (w_rc (mkW [] 0 [] (rcv_reset rc) 0))) by (destruct rc; cbn; auto).
  pose proof (wloop_reset R (firstn n recs) _ NS0) as H.
  destruct (wloop R (firstn n recs) (mkW [] 0 [] (rcv_reset rc) 0)); cbn [w_rc] in *.
  - destruct rc; reflexivity.
  - rewrite H. destruct rc; reflexivity.
  - rewrite H. destruct rc; reflexivity.
Qed.

Corollary retry_nonstream R recs rc faults : nonstream rc -> (length faults < backoff_steps)%nat ->
  retry_run R recs rc faults = Some (worker_run R recs rc).
Proof. intros NS L. apply retry_fault_free; [apply nonstream_fail_clean; exact NS|reflexivity|exact L]. Qed.

(* a stream: reset keeps what was already put on the channel, so a retried worker equals the fault-free one exactly
   when no failed attempt had sent a batch (fewer than 300 key-values before the failure) *)
Corollary retry_stream R recs rr faults : fail_clean R recs (RStream rr [] []) -> (length faults < backoff_steps)%nat ->
  retry_run R recs (RStream rr [] []) faults = Some (worker_run R recs (RStream rr [] [])).
Proof. intros FC L. apply retry_fault_free; [exact FC|reflexivity|exact L]. Qed.

(* the whole scan with retried workers (unlimited List, Count) = the fault-free scan of the model *)
Lemma nonstream_fork rc : nonstream rc -> nonstream (rcv_fork rc).
Proof. destruct rc; cbn; auto. Qed.

Theorem scan_retry_nonstream s fv parts start end_ R rc faults : nonstream rc ->
  (forall p, (length (faults p) < backoff_steps)%nat) ->
  scan_retry s fv parts start end_ R rc faults = SrRes (scan s fv parts start end_ R rc).
Proof.
  intros NS L. unfold scan_retry, scan. destruct (floor_check fv R); try reflexivity.
  destruct (adjust_borders (parts start end_)) as [ps|]; [|reflexivity].
  assert (E : map (fun p => retry_run R (iter s (fst p) (snd p)) (rcv_fork rc) (faults p)) ps
            = map (fun p => Some (worker_run R (iter s (fst p) (snd p)) (rcv_fork rc))) ps).
  { apply map_ext. intros p. apply retry_nonstream; [apply nonstream_fork; exact NS|apply L]. }
  rewrite E.
  assert (X : existsb (fun w : option wres => match w with None => true | Some _ => false end)
             (map (fun p => Some (worker_run R (iter s (fst p) (snd p)) (rcv_fork rc))) ps) = false).
  { clear. induction ps as [|p t IH]; [reflexivity|exact IH]. }
  rewrite X. cbv zeta. rewrite map_map. cbv beta iota.
  destruct (existsb wres_panic (map (fun x : bytes * bytes => worker_run R (iter s (fst x) (snd x)) (rcv_fork rc)) ps)); reflexivity.
Qed.

(* a sufficient condition for streams: fewer records than one batch — nothing can have been sent *)
Lemma wloop_stream_small R rr : forall recs b st, w_rc st = RStream rr b [] -> (length b + length recs < stream_batch)%nat ->
  match wloop R recs st with
  | WPanic => True
  | WLimit st' | WEof st' => exists b', w_rc st' = RStream rr b' []
  end.
Proof.
  induction recs as [|[ik v] t IH]; intros b st E L; cbn [wloop]; rewrite E; cbn [rcv_need_more negb].
  - exists b. exact E.
  - destruct (decode ik) as [| |k r]; [exact I|apply (IH b st E); cbn [length] in L; lia|].
    assert (G : exists b1, w_rc (wstep R st k r v) = RStream rr b1 [] /\ (length b1 <= length b + 1)%nat).
    { unfold wstep. destruct (R <? r); [exists b; split; [exact E|lia]|].
      destruct (negb (beqb k (w_pk st))); cbn [w_rc]; [|exists b; split; [exact E|lia]].
      destruct (w_live st); [|exists b; split; [exact E|lia]].
      unfold w_emit. cbn [w_rc]. rewrite E. cbn [rcv_append].
      replace (Nat.leb stream_batch (length (b ++ [(w_pk st, w_pv st, w_pr st)]))) with false.
      - eexists. split; [reflexivity|]. rewrite app_length. cbn. lia.
      - symmetry. apply Nat.leb_gt. rewrite app_length. cbn [length] in *. lia. }
    destruct G as (b1 & E1 & L1). apply (IH b1 _ E1). cbn [length] in L. lia.
Qed.

Lemma small_stream_fail_clean R recs rr : (length recs < stream_batch)%nat -> fail_clean R recs (RStream rr [] []).
Proof.
  intros L n. unfold rc_after_fail. cbn [rcv_reset].
  pose proof (wloop_stream_small R rr (firstn n recs) [] (mkW [] 0 [] (RStream rr [] []) 0) eq_refl) as H.
  assert (LN : (length (@nil okv) + length (firstn n recs) < stream_batch)%nat) by (rewrite firstn_length; cbn; lia).
  specialize (H LN).
  destruct (wloop R (firstn n recs) (mkW [] 0 [] (RStream rr [] []) 0)); [reflexivity| |]; destruct H as (b' & ->); reflexivity.
Qed.

(* ---------- the limited path (rangeWithLimit, no retry) under an iterator fault ---------- *)
Lemma wloop_prefix_limit R : forall recs n st st', wloop R (firstn n recs) st = WLimit st' -> wloop R recs st = WLimit st'.
Proof.
  induction recs as [|[ik v] t IH]; intros n st st' H.
  - destruct n; exact H.
  - destruct n as [|n].
    + cbn [firstn wloop] in H. cbn [wloop].
      destruct (negb (rcv_need_more (w_rc st))); [exact H|discriminate].
    + cbn [firstn wloop] in H. cbn [wloop].
      destruct (negb (rcv_need_more (w_rc st))); [exact H|].
      destruct (decode ik) as [| |k r]; [discriminate|apply (IH n); exact H|apply (IH n); exact H].
Qed.

Lemma wloop_prefix_panic R : forall recs n st, wloop R (firstn n recs) st = WPanic -> wloop R recs st = WPanic.
Proof.
  induction recs as [|[ik v] t IH]; intros n st H.
  - destruct n; exact H.
  - destruct n as [|n].
    + cbn [firstn wloop] in H. destruct (negb (rcv_need_more (w_rc st))); discriminate.
    + cbn [firstn wloop] in H. cbn [wloop].
      destruct (negb (rcv_need_more (w_rc st))); [discriminate|].
      destruct (decode ik) as [| |k r]; [reflexivity|apply (IH n); exact H|apply (IH n); exact H].
Qed.

(* one attempt, no retry: the fault-free range answer or the iterator error, nothing in between *)
Theorem range_limited_fault_all_or_error s fv parts start end_ R limit fault : (0 < limit)%Z ->
  range_limited_fault s fv start end_ R limit fault = RfIterErr \/
  range_limited_fault s fv start end_ R limit fault = RfRes (range s fv parts start end_ R limit).
Proof.
  intros L. unfold range_limited_fault, range.
  replace (0 <? limit)%Z with true by (symmetry; apply Z.ltb_lt; exact L).
  destruct (floor_check fv R); [|right; reflexivity|right; reflexivity].
  set (recs := iter s start end_). set (rc := RCommon limit []).
  assert (F : (match worker_run R recs rc with WRPanic => RfRes RgPanic | WROk _ rc' => RfRes (RgOk (rcv_result rc')) end)
              = RfRes (match worker_run R recs rc with WRPanic => RgPanic | WROk _ rc0 => RgOk (rcv_result rc0) end))
    by (destruct (worker_run R recs rc); reflexivity).
  destruct fault as [n|]; [|right; exact F].
  destruct (length recs <? n)%nat; [right; exact F|].
  destruct (wloop R (firstn n recs) (mkW [] 0 [] (rcv_reset rc) 0)) as [|st|st] eqn:E.
  - right. unfold worker_run. rewrite (wloop_prefix_panic R recs n _ E). reflexivity.
  - right. unfold worker_run. rewrite (wloop_prefix_limit R recs n _ _ E). reflexivity.
  - left. reflexivity.
Qed.

Theorem list_limited_fault_all_or_error s fv parts cur a b rev limit fault : (0 < limit < max_i64)%Z ->
  list_limited_fault s fv cur a b rev limit fault = LErr 4 \/
  list_limited_fault s fv cur a b rev limit fault = list_model s fv parts cur a b rev limit.
Proof.
  intros [L1 L2]. unfold list_limited_fault, list_model.
  destruct b as [|b0 bt]; [right; reflexivity|].
  destruct (negb (bltb a (b0 :: bt))); [right; reflexivity|].
  replace (0 <? limit)%Z with true by (symmetry; apply Z.ltb_lt; exact L1).
  replace (limit =? max_i64)%Z with false by (symmetry; apply Z.eqb_neq; lia).
  assert (L3 : (0 < limit + 1)%Z) by lia.
  replace (0 <? limit + 1)%Z with true by (symmetry; apply Z.ltb_lt; exact L3).
  cbn [negb andb].
  destruct (range_limited_fault_all_or_error s fv parts (encode a 0) (encode (b0 :: bt) 0) (if rev =? 0 then cur else rev) (limit + 1)%Z fault L3) as [E|E];
    rewrite E; [left; reflexivity|right].
  destruct (range s fv parts (encode a 0) (encode (b0 :: bt) 0) (if rev =? 0 then cur else rev) (limit + 1)%Z); reflexivity.
Qed.

(* with C03_range: on a well-formed store the faulted limited List answers the specification's cut snapshot or an error *)
From KB Require Import Proofs.ReadSysSpec.

Theorem list_limited_fault_spec (Vs : list (@vrec (option bytes))) fv cur a b rev (limit : Z) fault :
  wf_store Vs -> no_marker Vs -> alpha a -> alpha b -> bcmp a b = Lt ->
  floor_check fv (eff rev cur) = FOk -> (0 < limit < max_i64)%Z ->
  let S := in_range a b (snapshot_spec Vs (eff rev cur)) in
  let out := list_limited_fault (raw_of (enc_store Vs)) fv cur a b rev limit fault in
  out = LErr 4 \/ out = LResp cur (firstn (Z.to_nat limit) S) (limit <? Z.of_nat (length S))%Z.
Proof.
  intros W M A B C F L S out.
  destruct (list_limited_fault_all_or_error (raw_of (enc_store Vs)) fv single_part cur a b rev limit fault L) as [E|E];
    [left; exact E|right].
  unfold out. rewrite E.
  rewrite (c03_range Vs fv cur a b rev limit W M A B C F (conj (Z.lt_le_incl _ _ (proj1 L)) (proj2 L))).
  replace (0 <? limit)%Z with true by (symmetry; apply Z.ltb_lt; exact (proj1 L)). reflexivity.
Qed.
