(* Proofs about the ring of Model/WatchSys.v: the ring built by Add holds the last min(l, n) events, and
   FindEvents returns exactly the cached events with revision >= S, in order, across wrap-around. *)
From Coq Require Import ZifyN ZifyNat ZifyBool.
From KB Require Import Base.Bytes Model.WatchSys.
Local Open Scope N_scope.
Ltac Zify.zify_post_hook ::= Z.div_mod_to_equations.

(* ------------------------------------------------------------------ lists *)

Lemma frev_rev {A} (l : list A) : frev l = rev l.
Proof. unfold frev. symmetry. apply rev_alt. Qed.

Lemma set_nth_length {A} n (x : A) l : length (set_nth n x l) = length l.
Proof. revert n; induction l as [|h t IH]; intros [|n]; simpl; auto. Qed.

Lemma nth_set_nth_eq {A} n (x d : A) l : (n < length l)%nat -> nth n (set_nth n x l) d = x.
Proof. revert n; induction l as [|h t IH]; intros [|n] H; simpl in *; try lia; auto. apply IH. lia. Qed.

Lemma nth_set_nth_neq {A} n m (x d : A) l : n <> m -> nth m (set_nth n x l) d = nth m l d.
Proof. revert n m; induction l as [|h t IH]; intros [|n] [|m] H; simpl; auto; try congruence. Qed.

Lemma nth_error_nth' {A} (l : list A) n d : (n < length l)%nat -> nth_error l n = Some (nth n l d).
Proof. revert n; induction l as [|h t IH]; intros [|n] H; simpl in *; try lia; auto. apply IH; lia. Qed.

Lemma filter_skipn_idx {A} (p : A -> bool) (d : A) (w : list A) (idx : nat) :
  (idx <= length w)%nat ->
  (forall i, (i < idx)%nat -> p (nth i w d) = false) ->
  (forall i, (idx <= i < length w)%nat -> p (nth i w d) = true) ->
  filter p w = skipn idx w.
Proof.
  revert idx; induction w as [|h t IH]; intros idx Hl Hf Ht.
  - destruct idx; reflexivity.
  - destruct idx as [|idx].
    + pose proof (Ht 0%nat ltac:(simpl; lia)) as H0. simpl in H0. simpl. rewrite H0.
      f_equal. rewrite (IH 0%nat); [reflexivity|lia|intros; lia|].
      intros i Hi. apply (Ht (S i)). simpl; lia.
    + pose proof (Hf 0%nat ltac:(lia)) as H0. simpl in H0. simpl. rewrite H0.
      apply IH; [simpl in Hl; lia| |].
      * intros i Hi. apply (Hf (S i)). lia.
      * intros i Hi. apply (Ht (S i)). simpl; lia.
Qed.

(* ------------------------------------------------------------------ modular arithmetic *)

Lemma mod_add_small a c l : 0 < l -> a mod l + c < l -> (a + c) mod l = a mod l + c.
Proof.
  intros Hl H. symmetry. apply (N.mod_unique _ _ (a / l)); [exact H|].
  pose proof (N.div_mod a l ltac:(lia)). lia.
Qed.

Lemma mod_add_wrap a c l : 0 < l -> l <= a mod l + c -> c <= l -> (a + c) mod l = a mod l + c - l.
Proof.
  intros Hl H Hc. symmetry. apply (N.mod_unique _ _ (a / l + 1)).
  - pose proof (N.mod_lt a l ltac:(lia)). lia.
  - pose proof (N.div_mod a l ltac:(lia)). lia.
Qed.

Lemma mod_neq_close i e l : 0 < l -> i < e -> e - i < l -> i mod l <> e mod l.
Proof.
  intros Hl Hie Hd E.
  replace e with (i + (e - i)) in E by lia.
  pose proof (N.mod_lt i l ltac:(lia)) as Hi.
  destruct (N.lt_ge_cases (i mod l + (e - i)) l) as [Hs|Hw].
  - rewrite mod_add_small in E by assumption. lia.
  - rewrite mod_add_wrap in E by lia. lia.
Qed.

(* ------------------------------------------------------------------ the ring invariant *)

Definition ev0 : event := mkEv VCreate 0 [] [] 0.

Record ring_inv (l : N) (sigma : list event) (r : ring) : Prop := {
  ri_l : r_l r = l;
  ri_pos : 0 < l;
  ri_len : length (r_arr r) = N.to_nat l;
  ri_e : r_e r = N.of_nat (length sigma);
  ri_s : r_s r = r_e r - N.min (r_e r) l;
  ri_get : forall i, r_s r <= i < r_e r -> r_get r i = Some (nth (N.to_nat i) sigma ev0)
}.

Lemma ring_inv_new l : 0 < l -> ring_inv l [] (new_ring l).
Proof.
  intros Hl. constructor; simpl; try reflexivity; try assumption.
  - apply repeat_length.
  - intros i Hi. lia.
Qed.

Lemma ring_add_inv l sigma r ev :
  ring_inv l sigma r -> exists r', ring_add r ev = Some r' /\ ring_inv l (sigma ++ [ev]) r'.
Proof.
  intros [Hl Hpos Hlen He Hs Hget].
  unfold ring_add. destruct (r_l r =? 0) eqn:El; [apply N.eqb_eq in El; lia|].
  eexists; split; [reflexivity|].
  assert (Hm : r_e r mod l < l) by (apply N.mod_lt; lia).
  constructor; cbn [r_l r_e r_s r_arr].
  - exact Hl.
  - exact Hpos.
  - rewrite set_nth_length. exact Hlen.
  - rewrite app_length. simpl. lia.
  - rewrite Hl. destruct (r_e r =? r_s r + l) eqn:E; [apply N.eqb_eq in E|apply N.eqb_neq in E]; lia.
  - intros i Hi. rewrite Hl in Hi.
    assert (Hs' : r_s r <= i) by (destruct (r_e r =? r_s r + l); lia).
    unfold r_get, r_index; cbn [r_l r_arr]. rewrite Hl.
    destruct (N.eq_dec i (r_e r)) as [->|Hne].
    + rewrite nth_set_nth_eq by lia.
      rewrite He, Nat2N.id, app_nth2 by lia. rewrite Nat.sub_diag. reflexivity.
    + rewrite nth_set_nth_neq.
      * specialize (Hget i ltac:(lia)). unfold r_get, r_index in Hget. rewrite Hl in Hget. rewrite Hget.
        rewrite app_nth1 by lia. reflexivity.
      * intros E. apply N2Nat.inj in E. symmetry in E. revert E.
        apply mod_neq_close; [lia|lia|].
        destruct (r_e r =? r_s r + l) eqn:E2; [apply N.eqb_eq in E2|apply N.eqb_neq in E2]; lia.
Qed.

Lemma ring_of_app l sigma ev :
  ring_of l (sigma ++ [ev]) = match ring_of l sigma with Some r => ring_add r ev | None => None end.
Proof. unfold ring_of. rewrite fold_left_app. reflexivity. Qed.

Lemma ring_of_inv l sigma : 0 < l -> exists r, ring_of l sigma = Some r /\ ring_inv l sigma r.
Proof.
  intros Hl. induction sigma as [|ev sigma IH] using rev_ind.
  - exists (new_ring l). split; [reflexivity|apply ring_inv_new; exact Hl].
  - destruct IH as [r [Hr Hinv]]. rewrite ring_of_app, Hr.
    apply ring_add_inv. exact Hinv.
Qed.

(* ------------------------------------------------------------------ sort.Search *)

Lemma go_search_loop_spec (g : N -> bool) (f : N -> option bool) (n : N) :
  (forall i, i < n -> f i = Some (g i)) ->
  (forall i j, i <= j -> j < n -> g i = true -> g j = true) ->
  forall fuel i j, i <= j -> j <= n -> (N.to_nat (j - i) < fuel)%nat ->
    (forall k, k < i -> g k = false) -> (forall k, j <= k < n -> g k = true) ->
    exists idx, go_search_loop fuel f i j = Some idx /\ idx <= n /\
                (forall k, k < idx -> g k = false) /\ (forall k, idx <= k < n -> g k = true).
Proof.
  intros Hf Hmono fuel. induction fuel as [|fuel IH]; intros i j Hij Hjn Hfuel Hlo Hhi; [lia|].
  cbn [go_search_loop]. destruct (i <? j) eqn:E.
  - apply N.ltb_lt in E.
    assert (Hh : i <= (i + j) / 2 < j) by (split; lia).
    set (h := (i + j) / 2) in *.
    rewrite Hf by lia. destruct (g h) eqn:Gh.
    + apply IH; try lia; [exact Hlo|].
      intros k Hk. apply (Hmono h k); [lia|lia|exact Gh].
    + apply IH; try lia; [|exact Hhi].
      intros k Hk. destruct (g k) eqn:Gk; [|reflexivity].
      rewrite (Hmono k h) in Gh; [discriminate|lia|lia|exact Gk].
  - apply N.ltb_ge in E. assert (i = j) by lia. subst j.
    exists i. repeat split; [lia|exact Hlo|exact Hhi].
Qed.

Lemma go_search_spec (g : N -> bool) (f : N -> option bool) (n : N) :
  (forall i, i < n -> f i = Some (g i)) ->
  (forall i j, i <= j -> j < n -> g i = true -> g j = true) ->
  exists idx, go_search n f = Some idx /\ idx <= n /\
              (forall k, k < idx -> g k = false) /\ (forall k, idx <= k < n -> g k = true).
Proof.
  intros Hf Hm. unfold go_search. apply (go_search_loop_spec g f n Hf Hm); try lia; intros; lia.
Qed.

(* ------------------------------------------------------------------ copy *)

Lemma nth_skipn' {A} (l : list A) n k d : nth k (skipn n l) d = nth (n + k) l d.
Proof. revert l; induction n as [|n IH]; intros [|h t]; simpl; auto. destruct k; reflexivity. Qed.

Lemma nth_firstn' {A} (l : list A) n k d : (k < n)%nat -> nth k (firstn n l) d = nth k l d.
Proof.
  revert l k; induction n as [|n IH]; intros [|h t] [|k] H; simpl; auto; try lia. apply IH; lia.
Qed.

Lemma skipn_repeat' {A} (x : A) n k : skipn k (repeat x n) = repeat x (n - k).
Proof.
  revert k; induction n as [|n IH]; intros [|k]; simpl; auto. 
Qed.

Lemma skipn_skipn' {A} (l : list A) a b : skipn a (skipn b l) = skipn (b + a) l.
Proof. revert l; induction b as [|b IH]; intros l; simpl; [reflexivity|]. destruct l; [destruct a; reflexivity|apply IH]. Qed.

Lemma copy_into_same_len {A} (dst src : list A) : length dst = length src -> copy_into dst src = src.
Proof.
  intros H. unfold copy_into. rewrite H, Nat.min_id, firstn_all.
  rewrite skipn_all2 by lia. apply app_nil_r.
Qed.

Lemma copy_into_short {A} (dst src : list A) :
  (length src <= length dst)%nat -> copy_into dst src = src ++ skipn (length src) dst.
Proof.
  intros H. unfold copy_into. rewrite Nat.min_r by lia. rewrite firstn_all. reflexivity.
Qed.

Lemma arr_nth l sigma r i :
  ring_inv l sigma r -> r_s r <= i < r_e r ->
  nth (N.to_nat (i mod l)) (r_arr r) None = Some (nth (N.to_nat i) sigma ev0).
Proof.
  intros Hinv Hi. pose proof (ri_get _ _ _ Hinv i Hi) as H.
  unfold r_get, r_index in H. rewrite (ri_l _ _ _ Hinv) in H. exact H.
Qed.

(* the slice FindEvents builds, from absolute position a (r_s <= a < r_e) to the end *)
Definition find_copy (r : ring) (a : N) : option (list (option event)) :=
  let cnt := N.to_nat (r_e r - a) in
  let dst := repeat None cnt in
  let i0 := N.to_nat (r_index r a) in
  let ie := N.to_nat (r_index r (r_e r)) in
  if (i0 <? ie)%nat then Some (copy_into dst (firstn (ie - i0) (skipn i0 (r_arr r))))
  else
    let d1 := copy_into dst (skipn i0 (r_arr r)) in
    let off := (N.to_nat (r_l r) - i0)%nat in
    if (cnt <? off)%nat then None
    else Some (firstn off d1 ++ copy_into (skipn off d1) (firstn ie (r_arr r))).

Lemma find_copy_spec l sigma r a :
  ring_inv l sigma r -> r_s r <= a < r_e r ->
  find_copy r a = Some (map Some (skipn (N.to_nat a) sigma)).
Proof.
  intros Hinv Ha.
  pose proof (ri_l _ _ _ Hinv) as Hl. pose proof (ri_pos _ _ _ Hinv) as Hpos.
  pose proof (ri_len _ _ _ Hinv) as Hlen. pose proof (ri_e _ _ _ Hinv) as He.
  pose proof (ri_s _ _ _ Hinv) as Hs.
  assert (Hcntl : r_e r - a <= l) by lia.
  unfold find_copy, r_index. rewrite Hl.
  set (cnt := N.to_nat (r_e r - a)).
  assert (Hm0 : a mod l < l) by (apply N.mod_lt; lia).
  assert (Hme : r_e r mod l < l) by (apply N.mod_lt; lia).
  assert (Hlenx : length (map Some (skipn (N.to_nat a) sigma)) = cnt).
  { rewrite map_length, skipn_length. unfold cnt. lia. }
  assert (Hnthx : forall k, (k < cnt)%nat ->
            nth k (map Some (skipn (N.to_nat a) sigma)) None = Some (nth (N.to_nat a + k) sigma ev0)).
  { intros k Hk. rewrite (nth_indep _ None (Some ev0)) by (rewrite Hlenx; exact Hk).
    rewrite (map_nth Some). rewrite nth_skipn'. reflexivity. }
  assert (He' : r_e r = a + (r_e r - a)) by lia.
  destruct (N.lt_ge_cases (a mod l + (r_e r - a)) l) as [Hsmall|Hwrap].
  - (* one segment *)
    assert (Hie : r_e r mod l = a mod l + (r_e r - a)).
    { rewrite He' at 1. apply mod_add_small; lia. }
    rewrite Hie.
    replace (N.to_nat (a mod l) <? N.to_nat (a mod l + (r_e r - a)))%nat with true
      by (symmetry; apply Nat.ltb_lt; lia).
    replace (N.to_nat (a mod l + (r_e r - a)) - N.to_nat (a mod l))%nat with cnt by (unfold cnt; lia).
    f_equal. rewrite copy_into_same_len.
    + apply (nth_ext _ _ None None).
      * rewrite Hlenx, firstn_length, skipn_length, Hlen. unfold cnt. lia.
      * intros k Hk. rewrite firstn_length, skipn_length, Hlen in Hk.
        assert (Hk' : (k < cnt)%nat) by lia.
        rewrite nth_firstn' by exact Hk'. rewrite nth_skipn'. rewrite Hnthx by exact Hk'.
        replace (N.to_nat (a mod l) + k)%nat with (N.to_nat ((a + N.of_nat k) mod l)).
        -- rewrite (arr_nth l sigma r) by (try exact Hinv; unfold cnt in Hk'; lia).
           f_equal. f_equal. lia.
        -- rewrite mod_add_small by (unfold cnt in Hk'; lia). lia.
    + rewrite repeat_length, firstn_length, skipn_length, Hlen. unfold cnt. lia.
  - (* two segments *)
    assert (Hie : r_e r mod l = a mod l + (r_e r - a) - l).
    { rewrite He' at 1. apply mod_add_wrap; lia. }
    replace (N.to_nat (a mod l) <? N.to_nat (r_e r mod l))%nat with false
      by (symmetry; apply Nat.ltb_ge; lia).
    set (i0 := N.to_nat (a mod l)). set (off := (N.to_nat l - i0)%nat).
    assert (Hoff : (off <= cnt)%nat) by (unfold off, i0, cnt; lia).
    replace (cnt <? off)%nat with false by (symmetry; apply Nat.ltb_ge; exact Hoff).
    f_equal.
    assert (Hsrc1 : length (skipn i0 (r_arr r)) = off) by (rewrite skipn_length, Hlen; reflexivity).
    rewrite (copy_into_short (repeat None cnt) (skipn i0 (r_arr r))) by (rewrite repeat_length, Hsrc1; exact Hoff).
    rewrite Hsrc1.
    rewrite firstn_app, Hsrc1, Nat.sub_diag, firstn_O, app_nil_r.
    rewrite firstn_all2 by lia.
    rewrite skipn_app, Hsrc1, Nat.sub_diag, skipn_O.
    rewrite (skipn_all2 (skipn i0 (r_arr r))) by lia. rewrite app_nil_l.
    rewrite skipn_repeat'.
    rewrite copy_into_same_len.
    + apply (nth_ext _ _ None None).
      * rewrite Hlenx, app_length, Hsrc1, firstn_length, Hlen. unfold off, i0, cnt in *. lia.
      * intros k Hk. rewrite app_length, Hsrc1, firstn_length, Hlen in Hk.
        assert (Hk' : (k < cnt)%nat) by (unfold off, i0, cnt in *; lia).
        rewrite Hnthx by exact Hk'.
        destruct (Nat.lt_ge_cases k off) as [Hko|Hko].
        -- rewrite app_nth1 by (rewrite Hsrc1; exact Hko). rewrite nth_skipn'.
           replace (i0 + k)%nat with (N.to_nat ((a + N.of_nat k) mod l)).
           ++ rewrite (arr_nth l sigma r) by (try exact Hinv; unfold cnt in Hk'; lia).
              f_equal. f_equal. lia.
           ++ rewrite mod_add_small by (unfold off, i0 in Hko; lia). unfold i0. lia.
        -- rewrite app_nth2 by (rewrite Hsrc1; exact Hko). rewrite Hsrc1.
           rewrite nth_firstn' by (unfold off, i0, cnt in *; lia).
           replace (k - off)%nat with (N.to_nat ((a + N.of_nat k) mod l)).
           ++ rewrite (arr_nth l sigma r) by (try exact Hinv; unfold cnt in Hk'; lia).
              f_equal. f_equal. lia.
           ++ rewrite mod_add_wrap by (unfold off, i0, cnt in *; lia). unfold off, i0. lia.
    + rewrite repeat_length, firstn_length, Hlen. unfold off, i0, cnt in *. lia.
Qed.

(* ------------------------------------------------------------------ FindEvents *)

Definition increasing (sigma : list event) : Prop :=
  forall i j, (i < j)%nat -> (j < length sigma)%nat -> e_rev (nth i sigma ev0) < e_rev (nth j sigma ev0).

Lemma last_nth' {A} (l : list A) d d' : l <> [] -> last l d = nth (length l - 1) l d'.
Proof.
  induction l as [|h t IH]; intros H; [congruence|].
  destruct t as [|h' t']; [reflexivity|].
  change (last (h :: h' :: t') d) with (last (h' :: t') d). rewrite IH by discriminate.
  simpl. rewrite Nat.sub_0_r. reflexivity.
Qed.

Lemma hd_skipn {A} (l : list A) k d d' : (k < length l)%nat -> hd d (skipn k l) = nth k l d'.
Proof.
  revert l; induction k as [|k IH]; intros [|h t] H; simpl in *; try lia; auto. apply IH; lia.
Qed.

Lemma find_events_copy r rev :
  find_events r rev =
  if r_e r =? 0 then FEmpty else
  if r_l r =? 0 then FPanic else
  match r_get r (r_e r - 1), r_get r (r_s r) with
  | Some nw, Some od =>
      if e_rev nw <? rev then FHigh nw od else
      if rev <? e_rev od then FLow nw od else
      match go_search (r_e r - r_s r) (fun i => option_map (fun ev => rev <=? e_rev ev) (r_get r (r_s r + i))) with
      | None => FPanic
      | Some idx => match find_copy r (r_s r + idx) with Some evs => FEvents nw od evs | None => FPanic end
      end
  | _, _ => FPanic
  end.
Proof.
  unfold find_events, find_copy.
  destruct (r_e r =? 0); [reflexivity|]. destruct (r_l r =? 0); [reflexivity|].
  destruct (r_get r (r_e r - 1)) as [nw|]; [|reflexivity].
  destruct (r_get r (r_s r)) as [od|]; [|reflexivity].
  destruct (e_rev nw <? rev); [reflexivity|]. destruct (rev <? e_rev od); [reflexivity|].
  destruct (go_search _ _) as [idx|]; [|reflexivity].
  replace (r_e r - (r_s r + idx)) with (r_e r - r_s r - idx) by lia.
  destruct (_ <? _)%nat; [reflexivity|].
  destruct (_ <? _)%nat; reflexivity.
Qed.

Lemma find_spec_nonempty l sigma rev :
  sigma <> [] -> (0 < N.to_nat l)%nat ->
  find_spec l sigma rev =
  let win := lastn (N.to_nat l) sigma in
  let nw := last sigma ev0 in
  let od := hd ev0 win in
  if e_rev nw <? rev then FHigh nw od else
  if rev <? e_rev od then FLow nw od else
  FEvents nw od (map Some (filter (fun e => rev <=? e_rev e) win)).
Proof.
  intros Hne Hl. destruct sigma as [|e0 t]; [congruence|].
  unfold find_spec.
  rewrite (last_nth' (e0 :: t) e0 ev0 Hne), (last_nth' (e0 :: t) ev0 ev0 Hne).
  assert (Hh : hd e0 (lastn (N.to_nat l) (e0 :: t)) = hd ev0 (lastn (N.to_nat l) (e0 :: t))).
  { unfold lastn. rewrite (hd_skipn _ _ e0 ev0), (hd_skipn _ _ ev0 ev0); [reflexivity| |]; cbn [length]; lia. }
  rewrite Hh. reflexivity.
Qed.

Theorem find_events_spec l sigma r rev :
  ring_inv l sigma r -> increasing sigma -> find_events r rev = find_spec l sigma rev.
Proof.
  intros Hinv Hinc.
  pose proof (ri_l _ _ _ Hinv) as Hl. pose proof (ri_pos _ _ _ Hinv) as Hpos.
  pose proof (ri_e _ _ _ Hinv) as He. pose proof (ri_s _ _ _ Hinv) as Hs.
  rewrite find_events_copy.
  destruct sigma as [|e0 t].
  { rewrite He. reflexivity. }
  remember (e0 :: t) as sigma eqn:Esig.
  assert (Hne : sigma <> []) by (subst; discriminate).
  assert (Hlen : (0 < length sigma)%nat) by (subst; simpl; lia).
  replace (r_e r =? 0) with false by (symmetry; apply N.eqb_neq; lia).
  replace (r_l r =? 0) with false by (symmetry; apply N.eqb_neq; lia).
  rewrite (ri_get _ _ _ Hinv (r_e r - 1)) by lia.
  rewrite (ri_get _ _ _ Hinv (r_s r)) by lia.
  rewrite find_spec_nonempty by (try exact Hne; lia). cbv zeta.
  assert (Hnw : last sigma ev0 = nth (N.to_nat (r_e r - 1)) sigma ev0).
  { rewrite (last_nth' sigma ev0 ev0 Hne). f_equal. lia. }
  assert (Hskip : (length sigma - N.to_nat l)%nat = N.to_nat (r_s r)) by lia.
  assert (Hod : hd ev0 (lastn (N.to_nat l) sigma) = nth (N.to_nat (r_s r)) sigma ev0).
  { unfold lastn. rewrite Hskip. apply hd_skipn. lia. }
  rewrite Hnw, Hod.
  set (nw := nth (N.to_nat (r_e r - 1)) sigma ev0). set (od := nth (N.to_nat (r_s r)) sigma ev0).
  destruct (e_rev nw <? rev) eqn:Ehigh; [reflexivity|].
  destruct (rev <? e_rev od) eqn:Elow; [reflexivity|].
  apply N.ltb_ge in Ehigh, Elow.
  set (n := r_e r - r_s r).
  set (g := fun i : N => rev <=? e_rev (nth (N.to_nat (r_s r + i)) sigma ev0)).
  destruct (go_search_spec g (fun i => option_map (fun ev => rev <=? e_rev ev) (r_get r (r_s r + i))) n)
    as [idx [Hsearch [Hidx [Hlo Hhi]]]].
  { intros i Hi. rewrite (ri_get _ _ _ Hinv) by (unfold n in Hi; lia). reflexivity. }
  { intros i j Hij Hj Hgi. unfold g in *. apply N.leb_le in Hgi. apply N.leb_le.
    destruct (N.eq_dec i j) as [->|Hne']; [exact Hgi|].
    pose proof (Hinc (N.to_nat (r_s r + i)) (N.to_nat (r_s r + j)) ltac:(lia) ltac:(unfold n in Hj; lia)). lia. }
  rewrite Hsearch.
  assert (Hidx' : idx < n).
  { destruct (N.eq_dec idx n) as [->|]; [|lia].
    assert (Hn1 : n - 1 < n) by (unfold n; lia).
    pose proof (Hlo (n - 1) Hn1) as Hc. unfold g in Hc. apply N.leb_gt in Hc.
    replace (r_s r + (n - 1)) with (r_e r - 1) in Hc by (unfold n; lia). fold nw in Hc. lia. }
  rewrite (find_copy_spec l sigma r (r_s r + idx) Hinv) by (unfold n in Hidx'; lia).
  f_equal. f_equal.
  unfold lastn. rewrite Hskip.
  rewrite (filter_skipn_idx (fun e => rev <=? e_rev e) ev0 (skipn (N.to_nat (r_s r)) sigma) (N.to_nat idx)).
  - rewrite skipn_skipn'. f_equal. lia.
  - rewrite skipn_length. unfold n in Hidx'. lia.
  - intros i Hi. rewrite nth_skipn'.
    pose proof (Hlo (N.of_nat i) ltac:(lia)) as Hc. unfold g in Hc.
    replace (N.to_nat (r_s r + N.of_nat i)) with (N.to_nat (r_s r) + i)%nat in Hc by lia. exact Hc.
  - intros i Hi. rewrite skipn_length in Hi. rewrite nth_skipn'.
    pose proof (Hhi (N.of_nat i) ltac:(unfold n; lia)) as Hc. unfold g in Hc.
    replace (N.to_nat (r_s r + N.of_nat i)) with (N.to_nat (r_s r) + i)%nat in Hc by lia. exact Hc.
Qed.

(* C05_ring: for every cache size l >= 1, every strictly increasing producer sequence and every S *)
Theorem ring_find_correct l sigma rev :
  0 < l -> increasing sigma ->
  exists r, ring_of l sigma = Some r /\ find_events r rev = find_spec l sigma rev.
Proof.
  intros Hl Hinc. destruct (ring_of_inv l sigma Hl) as [r [Hr Hinv]].
  exists r. split; [exact Hr|]. apply find_events_spec; assumption.
Qed.
