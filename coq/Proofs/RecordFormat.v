(* With records formed by client-go's rules the ABA side condition of C14_no_double_acquire is discharged
   for take-overs: after a take-over from X the transitions counter of every later record is larger than
   X's, so X's bytes never come back. *)
From KB Require Import Base.Cases Model.Election Model.RecordFormat Proofs.Election.
Local Open Scope N_scope.

Lemma cg_update_formed me now x :
  s_trans x <= s_trans (cg_update me now x) /\ (is_takeover x (cg_update me now x) -> s_trans x < s_trans (cg_update me now x)).
Proof.
  unfold cg_update, is_takeover. destruct (beqb (s_holder x) me) eqn:E; cbn [s_trans s_holder].
  - apply beqb_eq in E. split; [lia|]. intros [H _]. congruence.
  - split; [lia|]. intros _. lia.
Qed.

Lemma cg_release_formed x : s_trans x <= s_trans (cg_release x) /\ (is_takeover x (cg_release x) -> s_trans x < s_trans (cg_release x)).
Proof. unfold cg_release, is_takeover; cbn. split; [lia|]. intros [_ H]. congruence. Qed.

Section Formed.
  Variable marshal : srec -> bytes.
  Hypothesis marshal_inj : forall a b, marshal a = marshal b -> a = b.

  (* along the chain, newer entries carry transitions at least those of older ones *)
  Lemma trans_grows st0 l2 : forall e1 l1 y1,
    log_chain st0 (l2 ++ e1 :: l1) -> Forall entry_ok (l2 ++ e1 :: l1) ->
    Forall (cg_formed marshal) l2 -> e_new e1 = marshal y1 ->
    forall e, In e l2 -> exists y, e_new e = marshal y /\ s_trans y1 <= s_trans y.
  Proof.
    induction l2 as [|a l2 IH]; intros e1 l1 y1 C Ok F N1 e Hin; [destruct Hin|].
    cbn [app log_chain] in C. destruct C as [Pa C]. apply Forall_cons_iff in Ok as [Oa Ok].
    apply Forall_cons_iff in F as [Fa F].
    destruct Hin as [<-|Hin]; [|exact (IH e1 l1 y1 C Ok F N1 e Hin)].
    destruct Fa as [Ka [x [y [Cx [Ny [Le _]]]]]].
    unfold entry_ok in Oa. rewrite Ka in Oa. destruct Oa as [z [Pz [Cz _]]].
    exists y. split; [exact Ny|].
    (* a's condition = the bytes of the entry below it *)
    assert (Hprev : exists yp, cur st0 (l2 ++ e1 :: l1) = Some (marshal yp) /\ s_trans y1 <= s_trans yp).
    { destruct l2 as [|b l2'].
      - cbn. exists y1. rewrite N1. split; [reflexivity|lia].
      - cbn. destruct (IH e1 l1 y1 C Ok F N1 b (or_introl eq_refl)) as [yb [Nb Lb]]. exists yb. rewrite Nb. auto. }
    destruct Hprev as [yp [Hc Lp]].
    rewrite Pa in Pz. rewrite Hc in Pz. rewrite Cx in Cz.
    assert (marshal x = marshal yp) by congruence. apply marshal_inj in H. subst x. lia.
  Qed.

  (* two applied updates conditioned on the same bytes, the older one a take-over: impossible *)
  Lemma no_double_takeover st0 ls l3 e2 l2 e1 l1 X :
    log (run (init st0) ls) = l3 ++ e2 :: l2 ++ e1 :: l1 ->
    Forall (cg_formed marshal) (l2 ++ [e1]) ->
    e_cond e1 = Some X -> e_cond e2 = Some X ->
    (forall x y, e_cond e1 = Some (marshal x) -> e_new e1 = marshal y -> is_takeover x y) ->
    False.
  Proof.
    intros Hl F C1 C2 Tk.
    apply Forall_app in F as [F2 F1]. apply Forall_cons_iff in F1 as [F1 _].
    destruct F1 as [K1 [x1 [y1 [Cx1 [Ny1 [Le1 Lt1]]]]]].
    specialize (Lt1 (Tk x1 y1 Cx1 Ny1)).
    assert (HX : X = marshal x1) by congruence.
    destruct (chain st0 ls) as [Hc [_ Ok]]. cbv zeta in Hc, Ok. rewrite Hl in Hc, Ok.
    assert (Hc' : log_chain (rec_bytes st0) (l2 ++ e1 :: l1)).
    { clear - Hc. induction l3 as [|a l3 IH]; cbn [app log_chain] in Hc; [destruct Hc as [_ Hc]; exact Hc|destruct Hc as [_ Hc]; exact (IH Hc)]. }
    assert (Ok' : Forall entry_ok (l2 ++ e1 :: l1)).
    { apply Forall_app in Ok as [_ Ok]. apply Forall_cons_iff in Ok as [_ Ok]. exact Ok. }
    apply (no_double_acquire_log st0 ls l3 e2 l2 e1 l1 X Hl C1 C2).
    - rewrite Ny1, HX. intros E. apply marshal_inj in E. subst y1. lia.
    - intros e Hin Ee. destruct (trans_grows (rec_bytes st0) l2 e1 l1 y1 Hc' Ok' F2 Ny1 e Hin) as [y [Ny Ly]].
      rewrite Ny, HX in Ee. apply marshal_inj in Ee. subst y. lia.
  Qed.
End Formed.

(* an injective marshalling exists (length-prefixed fields), so the hypotheses are satisfiable *)
Definition marshal_ex (s : srec) : bytes :=
  N.of_nat (length (s_holder s)) :: s_holder s ++ [s_acquire s; s_renew s; s_trans s].

Lemma app_inj_len {A} (l1 l2 r1 r2 : list A) : length l1 = length l2 -> l1 ++ r1 = l2 ++ r2 -> l1 = l2 /\ r1 = r2.
Proof.
  revert l2. induction l1 as [|a l1 IH]; intros [|b l2] L H; simpl in *; try discriminate; [auto|].
  injection H as -> H. injection L as L. destruct (IH l2 L H) as [-> ->]. auto.
Qed.

Lemma marshal_ex_inj a b : marshal_ex a = marshal_ex b -> a = b.
Proof.
  unfold marshal_ex. intros H. injection H as Hl H. apply Nat2N.inj in Hl.
  destruct (app_inj_len _ _ _ _ Hl H) as [Hh Ht]. injection Ht as A R T.
  destruct a, b; cbn in *. congruence.
Qed.

(* and on a concrete run: X held by "X", candidate 1 takes over, candidate 3 (still holding X) is refused *)
Definition sX : srec := mkS [88] 1 1 3.
Definition sA : srec := cg_update [65] 7 sX.
Lemma takeover_example :
  let l := log (run (init (Some (mkRec (marshal_ex sX) (Some [88]))))
                    [LGet 1 GOk (TOk 5); LGet 3 GOk (TOk 6); LUpdate 1 [65] (marshal_ex sA) COk (TOk 7);
                     LUpdate 3 [67] (marshal_ex (cg_update [67] 8 sX)) COk (TOk 8)]) in
  length l = 1%nat /\ Forall (cg_formed marshal_ex) l /\
  (forall e, In e l -> forall x y, e_cond e = Some (marshal_ex x) -> e_new e = marshal_ex y -> is_takeover x y).
Proof.
  vm_compute. split; [reflexivity|]. split.
  - constructor; [|constructor]. split; [reflexivity|]. exists sX, sA. vm_compute. repeat split; try discriminate; intros; reflexivity.
  - intros e [<-|[]] x y Hx Hy. cbn [e_cond e_new] in Hx, Hy.
    assert (x = sX) by (apply marshal_ex_inj; vm_compute; congruence).
    assert (y = sA) by (apply marshal_ex_inj; vm_compute; congruence).
    subst. vm_compute. split; discriminate.
Qed.
