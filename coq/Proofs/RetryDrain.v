(* C09 — the system drains: from every reachable state there is a continuation in which the engine answers every call
   (only EnvOk), no new request arrives, and which ends quiescent — every request answered, the sequencer idle, every
   allocated revision committed, the retry queue empty.  Together with C09_converges: whatever the faults were, once the
   engine answers again the store and the event stream converge. *)
From Coq Require Import ZifyN ZifyNat ZifyBool.
From KB Require Import Base.Cases Model.RetrySys
  Proofs.RetryBase Proofs.RetryInv1 Proofs.RetryInv2 Proofs.RetryProps Proofs.RetryTerm.
Local Open Scope N_scope.

(* the labels of the continuation: no new request, every engine answer is EnvOk *)
Definition ok_label (l : label) : Prop :=
  match l with
  | LInvoke _ _ => False
  | LThread _ e | LRetry e => e = EnvOk
  | LSeq | LTick _ => True
  end.

Lemma ok_wf l : ok_label l -> wf_label l.
Proof. destruct l as [t op|t e| |e|d]; cbn; try tauto; intros ->; [reflexivity|split; [reflexivity|discriminate]]. Qed.

(* ---------- the control part of a state a drained continuation cares about ---------- *)
Definition calm (s : state) : Prop :=
  forallb (fun x => thread_done (snd x)) (s_threads s) = true /\ s_seq s = SeqIdle /\ s_retry s = RIdle /\ s_dealt s = s_committed s.

Lemma calm_quiescent s : calm s -> s_queue s = [] -> quiescentb s = true.
Proof.
  intros [H1 [H2 [H3 H4]]] Q. unfold quiescentb. rewrite H1, H2, H3, Q, H4, N.eqb_refl. reflexivity.
Qed.

(* ---------- one retry iteration with EnvOk answers removes the head of the queue ---------- *)
(* and leaves at most one new slot, which the sequencer commits without queueing it *)
Lemma iteration s node t q :
  calm s -> s_queue s = (node, t) :: q ->
  exists ls, Forall ok_label ls /\ calm (run s ls) /\ s_queue (run s ls) = q.
Proof.
  intros [Ht [Hs [Hr Hd]]] Hq.
  (* clock, age test *)
  set (s1 := step (step s (LTick (t + retry_interval))) (LRetry EnvOk)).
  assert (E1 : s1 = set_retry (set_now s (s_now s + (t + retry_interval))) (RGet node)).
  { unfold s1, step, step_gen, retry_step. cbn [s_retry s_queue s_now set_now]. rewrite Hr, Hq.
    assert ((s_now s + (t + retry_interval) - t <? retry_interval) = false) as -> by (apply N.ltb_ge; lia). reflexivity. }
  destruct (latest (k_vers (s_store s (e_key node)))) as [[modrev val]|] eqn:L.
  destruct (negb (modrev =? e_rev node)) eqn:Ne.
  1,3: (* nothing to repair: the node is dropped *)
    exists [LTick (t + retry_interval); LRetry EnvOk; LRetry EnvOk; LRetry EnvOk];
    (split; [repeat constructor|]);
    change (run s [LTick (t + retry_interval); LRetry EnvOk; LRetry EnvOk; LRetry EnvOk]) with (step (step s1 (LRetry EnvOk)) (LRetry EnvOk));
    rewrite E1; unfold step, step_gen, retry_step; cbn [s_retry s_store s_queue set_retry set_now]; rewrite L, ?Ne;
    cbn [s_retry s_queue set_retry set_queue set_rlast set_now]; rewrite Hq; cbn [pop_head];
    (split; [|reflexivity]); unfold calm; cbn [s_threads s_seq s_retry s_dealt s_committed set_retry set_queue set_rlast set_now]; auto.
  (* the repair write *)
  set (rev := s_dealt s + 1). set (f := is_tomb val).
  set (b := mk_batch (e_key node) (CIs (e_rev node, f)) rev f val).
  destruct (commit (s_store s) b EnvOk) as [sto eo] eqn:C.
  assert (Heo : e_unc (mk_ev rev (e_prev node) (e_verb node) (e_key node) (e_val node) eo) = false /\
                match eo with Some er => is_cas er = true | None => True end).
  { unfold commit in C. destruct (cond_holds _ _); injection C as _ <-; split; reflexivity. }
  destruct Heo as [Hunc Hcas].
  exists [LTick (t + retry_interval); LRetry EnvOk; LRetry EnvOk; LRetry EnvOk; LRetry EnvOk; LRetry EnvOk; LRetry EnvOk; LSeq].
  split; [repeat constructor|].
  change (run s [LTick (t + retry_interval); LRetry EnvOk; LRetry EnvOk; LRetry EnvOk; LRetry EnvOk; LRetry EnvOk; LRetry EnvOk; LSeq])
    with (step (step (step (step (step (step s1 (LRetry EnvOk)) (LRetry EnvOk)) (LRetry EnvOk)) (LRetry EnvOk)) (LRetry EnvOk)) LSeq).
  rewrite E1.
  (* RGet -> RDeal *)
  set (sa := set_retry (set_now s (s_now s + (t + retry_interval))) (RGet node)).
  assert (E2 : step sa (LRetry EnvOk) = set_retry sa (RDeal node val)).
  { unfold step, step_gen, retry_step, sa. cbn [s_retry s_store set_retry set_now]. rewrite L, Ne. reflexivity. }
  rewrite E2. set (sb := set_retry sa (RDeal node val)).
  assert (E3 : step sb (LRetry EnvOk) = set_retry (set_dealt sb rev) (RCommit node val rev)) by reflexivity.
  rewrite E3. set (sc := set_retry (set_dealt sb rev) (RCommit node val rev)).
  assert (E4 : step sc (LRetry EnvOk) = set_retry (set_store sc sto) (RDispatch node rev eo)).
  { unfold step, step_gen, retry_step, sc, sb, sa. cbn [s_retry s_store set_retry set_dealt set_now]. fold f. fold b. rewrite C. reflexivity. }
  rewrite E4. set (sd := set_retry (set_store sc sto) (RDispatch node rev eo)).
  set (ev := mk_ev rev (e_prev node) (e_verb node) (e_key node) (e_val node) eo) in *.
  set (st := match eo with None => RSSuccess | Some er => if is_unc er then RSUnknownPut else RSFailedPut end).
  assert (E5 : step sd (LRetry EnvOk) = set_retry (set_slots sd (slot_set (s_slots sd) rev (Some ev))) (RPop node st)).
  { unfold step, step_gen, retry_step, sd. cbn [s_retry set_retry]. fold ev. fold st.
    destruct eo as [er|]; [rewrite Hcas|]; reflexivity. }
  rewrite E5. set (se := set_retry (set_slots sd (slot_set (s_slots sd) rev (Some ev))) (RPop node st)).
  assert (E6 : step se (LRetry EnvOk) = set_rlast (set_retry (set_queue se q) RIdle) st).
  { unfold step, step_gen, retry_step, se. cbn [s_retry set_retry]. f_equal. f_equal. f_equal.
    unfold sd, sc, sb, sa. cbn [s_queue set_retry set_slots set_store set_dealt set_now]. rewrite Hq. reflexivity. }
  rewrite E6. set (sf := set_rlast (set_retry (set_queue se q) RIdle) st).
  (* the sequencer commits the new slot *)
  assert (Fc : s_committed sf + 1 = rev) by (unfold sf, se, sd, sc, sb, sa, rev; cbn; lia).
  assert (Fs : s_slots sf rev = Some ev) by (unfold sf, se; cbn [s_slots set_rlast set_retry set_queue set_slots]; apply slot_set_same).
  assert (Fq : s_seq sf = SeqIdle) by (unfold sf, se, sd, sc, sb, sa; cbn; exact Hs).
  assert (Frev : e_rev ev = rev) by reflexivity.
  assert (E7 : calm (step sf LSeq) /\ s_queue (step sf LSeq) = q).
  { unfold step, step_gen, seq_step. rewrite Fq, Fc, Fs, Hunc.
    unfold calm. destruct (e_valid ev);
      cbn [s_threads s_seq s_retry s_dealt s_committed s_queue set_events set_committed set_slots];
      rewrite Frev; unfold sf, se, sd, sc, sb, sa;
      cbn [s_threads s_seq s_retry s_dealt s_committed s_queue set_rlast set_retry set_queue set_slots set_store set_dealt set_now]; auto. }
  exact E7.
Qed.

Lemma run_app_l s a b : run s (a ++ b) = run (run s a) b.
Proof. unfold run. apply fold_left_app. Qed.

Lemma drain_queue m : forall s, length (s_queue s) = m -> calm s ->
  exists ls, Forall ok_label ls /\ quiescentb (run s ls) = true.
Proof.
  induction m as [|m IH]; intros s Hm C.
  - exists []. split; [constructor|]. change (run s []) with s. apply calm_quiescent; [exact C|]. destruct (s_queue s); [reflexivity|discriminate].
  - destruct (s_queue s) as [|[node t] q] eqn:Hq; [discriminate|]. injection Hm as Hm.
    destruct (iteration s node t q C Hq) as [ls1 [O1 [C1 Q1]]].
    destruct (IH (run s ls1)) as [ls2 [O2 Q2]]; [rewrite Q1; exact Hm|exact C1|].
    exists (ls1 ++ ls2). split; [apply Forall_app; split; assumption|]. rewrite run_app_l. exact Q2.
Qed.

(* ---------- thread identifiers are unique ---------- *)
Definition tids (s : state) : list N := map fst (s_threads s).

Lemma get_thread_tids t l : match get_thread t l with Some _ => In t (map fst l) | None => ~ In t (map fst l) end.
Proof.
  induction l as [|[t' th'] l IH]; cbn [get_thread map fst In]; [tauto|].
  destruct (t =? t') eqn:E; [apply N.eqb_eq in E; left; congruence|]. apply N.eqb_neq in E.
  destruct (get_thread t l); [right; exact IH|intros [H|H]; [congruence|exact (IH H)]].
Qed.

Lemma set_thread_fst t th l :
  map fst (set_thread t th l) = match get_thread t l with Some _ => map fst l | None => map fst l ++ [t] end.
Proof.
  induction l as [|[t' th'] l IH]; cbn [set_thread get_thread map fst app]; [reflexivity|].
  destruct (t =? t') eqn:E; [apply N.eqb_eq in E; subst; reflexivity|]. cbn [map fst]. rewrite IH.
  destruct (get_thread t l); reflexivity.
Qed.

Lemma nodup_snoc (l : list N) t : NoDup l -> ~ In t l -> NoDup (l ++ [t]).
Proof.
  induction 1 as [|x l Hx Hl IH]; intros H; [constructor; [intros []|constructor]|]. cbn [app]. constructor.
  - intros Hin. apply in_app_iff in Hin as [Hin|[->|[]]]; [exact (Hx Hin)|apply H; left; reflexivity].
  - apply IH. intros Hin. apply H. right. exact Hin.
Qed.

Lemma nodup_get l t th : NoDup (map fst l) -> In (t, th) l -> get_thread t l = Some th.
Proof.
  induction l as [|[t' th'] l IH]; intros D H; [destruct H|]. cbn [map fst] in D. inversion D as [|? ? Hx Hl]; subst.
  cbn [get_thread]. destruct H as [H|H].
  - injection H as -> ->. rewrite N.eqb_refl. reflexivity.
  - destruct (t =? t') eqn:E; [|apply IH; assumption]. apply N.eqb_eq in E. subst t'. exfalso. apply Hx.
    apply in_map_iff. exists (t, th). split; [reflexivity|exact H].
Qed.

Lemma tids_step s l : NoDup (tids s) -> NoDup (tids (step s l)) /\ (match l with LInvoke _ _ => True | _ => tids (step s l) = tids s end).
Proof.
  intros D. unfold tids in *. destruct l as [t op|t e| |e|d]; unfold step, step_gen.
  - split; [|exact I]. pose proof (get_thread_tids t (s_threads s)) as G. destruct (get_thread t (s_threads s)) eqn:E; [exact D|].
    cbn [s_threads set_threads]. rewrite set_thread_fst, E. apply nodup_snoc; assumption.
  - destruct (get_thread t (s_threads s)) as [th|] eqn:G; [|split; [exact D|reflexivity]].
    destruct (thread_step s (t_op th) (t_pc th) e) as [[s' p'] u] eqn:TS.
    destruct (thread_step_frame _ _ _ _ _ _ _ TS) as [_ [_ [_ [_ [_ [Hth _]]]]]].
    cbn [s_threads set_threads]. rewrite set_thread_fst, Hth, G. split; [exact D|reflexivity].
  - rewrite seq_step_threads. split; [exact D|reflexivity].
  - rewrite retry_step_threads'. split; [exact D|reflexivity].
  - split; [exact D|reflexivity].
Qed.

Lemma reach_nodup r0 s : reach r0 s -> NoDup (tids s).
Proof. induction 1 as [|s l R IH W]; [constructor|apply (tids_step s l IH)]. Qed.

Lemma reach_compats r0 s : reach r0 s -> compats s.
Proof.
  induction 1 as [|s l R IH W]; [intros t th G; discriminate G|]. apply (compats_run [l] s IH).
Qed.

(* ---------- phase A: every request is answered ---------- *)
Lemma own_steps_app t a b : own_steps t (a ++ b) = (own_steps t a + own_steps t b)%nat.
Proof. induction a as [|l a IH]; [reflexivity|]. destruct l; cbn [app own_steps]; rewrite IH; lia. Qed.

Lemma own_steps_repeat t e n : own_steps t (repeat (LThread t e) n) = n.
Proof. induction n as [|n IH]; [reflexivity|]. cbn [repeat own_steps]. rewrite N.eqb_refl, IH. reflexivity. Qed.

Definition answer_all (ids : list N) : list label := flat_map (fun t => repeat (LThread t EnvOk) 7) ids.

Lemma own_steps_answer t ids : In t ids -> (7 <= own_steps t (answer_all ids))%nat.
Proof.
  induction ids as [|x ids IH]; intros H; [destruct H|]. unfold answer_all. cbn [flat_map]. rewrite own_steps_app.
  destruct H as [->|H]; [rewrite own_steps_repeat; lia|]. specialize (IH H). unfold answer_all in IH. lia.
Qed.

Lemma answer_all_ok ids : Forall ok_label (answer_all ids) /\ Forall (fun l => match l with LInvoke _ _ => False | _ => True end) (answer_all ids).
Proof.
  unfold answer_all. induction ids as [|x ids [IH1 IH2]]; [split; constructor|]. cbn [flat_map].
  split; apply Forall_app; split; auto; apply Forall_forall; intros l Hl; apply repeat_spec in Hl; subst; reflexivity.
Qed.

Lemma run_tids ls : forall s, NoDup (tids s) -> Forall (fun l => match l with LInvoke _ _ => False | _ => True end) ls ->
  tids (run s ls) = tids s /\ NoDup (tids (run s ls)).
Proof.
  induction ls as [|l ls IH]; intros s D F; [split; [reflexivity|exact D]|]. inversion F as [|? ? Fl Fls]; subst.
  change (run s (l :: ls)) with (run (step s l) ls). destruct (tids_step s l D) as [D' E].
  destruct (IH (step s l) D' Fls) as [E2 D2]. split; [|exact D2]. rewrite E2. destruct l; try exact E. destruct Fl.
Qed.

Lemma finish_threads s : compats s -> NoDup (tids s) ->
  forallb (fun x => thread_done (snd x)) (s_threads (run s (answer_all (tids s)))) = true.
Proof.
  intros C D. destruct (answer_all_ok (tids s)) as [_ F]. destruct (run_tids (answer_all (tids s)) s D F) as [E D'].
  apply forallb_forall. intros [t th] Hin. cbn [snd].
  pose proof (nodup_get _ t th D' Hin) as G.
  assert (Ht : In t (tids s)). { rewrite <- E. unfold tids. apply in_map_iff. exists (t, th). split; [reflexivity|exact Hin]. }
  pose proof (get_thread_tids t (s_threads s)) as G0. destruct (get_thread t (s_threads s)) as [th0|] eqn:E0; [|destruct (G0 Ht)].
  destruct (terminates_from (answer_all (tids s)) s t th0 C E0) as [th' [G' [_ Dn]]].
  - assert (pc_meas (t_pc th0) <= 7)%nat by (destruct (t_pc th0) as [| | [|] | | | | | |]; cbn [pc_meas]; lia).
    pose proof (own_steps_answer t (tids s) Ht). lia.
  - rewrite G in G'. injection G' as <-. exact Dn.
Qed.

(* ---------- phase B: the retry iteration in progress ends ---------- *)
Definition rm (r : retry_pc) : nat :=
  match r with RIdle => 0 | RPop _ _ => 1 | RDispatch _ _ _ => 2 | RCommit _ _ _ => 3 | RDeal _ _ => 4 | RGet _ => 5 end.

Lemma rm_dec s : s_retry s <> RIdle -> (rm (s_retry (retry_step s EnvOk)) < rm (s_retry s))%nat.
Proof.
  intros H. unfold retry_step. destruct (s_retry s) as [|node|node val|node val rev|node rev eo|node st]; [contradiction| | | | |].
  - destruct (latest _) as [[m v]|]; [destruct (negb _)|]; cbn [s_retry set_retry rm]; lia.
  - cbn [s_retry set_retry rm]. lia.
  - destruct (commit _ _ _). cbn [s_retry set_retry rm]. lia.
  - destruct eo as [er|]; [destruct (is_cas er)|]; cbn [s_retry set_retry set_rlast rm]; lia.
  - cbn [s_retry set_retry set_rlast rm]. lia.
Qed.

Lemma retry_to_idle k : forall s, (rm (s_retry s) <= k)%nat ->
  exists n, s_retry (run s (repeat (LRetry EnvOk) n)) = RIdle /\ s_threads (run s (repeat (LRetry EnvOk) n)) = s_threads s.
Proof.
  induction k as [|k IH]; intros s H.
  - exists 0%nat. split; [|reflexivity]. cbn [repeat]. change (run s []) with s. destruct (s_retry s); cbn [rm] in H; try lia. reflexivity.
  - destruct (s_retry s) eqn:R; [exists 0%nat; split; [exact R|reflexivity]|..];
      (assert (Hne : s_retry s <> RIdle) by (rewrite R; discriminate));
      pose proof (rm_dec s Hne) as Hd;
      (destruct (IH (step s (LRetry EnvOk))) as [n [H1 H2]]; [change (step s (LRetry EnvOk)) with (retry_step s EnvOk); rewrite R in Hd; cbn [rm] in *; lia|]);
      exists (S n); cbn [repeat]; change (run s (LRetry EnvOk :: repeat (LRetry EnvOk) n)) with (run (step s (LRetry EnvOk)) (repeat (LRetry EnvOk) n));
      (split; [exact H1|rewrite H2; apply retry_step_threads']).
Qed.

(* ---------- phase C: the sequencer comes to rest ---------- *)
Lemma seq_step_retry sw s : s_retry (seq_step sw s) = s_retry s.
Proof. unfold seq_step. repeat match goal with |- context [match ?x with _ => _ end] => destruct x end; reflexivity. Qed.

Lemma seq_to_idle s : exists n, s_seq (run s (seq_steps n)) = SeqIdle.
Proof.
  destruct (s_seq s) as [|ev|ev] eqn:Q.
  - exists 0%nat. exact Q.
  - exists 2%nat. change (run s (seq_steps 2)) with (step (step s LSeq) LSeq). unfold step, step_gen, seq_step. rewrite Q. reflexivity.
  - exists 1%nat. change (run s (seq_steps 1)) with (step s LSeq). unfold step, step_gen, seq_step. rewrite Q. reflexivity.
Qed.

Lemma seq_steps_frame n : forall s, s_threads (run s (seq_steps n)) = s_threads s /\ s_retry (run s (seq_steps n)) = s_retry s.
Proof.
  induction n as [|n IH]; intros s; [split; reflexivity|]. cbn [seq_steps repeat].
  change (run s (LSeq :: repeat LSeq n)) with (run (step s LSeq) (seq_steps n)). destruct (IH (step s LSeq)) as [H1 H2].
  rewrite H1, H2. split; [apply seq_step_threads|apply seq_step_retry].
Qed.

Lemma seq_steps_dealt n : forall s, s_dealt (run s (seq_steps n)) = s_dealt s.
Proof.
  induction n as [|n IH]; intros s0; [reflexivity|]. cbn [seq_steps repeat].
  change (run s0 (LSeq :: repeat LSeq n)) with (run (step s0 LSeq) (seq_steps n)). rewrite IH.
  unfold step, step_gen, seq_step. repeat match goal with |- context [match ?x with _ => _ end] => destruct x end; reflexivity.
Qed.

Lemma seq_steps_ok n : Forall ok_label (seq_steps n).
Proof. apply Forall_forall. intros l H. apply repeat_spec in H. subst. exact I. Qed.
Lemma retry_steps_ok n : Forall ok_label (repeat (LRetry EnvOk) n).
Proof. apply Forall_forall. intros l H. apply repeat_spec in H. subst. reflexivity. Qed.

Lemma ok_all_wf ls : Forall ok_label ls -> Forall wf_label ls.
Proof. intros H. apply Forall_forall. intros l Hl. apply ok_wf. rewrite Forall_forall in H. apply H. exact Hl. Qed.

(* ---------- the theorem ---------- *)
Lemma drains_from r0 s : reach r0 s ->
  exists ls, Forall ok_label ls /\ quiescentb (run s ls) = true.
Proof.
  intros R.
  (* A *)
  set (lsA := answer_all (tids s)). destruct (answer_all_ok (tids s)) as [OA _]. fold lsA in OA.
  pose proof (finish_threads s (reach_compats r0 s R) (reach_nodup r0 s R)) as TA. fold lsA in TA.
  set (sA := run s lsA) in *. assert (RA : reach r0 sA) by (apply reach_run; [apply ok_all_wf; exact OA|exact R]).
  (* B *)
  destruct (retry_to_idle 5 sA) as [nB [RB TB]]; [destruct (s_retry sA); cbn [rm]; lia|].
  set (lsB := repeat (LRetry EnvOk) nB) in *. set (sB := run sA lsB) in *.
  assert (RRB : reach r0 sB) by (apply reach_run; [apply ok_all_wf; apply retry_steps_ok|exact RA]).
  (* C *)
  destruct (seq_to_idle sB) as [nC QC]. set (sC := run sB (seq_steps nC)) in *.
  destruct (seq_steps_frame nC sB) as [TC RC]. fold sC in TC, RC.
  assert (RRC : reach r0 sC) by (apply reach_run; [apply ok_all_wf; apply seq_steps_ok|exact RRB]).
  assert (TD : forallb (fun x => thread_done (snd x)) (s_threads sC) = true) by (rewrite TC, TB; exact TA).
  assert (NL : no_live_request sC).
  { intros t th G. pose proof (get_thread_tids t (s_threads sC)) as Hin. rewrite G in Hin.
    rewrite forallb_forall in TD. assert (Hx : In (t, th) (s_threads sC)).
    { clear - G. induction (s_threads sC) as [|[t' th'] l IH]; [discriminate|]. cbn [get_thread] in G.
      destruct (t =? t') eqn:E; [apply N.eqb_eq in E; injection G as ->; left; congruence|right; apply IH; exact G]. }
    specialize (TD (t, th) Hx). cbn [snd] in TD. unfold thread_done in TD. destruct (t_pc th); try discriminate TD; reflexivity. }
  destruct (all_resolved sC (reach_inv1 r0 sC RRC) NL) as [nD [CD QD]]; [rewrite RC, RB; reflexivity|exact QC|].
  set (sD := run sC (seq_steps nD)) in *. destruct (seq_steps_frame nD sC) as [TDD RDD]. fold sD in TDD, RDD.
  assert (Calm : calm sD).
  { split; [rewrite TDD; exact TD|]. split; [exact QD|]. split; [rewrite RDD, RC; exact RB|].
    pose proof (seq_steps_dealt nD sC) as HD. fold sD in HD. lia. }
  destruct (drain_queue (length (s_queue sD)) sD eq_refl Calm) as [lsE [OE QE]].
  exists (lsA ++ lsB ++ seq_steps nC ++ seq_steps nD ++ lsE). split.
  - apply Forall_app; split; [exact OA|]. apply Forall_app; split; [apply retry_steps_ok|].
    apply Forall_app; split; [apply seq_steps_ok|]. apply Forall_app; split; [apply seq_steps_ok|exact OE].
  - rewrite !run_app_l. exact QE.
Qed.

Theorem drains r0 ls :
  Forall wf_label ls ->
  exists ls', Forall wf_label ls' /\ Forall ok_label ls' /\ quiescentb (run (run (init_state r0) ls) ls') = true.
Proof.
  intros W. destruct (drains_from r0 (run (init_state r0) ls)) as [ls' [O Q]]; [apply reach_run; [exact W|apply reach_init]|].
  exists ls'. split; [apply ok_all_wf; exact O|]. split; [exact O|exact Q].
Qed.
