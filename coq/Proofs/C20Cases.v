(* The C20 oracle accepts whatever the metric model produces when the table check holds, and the
   handler model never reaches an explicit panic source. *)
From KB Require Import Base.Cases Model.Metrics Model.Handlers Model.C20Cases Proofs.Metrics.
Open Scope N_scope.

Lemma find_row_In site t r : find_row site t = Some r -> In r t.
Proof.
  induction t as [|x t IH]; simpl; [discriminate|].
  destruct (r_site x =? site); [intros H; injection H as ->; left; reflexivity|].
  intros H; right; apply IH; exact H.
Qed.

Lemma instances_Forall t sites es :
  instances t sites es = true -> Forall (fun e => exists r, In r t /\ instance_of r e = true) es.
Proof.
  revert es; induction sites as [|s sites IH]; intros [|e es]; simpl; try discriminate; [constructor|].
  rewrite andb_true_iff. intros [H1 H2]. constructor; [|apply IH; exact H2].
  destruct (find_row s t) as [r|] eqn:E; [|discriminate]. exists r. split; [eapply find_row_In; exact E|exact H1].
Qed.

Lemma outcomes_eqb_eq a b : outcomes_eqb a b = true -> a = b.
Proof.
  unfold outcomes_eqb. revert b; induction a as [|x a IH]; intros [|y b]; simpl; try discriminate; [reflexivity|].
  rewrite andb_true_iff. intros [H1 H2]. f_equal; [destruct x, y; simpl in H1; try discriminate; reflexivity|apply IH; exact H2].
Qed.

Lemma all_ok_Forall obs : Forall (fun o => o = Ok) obs -> all_ok obs = true.
Proof.
  intros H. unfold all_ok. apply forallb_forall. intros o Ho. rewrite Forall_forall in H. rewrite (H o Ho). reflexivity.
Qed.

Lemma c20_oracle_sound gn t c :
  c20_valid gn t c -> c20_check t c = true -> c20_oracle gn t c = None.
Proof.
  destruct c as [reg0 g es obs|g sites es obs|site e obs|r o alloc h p lst|cc n|idn]; simpl.
  - reflexivity.
  - intros (gn' & -> & Hg & Hv & Hc). rewrite andb_true_iff. intros [Hi Ho].
    apply outcomes_eqb_eq in Ho. subst obs. subst gn'.
    rewrite all_ok_Forall; [reflexivity|].
    apply metrics_run_sound with (t := t); try assumption; [constructor|].
    apply instances_Forall with (sites := sites); exact Hi.
  - intros Hc Hchk. destruct gn as [gn|]; [|discriminate]. simpl in Hc.
    destruct (find_row site t) as [r|] eqn:E; [|discriminate].
    unfold check in Hc. rewrite forallb_forall in Hc. rewrite (Hc r (find_row_In _ _ _ E)). reflexivity.
  - intros [].
  - reflexivity.
  - intros -> _. reflexivity.
Qed.

(* what the watch server does on a client cancel, as transcribed: two Canceled responses for one watch
   (one from the stream loop, one when the watch goroutine ends); one when the stream just ends *)
Lemma watch_cancel_responses_client_cancel : watch_cancel_responses true true = 2.
Proof. reflexivity. Qed.
Lemma watch_cancel_responses_stream_end : watch_cancel_responses true false = 1.
Proof. reflexivity. Qed.

(* ---------- limits ---------- *)

Lemma list_limit_max : list_limit max_int64 = Unlimited.
Proof. vm_compute. reflexivity. Qed.

Lemma list_limit_spec l :
  (min_int64 <= l <= max_int64)%Z ->
  list_limit l = if ((0 <? l)%Z && (l <? max_int64)%Z)%bool then Limited (l + 1)%Z else Unlimited.
Proof.
  intros Hr. unfold list_limit, wrap64, max_int64, min_int64 in *.
  destruct (l >? 0)%Z eqn:E1.
  - apply Z.gtb_lt in E1. assert (0 <? l = true)%Z as -> by (apply Z.ltb_lt; lia). simpl.
    destruct (l <? 9223372036854775807)%Z eqn:E2.
    + apply Z.ltb_lt in E2.
      replace ((l + 1 + 9223372036854775808) mod 18446744073709551616)%Z with (l + 1 + 9223372036854775808)%Z
        by (symmetry; apply Z.mod_small; lia).
      replace (l + 1 + 9223372036854775808 - 9223372036854775808)%Z with (l + 1)%Z by lia.
      assert (l + 1 >? 0 = true)%Z as -> by (apply Z.gtb_lt; lia). reflexivity.
    + apply Z.ltb_ge in E2. assert (l = 9223372036854775807)%Z as -> by lia. vm_compute. reflexivity.
  - assert (0 <? l = false)%Z as ->.
    { apply Z.ltb_ge. destruct (Z.gtb_spec l 0); [discriminate|lia]. }
    simpl. rewrite E1. reflexivity.
Qed.

(* no request makes a scan pre-allocate anything: the first attempt's buffer has capacity 0 *)
Lemma scan_prealloc_zero l : scan_prealloc (list_limit l) 0 = 0.
Proof. destruct (list_limit l); reflexivity. Qed.

(* ---------- handlers ---------- *)

Lemma txn_shape_create_put cmp succ fail p : txn_shape_of cmp succ fail = TCreate p -> is_put p = true.
Proof.
  unfold txn_shape_of.
  destruct cmp as [|c [|c2 cmp]]; destruct succ as [|s [|s2 [|s3 succ]]]; destruct fail as [|f [|f2 fail]];
    try discriminate;
    repeat match goal with
           | |- context [if ?b then _ else _] => destruct b eqn:?
           end; try discriminate.
  intros H; injection H as <-.
  repeat match goal with H : _ && _ = true |- _ => apply andb_true_iff in H as [? ?] end. assumption.
Qed.

Lemma handle_no_panic r : handle r <> HPanic.
Proof.
  destruct r; simpl;
    repeat match goal with
           | |- context [if ?b then _ else _] => destruct b eqn:?
           end; try discriminate.
  - (* BUpdate: the guard implies kv_present *)
    unfold backend_update. destruct kv_present; [discriminate|]. simpl in *. discriminate.
  - destruct (txn_shape_of cmp succ fail) eqn:E; try discriminate.
    pose proof (txn_shape_create_put _ _ _ _ E) as Hp.
    destruct p; try discriminate. destruct (ignore_lease || ignore_value || prev_kv); discriminate.
Qed.

(* a rejected request allocates nothing and a running one allocates at most one revision *)
Lemma handle_alloc_le_1 r n : handle r = HRun n -> n <= 1.
Proof.
  destruct r; simpl;
    repeat match goal with
           | |- context [if ?b then _ else _] => destruct b eqn:?
           end; try discriminate; try (intros H; injection H as <-; lia).
  - unfold backend_update. destruct kv_present; [intros H; injection H as <-; lia|discriminate].
  - destruct (txn_shape_of cmp succ fail); try discriminate; try (intros H; injection H as <-; lia).
    destruct p; try discriminate. destruct (ignore_lease || ignore_value || prev_kv); [discriminate|].
    intros H; injection H as <-; lia.
Qed.
