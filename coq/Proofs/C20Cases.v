(* The C20 oracle accepts whatever the metric model produces when the table check holds, and the
   handler model never reaches an explicit panic source. *)
From KB Require Import Base.Cases Model.Metrics Model.Handlers Model.C20Cases Proofs.Metrics.
Open Scope N_scope.

Lemma find_row_In site t r : find_row site t = Some r -> In r t.
Proof.
  induction t as [|x t IH]; simpl; [discriminate|].
  destruct (r_site x =? site); [intros H; injection H as ->; left; reflexivity|].
  intros H; right; apply IH; exact H.
Qed.

Lemma instances_Forall t sites es :
  instances t sites es = true -> Forall (fun e => exists r, In r t /\ instance_of r e = true) es.
Proof.
  revert es; induction sites as [|s sites IH]; intros [|e es]; simpl; try discriminate; [constructor|].
  rewrite andb_true_iff. intros [H1 H2]. constructor; [|apply IH; exact H2].
  destruct (find_row s t) as [r|] eqn:E; [|discriminate]. exists r. split; [eapply find_row_In; exact E|exact H1].
Qed.

Lemma outcomes_eqb_eq a b : outcomes_eqb a b = true -> a = b.
Proof.
  unfold outcomes_eqb. revert b; induction a as [|x a IH]; intros [|y b]; simpl; try discriminate; [reflexivity|].
  rewrite andb_true_iff. intros [H1 H2]. f_equal; [destruct x, y; simpl in H1; try discriminate; reflexivity|apply IH; exact H2].
Qed.

Lemma all_ok_Forall obs : Forall (fun o => o = Ok) obs -> all_ok obs = true.
Proof.
  intros H. unfold all_ok. apply forallb_forall. intros o Ho. rewrite Forall_forall in H. rewrite (H o Ho). reflexivity.
Qed.

(* (proved below, after the recognisers: see handle_p_no_panic) *)
Section Early.
  Hypothesis handle_p_no_panic_early : forall r, handle_p r <> HPanic.

Lemma c20_oracle_sound_with gn t c :
  c20_valid gn t c -> c20_check t c = true -> c20_oracle gn t c = None.
Proof.
  destruct c as [reg0 g es obs|g sites es obs|site e obs|r o alloc h p lst ems|cc n|un uu|idn]; simpl.
  - reflexivity.
  - intros (gn' & -> & Hg & Hv & Hc). rewrite andb_true_iff. intros [Hi Ho].
    apply outcomes_eqb_eq in Ho. subst obs. subst gn'.
    rewrite all_ok_Forall; [reflexivity|].
    apply metrics_run_sound with (t := t); try assumption; [constructor|].
    apply instances_Forall with (sites := sites); exact Hi.
  - intros Hc Hchk. destruct gn as [gn|]; [|discriminate]. simpl in Hc.
    destruct (find_row site t) as [r|] eqn:E; [|discriminate].
    unfold check in Hc. rewrite forallb_forall in Hc. rewrite (Hc r (find_row_In _ _ _ E)). reflexivity.
  - (* a request: the check pins outcome class, health and progress to the model's prediction, and the model
       never predicts a panic *)
    intros _. rewrite !andb_true_iff. intros [[[[_ Hm] _] Hh] Hp]. subst h p.
    pose proof (handle_p_no_panic_early r) as Hnp.
    destruct (handle_p r); [| |contradiction]; destruct o; try discriminate; reflexivity.
  - intros _ H. apply N.eqb_eq in H. subst n. destruct cc; reflexivity.
  - intros _ H. apply andb_true_iff in H as [H1 ->]. apply N.eqb_eq in H1. subst un. reflexivity.
  - intros _ ->. reflexivity.
Qed.
End Early.

Lemma list_eqb_seqb_eq a b : list_eqb seqb a b = true -> a = b.
Proof.
  revert b; induction a as [|x a IH]; intros [|y b]; simpl; try discriminate; [reflexivity|].
  rewrite andb_true_iff. intros [H1 H2]. apply seqb_eq in H1. subst. f_equal. apply IH; exact H2.
Qed.

Lemma c20_validb_sound gn t c : c20_validb gn t c = true -> c20_valid gn t c.
Proof.
  destruct c as [reg0 g es obs|g sites es obs|site e obs|r o alloc h p lst ems|cc n|un uu|idn]; simpl; try (intros; exact I).
  - destruct gn as [gn'|]; [|discriminate]. rewrite !andb_true_iff. intros [[H1 H2] H3].
    exists gn'. repeat split; try assumption.
    + apply list_eqb_seqb_eq; exact H1.
    + apply Forall_forall. intros v Hv. rewrite forallb_forall in H2. apply H2; exact Hv.
  - intros H; exact H.
Qed.

(* every case a shard accepts (c20_check_covered) is within the scope of the soundness theorem, or the
   oracle has already rejected it *)
Lemma c20_covered_scope gn t c :
  c20_check_covered gn t c = true -> c20_oracle gn t c = None -> c20_valid gn t c.
Proof.
  unfold c20_check_covered. rewrite andb_true_iff, orb_true_iff. intros [_ [Hv|Ho]] Hn.
  - apply c20_validb_sound; exact Hv.
  - rewrite Hn in Ho. discriminate.
Qed.
Lemma c20_check_covered_with_eq gn t c :
  c20_check_covered_with (check_program gn t) gn t c = c20_check_covered gn t c.
Proof.
  unfold c20_check_covered_with, c20_check_covered. f_equal. f_equal.
  destruct c; try reflexivity. simpl. destruct gn; reflexivity.
Qed.

(* exactly one Canceled response per watch, however it ends (C20-F1, fixed) *)
Lemma watch_cancel_once cc : watch_cancel_responses true cc = 1.
Proof. destruct cc; reflexivity. Qed.

(* ---------- limits ---------- *)

Lemma list_limit_max : list_limit max_int64 = Unlimited.
Proof. vm_compute. reflexivity. Qed.

Lemma list_limit_spec l :
  (min_int64 <= l <= max_int64)%Z ->
  list_limit l = if ((0 <? l)%Z && (l <? max_int64)%Z)%bool then Limited (l + 1)%Z else Unlimited.
Proof.
  intros Hr. unfold list_limit, wrap64, max_int64, min_int64 in *.
  destruct (l >? 0)%Z eqn:E1.
  - apply Z.gtb_lt in E1. assert (0 <? l = true)%Z as -> by (apply Z.ltb_lt; lia). simpl.
    destruct (l <? 9223372036854775807)%Z eqn:E2.
    + apply Z.ltb_lt in E2.
      replace ((l + 1 + 9223372036854775808) mod 18446744073709551616)%Z with (l + 1 + 9223372036854775808)%Z
        by (symmetry; apply Z.mod_small; lia).
      replace (l + 1 + 9223372036854775808 - 9223372036854775808)%Z with (l + 1)%Z by lia.
      assert (l + 1 >? 0 = true)%Z as -> by (apply Z.gtb_lt; lia). reflexivity.
    + apply Z.ltb_ge in E2. assert (l = 9223372036854775807)%Z as -> by lia. vm_compute. reflexivity.
  - assert (0 <? l = false)%Z as ->.
    { apply Z.ltb_ge. destruct (Z.gtb_spec l 0); [discriminate|lia]. }
    simpl. rewrite E1. reflexivity.
Qed.

(* no request makes a scan pre-allocate anything: the first attempt's buffer has capacity 0 *)
Lemma scan_prealloc_zero l : scan_prealloc (list_limit l) 0 = 0.
Proof. destruct (list_limit l); reflexivity. Qed.

(* ---------- handlers ---------- *)

Lemma txn_shape_create_put cmp succ fail p : txn_shape_of cmp succ fail = TCreate p -> is_put p = true.
Proof.
  unfold txn_shape_of.
  destruct cmp as [|c [|c2 cmp]]; destruct succ as [|s [|s2 [|s3 succ]]]; destruct fail as [|f [|f2 fail]];
    try discriminate;
    repeat match goal with
           | |- context [if ?b then _ else _] => destruct b eqn:?
           end; try discriminate.
  intros H; injection H as <-.
  repeat match goal with H : _ && _ = true |- _ => apply andb_true_iff in H as [? ?] end. assumption.
Qed.

Lemma handle_no_panic r : handle r <> HPanic.
Proof.
  destruct r; simpl;
    repeat match goal with
           | |- context [if ?b then _ else _] => destruct b eqn:?
           end; try discriminate.
  - (* BUpdate: the guard implies kv_present *)
    unfold backend_update. destruct kv_present; [discriminate|]. simpl in *. discriminate.
  - destruct (txn_shape_of cmp succ fail) eqn:E; try discriminate.
    pose proof (txn_shape_create_put _ _ _ _ E) as Hp.
    destruct p; try discriminate. destruct (ignore_lease || ignore_value || prev_kv); discriminate.
Qed.

(* a rejected request allocates nothing and a running one allocates at most one revision *)
Lemma handle_alloc_le_1 r n : handle r = HRun n -> n <= 1.
Proof.
  destruct r; simpl;
    repeat match goal with
           | |- context [if ?b then _ else _] => destruct b eqn:?
           end; try discriminate; try (intros H; injection H as <-; lia).
  - unfold backend_update. destruct kv_present; [intros H; injection H as <-; lia|discriminate].
  - destruct (txn_shape_of cmp succ fail); try discriminate; try (intros H; injection H as <-; lia).
    destruct p; try discriminate. destruct (ignore_lease || ignore_value || prev_kv); [discriminate|].
    intros H; injection H as <-; lia.
Qed.

(* ---------- explicit partial operations: the guards make them total ---------- *)

Lemma txn_shape_p_total cmp succ fail : txn_shape_p cmp succ fail = PVal (txn_shape_of cmp succ fail).
Proof.
  unfold txn_shape_p, is_create_p, is_delete1_p, is_delete2_p, is_update_p, is_compact_p, txn_shape_of,
    plen_is, pon, index.
  destruct cmp as [|c [|c2 cmp]]; destruct succ as [|s1 [|s2 [|s3 succ]]]; destruct fail as [|f1 [|f2 fail]];
    cbn [length Nat.eqb nth_error pand pbind];
    repeat match goal with
           | |- context [is_mod_equal ?c] => destruct (is_mod_equal c)
           | |- context [(c_modrev ?c =? 0)%Z] => destruct (c_modrev c =? 0)%Z
           | |- context [is_version_equal ?c] => destruct (is_version_equal c)
           | |- context [is_put ?o] => destruct (is_put o)
           | |- context [is_range ?o] => destruct (is_range o)
           | |- context [is_delrange ?o] => destruct (is_delrange o)
           | |- context [beqb ?a ?b] => destruct (beqb a b)
           end; cbn [andb pand pbind]; reflexivity.
Qed.

Lemma handle_p_eq r : handle_p r = handle r.
Proof. destruct r; try reflexivity. simpl. rewrite txn_shape_p_total. reflexivity. Qed.

Lemma handle_p_no_panic r : handle_p r <> HPanic.
Proof. rewrite handle_p_eq. apply handle_no_panic. Qed.

(* List with any int64 limit over any number of matching keys: no slice or capacity panic, and the answer is
   consistent with the limit *)
Lemma list_exec_total limit found :
  (min_int64 <= limit <= max_int64)%Z -> (0 <= found)%Z ->
  exists n more, list_exec limit found = PVal (n, more) /\ list_response_ok limit n more = true /\
                 (n <= found)%Z.
Proof.
  intros Hr Hf. unfold list_exec, list_response_ok. rewrite (list_limit_spec limit Hr).
  destruct ((0 <? limit)%Z && (limit <? max_int64)%Z)%bool eqn:E.
  - apply andb_true_iff in E as [E1 E2]. apply Z.ltb_lt in E1. apply Z.ltb_lt in E2.
    cbn [make_cap pbind]. unfold max_cap. simpl (0 <=? 0)%Z. cbn [andb pbind].
    destruct (Z.min found (limit + 1) >? limit)%Z eqn:G.
    + apply Z.gtb_lt in G. unfold slice_to.
      assert ((0 <=? limit)%Z && (limit <=? Z.min found (limit + 1))%Z = true)%bool as ->.
      { apply andb_true_iff. split; apply Z.leb_le; lia. }
      cbn [pbind]. exists limit, true. repeat split; [|lia].
      rewrite Z.leb_refl, Z.eqb_refl. reflexivity.
    + exists (Z.min found (limit + 1)), false. repeat split; [|lia].
      assert (~ (limit < Z.min found (limit + 1))%Z).
      { intros H. apply Z.gtb_lt in H. congruence. }
      assert (Z.min found (limit + 1) <=? limit = true)%Z as -> by (apply Z.leb_le; lia). reflexivity.
  - cbn [make_cap pbind]. simpl. exists found, false. repeat split; lia.
Qed.

(* oracle soundness for every case kind the driver emits; for request cases it rests on handle_p_no_panic *)
Lemma c20_oracle_sound gn t c : c20_valid gn t c -> c20_check t c = true -> c20_oracle gn t c = None.
Proof. exact (c20_oracle_sound_with handle_p_no_panic gn t c). Qed.
