(* Exactness of the recorded deviation C11-F1: on EVERY operation sequence the TiKV model either is accepted by the
   contract oracle step by step, or the oracle stops at a batch with exactly the finding's signature (an empty value is
   written, the class is `other`, nothing is applied) — code 1.  No other disagreement with the contract exists. *)
From KB Require Import Base.Cases Model.Store Model.Adapters Model.C11Cases
  Proofs.Store Proofs.AdapterLists Proofs.Adapters Proofs.C11Cases.
Local Open Scope N_scope.

Definition bop_wnonemptyb (o : bop) : bool :=
  match o with
  | PutIfNotExist _ [] _ | CAS _ [] _ _ | Put _ [] _ => false
  | _ => true
  end.

Lemma bop_wnonemptyb_ok o : bop_wnonemptyb o = true -> bop_wnonempty o.
Proof. destruct o as [k v t|k nv ov t|k v t|k|k v st]; cbn; try (intros _; exact I); destruct v || destruct nv; try discriminate; intros _; discriminate. Qed.

Lemma has_empty_cons o rest : has_empty_write (o :: rest) = negb (bop_wnonemptyb o) || has_empty_write rest.
Proof. unfold has_empty_write. cbn [existsb]. f_equal. destruct o as [k v t|k nv ov t|k v t|k|k v st]; try reflexivity; destruct v || destruct nv; reflexivity. Qed.

Section TikvExact.
Variable s : store.

(* t_run against the contract without any restriction on the values: either they agree as in t_run_sim, or the run
   stops at a Set of an empty value *)
Lemma t_run_sim_any nc ops : forall p w z idx, t_inv s p w ->
  match batch_go ByValue nc w z idx ops with
  | inl (w', z') => exists p', t_run s p (S idx) ops = inl p' /\ t_inv s p' w'
  | inr (i, actual) =>
      exists k' v', t_run s p (S idx) ops = inr (RCond, Some (S i, k', v')) /\ (idx <= i)%nat /\
                    match nth_error ops (i - idx) with
                    | Some o => match bop_is_putnx o with Some k => k' = k /\ v' = canon_opt actual | None => True end
                    | None => False
                    end
  end \/ (t_run s p (S idx) ops = inr (ROther, None) /\ has_empty_write ops = true).
Proof.
  induction ops as [|o rest IH]; intros p w z idx Hinv; cbn [batch_go t_run].
  - left. exists p. split; [reflexivity|exact Hinv].
  - rewrite has_empty_cons. destruct (bop_step ByValue nc w z o) as [[w1 z1]|actual] eqn:E.
    + destruct (bop_wnonemptyb o) eqn:Ene.
      * destruct (t_closure_ok s _ _ _ (S idx) _ _ _ _ Hinv (bop_wnonemptyb_ok _ Ene) E) as [p1 [Hc Hinv1]]. rewrite Hc.
        destruct (IH p1 w1 z1 (S idx) Hinv1) as [H|[H1 H2]].
        -- left. destruct (batch_go ByValue nc w1 z1 (S idx) rest) as [[w' z']|[i a]]; [exact H|].
           destruct H as [k' [v' [Hr [Hle Hn]]]]. exists k', v'. split; [exact Hr|]. split; [lia|].
           replace (i - idx)%nat with (S (i - S idx)) by lia. exact Hn.
        -- right. split; [exact H1|]. rewrite H2. apply orb_true_r.
      * (* the contract accepts the operation, TiKV refuses to buffer the empty value *)
        right. split; [|reflexivity].
        destruct Hinv as [Hso Hg].
        destruct o as [k v t|k nv ov t|k v t|k|k v stamp]; cbn [bop_wnonemptyb] in Ene; try discriminate;
          cbn [bop_step] in E; cbn [t_closure].
        -- rewrite Hg. destruct v; [|discriminate]. destruct (get w k); [discriminate|]. reflexivity.
        -- rewrite Hg. destruct nv; [|discriminate]. destruct (get w k) as [x|]; [|discriminate]. rewrite (beqb_sym ov x).
           destruct (beqb x ov); [|discriminate]. reflexivity.
        -- destruct v; [|discriminate]. reflexivity.
    + left. destruct (t_closure_fail s _ _ _ (S idx) _ _ _ Hinv E) as [k' [v' [Hc Hp]]]. rewrite Hc.
      exists k', v'. split; [reflexivity|]. split; [lia|]. rewrite Nat.sub_diag. exact Hp.
Qed.

End TikvExact.

(* one batch: the projection holds, or the batch has the signature of finding C11-F1 *)
Lemma tikv_batch_exact s c ops : tikv_R s c ->
  (batch_proj_ok ops (batch_eval ByValue c ops) (snd (fst (t_batch s ops))) (snd (t_batch s ops)) = true /\
   match batch_eval ByValue c ops with
   | Applied c' => tikv_R (fst (fst (t_batch s ops))) c'
   | CondFailed _ _ => fst (fst (t_batch s ops)) = s
   end)
  \/ (has_empty_write ops = true /\ t_batch s ops = (s, ROther, None)).
Proof.
  intros (-> & Hs & Hz). destruct ops as [|o rest].
  - left. cbn. repeat split; assumption.
  - rewrite batch_eval_cons. unfold t_batch, t_batch_env.
    assert (Hinv0 : t_inv (st c) [] (st c)) by (split; [constructor|reflexivity]).
    destruct (t_run_sim_any (st c) (clock c + 1) (o :: rest) _ _ (stamps c) 0%nat Hinv0) as [H|[H1 H2]].
    + left.
      destruct (batch_go ByValue (clock c + 1) (st c) (stamps c) 0 (o :: rest)) as [[w' z']|[i a]] eqn:E.
      * destruct H as [p' [Hr (Hso & Hg)]]. rewrite Hr. cbn [fst snd batch_proj_ok rclass_eqb andb].
        split; [reflexivity|].
        destruct (batch_go_sorted _ _ _ _ _ _ _ _ Hs Hz E) as [Hw' Hz'].
        assert (Heq : t_apply (st c) p' = w').
        { apply sorted_ext; [apply apply_writes_sorted; exact Hs|exact Hw'|].
          intros k. unfold t_apply. rewrite apply_writes_get by exact Hso. rewrite <- Hg. unfold t_txn_get.
          destruct (get p' k) as [[v|]|]; reflexivity. }
        rewrite Heq. repeat split; assumption.
      * destruct H as [k' [v' [Hr [_ Hn]]]]. rewrite Hr. cbn [fst snd batch_proj_ok rclass_eqb andb Nat.eqb].
        split; [|reflexivity]. rewrite Nat.sub_0_r in Hn.
        destruct (nth_error (o :: rest) i) as [o'|]; [|contradiction].
        destruct (bop_is_putnx o') as [k|]; [|reflexivity]. destruct Hn as [-> ->].
        rewrite beqb_refl. cbn [andb]. destruct (canon_opt a); cbn [opt_eqb]; [apply beqb_refl|reflexivity].
    + right. split; [exact H2|]. rewrite H1. reflexivity.
Qed.

Lemma sop_okb_false_batch o : sop_okb ETiKV o = false -> (exists l, o = SBatch l) \/ (exists a b l j bl, o = SHoldDrain a b l j bl).
Proof. destruct o; cbn; try discriminate; intros _; [left|right]; repeat eexists. Qed.

(* the batch part of a step on TiKV: accepted with related states, or stopped with code 1 *)
Lemma tikv_batch_part s c (h : option item) bops : tikv_R s c ->
  (exists c', (let r := batch_eval ByValue c bops in
               if batch_proj_ok bops r (snd (fst (t_batch s bops))) (snd (t_batch s bops))
               then inl (match r with Applied cs' => cs' | CondFailed _ _ => c end, h)
               else inr (batch_finding ETiKV bops (snd (fst (t_batch s bops))))) = inl (c', h) /\
              tikv_R (fst (fst (t_batch s bops))) c')
  \/ (let r := batch_eval ByValue c bops in
       if batch_proj_ok bops r (snd (fst (t_batch s bops))) (snd (t_batch s bops))
       then inl (match r with Applied cs' => cs' | CondFailed _ _ => c end, h)
       else inr (batch_finding ETiKV bops (snd (fst (t_batch s bops))))) = (inr 1 : (cstore * option item) + N).
Proof.
  intros HR. cbn zeta. destruct (tikv_batch_exact s c bops HR) as [[Hp Hrel]|[Hemp Hb]].
  - left. rewrite Hp. destruct (batch_eval ByValue c bops) as [c1|i a].
    + exists c1. split; [reflexivity|exact Hrel].
    + exists c. split; [reflexivity|]. rewrite Hrel. exact HR.
  - right. rewrite Hb. cbn [fst snd]. unfold batch_proj_ok.
    destruct (batch_eval ByValue c bops); cbn [rclass_eqb andb batch_finding]; rewrite Hemp; reflexivity.
Qed.

(* every sequence: accepted throughout, or stopped with code 1 *)
Theorem tikv_run_exact ops : forall s c h, tikv_R s c -> Forall not_panic (snd (a_run tikv s h ops)) ->
  (exists cf, o_run_gen ByValue (batch_finding ETiKV) c h (combine ops (snd (a_run tikv s h ops))) = inl cf /\
              tikv_R (fst (a_run tikv s h ops)) cf)
  \/ o_run_gen ByValue (batch_finding ETiKV) c h (combine ops (snd (a_run tikv s h ops))) = inr 1.
Proof.
  induction ops as [|o rest IH]; intros s c h HR Hnp.
  - left. exists c. split; [reflexivity|exact HR].
  - cbn [a_run] in *. destruct (a_step tikv s h o) as [[s1 h1] ob] eqn:Es.
    destruct (a_run tikv s1 h1 rest) as [sf obs] eqn:Er. cbn [fst snd combine o_run_gen] in *.
    inversion Hnp as [|? ? Hn1 Hn2]; subst.
    assert (Hcont : forall c1, tikv_R s1 c1 ->
              (exists cf, o_run_gen ByValue (batch_finding ETiKV) c1 h1 (combine rest obs) = inl cf /\ tikv_R sf cf) \/
              o_run_gen ByValue (batch_finding ETiKV) c1 h1 (combine rest obs) = inr 1).
    { intros c1 HR1. specialize (IH s1 c1 h1 HR1). rewrite Er in IH. cbn [fst snd] in IH. apply IH. exact Hn2. }
    destruct (sop_okb ETiKV o) eqn:Eok.
    + (* a step outside the deviation: the generic simulation step *)
      destruct (step_sim sim_tikv (batch_finding ETiKV) s c h o s1 h1 ob HR (fun _ _ => I) (sop_okb_ok ETiKV o Eok) Es Hn1)
        as [c1 [He [HR1 _]]].
      rewrite He. apply Hcont. exact HR1.
    + destruct (sop_okb_false_batch o Eok) as [[l ->]|(a & b & l & j & bl & ->)]; cbn [a_step] in Es; cbn [o_step_gen].
      * destruct (resolve_all h l) as [bops|] eqn:Erl; [|injection Es as <- <- <-; destruct Hn1].
        cbn [a_batch tikv] in Es. destruct (tikv_batch_part s c h bops HR) as [[c' [He HR']]|He].
        -- destruct (t_batch s bops) as [[s' cl] cf] eqn:Eb. injection Es as <- <- <-. cbn [fst snd] in *.
           rewrite He. apply Hcont. exact HR'.
        -- destruct (t_batch s bops) as [[s' cl] cf] eqn:Eb. injection Es as <- <- <-. cbn [fst snd] in *.
           right. rewrite He. reflexivity.
      * destruct (resolve_all h bl) as [bops|] eqn:Erl; [|injection Es as <- <- <-; destruct Hn1].
        cbn [a_batch a_iter tikv] in Es.
        destruct (sim_iter tikv ByValue sim_tikv s c a b l HR) as [n [Hn Hle]]. cbn [a_iter tikv] in Hn.
        pose proof (min_count_le l (length (citems ByValue c a b))) as Hmc.
        assert (Hit : rclass_eqb ROk ROk &&
                      is_prefix (map item_kv (firstn (Datatypes.S j) (with_stamp0 (t_iter s a b l))) ++
                                 map item_kv (skipn (Datatypes.S j) (with_stamp0 (t_iter s a b l)))) (map item_kv (citems ByValue c a b)) &&
                      Nat.leb (min_count l (length (citems ByValue c a b)))
                        (length (map item_kv (firstn (Datatypes.S j) (with_stamp0 (t_iter s a b l))) ++
                                 map item_kv (skipn (Datatypes.S j) (with_stamp0 (t_iter s a b l))))) &&
                      Nat.leb (length (map item_kv (firstn (Datatypes.S j) (with_stamp0 (t_iter s a b l))))) (Datatypes.S j) = true).
        { rewrite <- map_app, firstn_skipn, Hn, <- firstn_map, is_prefix_firstn. cbn [rclass_eqb andb].
          rewrite ?map_length, ?firstn_length, ?map_length.
          assert (H1 : Nat.leb (min_count l (length (citems ByValue c a b))) (Nat.min n (length (citems ByValue c a b))) = true)
            by (apply Nat.leb_le; lia).
          assert (H2 : Nat.leb (Nat.min (Datatypes.S j) (Nat.min n (length (citems ByValue c a b)))) (Datatypes.S j) = true)
            by (apply Nat.leb_le; lia).
          rewrite H1, H2. reflexivity. }
        destruct (tikv_batch_part s c h bops HR) as [[c' [He HR']]|He].
        -- destruct (t_batch s bops) as [[s' cl] cf] eqn:Eb. injection Es as <- <- <-. cbn [fst snd] in *.
           rewrite !firstn_S_fold, !skipn_S_fold. rewrite Hit. cbv iota. rewrite He. apply Hcont. exact HR'.
        -- destruct (t_batch s bops) as [[s' cl] cf] eqn:Eb. injection Es as <- <- <-. cbn [fst snd] in *.
           right. rewrite !firstn_S_fold, !skipn_S_fold. rewrite Hit. cbv iota. rewrite He. reflexivity.
Qed.

(* ====================================================================================== *)
(* Exactness of the recorded deviation C11-F2 (Badger)                                      *)
(* ====================================================================================== *)

Section BadgerExact.
Variable s : bstate.
Variable nc : N.
Hypothesis Hnc : b_ts s < nc.      (* the stamp of this commit is above everything handed out so far *)

Definition unwritten (p : pending) (o : bop) : Prop :=
  match o with DelCur k _ _ => forall pv, get p k <> Some (Some pv) | _ => True end.

Lemma b_closure_ok_u p w z seen idx o w' z' :
  b_inv s nc p w z seen -> unwritten p o -> bop_step ByVersion nc w z o = inl (w', z') ->
  exists p', b_closure s p idx o = inl p' /\ b_inv s nc p' w' z' (seen_after o seen).
Proof.
  intros Hinv Hfr. pose proof Hinv as (Hso & Hg & Hz & Hseen).
  destruct o as [k v t|k nv ov t|k v t|k|k v stamp]; cbn [bop_step b_closure seen_after].
  - rewrite <- Hg. destruct (b_txn_get s p k) as [[old ver]|]; cbn [option_map]; [discriminate|].
    intros [= <- <-]. eexists. split; [reflexivity|]. apply b_inv_write. exact Hinv.
  - rewrite <- Hg. destruct (b_txn_get s p k) as [[val ver]|]; cbn [option_map fst]; [|discriminate].
    rewrite (beqb_sym ov val). destruct (beqb val ov); [|discriminate].
    intros [= <- <-]. eexists. split; [reflexivity|]. apply b_inv_write. exact Hinv.
  - intros [= <- <-]. eexists. split; [reflexivity|]. apply b_inv_write. exact Hinv.
  - intros [= <- <-]. eexists. split; [reflexivity|]. apply b_inv_delete. exact Hinv.
  - unfold delcur_holds. rewrite <- Hg, Hz. cbn [unwritten] in Hfr.
    unfold b_txn_get. destruct (get p k) as [[pv|]|] eqn:Gp.
    + exfalso. exact (Hfr pv eq_refl).
    + cbn [option_map]. discriminate.
    + destruct (get (b_map s) k) as [[val ver]|]; cbn [option_map fst snd]; [|discriminate].
      unfold nbeqb. cbn [opt_eqb]. destruct (ver =? stamp); [|discriminate].
      intros [= <- <-]. eexists. split; [reflexivity|]. apply b_inv_delete. exact Hinv.
Qed.

Lemma b_closure_fail_u p w z seen idx o actual :
  b_inv s nc p w z seen -> unwritten p o -> bop_step ByVersion nc w z o = inr actual ->
  exists k' v', b_closure s p idx o = inr (RCond, Some (idx, k', v')) /\
                match bop_is_putnx o with Some k => k' = k /\ v' = canon_opt actual | None => True end.
Proof.
  intros (Hso & Hg & Hz & Hseen) Hfr.
  destruct o as [k v t|k nv ov t|k v t|k|k v stamp]; cbn [bop_step b_closure bop_is_putnx].
  - rewrite <- Hg. destruct (b_txn_get s p k) as [[old ver]|]; cbn [option_map fst]; [|discriminate].
    intros [= <-]. do 2 eexists. split; [reflexivity|]. cbn. auto.
  - rewrite <- Hg. destruct (b_txn_get s p k) as [[val ver]|]; cbn [option_map fst].
    + rewrite (beqb_sym ov val). destruct (beqb val ov); [discriminate|]. intros _.
      do 2 eexists. split; [reflexivity|exact I].
    + intros _. do 2 eexists. split; [reflexivity|exact I].
  - discriminate.
  - discriminate.
  - unfold delcur_holds. rewrite <- Hg, Hz. cbn [unwritten] in Hfr.
    unfold b_txn_get. destruct (get p k) as [[pv|]|] eqn:Gp.
    + exfalso. exact (Hfr pv eq_refl).
    + cbn [option_map]. intros _. do 2 eexists. split; [reflexivity|exact I].
    + destruct (get (b_map s) k) as [[val ver]|]; cbn [option_map fst snd].
      * unfold nbeqb. cbn [opt_eqb]. destruct (ver =? stamp); [discriminate|]. intros _.
        do 2 eexists. split; [reflexivity|exact I].
      * intros _. do 2 eexists. split; [reflexivity|exact I].
Qed.

(* whatever Badger does, a closure that fails reports a Conflict with its own index *)
Lemma b_run_error_shape ops : forall p idx e, b_run s p idx ops = inr e ->
  exists i' k' v', e = (RCond, Some (i', k', v')) /\ (idx <= i')%nat.
Proof.
  induction ops as [|o rest IH]; intros p idx e; cbn [b_run]; [discriminate|].
  destruct (b_closure s p idx o) as [p'|e'] eqn:E.
  - intros H. destruct (IH _ _ _ H) as (i' & k' & v' & -> & Hle). do 3 eexists. split; [reflexivity|lia].
  - intros [= <-].
    destruct o as [k v t|k nv ov t|k v t|k|k v stamp]; cbn [b_closure] in E.
    + destruct (b_txn_get s p k) as [[old ver]|]; [|discriminate]. injection E as <-. do 3 eexists. split; [reflexivity|lia].
    + destruct (b_txn_get s p k) as [[val ver]|].
      * destruct (beqb ov val); [discriminate|]. injection E as <-. do 3 eexists. split; [reflexivity|lia].
      * injection E as <-. do 3 eexists. split; [reflexivity|lia].
    + discriminate.
    + discriminate.
    + destruct (b_txn_get s p k) as [[val ver]|].
      * destruct (ver =? stamp); [discriminate|]. injection E as <-. do 3 eexists. split; [reflexivity|lia].
      * injection E as <-. do 3 eexists. split; [reflexivity|lia].
Qed.

Definition stamps_below (ops : list bop) : Prop :=
  Forall (fun o => match o with DelCur _ _ st => st < nc | _ => True end) ops.

Lemma wbd_cons_other o rest seen : (match o with DelCur _ _ _ => False | _ => True end) ->
  written_before_delcur (o :: rest) seen = written_before_delcur rest (seen_after o seen).
Proof. destruct o; cbn; try reflexivity. contradiction. Qed.

Lemma wbd_propagate o rest seen :
  written_before_delcur rest (seen_after o seen) = true -> written_before_delcur (o :: rest) seen = true.
Proof. destruct o; cbn [written_before_delcur seen_after]; try (intros ->; reflexivity). intros ->. apply orb_true_r. Qed.

(* the run against the contract with no restriction: in step with it, or — after a DelCurrent on a key the batch itself
   has written, which the contract refuses — Badger has gone on by itself *)
Lemma b_run_any ops : forall p w z seen idx, b_inv s nc p w z seen -> stamps_below ops ->
  match batch_go ByVersion nc w z idx ops with
  | inl (w', z') => exists p' seen', b_run s p idx ops = inl p' /\ b_inv s nc p' w' z' seen' /\ (ops <> [] \/ p <> [] -> p' <> [])
  | inr (i, actual) =>
      (exists k' v', b_run s p idx ops = inr (RCond, Some (i, k', v')) /\ (idx <= i)%nat /\
                     match nth_error ops (i - idx) with
                     | Some o => match bop_is_putnx o with Some k => k' = k /\ v' = canon_opt actual | None => True end
                     | None => False
                     end)
      \/ (written_before_delcur ops seen = true /\ (idx <= i)%nat /\
          (match nth_error ops (i - idx) with Some (DelCur _ _ _) => True | _ => False end) /\
          ((exists p', b_run s p idx ops = inl p') \/
           (exists i' k' v', b_run s p idx ops = inr (RCond, Some (i', k', v')) /\ (i < i')%nat)))
  end.
Proof.
  induction ops as [|o rest IH]; intros p w z seen idx Hinv Hst; cbn [batch_go b_run].
  - exists p, seen. split; [reflexivity|]. split; [exact Hinv|]. intros [H|H]; [congruence|exact H].
  - inversion Hst as [|? ? Hst1 Hst']; subst.
    (* is the operation a DelCurrent on a key this batch has written? *)
    assert (Hcase : unwritten p o \/ exists k v st pv, o = DelCur k v st /\ get p k = Some (Some pv)).
    { destruct o as [k v t|k nv ov t|k v t|k|k v st]; try (left; exact I).
      destruct (get p k) as [[pv|]|] eqn:G.
      - right. exists k, v, st, pv. auto.
      - left. intros pv. cbn. rewrite G. discriminate.
      - left. intros pv. cbn. rewrite G. discriminate. }
    destruct Hcase as [Hun|(k & v & st & pv & -> & Gp)].
    + destruct (bop_step ByVersion nc w z o) as [[w1 z1]|actual] eqn:E.
      * destruct (b_closure_ok_u _ _ _ _ idx _ _ _ Hinv Hun E) as [p1 [Hc Hinv1]]. rewrite Hc.
        assert (Hp1 : p1 <> []).
        { destruct o; cbn [b_closure] in Hc.
          - destruct (b_txn_get s p k) as [[? ?]|]; [discriminate|]. injection Hc as <-. apply set_not_nil.
          - destruct (b_txn_get s p k) as [[? ?]|]; [|discriminate]. destruct (beqb ov b); [|discriminate].
            injection Hc as <-. apply set_not_nil.
          - injection Hc as <-. apply set_not_nil.
          - injection Hc as <-. apply set_not_nil.
          - destruct (b_txn_get s p k) as [[? ?]|]; [|discriminate]. destruct (n =? stamp); [|discriminate].
            injection Hc as <-. apply set_not_nil. }
        specialize (IH p1 w1 z1 (seen_after o seen) (S idx) Hinv1 Hst').
        destruct (batch_go ByVersion nc w1 z1 (S idx) rest) as [[w' z']|[i a]].
        -- destruct IH as [p' [seen' [Hr [Hi Hn]]]]. exists p', seen'. split; [exact Hr|]. split; [exact Hi|].
           intros _. apply Hn. right. exact Hp1.
        -- destruct IH as [[k' [v' [Hr [Hle Hn]]]]|(Hw & Hle & Hd & Hrun)].
           ++ left. exists k', v'. split; [exact Hr|]. split; [lia|].
              replace (i - idx)%nat with (S (i - S idx)) by lia. exact Hn.
           ++ right. split; [apply wbd_propagate; exact Hw|]. split; [lia|].
              replace (i - idx)%nat with (S (i - S idx)) by lia. split; [exact Hd|exact Hrun].
      * left. destruct (b_closure_fail_u _ _ _ _ idx _ _ Hinv Hun E) as [k' [v' [Hc Hp]]]. rewrite Hc.
        exists k', v'. split; [reflexivity|]. split; [lia|]. rewrite Nat.sub_diag. exact Hp.
    + (* DelCurrent of a record whose key this batch has written: the contract refuses (the stamp is this commit's),
         Badger compares the read timestamp *)
      pose proof Hinv as (Hso & Hg & Hz & Hseen).
      assert (Ew : get w k = Some pv).
      { rewrite <- Hg. unfold b_txn_get. rewrite Gp. reflexivity. }
      assert (Ec : bop_step ByVersion nc w z (DelCur k v st) = inr (Some pv)).
      { cbn [bop_step]. unfold delcur_holds. rewrite Ew, Hz, Gp. unfold nbeqb. cbn [opt_eqb].
        assert (Hne : (nc =? st) = false) by (apply N.eqb_neq; cbn in Hst1; lia). rewrite Hne. reflexivity. }
      rewrite Ec. cbn [b_closure]. unfold b_txn_get. rewrite Gp.
      destruct (b_ts s =? st) eqn:Ets.
      * right. split; [cbn [written_before_delcur]; unfold in_seen in Hseen; rewrite (Hseen k pv Gp); reflexivity|].
        split; [lia|]. rewrite Nat.sub_diag. cbn [nth_error]. split; [exact I|].
        destruct (b_run s (set p k None) (S idx) rest) as [p'|e] eqn:Er.
        -- left. exists p'. reflexivity.
        -- right. destruct (b_run_error_shape _ _ _ _ Er) as (i' & k' & v' & -> & Hle). exists i', k', v'. split; [reflexivity|lia].
      * left. do 2 eexists. split; [reflexivity|]. split; [lia|]. rewrite Nat.sub_diag. cbn [nth_error bop_is_putnx]. exact I.
Qed.

End BadgerExact.

(* ---------- stamps never exceed the clock (contract side only) ---------- *)

Definition stamps_le (c : cstore) : Prop := forall k n, get (stamps c) k = Some n -> n <= clock c.
Definition held_le (c : cstore) (h : option item) : Prop := forall i, h = Some i -> snd i <= clock c.

Lemma bop_step_stamps m nc w z o w' z' : bop_step m nc w z o = inl (w', z') ->
  (forall k n, get z k = Some n -> n <= nc) -> (forall k n, get z' k = Some n -> n <= nc).
Proof.
  intros H Hz.
  assert (Hset : forall k0, forall k n, get (set z k0 nc) k = Some n -> n <= nc).
  { intros k0 k n. rewrite get_set_if. destruct (beqb k k0); [intros [= <-]; lia|apply Hz]. }
  assert (Hrem : forall k0, forall k n, get (Store.remove z k0) k = Some n -> n <= nc).
  { intros k0 k n. rewrite get_remove_if. destruct (beqb k k0); [discriminate|apply Hz]. }
  destruct o as [k v t|k nv ov t|k v t|k|k v stamp]; cbn [bop_step] in H.
  - destruct (get w k); [discriminate|]. injection H as _ <-. apply Hset.
  - destruct (get w k) as [x|]; [|discriminate]. destruct (beqb x ov); [|discriminate]. injection H as _ <-. apply Hset.
  - injection H as _ <-. apply Hset.
  - injection H as _ <-. apply Hrem.
  - destruct (delcur_holds m w z k v stamp); [|discriminate]. injection H as _ <-. apply Hrem.
Qed.

Lemma batch_go_stamps m nc ops : forall w z idx w' z', batch_go m nc w z idx ops = inl (w', z') ->
  (forall k n, get z k = Some n -> n <= nc) -> (forall k n, get z' k = Some n -> n <= nc).
Proof.
  induction ops as [|o rest IH]; intros w z idx w' z'; cbn [batch_go]; [intros [= <- <-]; auto|].
  destruct (bop_step m nc w z o) as [[w1 z1]|a] eqn:E; [|discriminate]. intros H Hz.
  eapply IH; [exact H|]. eapply bop_step_stamps; eauto.
Qed.

Lemma batch_eval_stamps m c ops c' : batch_eval m c ops = Applied c' -> stamps_le c ->
  stamps_le c' /\ clock c <= clock c'.
Proof.
  unfold batch_eval. destruct ops as [|o rest]; [intros [= <-] H; split; [exact H|lia]|].
  destruct (batch_go m (clock c + 1) (st c) (stamps c) 0 (o :: rest)) as [[w z]|[i a]] eqn:E; [|discriminate].
  intros [= <-] Hs. cbn [clock stamps]. split; [|lia]. unfold stamps_le. cbn [stamps clock].
  eapply batch_go_stamps; [exact E|]. intros k n G. specialize (Hs k n G). lia.
Qed.

Lemma held_le_mono c c' h : held_le c h -> clock c <= clock c' -> held_le c' h.
Proof. intros H Hc i Hi. specialize (H i Hi). lia. Qed.

(* an accepted step keeps the stamps below the clock and the held record's stamp too *)
Lemma o_step_stamps fnd c h o ob c' h' : o_step_gen ByVersion fnd c h o ob = inl (c', h') ->
  stamps_le c -> held_le c h -> stamps_le c' /\ held_le c' h'.
Proof.
  intros H Hs Hh.
  assert (Hb : forall ops cl cf,
             (let r := batch_eval ByVersion c ops in
              if batch_proj_ok ops r cl cf
              then inl (match r with Applied cs' => cs' | CondFailed _ _ => c end, h)
              else inr (fnd ops cl)) = inl (c', h') -> stamps_le c' /\ held_le c' h').
  { intros ops cl cf. cbn zeta. destruct (batch_proj_ok ops (batch_eval ByVersion c ops) cl cf); [|discriminate].
    destruct (batch_eval ByVersion c ops) as [c1|i a] eqn:Eb; intros [= <- <-].
    - destruct (batch_eval_stamps _ _ _ _ Eb Hs) as [Hs' Hc]. split; [exact Hs'|]. eapply held_le_mono; eauto.
    - auto. }
  destruct o as [l|k|k|a b l|a b l j| |a b l j bl]; destruct ob as [cl cf|cl v|cl|cl out|cl out held|cl cf|cl x bc bcf y];
    cbn [o_step_gen] in H; try discriminate.
  - destruct (resolve_all h l) as [ops|]; [|discriminate]. eapply Hb; exact H.
  - destruct (get (st c) k) as [x|].
    + destruct (rclass_eqb cl ROk && beqb v x); [|discriminate]. injection H as <- <-. auto.
    + destruct (rclass_eqb cl RNotFound); [|discriminate]. injection H as <- <-. auto.
  - eapply Hb; exact H.
  - match type of H with (if ?b then _ else _) = _ => destruct b end; [|discriminate]. injection H as <- <-. auto.
  - match type of H with (if ?b then _ else _) = _ => destruct b end; [|discriminate]. injection H as <- <-.
    split; [exact Hs|]. destruct held; [|intros i Hi; discriminate].
    intros i Hi. apply nth_error_In in Hi. unfold citems in Hi. apply in_map_iff in Hi as [kv [<- _]].
    unfold mk_item, stamp_of. cbn [snd]. destruct (get (stamps c) (fst kv)) as [n|] eqn:G; [exact (Hs _ _ G)|lia].
  - destruct h as [i|]; [|discriminate]. eapply Hb; exact H.
  - destruct (resolve_all h bl) as [ops|]; [|discriminate].
    match type of H with (if ?b then _ else _) = _ => destruct b end; [|discriminate]. eapply Hb; exact H.
Qed.

(* ---------- one batch on Badger: the projection holds, or the batch has the signature of finding C11-F2 ---------- *)

Lemma badger_batch_exact s c ops : badger_R s c ->
  Forall (fun o => match o with DelCur _ _ st => st <= clock c | _ => True end) ops ->
  (batch_proj_ok ops (batch_eval ByVersion c ops) (snd (fst (b_batch s ops))) (snd (b_batch s ops)) = true /\
   match batch_eval ByVersion c ops with
   | Applied c' => badger_R (fst (fst (b_batch s ops))) c'
   | CondFailed _ _ => fst (fst (b_batch s ops)) = s
   end)
  \/ (written_before_delcur ops [] = true /\ snd (fst (b_batch s ops)) = ROk /\
      exists i a, batch_eval ByVersion c ops = CondFailed i a).
Proof.
  intros (Hst & Hzs & Hck & Hs) Hstamps. destruct ops as [|o rest].
  - left. cbn. repeat split; assumption.
  - rewrite batch_eval_cons. unfold b_batch.
    assert (Hinv0 : b_inv s (clock c + 1) [] (st c) (stamps c) []).
    { repeat split.
      - constructor.
      - intros k. rewrite Hst. unfold b_txn_get, b_store. cbn [get]. rewrite get_map_val.
        destruct (get (b_map s) k) as [[v ver]|]; reflexivity.
      - intros k. rewrite Hzs. unfold b_vers. cbn [get]. apply get_map_val.
      - intros k v. cbn [get]. discriminate. }
    assert (Hnc : b_ts s < clock c + 1) by lia.
    assert (Hsb : stamps_below (clock c + 1) (o :: rest)).
    { eapply Forall_impl; [|exact Hstamps]. intros [] H; try exact I. lia. }
    pose proof (b_run_any s (clock c + 1) Hnc (o :: rest) _ _ _ _ 0%nat Hinv0 Hsb) as H.
    assert (Hws : sorted (st c)) by (rewrite Hst; apply sorted_map_val; exact Hs).
    assert (Hzz : sorted (stamps c)) by (rewrite Hzs; apply sorted_map_val; exact Hs).
    destruct (batch_go ByVersion (clock c + 1) (st c) (stamps c) 0 (o :: rest)) as [[w' z']|[i a]] eqn:E.
    + left. destruct H as [p' [seen' [Hr [(Hso & Hg & Hz & _) Hn]]]]. rewrite Hr.
      cbn [fst snd batch_proj_ok rclass_eqb andb]. split; [reflexivity|].
      destruct (batch_go_sorted _ _ _ _ _ _ _ _ Hws Hzz E) as [Hw' Hz'].
      assert (Hp' : p' <> []) by (apply Hn; left; discriminate).
      unfold b_commit. destruct p' as [|e p'']; [congruence|]. set (p' := e :: p'') in *.
      set (m' := apply_writes (fun v : bytes => (v, b_ts s + 1)) (b_map s) p').
      assert (Hm' : sorted m') by (apply apply_writes_sorted; exact Hs).
      assert (Gm : forall k, get m' k = match get p' k with
                                        | Some (Some v) => Some (v, b_ts s + 1)
                                        | Some None => None
                                        | None => get (b_map s) k
                                        end).
      { intros k. unfold m'. apply apply_writes_get. exact Hso. }
      unfold badger_R. cbn [st stamps clock b_map b_ts]. repeat split.
      * apply sorted_ext; [exact Hw'|apply sorted_map_val; exact Hm'|].
        intros k. unfold b_store. cbn [b_map]. rewrite get_map_val, Gm, <- Hg. unfold b_txn_get.
        destruct (get p' k) as [[v|]|]; try reflexivity.
      * apply sorted_ext; [exact Hz'|apply sorted_map_val; exact Hm'|].
        intros k. unfold b_vers. cbn [b_map]. rewrite get_map_val, Gm, Hz, Hck.
        destruct (get p' k) as [[v|]|]; try reflexivity.
      * rewrite Hck. reflexivity.
      * exact Hm'.
    + destruct H as [[k' [v' [Hr [_ Hn]]]]|(Hw & _ & Hd & Hrun)].
      * left. rewrite Hr. cbn [fst snd batch_proj_ok rclass_eqb andb]. split; [|reflexivity].
        rewrite Nat.sub_0_r in Hn. destruct (nth_error (o :: rest) i) as [o'|]; [|contradiction].
        assert (Hi : (if Nat.eqb i 0 then Nat.eqb i 0 else true) = true) by (destruct (Nat.eqb i 0); reflexivity).
        rewrite Hi. cbn [andb].
        destruct (bop_is_putnx o') as [k|]; [|reflexivity]. destruct Hn as [-> ->].
        rewrite beqb_refl. cbn [andb]. destruct (canon_opt a); cbn [opt_eqb]; [apply beqb_refl|reflexivity].
      * rewrite Nat.sub_0_r in Hd. destruct Hrun as [[p' Hr]|(i' & k' & v' & Hr & Hlt)].
        -- right. rewrite Hr. cbn [fst snd]. split; [exact Hw|]. split; [reflexivity|]. eexists. eexists. reflexivity.
        -- left. rewrite Hr. cbn [fst snd batch_proj_ok rclass_eqb andb]. split; [|reflexivity].
           assert (Hi' : Nat.eqb i' 0 = false) by (apply Nat.eqb_neq; lia). rewrite Hi'. cbn [andb].
           destruct (nth_error (o :: rest) i) as [[]|]; try contradiction. reflexivity.
Qed.

Lemma sop_okb_false_batch_b o : sop_okb EBadger o = false -> (exists l, o = SBatch l) \/ (exists a b l j bl, o = SHoldDrain a b l j bl).
Proof. destruct o; cbn; try discriminate; intros _; [left|right]; repeat eexists. Qed.

(* the batch part of a step on Badger: accepted, or stopped with code 2 *)
Lemma badger_batch_part s c (h : option item) bops : badger_R s c ->
  Forall (fun o => match o with DelCur _ _ st => st <= clock c | _ => True end) bops ->
  (let r := batch_eval ByVersion c bops in
   if batch_proj_ok bops r (snd (fst (b_batch s bops))) (snd (b_batch s bops))
   then inl (match r with Applied cs' => cs' | CondFailed _ _ => c end, h)
   else inr (batch_finding EBadger bops (snd (fst (b_batch s bops))))) =
  inl (match batch_eval ByVersion c bops with Applied cs' => cs' | CondFailed _ _ => c end, h) /\
  badger_R (fst (fst (b_batch s bops))) (match batch_eval ByVersion c bops with Applied cs' => cs' | CondFailed _ _ => c end)
  \/ (let r := batch_eval ByVersion c bops in
       if batch_proj_ok bops r (snd (fst (b_batch s bops))) (snd (b_batch s bops))
       then inl (match r with Applied cs' => cs' | CondFailed _ _ => c end, h)
       else inr (batch_finding EBadger bops (snd (fst (b_batch s bops))))) = (inr 2 : (cstore * option item) + N).
Proof.
  intros HR Hst. cbn zeta. destruct (badger_batch_exact s c bops HR Hst) as [[Hp Hrel]|(Hw & Hcl & i & a & Hev)].
  - left. rewrite Hp. split; [reflexivity|].
    destruct (batch_eval ByVersion c bops) as [c1|i a]; [exact Hrel|rewrite Hrel; exact HR].
  - right. rewrite Hev, Hcl. cbn [batch_proj_ok rclass_eqb andb batch_finding]. rewrite Hw. reflexivity.
Qed.

Lemma resolve_stamps h c : held_le c h -> forall l ops, resolve_all h l = Some ops ->
  Forall (fun o => match o with DelCur _ _ st => st <= clock c | _ => True end) ops.
Proof.
  intros Hh. induction l as [|o t IH]; intros ops; cbn [resolve_all].
  - intros [= <-]. constructor.
  - destruct (resolve h o) as [x|] eqn:Ex; [|discriminate].
    destruct (resolve_all h t) as [r|] eqn:Er; [|discriminate]. intros [= <-].
    constructor; [|apply IH; reflexivity].
    destruct o; cbn [resolve] in Ex; try (injection Ex as <-; exact I).
    destruct h as [i|]; [|discriminate]. injection Ex as <-. apply Hh. reflexivity.
Qed.

(* every sequence on Badger: accepted throughout, or stopped with code 2 *)
Theorem badger_run_exact ops : forall s c h, badger_R s c -> stamps_le c -> held_le c h ->
  Forall not_panic (snd (a_run badger s h ops)) ->
  (exists cf, o_run_gen ByVersion (batch_finding EBadger) c h (combine ops (snd (a_run badger s h ops))) = inl cf /\
              badger_R (fst (a_run badger s h ops)) cf)
  \/ o_run_gen ByVersion (batch_finding EBadger) c h (combine ops (snd (a_run badger s h ops))) = inr 2.
Proof.
  induction ops as [|o rest IH]; intros s c h HR Hsl Hhl Hnp.
  - left. exists c. split; [reflexivity|exact HR].
  - cbn [a_run] in *. destruct (a_step badger s h o) as [[s1 h1] ob] eqn:Es.
    destruct (a_run badger s1 h1 rest) as [sf obs] eqn:Er. cbn [fst snd combine o_run_gen] in *.
    inversion Hnp as [|? ? Hn1 Hn2]; subst.
    assert (Hcont : forall c1, o_step_gen ByVersion (batch_finding EBadger) c h o ob = inl (c1, h1) -> badger_R s1 c1 ->
              (exists cf, o_run_gen ByVersion (batch_finding EBadger) c1 h1 (combine rest obs) = inl cf /\ badger_R sf cf) \/
              o_run_gen ByVersion (batch_finding EBadger) c1 h1 (combine rest obs) = inr 2).
    { intros c1 He HR1. destruct (o_step_stamps _ _ _ _ _ _ _ He Hsl Hhl) as [Hsl1 Hhl1].
      specialize (IH s1 c1 h1 HR1 Hsl1 Hhl1). rewrite Er in IH. cbn [fst snd] in IH. apply IH. exact Hn2. }
    destruct (sop_okb EBadger o) eqn:Eok.
    + destruct (step_sim sim_badger (batch_finding EBadger) s c h o s1 h1 ob HR (fun _ _ => I) (sop_okb_ok EBadger o Eok) Es Hn1)
        as [c1 [He [HR1 _]]].
      rewrite He. apply Hcont; assumption.
    + destruct (sop_okb_false_batch_b o Eok) as [[l ->]|(a & b & l & j & bl & ->)]; cbn [a_step] in Es.
      * destruct (resolve_all h l) as [bops|] eqn:Erl; [|injection Es as <- <- <-; destruct Hn1].
        cbn [a_batch badger] in Es.
        destruct (badger_batch_part s c h bops HR (resolve_stamps h c Hhl l bops Erl)) as [[He HR']|He];
          destruct (b_batch s bops) as [[s' cl] cf] eqn:Eb; injection Es as <- <- <-; cbn [fst snd] in *.
        -- assert (He' : o_step_gen ByVersion (batch_finding EBadger) c h (SBatch l) (OBatch cl cf) =
                          inl (match batch_eval ByVersion c bops with Applied cs' => cs' | CondFailed _ _ => c end, h)).
           { cbn [o_step_gen]. rewrite Erl. exact He. }
           rewrite He'. apply Hcont; [exact He'|exact HR'].
        -- right. cbn [o_step_gen]. rewrite Erl. cbn zeta in He. cbn zeta. rewrite He. reflexivity.
      * destruct (resolve_all h bl) as [bops|] eqn:Erl; [|injection Es as <- <- <-; destruct Hn1].
        cbn [a_batch badger] in Es.
        pose proof (holddrain_cond sim_badger s c a b l j HR) as Hit. cbn [a_iter badger] in Hit.
        destruct (badger_batch_part s c h bops HR (resolve_stamps h c Hhl bl bops Erl)) as [[He HR']|He];
          destruct (b_batch s bops) as [[s' cl] cf] eqn:Eb; injection Es as <- <- <-; cbn [fst snd] in *.
        -- assert (He' : o_step_gen ByVersion (batch_finding EBadger) c h (SHoldDrain a b l j bl)
                            (OHoldDrain ROk (map item_kv (firstn (Datatypes.S j) (b_iter s a b l))) cl cf
                                        (map item_kv (skipn (Datatypes.S j) (b_iter s a b l)))) =
                          inl (match batch_eval ByVersion c bops with Applied cs' => cs' | CondFailed _ _ => c end, h)).
           { cbn [o_step_gen]. rewrite Erl, Hit. exact He. }
           rewrite !firstn_S_fold, !skipn_S_fold. rewrite He'. apply Hcont; [|exact HR'].
           rewrite <- He'. rewrite !firstn_S_fold, !skipn_S_fold. reflexivity.
        -- right. rewrite !firstn_S_fold, !skipn_S_fold. cbn [o_step_gen]. rewrite Erl, Hit. cbn zeta in He. cbn zeta. rewrite He. reflexivity.
Qed.

(* ---------- on the cases of the driver: the oracle's verdict on a case the models reproduce is None or the engine's
   own finding code, nothing else ---------- *)

Definition exact_codes (e : eng) : list (option N) :=
  match e with
  | EMem | EWrapMem => [None]
  | ETiKV | EWrapTiKV => [None; Some 1]
  | EBadger | EWrapBadger => [None; Some 2]
  end.

Lemma stamps_le_init : stamps_le (cs_of []).
Proof. intros k n. cbn. discriminate. Qed.

Lemma c11_oracle_exact c : c11_check c = true ->
  match c with
  | mk_c11 e steps _ => Forall not_panic (map snd steps) -> In (c11_oracle c) (exact_codes e)
  | _ => c11_oracle c = None
  end.
Proof.
  intros Hc. destruct c as [e steps final| | |]; try (apply c11_oracle_sound; [exact I|exact Hc]).
  intros Hnp. pose proof Hc as Hc0. cbn [c11_check] in Hc.
  destruct (a_run (adapter_of e) (a_init (adapter_of e)) None (map fst steps)) as [sf obs] eqn:Er.
  apply andb_true_iff in Hc as [Ho Hf].
  apply (list_eqb_eq _ _ _ obs_eqb_eq) in Ho. apply store_eqb_eq in Hf. subst obs.
  assert (Hmem : (Forall (sop_ok (sim_of e)) (map fst steps)) -> c11_oracle (mk_c11 e steps final) = None).
  { intros Hok. apply c11_oracle_sound; [split; assumption|exact Hc0]. }
  destruct e; cbn [exact_codes].
  - left. symmetry. apply Hmem. apply Forall_forall. intros [] _; exact I.
  - (* Badger *)
    pose proof (badger_run_exact (map fst steps) (mk_bstate [] 0) (cs_of []) None (sim_init _ _ sim_badger)
                  stamps_le_init (fun i H => ltac:(discriminate))) as H.
    cbn [adapter_of a_init badger] in Er. rewrite Er in H. cbn [fst snd] in H. rewrite combine_fst_snd in H.
    destruct (H Hnp) as [[cf [Hrun HR]]|Hrun]; cbn [c11_oracle]; unfold o_run; cbn [mode_of]; rewrite Hrun.
    + left. destruct HR as (Hst & _). change (a_dump (adapter_of EBadger) sf) with (b_store sf) in Hf.
      rewrite Hst, Hf, store_eqb_refl. reflexivity.
    + right. left. reflexivity.
  - (* TiKV *)
    pose proof (tikv_run_exact (map fst steps) [] (cs_of []) None (sim_init _ _ sim_tikv)) as H.
    cbn [adapter_of a_init tikv] in Er. rewrite Er in H. cbn [fst snd] in H. rewrite combine_fst_snd in H.
    destruct (H Hnp) as [[cf [Hrun HR]]|Hrun]; cbn [c11_oracle]; unfold o_run; cbn [mode_of]; rewrite Hrun.
    + left. destruct HR as (Hst & _). change (a_dump (adapter_of ETiKV) sf) with sf in Hf.
      rewrite <- Hst, Hf, store_eqb_refl. reflexivity.
    + right. left. reflexivity.
  - left. symmetry. apply Hmem. apply Forall_forall. intros [] _; exact I.
  - (* the wrapper over Badger runs Badger's functions *)
    pose proof (badger_run_exact (map fst steps) (mk_bstate [] 0) (cs_of []) None (sim_init _ _ sim_badger)
                  stamps_le_init (fun i H => ltac:(discriminate))) as H.
    change (a_run (adapter_of EWrapBadger) (a_init (adapter_of EWrapBadger)) None (map fst steps))
      with (a_run badger (mk_bstate [] 0) None (map fst steps)) in Er.
    rewrite Er in H. cbn [fst snd] in H. rewrite combine_fst_snd in H.
    destruct (H Hnp) as [[cf [Hrun HR]]|Hrun]; cbn [c11_oracle]; unfold o_run; cbn [mode_of batch_finding]; 
      change (batch_finding EWrapBadger) with (batch_finding EBadger); rewrite Hrun.
    + left. destruct HR as (Hst & _). change (a_dump (adapter_of EWrapBadger) sf) with (b_store sf) in Hf.
      rewrite Hst, Hf, store_eqb_refl. reflexivity.
    + right. left. reflexivity.
  - (* the wrapper over TiKV runs TiKV's functions *)
    pose proof (tikv_run_exact (map fst steps) [] (cs_of []) None (sim_init _ _ sim_tikv)) as H.
    change (a_run (adapter_of EWrapTiKV) (a_init (adapter_of EWrapTiKV)) None (map fst steps))
      with (a_run tikv [] None (map fst steps)) in Er.
    rewrite Er in H. cbn [fst snd] in H. rewrite combine_fst_snd in H.
    destruct (H Hnp) as [[cf [Hrun HR]]|Hrun]; cbn [c11_oracle]; unfold o_run; cbn [mode_of];
      change (batch_finding EWrapTiKV) with (batch_finding ETiKV); rewrite Hrun.
    + left. destruct HR as (Hst & _). change (a_dump (adapter_of EWrapTiKV) sf) with sf in Hf.
      rewrite <- Hst, Hf, store_eqb_refl. reflexivity.
    + right. left. reflexivity.
Qed.
