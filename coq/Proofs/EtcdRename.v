(* Lemmas for C16, part 8: the reference interpreter is equivariant under strictly monotone renamings of revisions
   that fix 0.  etcd gives a writing transaction the revision rev + 1; the interpreter is run with the revision the
   shim deals.  Because revisions enter the interpreter's behaviour through comparisons only, running it with any
   strictly increasing choice of revisions is running etcd and renaming the revisions afterwards. *)
From KB Require Import Model.Etcd Model.C16Cases Proofs.Coder Proofs.Etcd.
Local Open Scope Z_scope.

Section Rename.
Variable f : Z -> Z.
Hypothesis f_mono : forall a b, a < b -> f a < f b.
Hypothesis f_zero : f 0 = 0.

Lemma f_cmp a b : Z.compare (f a) (f b) = Z.compare a b.
Proof.
  destruct (Z.compare_spec a b) as [->|H|H].
  - apply Z.compare_refl.
  - apply Z.compare_lt_iff. apply f_mono. exact H.
  - apply Z.compare_gt_iff. apply f_mono. exact H.
Qed.
Lemma f_leb a b : (f a <=? f b) = (a <=? b).
Proof. unfold Z.leb. rewrite f_cmp. reflexivity. Qed.
Lemma f_ltb a b : (f a <? f b) = (a <? b).
Proof. unfold Z.ltb. rewrite f_cmp. reflexivity. Qed.
Lemma f_max a b : Z.max (f a) (f b) = f (Z.max a b).
Proof. unfold Z.max. rewrite f_cmp. destruct (a ?= b); reflexivity. Qed.
Lemma f_leb0 a : (f a <=? 0) = (a <=? 0).
Proof. rewrite <- f_zero at 1. apply f_leb. Qed.

(* ------------------------------------------------------------------ the renaming of every datum *)
Definition rkv (x : kv) : kv := mkKv (k_key x) (k_val x) (f (k_create x)) (f (k_mod x)) (k_ver x) (k_lease x).
Definition runion (u : cunion) : cunion := match u with UCreate z => UCreate (f z) | UMod z => UMod (f z) | _ => u end.
Definition rcmp (c : compare) : compare := mkCmp (c_result c) (c_target c) (c_key c) (runion (c_union c)) (c_end c).
Definition rrange (r : range_req) : range_req :=
  mkRange (r_key r) (r_end r) (r_limit r) (f (r_rev r)) (r_count_only r) (r_keys_only r).
Fixpoint rop (op : reqop) : reqop :=
  match op with
  | OpRange r => OpRange (rrange r)
  | OpPut p => OpPut p
  | OpDel d => OpDel d
  | OpTxn cs s fl => OpTxn (map rcmp cs) (map rop s) (map rop fl)
  end.
Definition rtxn (t : txn_req) : txn_req := mkTxn (map rcmp (t_cmp t)) (map rop (t_succ t)) (map rop (t_fail t)).
Fixpoint rresp (r : respop) : respop :=
  match r with
  | RsRange h kvs c m => RsRange (f h) (map rkv kvs) c m
  | RsPut h p => RsPut (f h) (option_map rkv p)
  | RsDel h d ps => RsDel (f h) d (map rkv ps)
  | RsTxnR h b rs => RsTxnR (f h) b (map rresp rs)
  | RsOther => RsOther
  end.
Definition rtresp (r : txn_resp) : txn_resp := match r with TErr => TErr | TOk h b rs => TOk (f h) b (map rresp rs) end.
Definition rrresp (r : range_resp) : range_resp := match r with RErr => RErr | ROk h kvs c m => ROk (f h) (map rkv kvs) c m end.
Definition rwev (e : wevent) : wevent := match e with WEv d k p => WEv d (rkv k) (option_map rkv p) end.
Definition rhist (h : list (Z * estore)) : list (Z * estore) := map (fun p => (f (fst p), map rkv (snd p))) h.
Definition rstate (s : estate) : estate :=
  mkE (f (e_rev s)) (f (e_now s)) (map rkv (e_cur s)) (rhist (e_hist s)) (map rwev (e_events s)).
Definition rw (w : wstate) : wstate := mkW (map rkv (w_store w)) (w_wrote w) (map rwev (w_events w)).

(* ------------------------------------------------------------------ the store operations see keys only *)
Lemma e_find_ren k s : e_find k (map rkv s) = option_map rkv (e_find k s).
Proof. induction s as [|x s IH]; cbn; [reflexivity|]. destruct (beqb (k_key x) k); [reflexivity|exact IH]. Qed.
Lemma e_set_ren n s : e_set (rkv n) (map rkv s) = map rkv (e_set n s).
Proof. induction s as [|x s IH]; cbn; [reflexivity|]. destruct (bcmp (k_key n) (k_key x)); cbn; [reflexivity|reflexivity|rewrite IH; reflexivity]. Qed.
Lemma filter_ren (p : bytes -> bool) s : filter (fun x => p (k_key x)) (map rkv s) = map rkv (filter (fun x => p (k_key x)) s).
Proof. induction s as [|x s IH]; cbn; [reflexivity|]. destruct (p (k_key x)); cbn; rewrite IH; reflexivity. Qed.
Lemma e_range_ren s a b : e_range (map rkv s) a b = map rkv (e_range s a b).
Proof. apply (filter_ren (in_range a b)). Qed.
Lemma e_remove_ren s a b : e_remove_range a b (map rkv s) = map rkv (e_remove_range a b s).
Proof. apply (filter_ren (fun k => negb (in_range a b k))). Qed.
Lemma lenZ_ren {A B} (g : A -> B) l : lenZ (map g l) = lenZ l.
Proof. unfold lenZ. rewrite map_length. reflexivity. Qed.

(* ------------------------------------------------------------------ compares *)
Lemma union_ren u :
  union_mod (runion u) = f (union_mod u) /\ union_create (runion u) = f (union_create u)
  /\ union_version (runion u) = union_version u /\ union_lease (runion u) = union_lease u /\ union_value (runion u) = union_value u.
Proof. destruct u; cbn; rewrite ?f_zero; auto. Qed.

Lemma compare_kv_ren c x : compare_kv (rcmp c) (rkv x) = compare_kv c x.
Proof.
  destruct (union_ren (c_union c)) as (H1 & H2 & H3 & H4 & H5).
  unfold compare_kv. cbn [c_target c_result c_union rcmp k_val k_create k_mod k_ver k_lease rkv].
  destruct (c_target c); rewrite ?H1, ?H2, ?H3, ?H4, ?H5, ?f_cmp; reflexivity.
Qed.

Lemma rkv_empty : rkv empty_kv = empty_kv.
Proof. unfold rkv, empty_kv; cbn. rewrite f_zero. reflexivity. Qed.

Lemma eval_cmp_ren s c : eval_cmp (map rkv s) (rcmp c) = eval_cmp s c.
Proof.
  unfold eval_cmp. cbn [c_key c_end c_target rcmp]. rewrite e_range_ren.
  destruct (e_range s (c_key c) (c_end c)) as [|x l]; cbn [map].
  - destruct (c_target c); try reflexivity; rewrite <- rkv_empty at 1; apply compare_kv_ren.
  - cbn [forallb]. rewrite compare_kv_ren. f_equal. induction l as [|y l IH]; cbn; [reflexivity|]. rewrite compare_kv_ren, IH. reflexivity.
Qed.

Lemma eval_cmps_ren s cs : eval_cmps (map rkv s) (map rcmp cs) = eval_cmps s cs.
Proof. unfold eval_cmps. induction cs as [|c cs IH]; cbn; [reflexivity|]. rewrite eval_cmp_ren, IH. reflexivity. Qed.

(* ------------------------------------------------------------------ the MVCC history *)
Lemma hist_at_ren h z : hist_at (rhist h) (f z) = map rkv (hist_at h z).
Proof. induction h as [|[r s] h IH]; cbn; [reflexivity|]. rewrite f_leb. destruct (r <=? z); [reflexivity|exact IH]. Qed.

Lemma store_at_ren s cur z : store_at (rstate s) (map rkv cur) (f z) = option_map (map rkv) (store_at s cur z).
Proof.
  unfold store_at. cbn [e_now e_rev e_cur e_hist rstate]. rewrite f_leb0, f_ltb, f_leb, hist_at_ren.
  destruct (z <=? 0); [reflexivity|]. destruct (e_now s <? z); [reflexivity|]. destruct (e_rev s <=? z); reflexivity.
Qed.

Lemma clear_val_ren x : clear_val (rkv x) = rkv (clear_val x).
Proof. reflexivity. Qed.

Lemma do_range_ren st r h : do_range (map rkv st) (rrange r) (f h) = rresp (do_range st r h).
Proof.
  unfold do_range. cbn [r_key r_end r_limit r_count_only r_keys_only rrange rresp]. rewrite e_range_ren, lenZ_ren.
  f_equal. destruct (r_count_only r); cbn [map].
  - destruct (r_keys_only r); reflexivity.
  - destruct (0 <? r_limit r); destruct (r_keys_only r); rewrite ?takeZ_map, ?map_map; try reflexivity.
Qed.

(* ------------------------------------------------------------------ the operations *)
Definition omap (x : option (wstate * respop)) : option (wstate * respop) :=
  match x with Some (w, r) => Some (rw w, rresp r) | None => None end.

Lemma apply_put_ren nr w p : apply_put (f nr) (rw w) p = omap (apply_put nr w p).
Proof.
  unfold apply_put. cbv zeta. cbn [w_store w_events rw]. rewrite e_find_ren. destruct (e_find (p_key p) (w_store w)) as [o|]; cbn [option_map].
  - unfold omap, rw. cbn [rresp w_store w_wrote w_events]. rewrite <- e_set_ren, map_app. cbn [map rwev option_map].
    destruct (p_ign_val p), (p_ign_lease p), (p_prev_kv p); reflexivity.
  - destruct (p_ign_val p || p_ign_lease p); [reflexivity|].
    unfold omap, rw. cbn [rresp w_store w_wrote w_events]. rewrite <- e_set_ren, map_app. reflexivity.
Qed.

Lemma del_events_ren nr olds :
  map (fun o => WEv true (mkKv (k_key o) [] 0 (f nr) 0 0) (Some o)) (map rkv olds)
  = map rwev (map (fun o => WEv true (mkKv (k_key o) [] 0 nr 0 0) (Some o)) olds).
Proof. rewrite !map_map. apply map_ext. intros o. cbn. unfold rkv at 2; cbn. rewrite f_zero. reflexivity. Qed.

Lemma apply_del_ren nr w d : apply_del (f nr) (rw w) d = (rw (fst (apply_del nr w d)), rresp (snd (apply_del nr w d))).
Proof.
  unfold apply_del. cbv zeta. cbn [w_store w_events rw]. rewrite e_range_ren.
  destruct (e_range (w_store w) (d_key d) (d_end d)) as [|x l] eqn:E; [reflexivity|].
  unfold rw. cbn [fst snd rresp w_store w_wrote w_events]. rewrite e_remove_ren, map_app, lenZ_ren, del_events_ren.
  destruct (d_prev_kv d); reflexivity.
Qed.

(* the nested transaction's loop, as a function of the one-operation step *)
Fixpoint go_ops (ap : wstate -> reqop -> option (wstate * respop)) (nr : Z) (b : bool) (w : wstate) (ops : list reqop) (acc : list respop)
  : option (wstate * respop) :=
  match ops with
  | [] => Some (w, RsTxnR nr b (rev acc))
  | o :: ops' => match ap w o with None => None | Some (w', r) => go_ops ap nr b w' ops' (r :: acc) end
  end.

Lemma apply_op_txn s0 nr w cs s fl :
  apply_op s0 nr w (OpTxn cs s fl) =
  go_ops (apply_op s0 nr) nr (eval_cmps (e_cur s0) cs) w (if eval_cmps (e_cur s0) cs then s else fl) [].
Proof.
  cbn [apply_op]. generalize (@nil respop). generalize w.
  induction (if eval_cmps (e_cur s0) cs then s else fl) as [|o ops IH]; intros w' acc; cbn [go_ops]; [reflexivity|].
  destruct (apply_op s0 nr w' o) as [[w'' r]|]; [apply IH|reflexivity].
Qed.

Lemma go_ops_ren ap ap' nr b ops : Forall (fun o => forall w, ap' (rw w) (rop o) = omap (ap w o)) ops ->
  forall w acc, go_ops ap' (f nr) b (rw w) (map rop ops) (map rresp acc) = omap (go_ops ap nr b w ops acc).
Proof.
  induction 1 as [|o ops Ho _ IH]; intros w acc; cbn [go_ops map].
  - cbn [omap rresp]. rewrite map_rev. reflexivity.
  - rewrite Ho. destruct (ap w o) as [[w' r]|]; cbn [omap]; [|reflexivity]. apply (IH w' (r :: acc)).
Qed.

Lemma reqop_ind' (P : reqop -> Prop) :
  (forall r, P (OpRange r)) -> (forall p, P (OpPut p)) -> (forall d, P (OpDel d)) ->
  (forall cs s fl, Forall P s -> Forall P fl -> P (OpTxn cs s fl)) -> forall op, P op.
Proof.
  intros H1 H2 H3 H4. fix IH 1. intros [r|p|d|cs s fl]; [apply H1|apply H2|apply H3|].
  apply H4; [induction s as [|o s IHs]|induction fl as [|o fl IHf]]; constructor; auto.
Qed.

Lemma apply_op_ren s0 nr : forall op w, apply_op (rstate s0) (f nr) (rw w) (rop op) = omap (apply_op s0 nr w op).
Proof.
  induction op as [r|p|d|cs s fl IHs IHf] using reqop_ind'; intros w.
  - cbn [apply_op rop rrange r_key r_rev]. destruct (r_key r) as [|k0 k'] eqn:Ek; [reflexivity|].
    change (w_store (rw w)) with (map rkv (w_store w)). rewrite store_at_ren.
    destruct (store_at s0 (w_store w) (r_rev r)) as [st|]; cbn [option_map omap]; [|reflexivity].
    change (mkRange (k0 :: k') (r_end r) (r_limit r) (f (r_rev r)) (r_count_only r) (r_keys_only r)) with (rrange (mkRange (k0 :: k') (r_end r) (r_limit r) (r_rev r) (r_count_only r) (r_keys_only r))).
    rewrite do_range_ren. destruct r as [rk re rl rr rc rko]. cbn in Ek. subst rk. reflexivity.
  - cbn [apply_op rop]. apply apply_put_ren.
  - cbn [apply_op rop]. rewrite apply_del_ren. destruct (apply_del nr w d) as [w' r]. reflexivity.
  - cbn [rop]. rewrite !apply_op_txn. cbn [e_cur rstate]. rewrite eval_cmps_ren.
    destruct (eval_cmps (e_cur s0) cs); [apply (go_ops_ren _ _ nr true s IHs w [])|apply (go_ops_ren _ _ nr false fl IHf w [])].
Qed.

Definition omaps (x : option (wstate * list respop)) : option (wstate * list respop) :=
  match x with Some (w, rs) => Some (rw w, map rresp rs) | None => None end.

Lemma apply_ops_ren s0 nr ops : forall w, apply_ops (rstate s0) (f nr) (rw w) (map rop ops) = omaps (apply_ops s0 nr w ops).
Proof.
  induction ops as [|o ops IH]; intros w; cbn [apply_ops map]; [reflexivity|].
  rewrite apply_op_ren. destruct (apply_op s0 nr w o) as [[w' r]|]; cbn [omap]; [|reflexivity].
  rewrite IH. destruct (apply_ops s0 nr w' ops) as [[w'' rs]|]; reflexivity.
Qed.

(* ------------------------------------------------------------------ structural validity does not look at revisions *)
Lemma op_facts_ren : forall op, op_wf (rop op) = op_wf op /\ op_puts (rop op) = op_puts op /\ op_dels (rop op) = op_dels op.
Proof.
  induction op as [r|p|d|cs s fl IHs IHf] using reqop_ind'; try (repeat split; reflexivity).
  assert (Hl : forall l, Forall (fun o => op_wf (rop o) = op_wf o /\ op_puts (rop o) = op_puts o /\ op_dels (rop o) = op_dels o) l ->
                         forallb op_wf (map rop l) = forallb op_wf l /\ flat_map op_puts (map rop l) = flat_map op_puts l
                         /\ flat_map op_dels (map rop l) = flat_map op_dels l).
  { induction 1 as [|o l (A & B & C) _ (IA & IB & IC)]; cbn; [auto|]. rewrite A, B, C, IA, IB, IC. auto. }
  destruct (Hl s IHs) as (A1 & B1 & C1). destruct (Hl fl IHf) as (A2 & B2 & C2).
  cbn [rop op_wf op_puts op_dels]. rewrite A1, A2, B1, B2, C1, C2. repeat split.
  f_equal. f_equal. induction cs as [|c cs IH]; cbn; [reflexivity|]. rewrite IH. reflexivity.
Qed.

Lemma ops_facts_ren l : forallb op_wf (map rop l) = forallb op_wf l /\ branch_wf (map rop l) = branch_wf l.
Proof.
  assert (H : forallb op_wf (map rop l) = forallb op_wf l /\ flat_map op_puts (map rop l) = flat_map op_puts l
              /\ flat_map op_dels (map rop l) = flat_map op_dels l).
  { induction l as [|o l (IA & IB & IC)]; cbn; [auto|]. destruct (op_facts_ren o) as (A & B & C). rewrite A, B, C, IA, IB, IC. auto. }
  destruct H as (A & B & C). split; [exact A|]. unfold branch_wf. rewrite B, C. reflexivity.
Qed.

Lemma txn_wf_ren t : txn_wf (rtxn t) = txn_wf t.
Proof.
  unfold txn_wf. cbn [t_cmp t_succ t_fail rtxn].
  destruct (ops_facts_ren (t_succ t)) as [A1 B1]. destruct (ops_facts_ren (t_fail t)) as [A2 B2]. rewrite A1, A2, B1, B2.
  f_equal. f_equal. f_equal. f_equal. induction (t_cmp t) as [|c cs IH]; cbn; [reflexivity|]. rewrite IH. reflexivity.
Qed.

(* ------------------------------------------------------------------ the interpreter *)
Lemma etcd_txn_ren s nr t :
  etcd_txn (rstate s) (f nr) (rtxn t) = (rstate (fst (etcd_txn s nr t)), rtresp (snd (etcd_txn s nr t))).
Proof.
  unfold etcd_txn. rewrite txn_wf_ren. destruct (txn_wf t); cbn [negb]; [|reflexivity].
  cbn [t_cmp t_succ t_fail rtxn]. change (e_cur (rstate s)) with (map rkv (e_cur s)). rewrite eval_cmps_ren.
  change (mkW (map rkv (e_cur s)) false []) with (rw (mkW (e_cur s) false [])).
  replace (if eval_cmps (e_cur s) (t_cmp t) then map rop (t_succ t) else map rop (t_fail t))
    with (map rop (if eval_cmps (e_cur s) (t_cmp t) then t_succ t else t_fail t)) by (destruct (eval_cmps _ _); reflexivity).
  rewrite apply_ops_ren.
  destruct (apply_ops s nr (mkW (e_cur s) false []) (if eval_cmps (e_cur s) (t_cmp t) then t_succ t else t_fail t)) as [[w rs]|];
    cbn [omaps]; [|reflexivity].
  cbn [w_wrote rw]. destruct (w_wrote w); unfold rstate, rw, rhist, e_tick;
    cbn [fst snd rtresp e_rev e_now e_cur e_hist e_events w_store w_events map].
  - rewrite f_max, map_app. reflexivity.
  - rewrite f_max. reflexivity.
Qed.

Lemma etcd_range_ren s r : etcd_range (rstate s) (rrange r) = rrresp (etcd_range s r).
Proof.
  unfold etcd_range. cbn [r_key r_rev rrange]. destruct (r_key r) as [|k0 k'] eqn:Ek; [reflexivity|].
  change (e_cur (rstate s)) with (map rkv (e_cur s)). rewrite store_at_ren.
  destruct (store_at s (e_cur s) (r_rev r)) as [st|]; cbn [option_map]; [|reflexivity].
  change (mkRange (k0 :: k') (r_end r) (r_limit r) (f (r_rev r)) (r_count_only r) (r_keys_only r)) with (rrange (mkRange (k0 :: k') (r_end r) (r_limit r) (r_rev r) (r_count_only r) (r_keys_only r))).
  change (e_rev (rstate s)) with (f (e_rev s)). rewrite do_range_ren.
  destruct r as [rk re rl rr rc rko]. cbn in Ek. subst rk. unfold do_range. reflexivity.
Qed.

Lemma etcd_watch_ren s a b start : etcd_watch (rstate s) a b (f start) = map rwev (etcd_watch s a b start).
Proof.
  unfold etcd_watch. cbn [e_events rstate]. induction (e_events s) as [|e l IH]; cbn [map filter]; [reflexivity|].
  destruct e as [d k p]. cbn [rwev ev_kv rkv k_key k_mod]. rewrite f_leb.
  destruct (in_range a b (k_key k) && (start <=? k_mod k)); cbn [map]; rewrite IH; reflexivity.
Qed.
End Rename.

(* non-vacuity: etcd's own numbering (rev + 1 per write) against the shim's numbering with burnt revisions *)
Definition ren_example (z : Z) : Z := if z <=? 0 then z else if z <=? 1 then z + 10 else z + 11.

Lemma ren_example_ok : (forall a b, a < b -> ren_example a < ren_example b) /\ ren_example 0 = 0.
Proof.
  split; [|reflexivity]. intros a b H. unfold ren_example.
  destruct (Z.leb_spec a 0), (Z.leb_spec b 0), (Z.leb_spec a 1), (Z.leb_spec b 1); lia.
Qed.

(* etcd numbering the writes 1, 2 and the same requests numbered 11, 13 (revision 12 burnt by a failed attempt) *)
Lemma ren_example_run :
  let t1 := mkTxn [mkCmp REqual TMod [47; 97]%N (UMod 0) []] [OpPut (mkPut [47; 97]%N [49%N] 0 false false false)] [] in
  let t2 := mkTxn [mkCmp REqual TMod [47; 97]%N (UMod 1) []] [OpPut (mkPut [47; 97]%N [50%N] 0 true false false)]
                  [OpRange (mkRange [47; 97]%N [] 0 1 false false)] in
  let s1 := fst (etcd_txn (e_init 0) 1 t1) in
  let s1' := fst (etcd_txn (e_init 0) 11 (rtxn ren_example t1)) in
  s1' = rstate ren_example s1
  /\ etcd_txn s1' 13 (rtxn ren_example t2) = (rstate ren_example (fst (etcd_txn s1 2 t2)), rtresp ren_example (snd (etcd_txn s1 2 t2)))
  /\ snd (etcd_txn s1' 13 (rtxn ren_example t2))
     = TOk 13 true [RsPut 13 (Some (mkKv [47; 97]%N [49%N] 11 11 1 0))].
Proof. vm_compute. auto. Qed.
