(* C09 — the fuel of the script interpreter's macro runners (Model/C09Cases.v) suffices:
   run_thread 12 answers the request, run_retry 8 ends the iteration, settle seq_fuel brings the sequencer to rest
   whenever at most 21 allocated revisions are uncommitted.  (On exhaustion the runners return the partial state; the
   soundness theorems do not depend on these lemmas — a script beyond the bound would show as a correspondence mismatch.) *)
From Coq Require Import ZifyN ZifyNat ZifyBool.
From KB Require Import Base.Cases Model.RetrySys Model.C09Cases
  Proofs.RetryBase Proofs.RetryInv1 Proofs.RetryInv2 Proofs.RetryProps Proofs.RetryTerm Proofs.RetryDrain.
Local Open Scope N_scope.

(* ---------- run_thread ---------- *)
Definition answered (s : state) (t : N) : Prop :=
  match get_thread t (s_threads s) with Some th => thread_done th = true | None => True end.

Lemma run_thread_answers fuel : forall t envs gerr s,
  compats s -> (match get_thread t (s_threads s) with Some th => (pc_meas (t_pc th) <= fuel)%nat | None => True end) ->
  answered (run_thread fuel t envs gerr s) t.
Proof.
  induction fuel as [|fuel IH]; intros t envs gerr s C M; unfold answered in *.
  - cbn [run_thread]. destruct (get_thread t (s_threads s)) as [th|]; [|exact I].
    destruct (pc_meas_zero (t_pc th)) as [r Hr]; [lia|]. unfold thread_done. rewrite Hr. reflexivity.
  - cbn [run_thread]. unfold pc_of. destruct (get_thread t (s_threads s)) as [th|] eqn:G; [|rewrite G; exact I].
    assert (Step : forall e envs' gerr', match get_thread t (s_threads (run_thread fuel t envs' gerr' (step s (LThread t e)))) with
                                         | Some th0 => thread_done th0 = true | None => True end).
    { intros e envs' gerr'. destruct (step_thread s (LThread t e) t th C G) as [C' [th' [G' [_ P']]]]. rewrite N.eqb_refl in P'.
      apply IH; [exact C'|]. rewrite G'. destruct P' as [P'|P']; lia. }
    destruct (t_pc th) eqn:P; try apply Step.
    + destruct (t_op th); apply Step.
    + destruct envs; apply Step.
    + rewrite G. unfold thread_done. rewrite P. reflexivity.
Qed.

Theorem run_thread_fuel r0 s t envs gerr : reach r0 s -> answered (run_thread 12 t envs gerr s) t.
Proof.
  intros R. apply run_thread_answers; [apply (reach_compats r0); exact R|].
  destruct (get_thread t (s_threads s)) as [th|]; [|exact I]. destruct (t_pc th) as [| | [|] | | | | | |]; cbn [pc_meas]; lia.
Qed.

(* ---------- run_retry ---------- *)
Lemma rm_dec_any s e : s_retry s <> RIdle -> (rm (s_retry (retry_step s e)) < rm (s_retry s))%nat.
Proof.
  intros H. unfold retry_step. destruct (s_retry s) as [|node|node val|node val rev|node rev eo|node st]; [contradiction| | | | |].
  - destruct e; try (cbn [s_retry set_retry set_rlast rm]; lia).
    destruct (latest _) as [[m v]|]; [destruct (negb _)|]; cbn [s_retry set_retry rm]; lia.
  - cbn [s_retry set_retry rm]. lia.
  - destruct (commit _ _ _). cbn [s_retry set_retry rm]. lia.
  - destruct eo as [er|]; [destruct (is_cas er)|]; cbn [s_retry set_retry set_rlast rm]; lia.
  - cbn [s_retry set_retry set_rlast rm]. lia.
Qed.

Lemma run_retry_busy fuel : forall e gerr s, s_retry s <> RIdle -> (rm (s_retry s) <= fuel)%nat ->
  s_retry (run_retry fuel e gerr s) = RIdle.
Proof.
  induction fuel as [|fuel IH]; intros e gerr s H M; [destruct (s_retry s); cbn [rm] in M; try lia; contradiction|].
  cbn [run_retry]. pose proof (rm_dec_any s (retry_env s e gerr) H) as D.
  change (step s (LRetry (retry_env s e gerr))) with (retry_step s (retry_env s e gerr)).
  destruct (s_retry (retry_step s (retry_env s e gerr))) eqn:R; [exact R|..]; apply IH; rewrite ?R; try discriminate; lia.
Qed.

Lemma run_retry_idle fuel e gerr s : (6 <= fuel)%nat -> s_retry s = RIdle -> s_retry (run_retry fuel e gerr s) = RIdle.
Proof.
  intros F H. destruct fuel as [|f]; [lia|]. cbn [run_retry].
  change (step s (LRetry (retry_env s e gerr))) with (retry_step s (retry_env s e gerr)).
  destruct (s_retry (retry_step s (retry_env s e gerr))) eqn:R; [exact R|..]; apply run_retry_busy; rewrite ?R; try discriminate.
  all: unfold retry_step in R; rewrite H in R; destruct (s_queue s) as [|[n t] q]; [|destruct (_ <? _)];
    cbn [s_retry set_retry set_rlast] in R; try discriminate R; cbn [rm]; lia.
Qed.

Theorem run_retry_fuel e gerr s : s_retry s = RIdle -> s_retry (run_retry 8 e gerr s) = RIdle.
Proof. apply run_retry_idle. lia. Qed.

(* ---------- settle ---------- *)
Definition at_rest (held : option N) (s : state) : Prop :=
  match s_seq s with
  | SeqIdle => s_slots s (s_committed s + 1) = None
  | SeqHold ev => held = Some (e_rev ev)
  | SeqMid _ => False
  end.

Definition seq_meas (s : state) : nat :=
  (3 * N.to_nat (s_dealt s - s_committed s) - match s_seq s with SeqIdle => 0 | SeqHold _ => 1 | SeqMid _ => 2 end)%nat.

Lemma seq_meas_dec s ev : Inv1 s ->
  seq_ev (s_seq s) = Some ev \/ (s_seq s = SeqIdle /\ s_slots s (s_committed s + 1) = Some ev) ->
  (seq_meas (step s LSeq) < seq_meas s)%nat.
Proof.
  intros I H. pose proof (i_cd _ I) as Hcd. unfold seq_meas, step, step_gen, seq_step. destruct (s_seq s) as [|ev0|ev0] eqn:Q.
  - destruct H as [H|[_ H]]; [discriminate|]. rewrite H. destruct (i_slot _ I _ _ H) as [Hr Hb].
    destruct (e_valid ev); [|destruct (e_unc ev)];
      cbn [s_dealt s_committed s_seq set_events set_committed set_slots set_seq]; rewrite ?Hr; lia.
  - destruct (i_seq _ I ev0) as [H1 [H2 _]]; [rewrite Q; reflexivity|].
    cbn [s_dealt s_committed s_seq set_seq set_queue]. lia.
  - destruct (i_seq _ I ev0) as [H1 [H2 _]]; [rewrite Q; reflexivity|].
    cbn [s_dealt s_committed s_seq set_seq set_committed]. rewrite H1. lia.
Qed.

Lemma settle_rests fuel : forall held s, Inv1 s -> (seq_meas s <= fuel)%nat -> at_rest held (settle fuel held s).
Proof.
  induction fuel as [|fuel IH]; intros held s I M.
  - cbn [settle]. unfold at_rest, seq_meas in *. pose proof (i_cd _ I) as Hcd. destruct (s_seq s) as [|ev|ev] eqn:Q.
    + destruct (s_slots s (s_committed s + 1)) as [ev|] eqn:SL; [|reflexivity]. destruct (i_slot _ I _ _ SL) as [_ H]. lia.
    + destruct (i_seq _ I ev) as [H1 [H2 _]]; [rewrite Q; reflexivity|]. lia.
    + destruct (i_seq _ I ev) as [H1 [H2 _]]; [rewrite Q; reflexivity|]. lia.
  - cbn [settle]. pose proof (inv1_step s LSeq I) as I'. pose proof (seq_meas_dec s) as Dec.
    destruct (s_seq s) as [|ev|ev] eqn:Q.
    + destruct (s_slots s (s_committed s + 1)) as [ev|] eqn:SL.
      * apply IH; [exact I'|]. specialize (Dec ev I (or_intror (conj eq_refl eq_refl))). lia.
      * unfold at_rest. rewrite Q. exact SL.
    + assert (D : (seq_meas (step s LSeq) < seq_meas s)%nat) by (apply (Dec ev I); left; reflexivity).
      destruct held as [r|]; [destruct (r =? e_rev ev) eqn:E|].
      * unfold at_rest. rewrite Q. apply N.eqb_eq in E. congruence.
      * apply IH; [exact I'|lia].
      * apply IH; [exact I'|lia].
    + apply IH; [exact I'|]. specialize (Dec ev I (or_introl eq_refl)). lia.
Qed.

Theorem settle_fuel r0 s held : reach r0 s -> s_dealt s - s_committed s <= 21 -> at_rest held (settle seq_fuel held s).
Proof.
  intros R H. apply settle_rests; [apply (reach_inv1 r0); exact R|]. unfold seq_meas, seq_fuel. lia.
Qed.
