(* C06 over the concurrent write model (Model/KeySys.v, package D — imported read-only): a write is reported valid to the
   sequencer exactly for a commit that took effect. In every reachable state of KeySys — any interleaving of client
   threads (create / update / delete / the retry loop's rewrite), engine outcomes and the sequencer —
     ENotified t rev true in the log   ->  some EApplied t _ k _ rev _ _ _ is in the log          (no event without a version)
     EApplied t _ k _ rev _ _ _ in the log -> ENotified t rev true is in the log, or thread t is at notify(k, rev, ok)
                                                                                              (no version without an event,
                                                                                               up to the write in flight)
   so the slots the sequencer turns into events (C06_events_are_versions) are those of applied commits. *)
From KB Require Import Model.KeySys Proofs.RevSys Proofs.KeySys Proofs.KeySysLog.
From Coq Require Import ZifyN ZifyNat ZifyBool Lia.
Local Open Scope N_scope.

Definition applied_in (lg : list entry) (t : tid) (k : key) (rev : N) : Prop :=
  exists q a f v p, In (EApplied t q k a rev f v p) lg.

Record bridge_inv (s : state) : Prop := {
  bi_must : forall t k exp e, thr s t = PDeleteMustDeal k exp e -> res_ok e = false;
  bi_pc : forall t w k rev old, thr s t = PNotify w k rev ROk old -> applied_in (log s) t k rev;
  bi_fwd : forall t rev, In (ENotified t rev true) (log s) -> exists k, applied_in (log s) t k rev;
  bi_bwd : forall t q k a rev f v p, In (EApplied t q k a rev f v p) (log s) ->
           In (ENotified t rev true) (log s) \/ exists w old, thr s t = PNotify w k rev ROk old
}.

(* what one step of thread t does to the program counters and to the log *)
Record step_facts (t : tid) (s s' : state) : Prop := {
  sf_other : forall t', t' <> t -> thr s' t' = thr s t';
  sf_log : forall e, In e (log s) -> In e (log s');
  sf_new : forall e, In e (log s') -> In e (log s) \/
             (exists q, e = EInvoke t q) \/ (exists r, e = EDealt t r) \/ (exists r, e = EReturn t r) \/
             (exists w k rev r old, thr s t = PNotify w k rev r old /\ e = ENotified t rev (res_ok r) /\
                                    thr s' t = after_notify w k rev r old) \/
             (exists q k a rev f v p w old, e = EApplied t q k a rev f v p /\ thr s' t = PNotify w k rev ROk old);
  sf_must : forall k exp e, thr s' t = PDeleteMustDeal k exp e -> thr s t = PDeleteMustDeal k exp e \/ res_ok e = false;
  sf_ok : forall w k rev old, thr s' t = PNotify w k rev ROk old ->
          thr s t = PNotify w k rev ROk old \/ applied_in (log s') t k rev \/ (exists exp, thr s t = PDeleteMustDeal k exp ROk);
  sf_leave : forall w k rev old, thr s t = PNotify w k rev ROk old ->
             thr s' t = PNotify w k rev ROk old \/ In (ENotified t rev true) (log s')
}.

Lemma upd_same {A} (f : N -> A) i v : upd f i v i = v.
Proof. unfold upd. rewrite N.eqb_refl. reflexivity. Qed.
Lemma upd_other {A} (f : N -> A) i v j : j <> i -> upd f i v j = f j.
Proof. intros H. unfold upd. apply N.eqb_neq in H. rewrite H. reflexivity. Qed.

Lemma sf_refl t s : step_facts t s s.
Proof.
  constructor; auto.
Qed.

Ltac sf_crush2 t E :=
  constructor; cbn [thr log set_thr set_rs add_log set_key apply_write do_deal fst snd];
  [ intros zt zHt; rewrite ?upd_other by exact zHt; reflexivity
  | intros zev zHe; cbn; auto
  | intros zev zHe; cbn in zHe; rewrite ?upd_same;
    repeat match goal with H : _ \/ _ |- _ => destruct H end; subst; rewrite ?E; eauto 14
  | intros zk zexp ze zH; rewrite ?upd_same in zH; rewrite ?E in *; try discriminate zH;
    try (injection zH as <- <- <-; solve [right; reflexivity]); auto
  | intros zw zk zrev zold zH; rewrite ?upd_same in zH; rewrite ?E in *; try discriminate zH;
    try (injection zH as <- <- <- <-;
         first [ solve [right; left; unfold applied_in; cbn; eauto 10] | solve [right; right; eauto] ]); auto
  | intros zw zk zrev zold zH; rewrite ?E in *; try discriminate zH; rewrite ?upd_same; auto ].

Lemma sf_deal t s : step_facts t s (step_deal s t).
Proof.
  unfold step_deal. destruct (thr s t) eqn:E; try apply sf_refl; unfold do_deal;
    repeat match goal with |- step_facts _ _ (if ?x then _ else _) => destruct x end;
    sf_crush2 t E.
Qed.

Lemma sf_notify t s : step_facts t s (step_notify s t).
Proof.
  unfold step_notify. destruct (thr s t) eqn:E; try apply sf_refl.
  destruct (rpanic _); sf_crush2 t E.
  - unfold after_notify in zH. destruct w, r; discriminate zH.
  - unfold after_notify in zH. destruct w, r; discriminate zH.
  - inversion zH; subst. right. left. reflexivity.
Qed.

Lemma sf_invoke t q s : step_facts t s (step_invoke s t q).
Proof.
  unfold step_invoke. destruct (thr s t) eqn:E; try apply sf_refl.
  destruct q as [k v|k v prev|k exp|k prev]; try destruct (prev =? 0); sf_crush2 t E.
Qed.

Lemma sf_return t s : step_facts t s (step_return s t).
Proof.
  unfold step_return. destruct (thr s t) eqn:E; try apply sf_refl. sf_crush2 t E.
Qed.

Lemma sf_seq t s : step_facts t s (step_seq s).
Proof.
  unfold step_seq. destruct (seq_ready (rs s)); [|apply sf_refl]. constructor; cbn; auto.
Qed.

Lemma sf_engine cidx0 t e s : step_facts t s (step_engine cidx0 s t e).
Proof.
  unfold step_engine.
  destruct (thr s t) eqn:E; try apply sf_refl;
    repeat match goal with
           | |- step_facts _ _ (match ?x with _ => _ end) => destruct x eqn:?
           | |- step_facts _ _ (if ?x then _ else _) => destruct x eqn:?
           end;
    try apply sf_refl; sf_crush2 t E.
  all: try (unfold create_decide in zH; destruct (_ && _); discriminate zH).
  all: try (repeat right; do 9 eexists; split; reflexivity).
Qed.

(* ------------------------------------------------------------------ the invariant *)

Lemma res_ok_true r : res_ok r = true -> r = ROk.
Proof. destruct r; cbn; congruence. Qed.

Lemma bridge_facts t s s' : step_facts t s s' -> bridge_inv s -> bridge_inv s'.
Proof.
  intros F [Bm Bp Bf Bb].
  assert (Happ : forall t0 k rev, applied_in (log s) t0 k rev -> applied_in (log s') t0 k rev).
  { intros t0 k rev [q [a [f [v [p H]]]]]. exists q, a, f, v, p. apply (sf_log t s s' F). exact H. }
  constructor.
  - intros t0 k exp e H. destruct (N.eq_dec t0 t) as [->|Hne].
    + destruct (sf_must t s s' F k exp e H) as [H'|H']; [apply (Bm t k exp e H')|exact H'].
    + rewrite (sf_other t s s' F t0 Hne) in H. apply (Bm t0 k exp e H).
  - intros t0 w k rev old H. destruct (N.eq_dec t0 t) as [->|Hne].
    + destruct (sf_ok t s s' F w k rev old H) as [H'|[H'|[exp H']]].
      * apply Happ. apply (Bp t w k rev old H').
      * exact H'.
      * specialize (Bm t k exp ROk H'). discriminate.
    + rewrite (sf_other t s s' F t0 Hne) in H. apply Happ. apply (Bp t0 w k rev old H).
  - intros t0 rev H. destruct (sf_new t s s' F _ H) as [H'|[[q E]|[[r E]|[[r E]|[[w [k [rev0 [r [old [Hpc [E Hafter]]]]]]]|[q [k [a [rev0 [f [v [p [w [old [E _]]]]]]]]]]]]]]]; try discriminate E.
    + destruct (Bf t0 rev H') as [k Hk]. exists k. apply Happ. exact Hk.
    + injection E as -> -> Hr. symmetry in Hr. apply res_ok_true in Hr. subst r.
      exists k. apply Happ. apply (Bp t w k rev0 old Hpc).
  - intros t0 q k a rev f v p H. destruct (sf_new t s s' F _ H) as [H'|[[q' E]|[[r E]|[[r E]|[[w [k' [rev0 [r [old [Hpc [E Hafter]]]]]]]|[q' [k' [a' [rev0 [f' [v' [p' [w [old [E Hpc']]]]]]]]]]]]]]]; try discriminate E.
    + destruct (Bb t0 q k a rev f v p H') as [Hn|[w [old Hpc]]].
      * left. apply (sf_log t s s' F). exact Hn.
      * destruct (N.eq_dec t0 t) as [->|Hne].
        -- destruct (sf_leave t s s' F w k rev old Hpc) as [Hs|Hs]; [right; exists w, old; exact Hs|left; exact Hs].
        -- right. exists w, old. rewrite (sf_other t s s' F t0 Hne). exact Hpc.
    + injection E as -> -> -> -> -> -> -> ->. right. exists w, old. exact Hpc'.
Qed.

Lemma bridge_observe s : bridge_inv s -> bridge_inv (observe s).
Proof. intros [A B C D]. constructor; assumption. Qed.

Lemma bridge_step cidx0 s l : bridge_inv s -> bridge_inv (kstep cidx0 s l).
Proof.
  intros B. unfold kstep. destruct (rpanic (rs s)); [exact B|]. apply bridge_observe.
  destruct l as [t q|t|t e|t|t|].
  - apply (bridge_facts t s); [apply sf_invoke|exact B].
  - apply (bridge_facts t s); [apply sf_deal|exact B].
  - apply (bridge_facts t s); [apply sf_engine|exact B].
  - apply (bridge_facts t s); [apply sf_notify|exact B].
  - apply (bridge_facts t s); [apply sf_return|exact B].
  - apply (bridge_facts 0 s); [apply sf_seq|exact B].
Qed.

Lemma bridge_init d0 store : bridge_inv (kinit d0 store).
Proof. constructor; cbn; intros; try discriminate; contradiction. Qed.

(* in every reachable state of the concurrent write model: a valid notification has its applied commit, and an applied
   commit has its valid notification or is the write in flight at notify(k, rev, ok) *)
Theorem events_iff_applied cidx0 ls d0 store :
  let s := krun cidx0 ls (kinit d0 store) in
  (forall t rev, In (ENotified t rev true) (log s) -> exists k, applied_in (log s) t k rev) /\
  (forall t q k a rev f v p, In (EApplied t q k a rev f v p) (log s) ->
     In (ENotified t rev true) (log s) \/ exists w old, thr s t = PNotify w k rev ROk old).
Proof.
  cbv zeta. assert (H : bridge_inv (krun cidx0 ls (kinit d0 store))).
  { generalize (bridge_init d0 store). generalize (kinit d0 store). induction ls as [|l ls IH]; intros s B; [exact B|].
    cbn [krun fold_left]. apply IH. apply bridge_step. exact B. }
  split; [apply (bi_fwd _ H)|apply (bi_bwd _ H)].
Qed.
