(* C04, schedule cases: the revision-count clause of progress_ok. Every client request is stamped with exactly one
   revision, a repair with at most one: initial + clients + 1 <= marker <= initial + requests + 1.
   Model side: the allocation counter plus the requests still to be stamped (queued, or in flight before their Deal)
   never grows above initial + requests; plus the client requests still to be stamped never falls below
   initial + clients. *)
From KB Require Import Model.RevSys Model.KeySys Model.C01Cases Model.C02Cases Model.C04Cases.
From KB Require Import Proofs.RevSys Proofs.KeySys Proofs.KeySysLog Proofs.KeySysChain Proofs.KeySysJust Proofs.KeySysUniq
  Proofs.SchedCases Proofs.SchedLink Proofs.KeySysSucc Proofs.KeySysHdr.
From Coq Require Import ZifyN ZifyNat ZifyBool Lia.
Local Open Scope N_scope.

(* in flight and not yet stamped / the same for client requests only *)
Definition ubslot (p : pc) : N := if pre_deal_pc p && negb (is_idle p) then 1 else 0.
Definition lbslot (p : pc) : N :=
  match p with
  | PCreateDeal _ _ _ | PUpdateDeal _ _ _ | PDeleteGet _ _ | PDeleteMustDeal _ _ _ | PDeleteDeal _ _ _ _ => 1
  | _ => 0
  end.
Definition nlen (q : list req) : N := N.of_nat (length q).
Definition nclients (q : list req) : N := N.of_nat (length (filter (fun x => negb (is_rewrite x)) q)).

Section Steps.
Variable cidx0 : bool.

Lemma engine_slots s t e :
  ubslot (thr (step_engine cidx0 s t e) t) <= ubslot (thr s t) /\ lbslot (thr s t) <= lbslot (thr (step_engine cidx0 s t e) t).
Proof.
  unfold step_engine. destruct (thr s t) eqn:Ht; try (rewrite Ht; lia);
    repeat match goal with |- context [match ?x with _ => _ end] => destruct x end;
    try (rewrite Ht; unfold ubslot, lbslot; simpl; lia);
    simpl; rewrite ?upd_same; unfold ubslot, lbslot; simpl; try lia;
    unfold create_decide; destruct (snd _ && _); simpl; lia.
Qed.

Lemma after_notify_slots w k rev r old : ubslot (after_notify w k rev r old) = 0 /\ lbslot (after_notify w k rev r old) = 0.
Proof. destruct w, r; simpl; auto. Qed.

(* the acting thread's own steps other than invoke *)
Lemma slot_step s t l : kinv s ->
  (l = LDeal t \/ l = LNotify t \/ (exists e, l = LEngine t e) \/ l = LReturn t) ->
  dealt (rs (kstep cidx0 s l)) + ubslot (thr (kstep cidx0 s l) t) <= dealt (rs s) + ubslot (thr s t) /\
  dealt (rs s) + lbslot (thr s t) <= dealt (rs (kstep cidx0 s l)) + lbslot (thr (kstep cidx0 s l) t).
Proof.
  intros I Hl. destruct (rpanic (rs s)) eqn:Hp; [unfold kstep; rewrite Hp; lia|].
  rewrite (kstep_mid cidx0 s l Hp). cbn [rs thr observe].
  pose proof (rl_inv _ (ki_rs s I)) as RI.
  destruct Hl as [-> | [-> | [[e ->] | ->]]]; simpl kmid.
  - unfold step_deal. destruct (thr s t) eqn:Ht; try (rewrite Ht; lia); unfold do_deal; rewrite rstep_deal by exact Hp;
      repeat match goal with |- context [if ?x then _ else _] => destruct x end;
      cbn [rs thr set_thr add_log set_rs dealt r_deal]; rewrite upd_same; unfold ubslot, lbslot; simpl; lia.
  - unfold step_notify. destruct (thr s t) eqn:Ht; try (rewrite Ht; lia).
    pose proof (dealt_step (rs s) (RNotify t rev (res_ok r)) RI) as Hd. simpl in Hd.
    match goal with |- context [if rpanic ?x then _ else _] => destruct (rpanic x) end;
      cbn [rs thr set_thr add_log set_rs]; rewrite Hd.
    + rewrite Ht. lia.
    + rewrite upd_same. destruct (after_notify_slots w k rev r old) as [A B]. rewrite A, B.
      unfold ubslot, lbslot. simpl. lia.
  - rewrite engine_rs. pose proof (engine_slots s t e). lia.
  - unfold step_return. destruct (thr s t) eqn:Ht; try (rewrite Ht; lia).
    cbn [rs thr set_thr]. rewrite upd_same. unfold ubslot, lbslot. simpl. lia.
Qed.

Lemma slot_invoke s t q : rpanic (rs s) = false -> thr s t = PIdle ->
  dealt (rs (kstep cidx0 s (LInvoke t q))) = dealt (rs s) /\
  ubslot (thr (kstep cidx0 s (LInvoke t q)) t) = 1 /\
  lbslot (thr (kstep cidx0 s (LInvoke t q)) t) = (if is_rewrite q then 0 else 1).
Proof.
  intros Hp Ht. rewrite (kstep_mid cidx0 s _ Hp). cbn [rs thr observe kmid]. unfold step_invoke. rewrite Ht.
  cbn [rs thr set_thr]. rewrite upd_same. destruct q; simpl; auto. destruct (prev =? 0); simpl; auto.
Qed.

Lemma nclients_cons q queue : nclients (q :: queue) = (if is_rewrite q then 0 else 1) + nclients queue.
Proof.
  unfold nclients. cbn [filter]. destruct (is_rewrite q); cbn [negb length]; [lia|]. rewrite Nat2N.inj_succ. lia.
Qed.

Lemma run_local_count fuel : forall s t queue acc s' qu ac ls,
  run_local cidx0 fuel s t queue acc = (s', qu, ac, ls) -> kinv s ->
  kinv s' /\
  dealt (rs s') + nlen qu + ubslot (thr s' t) <= dealt (rs s) + nlen queue + ubslot (thr s t) /\
  dealt (rs s) + nclients queue + lbslot (thr s t) <= dealt (rs s') + nclients qu + lbslot (thr s' t).
Proof.
  induction fuel as [|fuel IH]; intros s t queue acc s' qu ac ls H I; simpl in H.
  - injection H as <- <- _ _. split; [exact I|lia].
  - destruct (rpanic (rs s)) eqn:Hp; [injection H as <- <- _ _; split; [exact I|lia]|].
    destruct (is_engine_pc (thr s t)); [injection H as <- <- _ _; split; [exact I|lia]|].
    assert (Hgo : forall l acc0, (l = LDeal t \/ l = LNotify t \/ l = LReturn t) ->
               (let '(s1, qu1, ac1, ls1) := run_local cidx0 fuel (kstep cidx0 s l) t queue acc0 in (s1, qu1, ac1, l :: ls1))
               = (s', qu, ac, ls) ->
               kinv s' /\
               dealt (rs s') + nlen qu + ubslot (thr s' t) <= dealt (rs s) + nlen queue + ubslot (thr s t) /\
               dealt (rs s) + nclients queue + lbslot (thr s t) <= dealt (rs s') + nclients qu + lbslot (thr s' t)).
    { intros l acc0 Hl E.
      destruct (run_local cidx0 fuel (kstep cidx0 s l) t queue acc0) as [[[s1 qu1] ac1] ls1] eqn:Er.
      injection E as <- <- _ _.
      destruct (IH _ _ _ _ _ _ _ _ Er (kinv_step cidx0 s l I)) as (A1 & A2 & A3).
      destruct (slot_step s t l I) as [B1 B2]; [destruct Hl as [-> | [-> | ->]]; auto|].
      split; [exact A1|lia]. }
    destruct (thr s t) eqn:Ht; try (eapply Hgo; [|exact H]; auto).
    destruct queue as [|q0 queue']; [injection H as <- <- _ _; rewrite ?Ht; split; [exact I|lia]|].
    destruct (run_local cidx0 fuel (kstep cidx0 s (LInvoke t q0)) t queue' acc) as [[[s1 qu1] ac1] ls1] eqn:Er.
    injection H as <- <- _ _.
    destruct (IH _ _ _ _ _ _ _ _ Er (kinv_step cidx0 s _ I)) as (A1 & A2 & A3).
    destruct (slot_invoke s t q0 Hp Ht) as (B1 & B2 & B3). rewrite B1, B2 in A2. rewrite B1, B3 in A3.
    split; [exact A1|]. rewrite nclients_cons.
    assert (E : nlen (q0 :: queue') = 1 + nlen queue') by (unfold nlen; cbn [length]; rewrite Nat2N.inj_succ; lia).
    rewrite E, ?Ht. change (ubslot PIdle) with 0. change (lbslot PIdle) with 0.
    destruct (is_rewrite q0); lia.
Qed.

Lemma resume_count s t e queue s' qu ac ls :
  resume cidx0 s t e queue = (s', qu, ac, ls) -> kinv s ->
  kinv s' /\
  dealt (rs s') + nlen qu + ubslot (thr s' t) <= dealt (rs s) + nlen queue + ubslot (thr s t) /\
  dealt (rs s) + nclients queue + lbslot (thr s t) <= dealt (rs s') + nclients qu + lbslot (thr s' t).
Proof.
  unfold resume. intros H I. destruct (is_engine_pc (thr s t)).
  - destruct (run_local cidx0 resume_fuel (kstep cidx0 s (LEngine t e)) t queue []) as [[[s1 qu1] ac1] ls1] eqn:Er.
    injection H as <- <- _ _.
    destruct (run_local_count _ _ _ _ _ _ _ _ _ Er (kinv_step cidx0 s _ I)) as (A1 & A2 & A3).
    destruct (slot_step s t (LEngine t e) I) as [B1 B2]; [right; right; left; eauto|].
    split; [exact A1|lia].
  - eapply run_local_count; eauto.
Qed.

Lemma rrun_seq_dealt n : forall r, rinv r -> dealt (rrun (repeat RSeq n) r) = dealt r.
Proof.
  induction n as [|n IH]; intros r RI; simpl; [reflexivity|].
  rewrite IH by (apply rinv_step, RI). rewrite (dealt_step r RSeq RI). reflexivity.
Qed.

Lemma seq_dealt s : kinv s -> dealt (rs (kstep cidx0 s LSeqTake)) = dealt (rs s).
Proof.
  intros I. unfold kstep. destruct (rpanic (rs s)); [reflexivity|]. rewrite rs_observe. unfold step_seq.
  destruct (seq_ready (rs s)); [|reflexivity]. cbn [rs set_rs].
  change seq_take_labels with (repeat RSeq 6). apply rrun_seq_dealt, (rl_inv _ (ki_rs s I)).
Qed.

Lemma seq_all_dealt fuel : forall s, kinv s -> dealt (rs (seq_all cidx0 fuel s)) = dealt (rs s).
Proof.
  induction fuel as [|fuel IH]; intros s I; simpl; [reflexivity|].
  destruct (enabled s LSeqTake); [|reflexivity]. rewrite IH by (apply kinv_step, I). apply seq_dealt, I.
Qed.
End Steps.

(* ---------- sums over the queues ---------- *)
Definition gsum (F : tid -> list req -> N) (l : list (tid * list req)) : N :=
  fold_right (fun tq acc => F (fst tq) (snd tq) + acc) 0 l.

Lemma gsum_ext F F' l : (forall t q, In t (map fst l) -> F t q = F' t q) -> gsum F l = gsum F' l.
Proof.
  induction l as [|[k y] l IH]; intros H; simpl; [reflexivity|].
  rewrite (H k y) by (left; reflexivity). rewrite IH; [reflexivity|]. intros t q Hin. apply H. right. exact Hin.
Qed.

Lemma gsum_set F F' t x : forall l,
  NoDup (map fst l) -> (forall t' q', t' <> t -> F t' q' = F' t' q') -> (~ In t (map fst l) -> F t [] = 0) ->
  exists R, gsum F l = F t (lookup [] t l) + R /\ gsum F' (set_assoc t x l) = F' t x + R.
Proof.
  induction l as [|[k y] l IH]; intros Nd Hext H0.
  - exists 0. simpl. rewrite H0 by (intros []). split; lia.
  - simpl in Nd. inversion Nd as [|? ? Hn Hd]; subst. simpl lookup. simpl set_assoc.
    destruct (N.eqb_spec k t) as [->|Hne].
    + exists (gsum F l). split; [reflexivity|]. simpl. f_equal. symmetry. apply gsum_ext.
      intros t' q' Hin. apply Hext. intros ->. contradiction.
    + destruct (IH Hd Hext) as [R [E1 E2]]; [intros Hni; apply H0; simpl; intros [E|Hin]; [congruence|contradiction]|].
      exists (F k y + R). simpl. rewrite E1, E2, (Hext k y Hne). split; lia.
Qed.

Lemma gsum_zero F l : (forall t q, In (t, q) l -> F t q = 0) -> gsum F l = 0.
Proof.
  induction l as [|[k y] l IH]; intros H; simpl; [reflexivity|].
  rewrite (H k y) by (left; reflexivity). rewrite IH; [reflexivity|]. intros t q Hin. apply H. right. exact Hin.
Qed.

Definition Uf (s : state) (t : tid) (q : list req) : N := nlen q + ubslot (thr s t).
Definition Lf (s : state) (t : tid) (q : list req) : N := nclients q + lbslot (thr s t).

Lemma coupled_revcount cidx0 steps : forall s queues prev sf qf,
  run_steps cidx0 s queues prev steps = Some (sf, qf) -> kinv s -> NoDup (map fst queues) -> active_in s queues ->
  dealt (rs sf) + gsum (Uf sf) qf <= dealt (rs s) + gsum (Uf s) queues /\
  dealt (rs s) + gsum (Lf s) queues <= dealt (rs sf) + gsum (Lf sf) qf.
Proof.
  induction steps as [|st steps IH]; intros s queues prev sf qf H I Nd Act; cbn [run_steps] in H.
  - injection H as <- <-. lia.
  - set (t := st_t st) in *.
    destruct (ekind_eqb (st_kind st) KHold) eqn:Ek.
    + match type of H with (if ?c then _ else _) = _ => destruct c eqn:Ec; [|discriminate] end.
      remember (seq_all cidx0 seq_fuel s) as s2 eqn:Es2.
      assert (I2 : kinv s2) by (subst s2; apply seq_all_ok, I).
      assert (Hd : dealt (rs s2) = dealt (rs s)) by (subst s2; apply seq_all_dealt, I).
      assert (Hthr : forall u, thr s2 u = thr s u) by (intros u; subst s2; apply seq_all_frame).
      destruct (IH _ _ _ _ _ H I2 Nd) as [A1 A2]; [intros u Hu; apply Act; rewrite <- Hthr; exact Hu|].
      rewrite (gsum_ext (Uf s2) (Uf s) queues) in A1 by (intros u q _; unfold Uf; rewrite Hthr; reflexivity).
      rewrite (gsum_ext (Lf s2) (Lf s) queues) in A2 by (intros u q _; unfold Lf; rewrite Hthr; reflexivity).
      lia.
    + destruct (resume cidx0 s t (st_env st) (lookup [] t queues)) as [[[s1 qu] resps] ls] eqn:Er.
      match type of H with (if ?c then _ else _) = _ => destruct c eqn:Ec; [|discriminate] end.
      remember (seq_all cidx0 seq_fuel s1) as s2 eqn:Es2.
      destruct (resume_count cidx0 _ _ _ _ _ _ _ _ Er I) as (I1 & C1 & C2).
      assert (I2 : kinv s2) by (subst s2; apply seq_all_ok, I1).
      assert (Hd : dealt (rs s2) = dealt (rs s1)) by (subst s2; apply seq_all_dealt, I1).
      assert (Hthr : forall u, thr s2 u = thr s1 u) by (intros u; subst s2; apply seq_all_frame).
      assert (Hoth : forall u, u <> t -> thr s2 u = thr s u).
      { intros u Hne. rewrite Hthr. destruct (resume_other cidx0 _ _ _ _ _ _ _ _ u Hne Er) as [A _]. exact A. }
      assert (Hidle : ~ In t (map fst queues) -> thr s t = PIdle).
      { intros Hni. destruct (is_idle (thr s t)) eqn:Ei; [destruct (thr s t); simpl in Ei; try discriminate; reflexivity|].
        exfalso. apply Hni, Act. intros E. rewrite E in Ei. discriminate. }
      destruct (IH _ _ _ _ _ H I2 (set_assoc_NoDup t qu queues Nd)) as [A1 A2].
      { intros u Hu. apply set_assoc_In. destruct (N.eq_dec u t) as [->|Hne]; [auto|]. left. apply Act.
        rewrite <- (Hoth u Hne). exact Hu. }
      destruct (gsum_set (Uf s) (Uf s2) t qu queues Nd) as [R [E1 E2]].
      { intros u q Hne. unfold Uf. rewrite (Hoth u Hne). reflexivity. }
      { intros Hni. unfold Uf, nlen, ubslot. rewrite (Hidle Hni). reflexivity. }
      destruct (gsum_set (Lf s) (Lf s2) t qu queues Nd) as [R' [E1' E2']].
      { intros u q Hne. unfold Lf. rewrite (Hoth u Hne). reflexivity. }
      { intros Hni. unfold Lf, nclients, lbslot. rewrite (Hidle Hni). reflexivity. }
      rewrite E2 in A1. rewrite E2' in A2. rewrite E1, E1'. unfold Uf, Lf in *. rewrite (Hthr t) in *. lia.
Qed.

Lemma gsum_init_U d0 store (progs : list (tid * list req)) :
  gsum (Uf (kinit d0 store)) progs = N.of_nat (length (flat_map snd progs)).
Proof.
  induction progs as [|[t q] progs IH]; simpl; [reflexivity|]. rewrite IH, app_length. unfold Uf, nlen, ubslot. simpl. lia.
Qed.

Lemma filter_app' {A} (f : A -> bool) l l' : filter f (l ++ l') = filter f l ++ filter f l'.
Proof. induction l as [|a l IH]; simpl; [reflexivity|]. destruct (f a); simpl; rewrite IH; reflexivity. Qed.

Lemma gsum_init_L d0 store (progs : list (tid * list req)) :
  gsum (Lf (kinit d0 store)) progs = N.of_nat (length (filter (fun x => negb (is_rewrite x)) (flat_map snd progs))).
Proof.
  induction progs as [|[t q] progs IH]; simpl; [reflexivity|]. rewrite IH, filter_app', app_length.
  unfold Lf, nclients, lbslot. simpl. lia.
Qed.

(* the revision-count clause of progress_ok *)
Theorem sched_revcount_sound c : sched_valid c -> sched_check_core c = true ->
  (sc_d0 c + N.of_nat (nclient c) + 1 <=? sc_marker c) && (sc_marker c <=? sc_d0 c + N.of_nat (nreqs c) + 1) = true.
Proof.
  intros V H. pose proof H as H0. unfold sched_check_core in H.
  destruct (run_steps (sc_cidx0 c) _ _ _ _) as [[sf qf]|] eqn:Er; [|discriminate].
  pose proof (sched_valid_wf c V) as Wf. destruct V as (Nd & _ & _).
  destruct (coupled_revcount _ _ _ _ _ _ _ Er (kinv_init _ _ Wf) Nd) as [A1 A2]; [intros t Hni; exfalso; apply Hni; reflexivity|].
  rewrite gsum_init_U in A1. rewrite gsum_init_L in A2. cbn [rs kinit dealt rinit] in A1, A2.
  pose proof (sched_core_final c sf qf Er H0) as Hfin.
  rewrite (gsum_zero (Uf sf) qf) in A1
    by (intros t q Hin; destruct (Hfin t q Hin) as [-> Ht]; unfold Uf, nlen, ubslot; rewrite Ht; reflexivity).
  rewrite (gsum_zero (Lf sf) qf) in A2
    by (intros t q Hin; destruct (Hfin t q Hin) as [-> Ht]; unfold Lf, nclients, lbslot; rewrite Ht; reflexivity).
  repeat (apply andb_true_iff in H; destruct H as [H ?]).
  match goal with Hm : (sc_marker c =? dealt (rs sf) + 1) = true |- _ => apply N.eqb_eq in Hm; rewrite Hm end.
  unfold nclient, nreqs. apply andb_true_iff. split; apply N.leb_le; lia.
Qed.

Theorem sched_revcount_sound_checked c : sched_check c = true ->
  (sc_d0 c + N.of_nat (nclient c) + 1 <=? sc_marker c) && (sc_marker c <=? sc_d0 c + N.of_nat (nreqs c) + 1) = true.
Proof. intros H. destruct (sched_check_split c H). apply sched_revcount_sound; assumption. Qed.
