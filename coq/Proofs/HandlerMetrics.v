(* Every metric a request handler emits itself is an instance of a row of any table that covers the
   handler rows; with the table check this makes handler emissions panic-free. *)
From KB Require Import Base.Bytes Model.Metrics Model.Handlers Model.HandlerMetrics Proofs.Metrics Proofs.C20Cases.
Open Scope N_scope.

Lemma class_safe_value a v : class_safe_le a = true -> value_in a v = true -> valid_utf8 v = true.
Proof.
  destruct a; simpl; intros Hs Hv; try discriminate; try exact Hv.
  - apply seqb_eq in Hv. subst. exact Hs.
  - apply mem_In in Hv. rewrite forallb_forall in Hs. apply Hs; exact Hv.
Qed.

Lemma class_le_value a b v : class_le a b = true -> value_in a v = true -> value_in b v = true.
Proof.
  destruct b; simpl; intros Hle Hv; try reflexivity;
    try (eapply class_safe_value; eassumption).
  - (* VConst w *)
    destruct a; simpl in *; try discriminate.
    + apply seqb_eq in Hle. subst. exact Hv.
    + apply mem_In in Hv. rewrite forallb_forall in Hle. specialize (Hle _ Hv). exact Hle.
  - (* VOneOf ws *)
    destruct a; simpl in *; try discriminate.
    + apply seqb_eq in Hv. subst. exact Hle.
    + apply mem_In in Hv. apply mem_In. apply subsetb_incl in Hle. apply Hle; exact Hv.
Qed.

Lemma labels_le_in hs : forall ts ls, labels_le hs ts = true -> labels_in hs ls = true -> labels_in ts ls = true.
Proof.
  induction hs as [|[n c] hs IH]; intros [|[n' c'] ts] ls; simpl; try discriminate; [intros _ H; exact H|].
  destruct ls as [|[m v] ls]; [intros _ H; discriminate|].
  rewrite !andb_true_iff. intros [[Hn Hc] Hr] [[Hm Hv] Hl].
  apply seqb_eq in Hn. subst n'. repeat split.
  - exact Hm.
  - eapply class_le_value; eassumption.
  - eapply IH; eassumption.
Qed.

Lemma row_le_instance h t e : row_le h t = true -> instance_of h e = true -> instance_of t e = true.
Proof.
  unfold row_le, instance_of. rewrite !andb_true_iff. intros [[Hk Hb] Hs] [[Hk' Hb'] Hs'].
  destruct (r_name h) as [n|]; [|discriminate]. destruct (r_name t) as [n'|]; [|discriminate].
  destruct (r_labels h) as [ls|]; [|discriminate]. destruct (r_labels t) as [ls'|]; [|discriminate].
  apply andb_true_iff in Hb as [Hn Hl]. apply andb_true_iff in Hb' as [Hn' Hl'].
  apply seqb_eq in Hn. subst n'.
  repeat split.
  - destruct (r_kind h), (r_kind t), (e_kind e); simpl in *; try discriminate; reflexivity.
  - rewrite Hn'. simpl. eapply labels_le_in; eassumption.
  - destruct (r_sign h), (r_sign t); simpl in *; try discriminate; try reflexivity; exact Hs'.
Qed.

Ltac listed := unfold all_hkinds; simpl; repeat (first [left; reflexivity | right]).
Lemma kind_of_listed r : In (kind_of r) all_hkinds.
Proof.
  destruct r; simpl; try solve [listed].
  - destruct (empty end_); [solve [listed]|]. destruct (rev =? 1888)%Z; [solve [listed]|]. destruct count_only; solve [listed].
  - destruct (txn_shape_of cmp succ fail); solve [listed].
Qed.

Lemma handler_rows_listed r h : In h (handler_rows r) -> In h all_handler_rows.
Proof.
  intros H. unfold all_handler_rows. apply in_flat_map. exists (kind_of r). split; [apply kind_of_listed|exact H].
Qed.

(* what a handler emits is in the table *)
Theorem handlers_emit_in_table t :
  covers t all_handler_rows = true ->
  forall r h e, In h (handler_rows r) -> instance_of h e = true -> exists tr, In tr t /\ instance_of tr e = true.
Proof.
  intros Hc r h e Hin Hi. unfold covers in Hc. rewrite forallb_forall in Hc.
  specialize (Hc h (handler_rows_listed r h Hin)). apply existsb_exists in Hc as (tr & Htr & Hle).
  exists tr. split; [exact Htr|]. eapply row_le_instance; eassumption.
Qed.

(* the whole handler-level statement: for every request of either API (every constructor of [request], every
   key / value / revision / limit, every transaction shape), on a leader:
   - the handler does not reach an explicit panic source and allocates at most one revision;
   - every metric it emits itself is an instance of a table row, hence — the table passing the check — the
     Prometheus wrapper does not panic on it in any registry state reachable by such emissions. *)
Theorem handlers_total g t :
  check (map fst g) t = true -> Forall (fun v => valid_utf8 v = true) (map snd g) -> covers t all_handler_rows = true ->
  forall r,
    handle r <> HPanic /\
    (forall n, handle r = HRun n -> n <= 1) /\
    (forall s h e, reachable g t s -> In h (handler_rows r) -> instance_of h e = true -> snd (emit s e) = Ok).
Proof.
  intros Hchk Hg Hcov r. split; [apply handle_no_panic|]. split; [apply handle_alloc_le_1|].
  intros s h e Hs Hin Hi. apply (metrics_sound g t s e Hchk Hg Hs).
  eapply handlers_emit_in_table; eassumption.
Qed.
