(* C18 — who may write, stream and read.  Every RPC of both front-ends, the background compaction
   loop and the /status handler as a decision function of (role, proxy enabled, what the leader's
   /status endpoint does), transcribed from pkg/server/etcd/{kv,watch}.go, pkg/server/brain/*.go,
   pkg/server/server.go:151-165 and pkg/server/service/revision/revision.go:114-167; plus an
   interleaving model of follower reads (single-flight fetch, SetCurrentRevision = tso.Commit,
   load, scan).  Executable definitions only. *)
From KB Require Export Base.Cases.
Local Open Scope N_scope.

Inductive role := Leader | Follower.

(* what GET http://<leader>/status does *)
Inductive reach :=
| ReachOk (rev : N)        (* 200 {"Revision":rev} *)
| Unreachable              (* connection refused / timeout *)
| Err400                   (* 400: "i'm not leader" *)
| Garbage200.              (* 200 with a body that is not the expected JSON *)

(* etcd Range with an explicit Revision: the field is overloaded (a pinned read revision for get/list; ignored by
   count-only, which counts at the node's read revision; 1888 with a range_end selects the partition list) *)
Inductive rmode := MGet | MList | MCount.
Inductive revsel := RvPinned     (* a revision below the node's current read revision *)
                  | RvCurrent    (* the node's current read revision *)
                  | RvFuture     (* above it *)
                  | RvMagic.     (* 1888, with the node's read revision above 1888 *)

Inductive kind :=
(* etcd front-end *)
| ERangeGet | ERangeList | ERangeCount | ERangePartition
| ERangeAt (m : rmode) (v : revsel)
| ETxnCreate | ETxnDelete | ETxnUpdate | ETxnCompact | ETxnInvalid
| EWatchPure               (* StartRevision >= 0, key starts with "/" *)
| EWatchStream             (* StartRevision < 0: range stream *)
| EWatchInvalidKey         (* StartRevision >= 0, key does not start with "/" *)
| ECompact | EPut | EDeleteRange | ELeaseGrant | ELeaseRevoke | EMemberList
| ELeaseKeepAlive | ELeaseTimeToLive | ELeaseLeases | EMemberAdd | EMemberRemove | EMemberUpdate | EMemberPromote
(* brain front-end *)
| BCreate | BUpdate | BDelete | BCompact
| BGet | BRange | BCount | BListPartition | BRangeStream | BWatch
(* background *)
| CompactLoopTick          (* one firing of brain.Server.compactLoop's ticker *)
| StatusHandler.           (* the /status HTTP handler of this node *)

Inductive rclass := RespOk | RespUnavailable | RespError | RespNone.
Inductive bcall := BNone | BMutate | BWatchCall | BRead.
Inductive fwd := FNone | FTxn | FWatch.

Record effects := mkEff {
  f_resp : rclass;           (* what the caller gets *)
  f_fetch : bool;            (* a /status fetch was attempted *)
  f_set : option N;          (* SetCurrentRevision(v) was called on the local backend *)
  f_backend : bcall;         (* the local backend call made, if any *)
  f_forward : fwd            (* handed to the proxy forwarder *)
}.

(* SyncReadRevision (revision.go:114-129): leader: nothing.  Follower: fetch; an HTTP error, a
   non-200 status or a 200 body that is not the JSON document is an error (the json.Unmarshal error
   is returned since the C18-F2 fix); then SetCurrentRevision. *)
Inductive sync_result := SyncSkip | SyncSet (rev : N) | SyncFail.
Definition sync_read (r : role) (l : reach) : sync_result :=
  match r with
  | Leader => SyncSkip
  | Follower =>
      match l with
      | ReachOk rev => SyncSet rev
      | Unreachable | Err400 | Garbage200 => SyncFail
      end
  end.

Definition read_effects (r : role) (l : reach) : effects :=
  match sync_read r l with
  | SyncSkip => mkEff RespOk false None BRead FNone
  | SyncSet rev => mkEff RespOk true (Some rev) BRead FNone
  | SyncFail => mkEff RespError true None BNone FNone
  end.

Definition quiet (c : rclass) : effects := mkEff c false None BNone FNone.

Definition roles_effects (k : kind) (r : role) (proxy : bool) (l : reach) : effects :=
  match k with
  (* kv.go:37-76: every Range mode syncs first and returns the error *)
  | ERangeGet | ERangeList | ERangeCount | ERangePartition => read_effects r l
  (* whatever Revision says: the sync is unconditional *)
  | ERangeAt _ _ => read_effects r l
  (* kv.go:78-142: the role check precedes the recognisers *)
  | ETxnCreate | ETxnDelete | ETxnUpdate =>
      match r with
      | Leader => mkEff RespOk false None BMutate FNone
      | Follower => if proxy then mkEff RespOk false None BNone FTxn else quiet RespUnavailable
      end
  | ETxnCompact =>
      match r with
      | Leader => quiet RespOk                                   (* canned reply, no backend call *)
      | Follower => if proxy then mkEff RespOk false None BNone FTxn else quiet RespUnavailable
      end
  | ETxnInvalid =>
      match r with
      | Leader => quiet RespError
      | Follower => if proxy then mkEff RespOk false None BNone FTxn else quiet RespUnavailable
      end
  (* watch.go:98-108, 275-307 *)
  | EWatchPure =>
      match r with
      | Leader => mkEff RespOk false None BWatchCall FNone
      | Follower => if proxy then mkEff RespOk false None BNone FWatch else quiet RespUnavailable
      end
  (* watch.go:204-218: range stream = a read *)
  | EWatchStream => read_effects r l
  (* watch.go:284-288: not a pure watch: cancelled before any backend or peer call, whatever the role *)
  | EWatchInvalidKey => quiet RespError
  (* kv.go:144-158, lease.go, cluster.go *)
  | ECompact | ELeaseGrant | EMemberList => quiet RespOk
  | EPut | EDeleteRange | ELeaseRevoke => quiet RespError
  | ELeaseKeepAlive | ELeaseTimeToLive | ELeaseLeases | EMemberAdd | EMemberRemove | EMemberUpdate | EMemberPromote => quiet RespError
  (* brain/write.go: checkLeaderWrite; the proxy plays no part in the brain API *)
  | BCreate | BUpdate | BDelete | BCompact =>
      match r with
      | Leader => mkEff RespOk false None BMutate FNone
      | Follower => quiet RespUnavailable
      end
  (* brain/read.go *)
  | BGet | BRange | BCount | BListPartition | BRangeStream => read_effects r l
  (* brain/watch.go:33-36 *)
  | BWatch =>
      match r with
      | Leader => mkEff RespOk false None BWatchCall FNone
      | Follower => quiet RespUnavailable
      end
  (* brain/server.go:61-77 *)
  | CompactLoopTick =>
      match r with
      | Leader => mkEff RespNone false None BMutate FNone
      | Follower => quiet RespNone
      end
  (* server.go:151-165 *)
  | StatusHandler =>
      match r with
      | Leader => quiet RespOk
      | Follower => quiet RespError
      end
  end.

(* two overlapping follower reads: A has adopted revision r and is about to scan; B then syncs against an
   endpoint behaving as l.  Result: B's response class, every SetCurrentRevision value in order, the revision A
   scans at (SetCurrentRevision = tso.Commit only raises the read revision: the larger of the two). *)
Definition overlap_model (r : N) (l : reach) : rclass * list N * N :=
  match sync_read Follower l with
  | SyncFail => (RespError, [r], r)
  | SyncSet v => (RespOk, [r; v], N.max r v)
  | SyncSkip => (RespOk, [r], r)
  end.

(* one follower node, requests one after the other: its read revision, what the syncer has installed (installRevision
   drops a fetched revision that is not larger), the SetCurrentRevision values so far.  A request does what its row of
   the table says; SetCurrentRevision only raises the read revision; a read is answered at the node's read revision. *)
Record fnode := mkFN { fn_rev : N; fn_synced : N; fn_sets : list N }.
Definition fn_init : fnode := mkFN 0 0 [].
Definition fn_apply (e : effects) (s : fnode) : fnode :=
  match f_set e with
  | Some v => if fn_synced s <? v then mkFN (N.max (fn_rev s) v) v (fn_sets s ++ [v]) else s
  | None => s
  end.
Definition fn_req (k : kind) (proxy : bool) (l : reach) (s : fnode) : fnode * (rclass * N) :=
  let e := roles_effects k Follower proxy l in
  let s' := fn_apply e s in (s', (f_resp e, fn_rev s')).

(* a follower that has served a read at r1; the leader moves on to r2; a second read of the given kind (any mode, any
   value of the Revision field): every SetCurrentRevision value, and the revision the second read is answered at *)
Definition follow_model (m : rmode) (v : revsel) (r1 r2 : N) : list N * N :=
  let s1 := fst (fn_req ERangeList false (ReachOk r1) fn_init) in
  let '(s2, (_, h)) := fn_req (ERangeAt m v) false (ReachOk r2) s1 in
  (fn_sets s2, h).

(* taking over (leader.go OnStartedLeading): SetCurrentRevision(version of the lock) runs BEFORE the leader flag
   is stored, so "leader flag => revision installed".  Phases of the node that wins the election: *)
Inductive tk_phase := TkFollower | TkInstalling (* inside SetCurrentRevision(version), not yet stored *) | TkLeading.
Definition tk_flag (p : tk_phase) : bool := match p with TkLeading => true | _ => false end.
(* SetCurrentRevision(version) raises the read revision: the larger of what the node had adopted and the lock version *)
Definition tk_revision (p : tk_phase) (old version : N) : N := match p with TkLeading => N.max old version | _ => old end.
Definition tk_role (p : tk_phase) : role := if tk_flag p then Leader else Follower.
(* what a follower pointed at this node's /status gets for a List while the node is in phase p *)
Definition tk_peer_read (p : tk_phase) (old version : N) : effects :=
  match f_resp (roles_effects StatusHandler (tk_role p) false Unreachable) with
  | RespOk => roles_effects ERangeList Follower false (ReachOk (tk_revision p old version))
  | _ => roles_effects ERangeList Follower false Err400
  end.

(* a follower with the etcd proxy: a transaction it forwards is answered by the leader at revision w, the answer is
   delayed; meanwhile the leader commits up to r and the follower serves a read (syncs: installs r); the answer
   arrives; a second read (its fetch finds r again, which installRevision drops).  Forwarding never touches the read
   revision (roles_effects: f_set = None).  Result: every SetCurrentRevision value, the revisions the two reads are
   answered at. *)
Definition forward_model (w r : N) : list N * N * N :=
  let s1 := fst (fn_req ETxnCreate true (ReachOk w) fn_init) in
  let '(s2, (_, h1)) := fn_req ERangeList true (ReachOk r) s1 in
  let '(s3, (_, h2)) := fn_req ERangeList true (ReachOk r) s2 in
  (fn_sets s3, h1, h2).

(* the outcome vocabulary of DESIGN.md, derived from the effects *)
Inductive outcome :=
| RejectUnavailable | Forward | ApplyLocal | WatchLocal | ServeLocal | ServeLocalAt (rev : N) | Error | Stub | Nothing.

Definition outcome_of (e : effects) : outcome :=
  match f_forward e, f_backend e, f_resp e with
  | FTxn, _, _ | FWatch, _, _ => Forward
  | FNone, BMutate, _ => ApplyLocal
  | FNone, BWatchCall, _ => WatchLocal
  | FNone, BRead, _ => match f_set e with Some rev => ServeLocalAt rev | None => ServeLocal end
  | FNone, BNone, RespUnavailable => RejectUnavailable
  | FNone, BNone, RespError => Error
  | FNone, BNone, RespOk => Stub
  | FNone, BNone, RespNone => Nothing
  end.

Definition is_read (k : kind) : bool :=
  match k with
  | ERangeGet | ERangeList | ERangeCount | ERangePartition | ERangeAt _ _ | EWatchStream
  | BGet | BRange | BCount | BListPartition | BRangeStream => true
  | _ => false
  end.

(* the requests that write or open a watch on the store: only the leader serves them *)
Definition is_write (k : kind) : bool :=
  match k with
  | ETxnCreate | ETxnDelete | ETxnUpdate | ETxnCompact | ETxnInvalid | BCreate | BUpdate | BDelete | BCompact => true
  | _ => false
  end.
Definition is_stream (k : kind) : bool := match k with EWatchPure | BWatch => true | _ => false end.
(* what the etcd proxy of a follower forwards them as (the brain API is not proxied) *)
Definition etcd_fwd (k : kind) : fwd :=
  match k with
  | ETxnCreate | ETxnDelete | ETxnUpdate | ETxnCompact | ETxnInvalid => FTxn
  | EWatchPure => FWatch
  | _ => FNone
  end.

Definition all_kinds : list kind :=
  [ERangeGet; ERangeList; ERangeCount; ERangePartition;
   ERangeAt MGet RvPinned; ERangeAt MGet RvCurrent; ERangeAt MGet RvFuture; ERangeAt MGet RvMagic;
   ERangeAt MList RvPinned; ERangeAt MList RvCurrent; ERangeAt MList RvFuture; ERangeAt MList RvMagic;
   ERangeAt MCount RvPinned; ERangeAt MCount RvCurrent; ERangeAt MCount RvFuture; ERangeAt MCount RvMagic;
   ETxnCreate; ETxnDelete; ETxnUpdate; ETxnCompact; ETxnInvalid;
   EWatchPure; EWatchStream; EWatchInvalidKey; ECompact; EPut; EDeleteRange; ELeaseGrant; ELeaseRevoke; EMemberList;
   ELeaseKeepAlive; ELeaseTimeToLive; ELeaseLeases; EMemberAdd; EMemberRemove; EMemberUpdate; EMemberPromote;
   BCreate; BUpdate; BDelete; BCompact; BGet; BRange; BCount; BListPartition; BRangeStream; BWatch;
   CompactLoopTick; StatusHandler].

(* ================================================================== interleaved follower reads *)

Inductive tid := TA | TB.
Inductive label := LAdv | LStep (t : tid).

Inductive pc :=
| PInit                    (* the read has not begun *)
| PBegun                   (* request accepted; about to call singleFlightGetRevisionFromLeader *)
| PWaitLeader              (* owns a flight; the HTTP request is on its way *)
| PHandled (v : N)         (* the leader's handler has read its committed revision v; reply pending *)
| PJoined                  (* waiting for another thread's flight *)
| PGot (v : N)             (* has the fetched revision; about to take the syncer's mutex (installRevision) *)
| PBlocked (v : N)         (* waiting for the mutex *)
| PInstalling (v : N)      (* holds the mutex, v is larger than everything installed: inside SetCurrentRevision(v) *)
| PSet                     (* installRevision returned; about to load the read revision and scan *)
| PDone.

Record thr := mkThr { t_pc : pc; t_begin : N; t_got : N; t_scan : N; t_joined : bool }.
Definition thr_init : thr := mkThr PInit 0 0 0 false.

Record isys := mkI {
  i_leader : N;                      (* the leader's committed revision *)
  i_frev : N;                        (* the follower's committed (= read) revision *)
  i_synced : N;                      (* revisionSyncer.synced: the largest fetched revision installed so far *)
  i_mutex : option tid;              (* holder of revisionSyncer.syncMu *)
  i_flight : option tid;             (* owner of the single flight in progress *)
  i_a : thr; i_b : thr;
  i_sets : list (tid * N * N)        (* SetCurrentRevision calls: (thread, value before, value written), oldest first *)
}.

Definition i_init (leader frev : N) : isys := mkI leader frev 0 None None thr_init thr_init [].

Definition get_thr (s : isys) (t : tid) : thr := match t with TA => i_a s | TB => i_b s end.
Definition set_thr (s : isys) (t : tid) (x : thr) : isys :=
  match t with
  | TA => mkI (i_leader s) (i_frev s) (i_synced s) (i_mutex s) (i_flight s) x (i_b s) (i_sets s)
  | TB => mkI (i_leader s) (i_frev s) (i_synced s) (i_mutex s) (i_flight s) (i_a s) x (i_sets s)
  end.
Definition set_flight (s : isys) (f : option tid) : isys :=
  mkI (i_leader s) (i_frev s) (i_synced s) (i_mutex s) f (i_a s) (i_b s) (i_sets s).
Definition set_mutex (s : isys) (m : option tid) : isys :=
  mkI (i_leader s) (i_frev s) (i_synced s) m (i_flight s) (i_a s) (i_b s) (i_sets s).
Definition other (t : tid) : tid := match t with TA => TB | TB => TA end.
Definition tid_eqb (a b : tid) : bool := match a, b with TA, TA | TB, TB => true | _, _ => false end.

Definition with_pc (x : thr) (p : pc) : thr := mkThr p (t_begin x) (t_got x) (t_scan x) (t_joined x).

(* installRevision, first half: take the mutex (or wait for it); under it compare with synced; a revision that
   is not larger is dropped without touching the backend *)
Definition arrive_lock (s : isys) (u : tid) (v : N) : isys :=
  let x := get_thr s u in
  match i_mutex s with
  | Some _ => set_thr s u (with_pc x (PBlocked v))
  | None =>
      if i_synced s <? v then set_mutex (set_thr s u (with_pc x (PInstalling v))) (Some u)
      else set_thr s u (with_pc x PSet)
  end.

(* [share]: concurrent fetches share one flight (singleflight, as in the code).
   [refetch]: a read that joined a flight started before it arrived fetches again (the repair of C18-F3). *)
Definition step (refetch share : bool) (s : isys) (l : label) : isys :=
  match l with
  | LAdv => mkI (i_leader s + 1) (i_frev s) (i_synced s) (i_mutex s) (i_flight s) (i_a s) (i_b s) (i_sets s)
  | LStep t =>
      let x := get_thr s t in
      match t_pc x with
      | PInit => set_thr s t (mkThr PBegun (i_leader s) 0 0 false)
      | PBegun =>
          match i_flight s with
          | Some _ =>
              if share then set_thr s t (mkThr PJoined (t_begin x) 0 0 true)
              else set_thr s t (with_pc x PWaitLeader)
          | None => set_flight (set_thr s t (with_pc x PWaitLeader)) (Some t)
          end
      | PWaitLeader => set_thr s t (with_pc x (PHandled (i_leader s)))
      | PHandled v =>
          (* the reply arrives: the flight ends, the owner and every joiner receive v *)
          let s1 := set_thr s t (mkThr (PGot v) (t_begin x) v (t_scan x) (t_joined x)) in
          let y := get_thr s1 (other t) in
          let s2 := match t_pc y with
                    | PJoined =>
                        if refetch then set_thr s1 (other t) (mkThr PBegun (t_begin y) 0 0 false)
                        else set_thr s1 (other t) (mkThr (PGot v) (t_begin y) v (t_scan y) (t_joined y))
                    | _ => s1
                    end in
          match i_flight s2 with
          | Some o => if tid_eqb o t then set_flight s2 None else s2
          | None => s2
          end
      | PJoined => s                                   (* blocked in singleflight.Do *)
      | PGot v => arrive_lock s t v
      | PBlocked _ => s                                (* blocked on the mutex *)
      | PInstalling v =>
          (* second half: synced = v, SetCurrentRevision(v) (tso.Commit: the read revision is raised to v, never lowered),
             unlock; a waiting thread gets the mutex *)
          let s1 := set_thr s t (with_pc x PSet) in
          let s2 := mkI (i_leader s1) (N.max (i_frev s) v) v None (i_flight s1) (i_a s1) (i_b s1) (i_sets s1 ++ [(t, i_frev s, v)]) in
          match t_pc (get_thr s2 (other t)) with
          | PBlocked v' => arrive_lock s2 (other t) v'
          | _ => s2
          end
      | PSet => set_thr s t (mkThr PDone (t_begin x) (t_got x) (i_frev s) (t_joined x))
      | PDone => s
      end
  end.

Definition enabled (s : isys) (l : label) : bool :=
  match l with
  | LAdv => true
  | LStep t => match t_pc (get_thr s t) with PJoined | PBlocked _ | PDone => false | _ => true end
  end.

Definition run (refetch share : bool) (s : isys) (ls : list label) : isys := fold_left (step refetch share) ls s.

(* the code as it is: shared flights; a read that joined a flight started before it arrived fetches again *)
Definition run_code := run true true.

Definition thr_fresh (x : thr) : bool :=
  match t_pc x with PDone => t_begin x <=? t_scan x | _ => true end.
Definition fresh (s : isys) : bool := thr_fresh (i_a s) && thr_fresh (i_b s).

(* on a run: a SetCurrentRevision lowered the follower's revision (cannot happen any more once the first
   fetched revision is installed); a read joined a flight (finding C18-F3) *)
Definition lowering_set (s : isys) : bool := existsb (fun x => match x with (_, before, v) => v <? before end) (i_sets s).
Definition some_joined (s : isys) : bool := t_joined (i_a s) || t_joined (i_b s).
