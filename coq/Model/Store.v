(* The engine contract of pkg/storage/interface.go:80-138 as an executable specification:
   an ordered map kept strictly sorted by bcmp, point reads, range iteration in both directions,
   and the batch language with all-or-nothing evaluation.  Definitions only. *)
From KB Require Export Base.Bytes Base.Cases.
From Coq Require Export Sorted.

(* ---------- sorted association maps ---------- *)

Definition smap (V : Type) := list (bytes * V).
Definition store := smap bytes.

Definition key_lt {V} (a b : bytes * V) : Prop := bcmp (fst a) (fst b) = Lt.
Definition sorted {V} (s : smap V) : Prop := StronglySorted key_lt s.

Fixpoint sortedb {V} (s : smap V) : bool :=
  match s with
  | [] => true
  | (k, _) :: t => match t with [] => true | (k', _) :: _ => bltb k k' && sortedb t end
  end.

Fixpoint get {V} (s : smap V) (k : bytes) : option V :=
  match s with
  | [] => None
  | (k', v) :: t => if beqb k k' then Some v else get t k
  end.

Fixpoint set {V} (s : smap V) (k : bytes) (v : V) : smap V :=
  match s with
  | [] => [(k, v)]
  | (k', v') :: t =>
      match bcmp k k' with
      | Lt => (k, v) :: s
      | Eq => (k, v) :: t
      | Gt => (k', v') :: set t k v
      end
  end.

Definition remove {V} (s : smap V) (k : bytes) : smap V :=
  filter (fun kv => negb (beqb k (fst kv))) s.

(* ---------- iteration ---------- *)

(* start inclusive, end exclusive; the direction is decided by bcmp start end *)
Definition in_fwd (a b k : bytes) : bool := bleb a k && bltb k b.     (* a <= k < b *)
Definition in_bwd (a b k : bytes) : bool := bltb b k && bleb k a.     (* b < k <= a *)

Definition fwd {V} (s : smap V) (a b : bytes) : smap V := filter (fun kv => in_fwd a b (fst kv)) s.
Definition bwd {V} (s : smap V) (a b : bytes) : smap V := rev (filter (fun kv => in_bwd a b (fst kv)) s).

Definition lim {A} (n : N) (l : list A) : list A := if n =? 0 then l else firstn (N.to_nat n) l.

Definition is_fwd (a b : bytes) : bool := match bcmp a b with Lt => true | _ => false end.

(* everything the interval holds, in the requested direction *)
Definition iter_all {V} (s : smap V) (a b : bytes) : smap V :=
  if is_fwd a b then fwd s a b else bwd s a b.

Definition iter {V} (s : smap V) (a b : bytes) (limit : N) : smap V := lim limit (iter_all s a b).

(* ---------- the batch language ---------- *)

Inductive bop :=
| PutIfNotExist (k v : bytes) (ttl : N)
| CAS (k nv ov : bytes) (ttl : N)
| Put (k v : bytes) (ttl : N)
| Del (k : bytes)
| DelCur (k v : bytes) (stamp : N).   (* compare-and-delete of a record an iterator has shown: key, value, write stamp *)

(* interface.go:75-77: "delete-if-value-equal or delete-if-version-equal" *)
Inductive dcmode := ByValue | ByVersion.

(* the map, the write stamp of every stored key, and the stamp of the last commit that wrote *)
Record cstore := mk_cstore { st : store; stamps : smap N; clock : N }.

Definition cs_of (s : store) : cstore := mk_cstore s (map (fun kv => (fst kv, 0)) s) 0.

Inductive bres :=
| Applied (c : cstore)
| CondFailed (idx : nat) (actual : option bytes).

Definition nbeqb (a b : option N) : bool := opt_eqb N.eqb a b.

Definition delcur_holds (m : dcmode) (w : store) (z : smap N) (k v : bytes) (stamp : N) : bool :=
  match get w k with
  | None => false
  | Some x =>
      match m with
      | ByValue => beqb x v
      | ByVersion => nbeqb (get z k) (Some stamp)
      end
  end.

(* one operation on the working copy; nc is the stamp this commit will carry *)
Definition bop_step (m : dcmode) (nc : N) (w : store) (z : smap N) (o : bop) : (store * smap N) + option bytes :=
  match o with
  | PutIfNotExist k v _ =>
      match get w k with
      | Some x => inr (Some x)
      | None => inl (set w k v, set z k nc)
      end
  | CAS k nv ov _ =>
      match get w k with
      | None => inr None
      | Some x => if beqb x ov then inl (set w k nv, set z k nc) else inr (Some x)
      end
  | Put k v _ => inl (set w k v, set z k nc)
  | Del k => inl (remove w k, remove z k)
  | DelCur k v stamp =>
      if delcur_holds m w z k v stamp then inl (remove w k, remove z k) else inr (get w k)
  end.

Fixpoint batch_go (m : dcmode) (nc : N) (w : store) (z : smap N) (idx : nat) (ops : list bop)
  : (store * smap N) + (nat * option bytes) :=
  match ops with
  | [] => inl (w, z)
  | o :: rest =>
      match bop_step m nc w z o with
      | inl (w', z') => batch_go m nc w' z' (S idx) rest
      | inr actual => inr (idx, actual)
      end
  end.

(* all or nothing: the first failing condition aborts the batch and names its index and the value found *)
Definition batch_eval (m : dcmode) (c : cstore) (ops : list bop) : bres :=
  match ops with
  | [] => Applied c
  | _ =>
      match batch_go m (clock c + 1) (st c) (stamps c) 0 ops with
      | inl (w, z) => Applied (mk_cstore w z (clock c + 1))
      | inr (i, a) => CondFailed i a
      end
  end.

(* records an iterator shows: key, value, write stamp *)
Definition item := (bytes * bytes * N)%type.
Definition item_kv (i : item) : bytes * bytes := (fst (fst i), snd (fst i)).

Definition stamp_of (z : smap N) (k : bytes) : N := match get z k with Some n => n | None => 0 end.

(* what an iterator shows; the write stamp is only part of a record's identity under ByVersion *)
Definition mk_item (m : dcmode) (z : smap N) (kv : bytes * bytes) : item :=
  (fst kv, snd kv, match m with ByValue => 0 | ByVersion => stamp_of z (fst kv) end).

Definition citems (m : dcmode) (c : cstore) (a b : bytes) : list item :=
  map (mk_item m (stamps c)) (iter_all (st c) a b).
