(* Schedule cases shared by C01, C02 and C04: what the scheduler-driven harness observed on the real
   backend, how the model (KeySys) is run on the same schedule, and the property oracles evaluated on
   the implementation's own observations (responses, raw dump, scheduler order, revision samples). *)
From KB Require Export Model.KeySys.
Local Open Scope N_scope.

(* which engine call the resumed thread performed in this scheduler step (seen at the gate) *)
Inductive ekind := KStart | KIter | KGet | KBatch
                 | KHold.   (* the thread's batch commit has entered the engine and is being held there: nothing
                               has happened yet as far as the store is concerned; the sample is taken while it is held *)

Record sstep := {
  st_t : tid;
  st_env : env;               (* what the harness made the engine call do *)
  st_kind : ekind;            (* gate kind the thread was parked at *)
  st_resps : list resp;       (* responses that came back during this step, in order *)
  st_sample : N               (* GetCurrentRevision() right after the step *)
}.

Record sched_case := {
  sc_cidx0 : bool;                       (* engine reports Conflict.Idx = 0 for the first batch operation *)
  sc_d0 : N;                             (* revision before the schedule starts (quiescent) *)
  sc_init : list (key * kstate);         (* raw dump before, per key *)
  sc_progs : list (tid * list req);
  sc_steps : list sstep;
  sc_final : list (key * kstate);        (* raw dump after the last step *)
  sc_marker : N;                         (* header revision of a create issued at quiescence on a fresh key *)
  sc_final_committed : N;                (* GetCurrentRevision() after a bounded wait *)
  sc_stalled : bool                      (* the wait timed out *)
}.

(* ---------- small utilities ---------- *)

Definition ekind_eqb (a b : ekind) : bool :=
  match a, b with KStart, KStart | KIter, KIter | KGet, KGet | KBatch, KBatch | KHold, KHold => true | _, _ => false end.

Definition env_eqb (a b : env) : bool :=
  match a, b with EnvOk, EnvOk | EnvError, EnvError | EnvConflictAbort, EnvConflictAbort => true | _, _ => false end.

Definition kvr_eqb (a b : bytes * N) : bool := beqb (fst a) (fst b) && (snd a =? snd b).

Definition resp_eqb (a b : resp) : bool :=
  match a, b with
  | RespCreate h s, RespCreate h' s' => (h =? h') && Bool.eqb s s'
  | RespUpdate h s kv, RespUpdate h' s' kv' => (h =? h') && Bool.eqb s s' && opt_eqb kvr_eqb kv kv'
  | RespDelete h s kv, RespDelete h' s' kv' => (h =? h') && Bool.eqb s s' && opt_eqb kvr_eqb kv kv'
  | RespRewrite r, RespRewrite r' => r =? r'
  | RespError, RespError => true
  | _, _ => false
  end.

Fixpoint insert_ver (p : N * bytes) (l : list (N * bytes)) : list (N * bytes) :=
  match l with
  | [] => [p]
  | q :: l' => if fst p <=? fst q then p :: l else q :: insert_ver p l'
  end.
Definition sort_vers (l : list (N * bytes)) : list (N * bytes) := fold_right insert_ver [] l.

Definition ver_eqb (a b : N * bytes) : bool := (fst a =? fst b) && beqb (snd a) (snd b).

Definition kstate_eqb (a b : kstate) : bool :=
  opt_eqb idx_eqb (k_idx a) (k_idx b) && list_eqb ver_eqb (sort_vers (k_vers a)) (sort_vers (k_vers b)).

Fixpoint lookup {A} (d : A) (k : N) (l : list (N * A)) : A :=
  match l with
  | [] => d
  | (k', x) :: l' => if k' =? k then x else lookup d k l'
  end.

Fixpoint set_assoc {A} (k : N) (x : A) (l : list (N * A)) : list (N * A) :=
  match l with
  | [] => [(k, x)]
  | (k', y) :: l' => if k' =? k then (k, x) :: l' else (k', y) :: set_assoc k x l'
  end.

Definition pc_kind (p : pc) : ekind :=
  if is_commit_pc p then KBatch
  else match p with
       | PCreateGet _ _ _ _ => KGet
       | PDeleteGet _ _ | PFailGet _ _ _ _ | PRwGet _ _ => KIter
       | _ => KStart
       end.

(* ---------- the model on the same schedule ---------- *)

Definition store_of (l : list (key * kstate)) : key -> kstate := fun k => lookup k_empty k l.

(* how many sequencer iterations the check lets happen after a step (the sequencer runs freely) *)
Definition seq_fuel : nat := 1024.

Fixpoint run_steps (cidx0 : bool) (s : state) (queues : list (tid * list req)) (prev : N) (steps : list sstep)
  : option (state * list (tid * list req)) :=
  match steps with
  | [] => Some (s, queues)
  | st :: steps' =>
      let t := st_t st in
      if ekind_eqb (st_kind st) KHold then
        (* the commit is held inside the engine: the model thread still stands before its commit *)
        let s2 := seq_all cidx0 seq_fuel s in
        if is_commit_pc (thr s t) && env_eqb (st_env st) EnvOk
           && (match st_resps st with [] => true | _ => false end)
           && (prev <=? st_sample st) && (st_sample st <=? committed (rs s2))
        then run_steps cidx0 s2 queues (st_sample st) steps'
        else None
      else
      let '(s1, qu, resps, _) := resume cidx0 s t (st_env st) (lookup [] t queues) in
      let s2 := seq_all cidx0 seq_fuel s1 in
      if ekind_eqb (pc_kind (thr s t)) (st_kind st)
         && (match st_env st with EnvOk => true | e => enabled s (LEngine t e) end)
         && list_eqb resp_eqb resps (st_resps st)
         && (prev <=? st_sample st) && (st_sample st <=? committed (rs s2))
      then run_steps cidx0 s2 (set_assoc t qu queues) (st_sample st) steps'
      else None
  end.

(* one client, one request at a time (used by the sequential case kinds) *)
Fixpoint run_to_response (cidx0 : bool) (fuel : nat) (s : state) (queue : list req)
  : state * list req * list resp :=
  match fuel with
  | O => (s, queue, [])
  | S f =>
      let '(s1, qu, resps, _) := resume cidx0 s 0 EnvOk queue in
      match resps with
      | [] => if is_engine_pc (thr s1 0) then run_to_response cidx0 f s1 qu else (s1, qu, [])
      | _ => (s1, qu, resps)
      end
  end.

Fixpoint run_writes (cidx0 : bool) (s : state) (ws : list (req * resp)) : option state :=
  match ws with
  | [] => Some s
  | (q, r) :: ws' =>
      let '(s1, _, resps) := run_to_response cidx0 8 s [q] in
      if list_eqb resp_eqb resps [r] then run_writes cidx0 s1 ws' else None
  end.

Definition sched_check_core (c : sched_case) : bool :=
  match run_steps (sc_cidx0 c) (kinit (sc_d0 c) (store_of (sc_init c))) (sc_progs c) (sc_d0 c) (sc_steps c) with
  | None => false
  | Some (s, queues) =>
      forallb (fun tq => match snd tq with [] => true | _ => false end) queues
      && forallb (fun tq => match thr s (fst tq) with PIdle => true | _ => false end) queues
      && negb (rpanic (rs s))
      && forallb (fun kk => kstate_eqb (kv s (fst kk)) (snd kk)) (sc_final c)
      && forallb (fun kk => kstate_eqb (kv s (fst kk)) (lookup k_empty (fst kk) (sc_final c))) (sc_init c)
      && (committed (rs s) =? dealt (rs s))
      && (sc_marker c =? dealt (rs s) + 1)
      && (sc_final_committed c =? sc_marker c)
      && negb (sc_stalled c)
  end.

(* ---------- validity of a case (what the generator guarantees), decidable and part of the check ---------- *)

Fixpoint nodup_keys (l : list N) : bool :=
  match l with
  | [] => true
  | x :: l' => negb (mem_N x l') && nodup_keys l'
  end.

Definition sched_validb (c : sched_case) : bool :=
  nodup_keys (map fst (sc_progs c)) && nodup_keys (map fst (sc_init c))
  && forallb (fun kk => wf_kstateb (sc_d0 c) (snd kk)) (sc_init c).

Definition sched_valid (c : sched_case) : Prop :=
  NoDup (map fst (sc_progs c)) /\ NoDup (map fst (sc_init c)) /\
  Forall (fun kk => wf_kstateb (sc_d0 c) (snd kk) = true) (sc_init c).

(* an invalid case counts as a mismatch: every case that passes the check is covered by the theorems *)
Definition sched_check (c : sched_case) : bool := sched_validb c && sched_check_core c.

(* ---------- request records, from the implementation's side of the case only ---------- *)

Record rrec := {
  rr_t : tid; rr_q : req; rr_resp : resp;
  rr_inv : nat;                 (* step during which the request was invoked *)
  rr_ret : nat;                 (* step during which its response came back *)
  rr_commit : option nat;       (* last step in which it ran a batch commit *)
  rr_hold : option nat;         (* last step during which its commit was held inside the engine *)
  rr_injected : bool            (* the harness injected an error / conflict abort into one of its engine calls *)
}.

Record tstat := { ts_queue : list req; ts_inv : option nat; ts_commit : option nat; ts_hold : option nat; ts_inj : bool }.

Fixpoint emit (t : tid) (i : nat) (ts : tstat) (resps : list resp) : tstat * list rrec :=
  match resps with
  | [] => (ts, [])
  | r :: resps' =>
      match ts_queue ts with
      | [] => ({| ts_queue := []; ts_inv := Some i; ts_commit := None; ts_hold := None; ts_inj := false |}, [])
                            (* more responses than requests: flagged by records_complete *)
      | q :: queue' =>
          let rec_ := {| rr_t := t; rr_q := q; rr_resp := r;
                         rr_inv := match ts_inv ts with Some j => j | None => i end;
                         rr_ret := i; rr_commit := ts_commit ts; rr_hold := ts_hold ts; rr_injected := ts_inj ts |} in
          let '(ts', recs) := emit t i {| ts_queue := queue'; ts_inv := Some i; ts_commit := None; ts_hold := None; ts_inj := false |} resps' in
          (ts', rec_ :: recs)
      end
  end.

Fixpoint records (i : nat) (tss : list (tid * tstat)) (steps : list sstep) : list rrec :=
  match steps with
  | [] => []
  | st :: steps' =>
      let t := st_t st in
      let ts := lookup {| ts_queue := []; ts_inv := None; ts_commit := None; ts_hold := None; ts_inj := false |} t tss in
      let ts1 := {| ts_queue := ts_queue ts;
                    ts_inv := match ts_inv ts with Some j => Some j | None => Some i end;
                    ts_commit := match st_kind st with KBatch => Some i | _ => ts_commit ts end;
                    ts_hold := match st_kind st with KHold => Some i | _ => ts_hold ts end;
                    ts_inj := ts_inj ts || negb (env_eqb (st_env st) EnvOk) |} in
      let '(ts2, recs) := emit t i ts1 (st_resps st) in
      recs ++ records (S i) (set_assoc t ts2 tss) steps'
  end.

Definition case_records (c : sched_case) : list rrec :=
  records 0 (map (fun tq => (fst tq, {| ts_queue := snd tq; ts_inv := None; ts_commit := None; ts_hold := None; ts_inj := false |})) (sc_progs c))
          (sc_steps c).

Definition resp_succ (r : resp) : bool :=
  match r with
  | RespCreate _ s | RespUpdate _ s _ | RespDelete _ s _ => s
  | RespRewrite r => negb (r =? 0)
  | RespError => false
  end.

Definition resp_hdr (r : resp) : option N :=
  match r with
  | RespCreate h _ | RespUpdate h _ _ | RespDelete h _ _ => Some h
  | RespRewrite r => if r =? 0 then None else Some r
  | RespError => None
  end.

Definition resp_kv (r : resp) : option (bytes * N) :=
  match r with RespUpdate _ _ kv | RespDelete _ _ kv => kv | _ => None end.

(* "condition failed": an answer (not an error) with Succeeded = false *)
Definition resp_cond_failed (r : resp) : bool :=
  match r with RespCreate _ false | RespUpdate _ false _ | RespDelete _ false _ => true | _ => false end.

(* responses whose header is exactly the revision the request was stamped with *)
Definition resp_exact_rev (r : resp) : option N :=
  match r with
  | RespCreate h _ => Some h
  | RespUpdate h true _ => Some h
  | RespDelete h true _ => Some h
  | RespDelete h false None => Some h
  | RespRewrite r => if r =? 0 then None else Some r
  | _ => None
  end.

(* ---------- C01 oracle: chain_ok ---------- *)

Fixpoint insert_rec (r : rrec) (l : list rrec) : list rrec :=
  match l with
  | [] => [r]
  | x :: l' =>
      if (match rr_commit r, rr_commit x with Some a, Some b => Nat.leb a b | _, _ => true end)
      then r :: l else x :: insert_rec r l'
  end.
Definition sort_recs (l : list rrec) : list rrec := fold_right insert_rec [] l.

Definition successes (k : key) (recs : list rrec) : list rrec :=
  sort_recs (filter (fun r => resp_succ (rr_resp r) && (req_key (rr_q r) =? k)) recs).

Definition idx_rev (i : option (N * bool)) : N := match i with Some (p, _) => p | None => 0 end.
Definition idx_livep (i : option (N * bool)) : bool := match i with Some (_, false) => true | _ => false end.

(* one successful write applied to the key's chain state; None = the chain is broken here *)
Definition chain_step (ks : kstate) (r : rrec) : option kstate :=
  match resp_hdr (rr_resp r), rr_commit r with
  | Some rev, Some _ =>
      if (idx_rev (k_idx ks) <? rev) && (newest_rev ks <? rev) then
        match rr_q r with
        | RqCreate _ v =>
            if idx_livep (k_idx ks) then None else Some (k_write ks (rev, false) rev v)
        | RqUpdate _ v prev =>
            if prev =? 0 then (if idx_livep (k_idx ks) then None else Some (k_write ks (rev, false) rev v))
            else if idx_is ks (prev, false) then Some (k_write ks (rev, false) rev v) else None
        | RqDelete _ exp =>
            if idx_livep (k_idx ks) && ((exp =? 0) || (exp =? idx_rev (k_idx ks))) then
              match resp_kv (rr_resp r) with
              | Some (val, p) =>
                  if (p =? idx_rev (k_idx ks)) && opt_eqb beqb (ver_get p (k_vers ks)) (Some val)
                  then Some (k_write ks (rev, true) rev tombstone) else None
              | None => None
              end
            else None
        | RqRewrite _ prev =>
            (* the repair rewrites the value of revision prev at a new revision, keeping the deletion flag *)
            match ver_get prev (k_vers ks) with
            | Some v =>
                if idx_is ks (prev, beqb v tombstone) then Some (k_write ks (rev, beqb v tombstone) rev v) else None
            | None => None
            end
        end
      else None
  | _, _ => None
  end.

Fixpoint chain_run (ks : kstate) (l : list rrec) : option kstate :=
  match l with
  | [] => Some ks
  | r :: l' => match chain_step ks r with Some ks' => chain_run ks' l' | None => None end
  end.

(* the index record after step j according to the successes committed so far *)
Definition upto (j : nat) (l : list rrec) : list rrec :=
  filter (fun r => match rr_commit r with Some c => Nat.leb c j | None => false end) l.

(* a broken chain prefix (chain_run = None) collapses to ks0 here; this is harmless because chain_ok tests chain_part
   (the whole chain of the key replays) before `justified` is consulted, and upto j is prefix-closed: if the whole
   chain replays, every prefix does *)
Definition key_at (ks0 : kstate) (succ : list rrec) (j : nat) : kstate :=
  match chain_run ks0 (upto j succ) with Some ks => ks | None => ks0 end.

Fixpoint exists_between (f : nat -> bool) (lo : nat) (n : nat) : bool :=
  match n with
  | O => false
  | S n' => f lo || exists_between f (S lo) n'
  end.

(* the key differs from the request's expectation; an unguarded delete (expected revision 0) expects the
   key to stay as it was when the request came in: any change of the index record in flight justifies
   its failure *)
Definition differs_w (ks_inv ks : kstate) (q : req) : bool :=
  differs ks q ||
  match q with
  | RqDelete _ 0 => negb (opt_eqb idx_eqb (k_idx ks) (k_idx ks_inv))
  | _ => false
  end.

Definition justified (c : sched_case) (recs : list rrec) (r : rrec) : bool :=
  if resp_cond_failed (rr_resp r) && negb (rr_injected r) then
    let k := req_key (rr_q r) in
    let ks0 := lookup k_empty k (sc_init c) in
    let succ := successes k recs in
    exists_between (fun j => differs_w (key_at ks0 succ (rr_inv r)) (key_at ks0 succ j) (rr_q r))
                   (rr_inv r) (S (rr_ret r - rr_inv r))
  else true.

Definition case_keys (c : sched_case) : list key :=
  nodup N.eq_dec (map fst (sc_init c) ++ map fst (sc_final c)
                  ++ flat_map (fun tq => map req_key (snd tq)) (sc_progs c)).

Definition nreqs (c : sched_case) : nat := length (flat_map snd (sc_progs c)).
Definition is_rewrite (q : req) : bool := match q with RqRewrite _ _ => true | _ => false end.
(* requests issued by clients: each is stamped with exactly one revision *)
Definition nclient (c : sched_case) : nat := length (filter (fun q => negb (is_rewrite q)) (flat_map snd (sc_progs c))).

(* every request got exactly one response *)
Definition records_complete (c : sched_case) (recs : list rrec) : bool :=
  Nat.eqb (length recs) (nreqs c).

Definition chain_ok_key (c : sched_case) (recs : list rrec) (k : key) : bool :=
  match chain_run (lookup k_empty k (sc_init c)) (successes k recs) with
  | Some ks => kstate_eqb ks (lookup k_empty k (sc_final c))
  | None => false
  end.

(* finding C01-F1: a create (or Update with expected revision 0) is refused although its key was
   deleted or absent all the time, because the asynchronous repair re-stamped the key's tombstone with a
   revision above the creator's while the create was in flight (naive.go:83 compares revisions) *)
Definition f1_signature (recs : list rrec) (r : rrec) : bool :=
  match rr_q r with
  | RqCreate k _ | RqUpdate k _ 0 =>
      existsb (fun x => is_rewrite (rr_q x) && resp_succ (rr_resp x) && (req_key (rr_q x) =? k)
                        && match rr_commit x with
                           | Some cst => Nat.leb (rr_inv r) cst && Nat.leb cst (rr_ret r)
                           | None => false
                           end) recs
  | _ => false
  end.

Definition chain_part (c : sched_case) : bool :=
  let recs := case_records c in
  records_complete c recs && forallb (chain_ok_key c recs) (case_keys c).

Definition chain_ok (c : sched_case) : bool :=
  chain_part c && forallb (justified c (case_records c)) (case_records c).

Definition sched_c01_oracle (c : sched_case) : option N :=
  let recs := case_records c in
  if chain_ok c then None
  else if chain_part c && forallb (fun r => justified c recs r || f1_signature recs r) recs then Some 1
  else Some 0.

(* ---------- a compaction pass racing a create over the tombstone it is about to collect ----------
   The compactor (scanner.go:416-507, compact = true, revision R) has read key 0's index record `obs`
   (tombstoned) and is held right before deleting it; a client create commits; the compactor resumes.
   Its index delete is a compare-and-delete (DelCurrent): it must leave a record that changed. *)

Record compact_case := {
  cc_cidx0 : bool;
  cc_d0 : N;
  cc_R : N;                                   (* compaction revision *)
  cc_init : kstate;                           (* key 0 when the compactor read it *)
  cc_writes : list (req * resp);              (* client requests on key 0 while the compactor is held *)
  cc_final : kstate;                          (* raw records of key 0 after the pass *)
  cc_get : option (bytes * N);                (* follow-up probes: Get *)
  cc_update_ok : bool;                        (* Update naming the revision Get returned succeeded *)
  cc_create_refused : bool                    (* a further Create was refused *)
}.

Definition collectable (R : N) (vs : list (N * bytes)) (p : N * bytes) : bool :=
  (fst p <=? R) && (existsb (fun p' => (fst p <? fst p') && (fst p' <=? R)) vs || beqb (snd p) tombstone).

(* what one compaction pass at R does to a key whose index record it observed as obs *)
Definition compact_key (R : N) (obs : option (N * bool)) (ks : kstate) : kstate :=
  {| k_idx := match obs with
              | Some (r, true) => if (r <=? R) && opt_eqb idx_eqb (k_idx ks) obs then None else k_idx ks
              | _ => k_idx ks
              end;
     k_vers := filter (fun p => negb (collectable R (k_vers ks) p)) (k_vers ks) |}.

(* validity of a compaction case: the initial key state is well-formed, every write is on key 0, the compaction
   revision is not above the revision the node had reached when the case started *)
Definition compact_validb (c : compact_case) : bool :=
  wf_kstateb (cc_d0 c) (cc_init c) && forallb (fun qr => req_key (fst qr) =? 0) (cc_writes c)
  && (cc_R c <=? cc_d0 c).

(* the two halves of compact_ok *)
Definition compact_final_ok (c : compact_case) : bool :=
  forallb (fun qr => match qr with
                     | (RqCreate _ v, RespCreate rev true) =>
                         opt_eqb idx_eqb (k_idx (cc_final c)) (Some (rev, false))
                         && opt_eqb beqb (ver_get rev (k_vers (cc_final c))) (Some v)
                     | _ => true
                     end) (cc_writes c).
Definition compact_probes_ok (c : compact_case) : bool :=
  forallb (fun qr => match qr with
                     | (RqCreate _ v, RespCreate rev true) =>
                         opt_eqb kvr_eqb (cc_get c) (Some (v, rev)) && cc_update_ok c && cc_create_refused c
                     | _ => true
                     end) (cc_writes c).

Definition compact_check (c : compact_case) : bool :=
  compact_validb c &&
  match run_writes (cc_cidx0 c) (kinit (cc_d0 c) (fun k => if k =? 0 then cc_init c else k_empty)) (cc_writes c) with
  | None => false
  | Some s => kstate_eqb (compact_key (cc_R c) (k_idx (cc_init c)) (kv s 0)) (cc_final c)
  end.

(* the property on the observation: an acknowledged create is the live head of the key afterwards *)
Definition compact_ok (c : compact_case) : bool :=
  forallb (fun qr => match qr with
                     | (RqCreate _ v, RespCreate rev true) =>
                         opt_eqb idx_eqb (k_idx (cc_final c)) (Some (rev, false))
                         && opt_eqb beqb (ver_get rev (k_vers (cc_final c))) (Some v)
                         && opt_eqb kvr_eqb (cc_get c) (Some (v, rev))
                         && cc_update_ok c && cc_create_refused c
                     | _ => true
                     end) (cc_writes c).

(* ---------- one conditional write sent through a follower's etcd proxy whose link to the leader loses the
   reply after the leader executed the request (nobody else touches the key) ---------- *)

Record proxy_case := {
  px_d0 : N;
  px_init : kstate;      (* key 0 before *)
  px_req : req;
  px_resp : resp;        (* what the follower answered; RespError = the outcome is unknown to the client *)
  px_final : kstate      (* key 0 after *)
}.

Definition is_error (r : resp) : bool := match r with RespError => true | _ => false end.

(* validity of a proxy case: the request is on key 0, the initial key state is well-formed, no live stored value
   and no request value equals the deletion marker (finding C03-F1) *)
Definition no_marker_kstateb (ks : kstate) : bool :=
  match k_idx ks with
  | Some (r, false) => forallb (fun p => negb ((fst p =? r) && beqb (snd p) tombstone)) (k_vers ks)
  | _ => true
  end.
Definition req_val_okb (q : req) : bool :=
  match q with RqCreate _ v | RqUpdate _ v _ => negb (beqb v tombstone) | _ => true end.
Definition proxy_validb (c : proxy_case) : bool :=
  (req_key (px_req c) =? 0) && wf_kstateb (px_d0 c) (px_init c) && no_marker_kstateb (px_init c) && req_val_okb (px_req c).
Definition is_idle (p : pc) : bool := match p with PIdle => true | _ => false end.

(* the leader executes the request once (and finishes it); the client is told the outcome or that it is unknown *)
Definition proxy_check (c : proxy_case) : bool :=
  proxy_validb c &&
  let '(s1, _, resps) := run_to_response true 8 (kinit (px_d0 c) (fun k => if k =? 0 then px_init c else k_empty)) [px_req c] in
  kstate_eqb (kv s1 0) (px_final c) && is_idle (thr s1 0)
  && (is_error (px_resp c) || list_eqb resp_eqb resps [px_resp c]).

(* a failed condition is reported only if the key really differed from the expectation, and then nothing was written *)
Definition proxy_ok (c : proxy_case) : bool :=
  if resp_cond_failed (px_resp c)
  then differs (px_init c) (px_req c) && kstate_eqb (px_init c) (px_final c)
  else true.

Inductive c01_case :=
| C1Sched (c : sched_case)
| C1Compact (c : compact_case)
| C1Proxy (c : proxy_case).

Definition c01_check (c : c01_case) : bool :=
  match c with C1Sched c => sched_check c | C1Compact c => compact_check c | C1Proxy c => proxy_check c end.
Definition c01_oracle (c : c01_case) : option N :=
  match c with
  | C1Sched c => sched_c01_oracle c
  | C1Compact c => ok_if (compact_ok c)
  | C1Proxy c => ok_if (proxy_ok c)
  end.


