(* C18, any number of concurrent follower reads: the interleaving model of Model/Roles.v (two reads A and B) with a list
   of reads.  Same program counters and the same steps — begin, fetch through a flight that concurrent reads share, a
   joiner of a flight fetches again, installRevision under the syncer's mutex (a revision that is not larger than what
   is installed is dropped), raise-only SetCurrentRevision, scan at the backend's revision.  One difference in form: the
   two-read model hands the released mutex to the waiting read in the same step; here the mutex is released and a
   waiting read takes it when it is scheduled next (any waiter may win, as with sync.Mutex). *)
From KB Require Export Model.Roles.
Local Open Scope N_scope.

Inductive nlabel := NAdv | NStep (i : nat).

Record nsys := mkN {
  n_leader : N; n_frev : N; n_synced : N;
  n_mutex : option nat; n_flight : option nat;
  n_thrs : list thr
}.

Definition n_init (n : nat) (leader frev : N) : nsys := mkN leader frev 0 None None (repeat thr_init n).

Definition nth_thr (s : nsys) (i : nat) : thr := nth i (n_thrs s) thr_init.

Fixpoint upd {A} (l : list A) (i : nat) (x : A) : list A :=
  match l, i with
  | [], _ => []
  | _ :: l', O => x :: l'
  | y :: l', S i' => y :: upd l' i' x
  end.

Definition set_nthr (s : nsys) (i : nat) (x : thr) : nsys :=
  mkN (n_leader s) (n_frev s) (n_synced s) (n_mutex s) (n_flight s) (upd (n_thrs s) i x).

(* installRevision, first half: take the mutex or wait; under it compare with synced *)
Definition n_lock (s : nsys) (i : nat) (v : N) : nsys :=
  let x := nth_thr s i in
  match n_mutex s with
  | Some _ => set_nthr s i (with_pc x (PBlocked v))
  | None =>
      if n_synced s <? v
      then mkN (n_leader s) (n_frev s) (n_synced s) (Some i) (n_flight s) (upd (n_thrs s) i (with_pc x (PInstalling v)))
      else set_nthr s i (with_pc x PSet)
  end.

(* the flight ends: a read that joined it fetches again *)
Definition deliver (x : thr) : thr :=
  match t_pc x with PJoined => mkThr PBegun (t_begin x) 0 0 false | _ => x end.

Definition nstep (share : bool) (s : nsys) (l : nlabel) : nsys :=
  match l with
  | NAdv => mkN (n_leader s + 1) (n_frev s) (n_synced s) (n_mutex s) (n_flight s) (n_thrs s)
  | NStep i =>
      if (length (n_thrs s) <=? i)%nat then s
      else
        let x := nth_thr s i in
        match t_pc x with
        | PInit => set_nthr s i (mkThr PBegun (n_leader s) 0 0 false)
        | PBegun =>
            match n_flight s with
            | Some _ => if share then set_nthr s i (mkThr PJoined (t_begin x) 0 0 true) else set_nthr s i (with_pc x PWaitLeader)
            | None => mkN (n_leader s) (n_frev s) (n_synced s) (n_mutex s) (Some i) (upd (n_thrs s) i (with_pc x PWaitLeader))
            end
        | PWaitLeader => set_nthr s i (with_pc x (PHandled (n_leader s)))
        | PHandled v =>
            mkN (n_leader s) (n_frev s) (n_synced s) (n_mutex s)
                (match n_flight s with Some o => if (o =? i)%nat then None else Some o | None => None end)
                (upd (map deliver (n_thrs s)) i (mkThr (PGot v) (t_begin x) v (t_scan x) (t_joined x)))
        | PJoined => s
        | PGot v => n_lock s i v
        | PBlocked v => n_lock s i v
        | PInstalling v =>
            mkN (n_leader s) (N.max (n_frev s) v) v None (n_flight s) (upd (n_thrs s) i (with_pc x PSet))
        | PSet => set_nthr s i (mkThr PDone (t_begin x) (t_got x) (n_frev s) (t_joined x))
        | PDone => s
        end
  end.

Definition nrun (share : bool) (s : nsys) (ls : list nlabel) : nsys := fold_left (nstep share) ls s.

Definition nfresh (s : nsys) : bool := forallb thr_fresh (n_thrs s).

(* ------------------------------------------------------------------ executable run with the SetCurrentRevision log *)
(* what a step writes to the backend: a read inside SetCurrentRevision(v) finishing it — (value before, value written) *)
Definition nstep_set (s : nsys) (l : nlabel) : list (N * N) :=
  match l with
  | NAdv => []
  | NStep i =>
      if (length (n_thrs s) <=? i)%nat then []
      else match t_pc (nth_thr s i) with PInstalling v => [(n_frev s, v)] | _ => [] end
  end.

(* the SetCurrentRevision calls of a run, oldest first *)
Fixpoint nsets (share : bool) (s : nsys) (ls : list nlabel) : list (N * N) :=
  match ls with
  | [] => []
  | l :: ls' => nstep_set s l ++ nsets share (nstep share s l) ls'
  end.

(* the code as it is (shared flights, a joiner fetches again), n reads: final system and the set log *)
Definition nrun_code (n : nat) (leader frev : N) (ls : list nlabel) : nsys * list (N * N) :=
  (nrun true (n_init n leader frev) ls, nsets true (n_init n leader frev) ls).
