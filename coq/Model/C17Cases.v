(* Correspondence cases for C17: (a) a real scanner with a small Config.TTL over an engine without TTL:
   stores reached by writes through a Backend, scanner.Compact calls at planned wall times, the dump after
   each; (b) the TTL Backend.create hands to the engine; (c) the engine-side TTL of memkv / Badger. *)
From KB Require Export Base.Cases Model.Coder Model.CompactSys Model.C07Cases.
Local Open Scope N_scope.

Inductive c17_step :=
| SStore (d : diff)                                   (* writers changed the store: new dump relative to the previous one *)
| SCompact (now R : N) (lo hi : bytes) (oc : list (list rec * outcome)) (d : diff)
    (* scanner.Compact at wall time now (ms); oc: what writers committed just before each engine delete of
       the pass (and its outcome; none listed = fault-free); dump afterwards *)
| SCompactReq (now cur req : N) (lo hi : bytes) (oc : list (list rec * outcome)) (d : diff).
    (* the same through Backend.Compact(req) with committed revision cur (the backend's own scanner, one border pair):
       the pass and its mark are at the clamped revision - a request cannot cover revisions not handed out yet *)

Inductive eng := EMem | EBadger.

Inductive tev :=
| TCreate (t : N) (k v : bytes) (rev : N)
| TUpdate (t : N) (k v : bytes) (rev : N)
| TDelete (t : N) (k : bytes) (rev : N)
| TDump (t : N) (obs : store).

Inductive c17_case :=
| KScan (prefix : bytes) (ttl : N) (support_ttl : bool) (pre : store) (steps : list c17_step)
        (final : list (bytes * option (N * bytes) * option wres * wres))
                                             (* per key: Get(latest); if present Update at that revision; then Create *)
        (watch_extra : N)                                     (* events delivered beyond those of the writes *)
| KTtlChoice (prefix : bytes) (events_ttl : N) (k : bytes) (ttls : list N)   (* TTL arguments the engine saw for Create k *)
| KTtlWrite (prefix : bytes) (events_ttl : N) (op : N) (lease : N) (k : bytes) (ttls : list N)
             (* op 0 = Create, 1 = Update, 2 = Delete of k with the request's Lease: TTL arguments of every operation of
                every engine batch of the request *)
| KEngineTtl (e : eng) (prefix : bytes) (ttl_ms : N) (evs : list tev)
             (fin : list (bytes * option (N * bytes) * wres))    (* after the last dump, per key: Get(latest), then Create *)
| KSkipped.  (* a timed scenario whose measured ages came too close to the TTL to be judged: not a case *)

(* ---------- (a) scanner ---------- *)

Fixpoint scan_run (evp : bytes) (ttl : N) (sup : bool) (V : store) (q : list mark) (steps : list c17_step) : option store :=
  match steps with
  | [] => Some V
  | SStore d :: t => scan_run evp ttl sup (apply_diff V d) q t
  | SCompact now R lo hi oc d :: t =>
      let '(q', _, dd) := scanner_compact evp sup ttl now R lo hi q (init_d V oc) in
      let V' := apply_diff V d in
      if store_eqb (sort_by rec_ltb (d_store dd)) V' then scan_run evp ttl sup V' q' t else None
  | SCompactReq now cur req lo hi oc d :: t =>
      let '(q', _, dd) := scanner_compact evp sup ttl now (clamp cur 0 req) lo hi q (init_d V oc) in
      let V' := apply_diff V d in
      if store_eqb (sort_by rec_ltb (d_store dd)) V' then scan_run evp ttl sup V' q' t else None
  end.

Fixpoint final_ok (V : store) (n : N) (fin : list (bytes * option (N * bytes) * option wres * wres)) : bool :=
  match fin with
  | [] => true
  | (k, got, upd, res) :: t =>
      opt_eqb nb_eqb (get_at V max_rev k) got
      && match got, upd with
         | Some (r, _), Some ur =>
             let '(V1, u) := do_update V k [121] r n in
             wres_eqb u ur && (let '(V2, c) := do_create V1 k [120] (n + 1) in wres_eqb c res && final_ok V2 (n + 2) t)
         | None, None =>
             let '(V2, c) := do_create V k [120] n in wres_eqb c res && final_ok V2 (n + 1) t
         | _, _ => false
         end
  end.

(* ---------- (c) engine TTL ---------- *)

Record tent := mkT { t_rec : rec; t_written : N; t_exp : N }.     (* t_exp: Badger entry expiry, 0 = never *)
Record tst := mkTS { ts_store : list tent; ts_timers : list (N * rec) }.   (* memkv: (fire time, slot) *)

Definition put_ent (e : eng) (t ttl : N) (x : rec) (s : tst) : tst :=
  let others := filter (fun y => negb (same_slot x (t_rec y))) (ts_store s) in
  match e with
  | EMem => mkTS (others ++ [mkT x t 0]) (if ttl =? 0 then ts_timers s else ts_timers s ++ [(t + ttl, x)])
  | EBadger => mkTS (others ++ [mkT x t (if ttl =? 0 then 0 else t + ttl)]) (ts_timers s)
  end.

(* memkv: every timer that has fired removes the record it was armed for if that record is still stored (the slot
   is left alone when it holds a later write); Badger: expired entries are invisible *)
Definition advance (e : eng) (now : N) (s : tst) : tst :=
  match e with
  | EMem =>
      let fired := filter (fun p => fst p <=? now) (ts_timers s) in
      mkTS (filter (fun y => negb (existsb (fun p => rec_eqb (snd p) (t_rec y)) fired)) (ts_store s))
           (filter (fun p => negb (fst p <=? now)) (ts_timers s))
  | EBadger => mkTS (filter (fun y => (t_exp y =? 0) || (now <? t_exp y)) (ts_store s)) (ts_timers s)
  end.

(* timers are applied in time order together with the writes - the driver keeps dumps apart from firing times *)
Fixpoint ttl_run (e : eng) (prefix : bytes) (ttl_ms : N) (s : tst) (evs : list tev) : option store :=
  match evs with
  | [] => Some (sort_by rec_ltb (map t_rec (ts_store s)))
  | TCreate t k v rev :: r =>
      let s0 := advance e t s in
      let ttl := create_ttl ttl_ms prefix k in
      ttl_run e prefix ttl_ms (put_ent e t ttl (RVer k rev v) (put_ent e t ttl (RIdx k rev false) s0)) r
  | TUpdate t k v rev :: r =>
      let s0 := advance e t s in
      ttl_run e prefix ttl_ms (put_ent e t 0 (RVer k rev v) (put_ent e t 0 (RIdx k rev false) s0)) r
  | TDelete t k rev :: r =>
      let s0 := advance e t s in
      ttl_run e prefix ttl_ms (put_ent e t 0 (RVer k rev tombstone) (put_ent e t 0 (RIdx k rev true) s0)) r
  | TDump t obs :: r =>
      let s0 := advance e t s in
      if store_eqb (sort_by rec_ltb (map t_rec (ts_store s0))) obs then ttl_run e prefix ttl_ms s0 r else None
  end.

Fixpoint ttl_final_ok (V : store) (n : N) (fin : list (bytes * option (N * bytes) * wres)) : bool :=
  match fin with
  | [] => true
  | (k, got, res) :: t =>
      opt_eqb nb_eqb (get_at V max_rev k) got
      && (let '(V', r) := do_create V k [120] n in wres_eqb r res && ttl_final_ok V' (n + 1) t)
  end.

Definition c17_check (c : c17_case) : bool :=
  match c with
  | KScan prefix ttl sup pre steps fin extra =>
      sortedb pre
      && match scan_run (events_prefix prefix) ttl sup pre [] steps with
         | Some V => final_ok V 1000000 fin
         | None => false
         end
      && (extra =? 0)
  | KTtlChoice prefix ettl k ttls => forallb (N.eqb (create_ttl ettl prefix k)) ttls && negb (is_nil ttls)
  | KTtlWrite prefix ettl op lease k ttls =>
      (* the lease of a request plays no part: only Create hands a TTL to the engine, by the key *)
      forallb (N.eqb (if op =? 0 then create_ttl ettl prefix k else 0)) ttls && negb (is_nil ttls)
  | KEngineTtl e prefix ttl_ms evs fin =>
      match ttl_run e prefix ttl_ms (mkTS [] []) evs with
      | Some V => ttl_final_ok V 1000000 fin
      | None => false
      end
  | KSkipped => true
  end.

(* ---------- the property on the implementation's observations ---------- *)

(* a removal the compaction proper accounts for (C07): a flagged index <= R, a version with a newer
   version <= R, a tombstone <= R *)
Definition explained (R : N) (before : store) (x : rec) : bool :=
  match x with
  | RIdx _ r d => d && (r <=? R)
  | RVer k r v =>
      existsb (fun y => match y with RVer k' r' _ => beqb k k' && (r <? r') && (r' <=? R) | _ => false end) before
      || (is_tomb v && (r <=? R))
  end.

Definition rec_rev (x : rec) : N := match x with RIdx _ r _ | RVer _ r _ => r end.

(* the largest revision among the marks at least ttl old *)
Definition old_mark_rev (ttl now : N) (marks : list mark) : option N :=
  fold_left (fun acc m => if ttl <=? now - snd m
                          then match acc with Some a => Some (N.max a (fst m)) | None => Some (fst m) end
                          else acc) marks None.

Definition removed (before after : store) : list rec := filter (fun x => negb (memb x after)) before.

(* verdict for one expiry removal: None = fine *)
Definition expiry_verdict (prefix : bytes) (ttl now : N) (marks : list mark) (after : store) (x : rec) : option N :=
  if negb (is_event_key prefix (rkey x)) then Some 0                               (* only events *)
  else match old_mark_rev ttl now marks with
       | None => Some 0
       | Some m =>
           if negb (rec_rev x <=? m) then Some 0                                      (* not young *)
           else match x with
                | RIdx k _ _ =>                                                       (* whole *)
                    if existsb (fun y => match y with RVer k' _ _ => beqb k k' | _ => false end) after
                    then Some 0 else None
                | _ => None
                end
       end.

(* worst verdict first: an unlisted violation (0) wins over a known signature *)
Definition worse (a b : option N) : option N :=
  match a, b with
  | Some 0, _ | _, Some 0 => Some 0
  | Some x, _ => Some x
  | None, y => y
  end.

(* one pass: every record missing afterwards is explained by the compaction proper or passes the expiry tests; nothing appears *)
Definition pass_verdict (prefix : bytes) (ttl : N) (V V' : store) (marks' : list mark) (now R : N) (oc : list (list rec * outcome)) : option N :=
  (* what the store would hold had only the writers acted *)
  let W := apply_env (all_adds oc) V in
  let here := fold_left (fun acc x => worse acc (if explained R W x then None else expiry_verdict prefix ttl now marks' V' x))
                        (removed W V') None in
  (* nothing may appear either *)
  if forallb (fun y => memb y W) V' then here else Some 0.

Fixpoint scan_oracle (prefix : bytes) (ttl : N) (V : store) (marks : list mark) (steps : list c17_step) : option N :=
  match steps with
  | [] => None
  | SStore d :: t => scan_oracle prefix ttl (apply_diff V d) marks t
  | SCompact now R lo hi oc d :: t =>
      let V' := apply_diff V d in
      let marks' := marks ++ [(R, now)] in
      worse (pass_verdict prefix ttl V V' marks' now R oc) (scan_oracle prefix ttl V' marks' t)
  | SCompactReq now cur req lo hi oc d :: t =>
      (* the only mark a request at `req` may leave is at a revision that exists: min(req, committed) *)
      let R := clamp cur 0 req in
      let V' := apply_diff V d in
      let marks' := marks ++ [(R, now)] in
      worse (pass_verdict prefix ttl V V' marks' now R oc) (scan_oracle prefix ttl V' marks' t)
  end.

(* after expiry a key reads absent and can be created again; no watch event *)
(* a key without any record reads absent and can be created; a key that reads present can be updated from
   the revision it was read at and cannot be created *)
Fixpoint final_oracle (V : store) (fin : list (bytes * option (N * bytes) * option wres * wres)) : bool :=
  match fin with
  | [] => true
  | (k, got, upd, res) :: t =>
      (if existsb (fun y => beqb (rkey y) k) V then true
       else opt_eqb nb_eqb got None && wres_eqb res WOk)
      && match got with
         | Some _ => match upd with Some u => wres_eqb u WOk && wres_eqb res WFalse | None => false end
         | None => wres_eqb res WOk
         end
      && final_oracle V t
  end.

Fixpoint store_after (V : store) (steps : list c17_step) : store :=
  match steps with
  | [] => V
  | SStore d :: t => store_after (apply_diff V d) t
  | SCompact _ _ _ _ _ d :: t => store_after (apply_diff V d) t
  | SCompactReq _ _ _ _ _ _ d :: t => store_after (apply_diff V d) t
  end.

(* engine TTL: every slot written so far is in a dump unless it belongs to an event key and its latest
   write is at least ttl old *)
Definition ev_time (ev : tev) : N := match ev with TCreate t _ _ _ | TUpdate t _ _ _ | TDelete t _ _ | TDump t _ => t end.
Definition ev_writes (ev : tev) : list rec :=
  match ev with
  | TCreate _ k v rev | TUpdate _ k v rev => [RIdx k rev false; RVer k rev v]
  | TDelete _ k rev => [RIdx k rev true; RVer k rev tombstone]
  | TDump _ _ => []
  end.

(* latest write per slot: (record, time) list, newest last *)
Fixpoint latest_writes (acc : list (rec * N)) (evs : list tev) : list (rec * N) :=
  match evs with
  | [] => acc
  | ev :: r =>
      latest_writes (fold_left (fun a x => filter (fun p => negb (same_slot x (fst p))) a ++ [(x, ev_time ev)]) (ev_writes ev) acc) r
  end.

Fixpoint ttl_oracle (e : eng) (prefix : bytes) (ttl_ms : N) (seen : list tev) (evs : list tev) : option N :=
  match evs with
  | [] => None
  | TDump t obs :: r =>
      let lw := latest_writes [] (rev seen) in
      let here := fold_left (fun acc p =>
                    let '(x, tw) := p in
                    if memb x obs then acc
                    else worse acc
                      (if negb (is_event_key prefix (rkey x)) then Some 0
                       else if ttl_ms <=? t - tw then None
                       else Some 0)) lw None in
      worse here (ttl_oracle e prefix ttl_ms (TDump t obs :: seen) r)
  | ev :: r => ttl_oracle e prefix ttl_ms (ev :: seen) r
  end.

Definition c17_oracle (c : c17_case) : option N :=
  match c with
  | KScan prefix ttl sup pre steps fin extra =>
      worse (scan_oracle prefix ttl pre [] steps)
            (ok_if (final_oracle (store_after pre steps) fin && (extra =? 0)))
  | KTtlChoice prefix ettl k ttls =>
      (* time-based expiry is asked for only by the Create of an Event key, and never before the events TTL *)
      if forallb (fun t => (t =? 0) || (is_event_key prefix k && (ettl <=? t))) ttls then None else Some 0
  | KTtlWrite prefix ettl op lease k ttls =>
      (* time-based expiry is asked for only by the Create of an Event key, and never before the events TTL *)
      if forallb (fun t => (t =? 0) || ((op =? 0) && is_event_key prefix k && (ettl <=? t))) ttls then None else Some 0
  | KEngineTtl e prefix ttl_ms evs fin =>
      (* whatever expired: a key that reads absent can be created again, one that reads present cannot *)
      let fin_ok := forallb (fun p => let '(_, got, res) := p in
                                      match got with None => wres_eqb res WOk | Some _ => wres_eqb res WFalse end) fin in
      worse (ttl_oracle e prefix ttl_ms [] evs) (ok_if fin_ok)
  | KSkipped => None
  end.
