(* Executable models of the storage adapters, transcribed from pkg/storage/{memkv,badger,tikv,metrics}.
   The engine libraries themselves (huandu/skiplist, Badger, TiKV client + mock cluster) are idealised as an
   ordered transactional map; what is modelled is the adapter code on top of them.  Definitions only.
   TTL arguments are carried but have no effect here (expiry belongs to C17). *)
From KB Require Export Model.Store.

Inductive rclass := ROk | RCond | RNotFound | ROther | RPanic.

(* a *storage.Conflict: Idx, Key, Val (None = nil or empty) *)
Definition conflict := (nat * bytes * option bytes)%type.

Definition canon_val (v : bytes) : option bytes := match v with [] => None | _ => Some v end.
Definition canon_opt (v : option bytes) : option bytes := match v with Some x => canon_val x | None => None end.

Record adapter := mk_adapter {
  a_state : Type;
  a_init : a_state;
  a_dump : a_state -> store;                                     (* raw contents, in key order *)
  a_get : a_state -> bytes -> rclass * bytes;                    (* KvStorage.Get *)
  a_iter : a_state -> bytes -> bytes -> N -> list item;          (* KvStorage.Iter + Next until io.EOF *)
  a_batch : a_state -> list bop -> a_state * rclass * option conflict;   (* BeginBatchWrite … Commit *)
  a_del : a_state -> bytes -> a_state * rclass;                  (* KvStorage.Del *)
  a_delcur : a_state -> item -> a_state * rclass * option conflict;      (* KvStorage.DelCurrent *)
  a_nil_empty : bool                                             (* an empty stored value is read back as a nil slice *)
}.

Fixpoint take_while {A} (p : A -> bool) (l : list A) : list A :=
  match l with [] => [] | x :: t => if p x then x :: take_while p t else [] end.
Fixpoint drop_while {A} (p : A -> bool) (l : list A) : list A :=
  match l with [] => [] | x :: t => if p x then drop_while p t else l end.

(* applying staged writes (Some v = set, None = delete), each key once *)
Definition apply_writes {V} (f : bytes -> V) (s : smap V) (p : smap (option bytes)) : smap V :=
  fold_left (fun acc e => match snd e with Some v => set acc (fst e) (f v) | None => remove acc (fst e) end) p s.

Definition with_stamp0 (l : store) : list item := map (fun kv => (fst kv, snd kv, 0)) l.

(* ====================================================================================== *)
(* memkv: pkg/storage/memkv/{skiplist,batch,iter}.go                                       *)
(* ====================================================================================== *)

(* batch.cache: key -> cacheVal{isDeleted,val}; None = isDeleted (val nil) *)
Definition mem_cache := smap (option bytes).

(* batch.get (batch.go:136-144): cache first, then the store; nil when deleted in the cache or missing *)
Definition mem_bget (cache : mem_cache) (s : store) (k : bytes) : option bytes :=
  match get cache k with
  | Some cv => cv
  | None => get s k
  end.

Record mem_batch := mk_mem_batch { mb_cache : mem_cache; mb_count : nat; mb_err : option (rclass * option conflict) }.

(* one staged operation (batch.go:52-134); every method returns at once when b.err is set *)
Definition mem_stage (s : store) (b : mem_batch) (o : bop) : mem_batch :=
  match mb_err b with
  | Some _ => b
  | None =>
      let cache := mb_cache b in
      let n := mb_count b in
      match o with
      | PutIfNotExist k v _ =>
          match mem_bget cache s k with
          | Some old => mk_mem_batch cache n (Some (RCond, Some (n, k, canon_val old)))
          | None => mk_mem_batch (set cache k (Some v)) (S n) None
          end
      | CAS k nv ov _ =>
          match mem_bget cache s k with
          | None => mk_mem_batch cache n (Some (RCond, Some (n, k, None)))
          | Some val =>
              (* on a mismatch the payload is the *expected* value, and the staging goes on (batch.go:83-93) *)
              let err := if beqb val ov then None else Some (RCond, Some (n, k, canon_val ov)) in
              mk_mem_batch (set cache k (Some nv)) (S n) err
          end
      | Put k v _ => mk_mem_batch (set cache k (Some v)) (S n) None
      | Del k => mk_mem_batch (set cache k None) (S n) None
      | DelCur k v _ =>
          (* cur := b.get(key); cur == nil || !bytes.Equal(cur, it.Val()): a missing key never matches *)
          let err := match mem_bget cache s k with
                     | Some x => if beqb x v then None else Some (RCond, None)     (* plain ErrCASFailed *)
                     | None => Some (RCond, None)
                     end in
          mk_mem_batch (set cache k None) (S n) err
      end
  end.

(* Commit (batch.go:147-168): the cache is applied entry by entry (each key once) *)
Definition mem_apply (s : store) (cache : mem_cache) : store := apply_writes (fun v => v) s cache.

Definition mem_batch_run (s : store) (ops : list bop) : store * rclass * option conflict :=
  let b := fold_left (mem_stage s) ops (mk_mem_batch [] 0 None) in
  match mb_err b with
  | Some (c, cf) => (s, c, cf)
  | None => (mem_apply s (mb_cache b), ROk, None)
  end.

(* iter.init (iter.go:52-86): position on start (or on the sentinel's neighbour), walk while inRange; the
   limit is stored and never read.  "backward" in the code means ascending. *)
Definition mem_iter (s : store) (a b : bytes) (limit : N) : store :=
  if is_fwd a b
  then take_while (fun kv => bltb (fst kv) b) (drop_while (fun kv => bltb (fst kv) a) s)
  else take_while (fun kv => bltb b (fst kv)) (drop_while (fun kv => bltb a (fst kv)) (rev s)).

Definition mem_get (s : store) (k : bytes) : rclass * bytes :=
  match get s k with Some v => (ROk, v) | None => (RNotFound, []) end.

Definition memkv : adapter := {|
  a_state := store;
  a_init := [];
  a_dump := fun s => s;
  a_get := mem_get;
  a_iter := fun s a b l => with_stamp0 (mem_iter s a b l);
  a_batch := mem_batch_run;
  a_del := fun s k => let '(s', c, _) := mem_batch_run s [Del k] in (s', c);
  a_delcur := fun s i => mem_batch_run s [DelCur (fst (fst i)) (snd (fst i)) (snd i)];
  a_nil_empty := false                                           (* the caller's slice is stored as it is *)
|}.

(* ====================================================================================== *)
(* Badger: pkg/storage/badger/{badger,batch,iter}.go                                       *)
(* ====================================================================================== *)

(* stored value with the commit timestamp that wrote it (Item.Version), and the last commit timestamp *)
Record bstate := mk_bstate { b_map : smap (bytes * N); b_ts : N }.

Definition b_store (s : bstate) : store := map (fun e => (fst e, fst (snd e))) (b_map s).

(* txn.pendingWrites: Some v = set, None = delete *)
Definition pending := smap (option bytes).

(* txn.Get inside an update transaction: own writes first (their Version is the read timestamp) *)
Definition b_txn_get (s : bstate) (p : pending) (k : bytes) : option (bytes * N) :=
  match get p k with
  | Some (Some v) => Some (v, b_ts s)
  | Some None => None
  | None => get (b_map s) k
  end.

(* the closures of batch.go:34-127, run at Commit inside one transaction *)
Definition b_closure (s : bstate) (p : pending) (idx : nat) (o : bop) : pending + (rclass * option conflict) :=
  match o with
  | PutIfNotExist k v _ =>
      match b_txn_get s p k with
      | Some (old, _) => inr (RCond, Some (idx, k, canon_val old))
      | None => inl (set p k (Some v))
      end
  | CAS k nv ov _ =>
      match b_txn_get s p k with
      | None => inr (RCond, Some (idx, k, None))
      | Some (val, _) => if beqb ov val then inl (set p k (Some nv)) else inr (RCond, Some (idx, k, canon_val val))
      end
  | Put k v _ => inl (set p k (Some v))
  | Del k => inl (set p k None)
  | DelCur k v ver =>
      match b_txn_get s p k with
      | None => inr (RCond, Some (idx, k, None))
      | Some (val, ver') => if ver' =? ver then inl (set p k None) else inr (RCond, Some (idx, k, canon_val val))
      end
  end.

Fixpoint b_run (s : bstate) (p : pending) (idx : nat) (ops : list bop) : pending + (rclass * option conflict) :=
  match ops with
  | [] => inl p
  | o :: rest =>
      match b_closure s p idx o with
      | inl p' => b_run s p' (S idx) rest
      | inr e => inr e
      end
  end.

(* txn.Commit: nothing to do without writes; otherwise every pending entry gets the new commit timestamp *)
Definition b_commit (s : bstate) (p : pending) : bstate :=
  match p with
  | [] => s
  | _ =>
      let ts := b_ts s + 1 in
      mk_bstate (apply_writes (fun v => (v, ts)) (b_map s) p) ts
  end.

Definition b_batch (s : bstate) (ops : list bop) : bstate * rclass * option conflict :=
  match b_run s [] 0 ops with
  | inl p => (b_commit s p, ROk, None)
  | inr (c, cf) => (s, c, cf)
  end.

(* iter.go: reverse iff start > end; Seek(start) then Next while Valid and inRange; inRange stops at the limit *)
Definition b_is_rev (a b : bytes) : bool := match bcmp a b with Gt => true | _ => false end.

Definition b_iter (s : bstate) (a b : bytes) (limit : N) : list item :=
  let m := map (fun e => (fst e, fst (snd e), snd (snd e))) (b_map s) in
  let key (i : item) := fst (fst i) in
  if b_is_rev a b
  then lim limit (take_while (fun i => bltb b (key i)) (drop_while (fun i => bltb a (key i)) (rev m)))
  else lim limit (take_while (fun i => bltb (key i) b) (drop_while (fun i => bltb (key i) a) m)).

Definition b_get (s : bstate) (k : bytes) : rclass * bytes :=
  match get (b_map s) k with Some (v, _) => (ROk, v) | None => (RNotFound, []) end.

(* store.Del (badger.go:81-86): its own transaction, Delete, Commit *)
Definition b_del (s : bstate) (k : bytes) : bstate * rclass := (b_commit s [(k, None)], ROk).

Definition badger : adapter := {|
  a_state := bstate;
  a_init := mk_bstate [] 0;
  a_dump := b_store;
  a_get := b_get;
  a_iter := b_iter;
  a_batch := b_batch;
  a_del := b_del;
  a_delcur := fun s i => b_batch s [DelCur (fst (fst i)) (snd (fst i)) (snd i)];
  a_nil_empty := true                                            (* Item.ValueCopy(nil) of an empty value is nil *)
|}.

(* ====================================================================================== *)
(* TiKV: pkg/storage/tikv/{tikv,batch,iter}.go                                             *)
(* ====================================================================================== *)

Definition t_txn_get (s : store) (p : pending) (k : bytes) : option bytes :=
  match get p k with
  | Some pv => pv
  | None => get s k
  end.

(* KVTxn.Set refuses an empty value (ErrCannotSetNilValue); the closures wrap it into a plain error *)
Definition t_set (p : pending) (k v : bytes) : pending + (rclass * option conflict) :=
  match v with
  | [] => inr (ROther, None)
  | _ => inl (set p k (Some v))
  end.

Definition t_closure (s : store) (p : pending) (idx : nat) (o : bop) : pending + (rclass * option conflict) :=
  match o with
  | PutIfNotExist k v _ =>
      match t_txn_get s p k with
      | None => t_set p k v
      | Some old => inr (RCond, Some (idx, k, canon_val old))
      end
  | CAS k nv ov _ =>
      match t_txn_get s p k with
      | None => inr (RCond, Some (idx, k, None))
      | Some val => if beqb ov val then t_set p k nv else inr (RCond, Some (idx, k, canon_val val))
      end
  | Put k v _ => t_set p k v
  | Del k => inl (set p k None)
  | DelCur k v _ =>
      match t_txn_get s p k with
      | None => inr (RCond, Some (idx, k, None))
      | Some old => if beqb old v then inl (set p k None) else inr (RCond, Some (idx, k, canon_val old))
      end
  end.

Fixpoint t_run (s : store) (p : pending) (idx : nat) (ops : list bop) : pending + (rclass * option conflict) :=
  match ops with
  | [] => inl p
  | o :: rest =>
      match t_closure s p idx o with
      | inl p' => t_run s p' (S idx) rest
      | inr e => inr e
      end
  end.

Definition t_apply (s : store) (p : pending) : store := apply_writes (fun v => v) s p.

(* what the engine answers to txn.Commit *)
Inductive commit_env := EnvOk | EnvWriteConflict | EnvUncertain | EnvError.

(* BeginBatchWrite (tikv.go:175-184) puts a closure returning Begin's error first: conditions are numbered from 1.
   Commit (batch.go:111-138): a write conflict becomes ErrCASFailed, the listed errors become uncertain. *)
Definition t_batch_env (env : commit_env) (s : store) (ops : list bop) : store * rclass * option conflict :=
  match t_run s [] 1 ops with
  | inl p =>
      match env with
      | EnvOk => (t_apply s p, ROk, None)
      | EnvWriteConflict => (s, RCond, None)
      | EnvUncertain | EnvError => (s, ROther, None)
      end
  | inr (c, cf) => (s, c, cf)
  end.

Definition t_batch := t_batch_env EnvOk.

(* iter.go:42-77 on the engine's native iterator `us` (the element under the cursor is the head).
   t_next_loop is Next() once `moved` is set; count is the field of the same name. *)
Definition t_border (rev : bool) (e k : bytes) : bool :=
  if rev then bleb k e else bleb e k.      (* true = io.EOF *)

Fixpoint t_next_loop (limit : N) (rev : bool) (e : bytes) (count : N) (us : store) : store :=
  match us with
  | [] => []                                                     (* !Valid *)
  | _ :: rest =>
      if (0 <? limit) && (limit <=? count) then []
      else match rest with                                       (* count++ ; iter.Next() *)
           | [] => []
           | nxt :: _ => if t_border rev e (fst nxt) then [] else nxt :: t_next_loop limit rev e (count + 1) rest
           end
  end.

Definition t_iter_out (limit : N) (rev : bool) (e : bytes) (us : store) : store :=
  match us with
  | [] => []
  | x :: _ => if t_border rev e (fst x) then [] else x :: t_next_loop limit rev e 0 us
  end.

(* Iter (tikv.go:149-173): forward = snapshot.Iter(start, end), natively bounded on both sides;
   reverse = snapshot.IterReverse(start ++ [0]), i.e. every key below start++[0], downwards, unbounded *)
Definition t_iter (s : store) (a b : bytes) (limit : N) : store :=
  if b_is_rev a b
  then t_iter_out limit true b (rev (filter (fun kv => bltb (fst kv) (a ++ [0])) s))
  else t_iter_out limit false b (filter (fun kv => in_fwd a b (fst kv)) s).

Definition tikv : adapter := {|
  a_state := store;
  a_init := [];
  a_dump := fun s => s;
  a_get := mem_get;                                              (* Begin, txn.Get, Commit: tikv.go:186-205 *)
  a_iter := fun s a b l => with_stamp0 (t_iter s a b l);
  a_batch := t_batch;
  a_del := fun s k => let '(s', c, _) := t_batch s [Del k] in (s', c);
  a_delcur := fun s i => t_batch s [DelCur (fst (fst i)) (snd (fst i)) (snd i)];
  a_nil_empty := false                                           (* empty values cannot be stored at all *)
|}.

(* ====================================================================================== *)
(* metrics wrapper: pkg/storage/metrics/store.go — pass-through; iterators are wrapped and   *)
(* unwrapped again for DelCurrent (a foreign iterator would panic: not in the modelled space) *)
(* ====================================================================================== *)

Definition wrapper (inner : adapter) : adapter := {|
  a_state := a_state inner;
  a_init := a_init inner;
  a_dump := a_dump inner;
  a_get := a_get inner;
  a_iter := a_iter inner;
  a_batch := a_batch inner;
  a_del := a_del inner;
  a_delcur := a_delcur inner;
  a_nil_empty := a_nil_empty inner
|}.
