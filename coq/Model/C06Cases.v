(* C06 — list-then-watch reconstructs the store.
   A small sequential model of writes (txn.go Create/Update/Delete as seen by the version records and the
   slot array), MVCC snapshots, event replay, the compaction removal rule; and the correspondence cases.
   Events and slots are those of Model/WatchSys.v. Definitions only. *)
From KB Require Export Base.Cases Model.WatchSys.
Local Open Scope N_scope.

(* ------------------------------------------------------------------ versions and snapshots *)

(* one object record {key}${rev} -> value | tombstone *)
Record version := mkVer { v_key : bytes; v_rev : N; v_val : option bytes }.    (* None = tombstone *)

(* version lists are kept newest first *)
Definition latest (V : list version) (k : bytes) (R : N) : option version :=
  find (fun x => beqb (v_key x) k && (v_rev x <=? R)) V.

(* what a read of k at revision R returns: value and modification revision *)
Definition live (V : list version) (k : bytes) (R : N) : option (bytes * N) :=
  match latest V k R with
  | Some x => match v_val x with Some v => Some (v, v_rev x) | None => None end
  | None => None
  end.

(* a range result: key ↦ (value, mod revision), strictly sorted by key *)
Definition store := list (bytes * (bytes * N)).

Fixpoint st_get (k : bytes) (st : store) : option (bytes * N) :=
  match st with
  | [] => None
  | (k', x) :: t => if beqb k' k then Some x else st_get k t
  end.

Fixpoint st_set (k : bytes) (x : bytes * N) (st : store) : store :=
  match st with
  | [] => [(k, x)]
  | (k', x') :: t =>
      match bcmp k k' with
      | Lt => (k, x) :: (k', x') :: t
      | Eq => (k, x) :: t
      | Gt => (k', x') :: st_set k x t
      end
  end.

Definition st_del (k : bytes) (st : store) : store := filter (fun p => negb (beqb (fst p) k)) st.

Definition in_prefix (P : bytes) (st : store) : store := filter (fun p => has_prefix P (fst p)) st.

Definition snapshot (V : list version) (R : N) : store :=
  fold_left (fun st k => match live V k R with Some x => st_set k x st | None => st end) (map v_key V) [].

(* PUT/CREATE set key ↦ (value, revision); DELETE removes *)
Definition apply_event (st : store) (e : event) : store :=
  match e_ty e with
  | VDelete => st_del (e_key e) st
  | _ => st_set (e_key e) (e_val e, e_rev e) st
  end.
Definition apply_events (evs : list event) (st : store) : store := fold_left apply_event evs st.

Definition in_window (R R' : N) (P : bytes) (e : event) : bool :=
  (R <? e_rev e) && (e_rev e <=? R') && has_prefix P (e_key e).

(* ------------------------------------------------------------------ sequential write model *)

Inductive wop :=
| WCreate (k v : bytes)
| WUpdate (k v : bytes) (exp : N)      (* exp = 0: create *)
| WDelete (k : bytes) (exp : N).       (* exp = 0: delete the latest *)

(* a_ok = false: the engine refuses or fails the write (conflict, error) although its condition holds *)
Record attempt := mkAtt { a_op : wop; a_ok : bool }.

Definition top : N := 18446744073709551615.

(* one write with allocated revision r on versions V (all of revision < r): the slot written by notify and
   the new version list *)
Definition exec_one (V : list version) (r : N) (a : attempt) : wevent * list version :=
  match a_op a with
  | WCreate k v =>
      let ok := a_ok a && match live V k top with None => true | Some _ => false end in
      (mkWe r 0 ok VCreate k v, if ok then mkVer k r (Some v) :: V else V)
  | WUpdate k v exp =>
      if exp =? 0 then
        let ok := a_ok a && match live V k top with None => true | Some _ => false end in
        (mkWe r 0 ok VCreate k v, if ok then mkVer k r (Some v) :: V else V)
      else
        let ok := a_ok a && match live V k top with Some (_, r0) => r0 =? exp | None => false end in
        (mkWe r exp ok VPut k v, if ok then mkVer k r (Some v) :: V else V)
  | WDelete k exp =>
      match live V k top with
      | None => (mkWe r 0 false VDelete k [], V)
      | Some (v0, r0) =>
          let ok := a_ok a && ((exp =? 0) || (exp =? r0)) in
          (mkWe r r0 ok VDelete k v0, if ok then mkVer k r None :: V else V)
      end
  end.

(* history from initial revision c0: slots in revision order (c0+1, c0+2, ...) and the final versions *)
Fixpoint exec_from (V : list version) (r : N) (h : list attempt) : list wevent * list version :=
  match h with
  | [] => ([], V)
  | a :: t =>
      let '(we, V') := exec_one V (r + 1) a in
      let '(ws, V'') := exec_from V' (r + 1) t in
      (we :: ws, V'')
  end.
Definition exec (c0 : N) (h : list attempt) : list wevent * list version := exec_from [] c0 h.

Definition events_of (slots : list wevent) : list event := map to_event (filter we_valid slots).

(* the version a successful slot stores *)
Definition version_of (we : wevent) : version :=
  mkVer (we_key we) (we_rev we) (match we_verb we with VDelete => None | _ => Some (we_val we) end).
(* newest first *)
Definition versions_of (slots : list wevent) : list version := rev (map version_of (filter we_valid slots)).

(* ------------------------------------------------------------------ compaction: the removal rule *)

(* compaction at `floor` may remove a version of revision <= floor that is superseded by another version of
   the same key with revision <= floor, and a tombstone of revision <= floor (scanner compact pass) *)
Definition removable (V : list version) (floor : N) (x : version) : bool :=
  (v_rev x <=? floor) &&
  (match v_val x with None => true | Some _ => false end ||
   existsb (fun y => beqb (v_key y) (v_key x) && (v_rev x <? v_rev y) && (v_rev y <=? floor)) V).

(* ------------------------------------------------------------------ correspondence cases *)

Definition kv_eqb (a b : bytes * (bytes * N)) : bool :=
  beqb (fst a) (fst b) && beqb (fst (snd a)) (fst (snd b)) && (snd (snd a) =? snd (snd b)).
Definition store_eqb (a b : store) : bool := list_eqb kv_eqb a b.

Inductive c06_case :=
(* slots: the writes as the implementation resolved them (successful ones complete, in revision order);
   a range read of prefix P served at R0 (header revision) returned kv0; a watch on P from R0+1 delivered evs
   (complete up to the last write); lists: range reads at explicit revisions R' >= R0 *)
| KLw (P : bytes) (slots : list wevent) (R0 : N) (kv0 : store) (wok : bool) (evs : list event) (lists : list (N * store))
   (* wok = false: the watch was refused (then evs = [] and only the range reads are compared) *)
(* runs with unknown-outcome writes (engine answers "uncertain", applied or not) and compactions inside the retry
   window: the writes as resolved are not known from the responses, so nothing is compared with the model; only
   the property is evaluated: range read (R0, kv0), the events the watch on P from R0+1 delivered until the retry
   queue was empty and a sentinel write had arrived, and the range read kvf at the final revision Rf *)
| KLf (P : bytes) (R0 : N) (kv0 : store) (evs : list event) (Rf : N) (kvf : store).

Definition evs_eqb6 (a b : list event) : bool := list_eqb ev_eqb a b.

(* model = observation: the reads are the MVCC snapshots of the successful writes, the watch delivered exactly
   their events, and every delete slot carries the value/revision it superseded *)
Definition delete_slots_ok (slots : list wevent) : bool :=
  let V := versions_of slots in
  forallb (fun we => match we_verb we with
                     | VDelete => negb (we_valid we) ||
                                  match live V (we_key we) (we_rev we - 1) with
                                  | Some (v0, r0) => beqb v0 (we_val we) && (r0 =? we_prev we)
                                  | None => false
                                  end
                     | _ => true
                     end) slots.

(* the cases the theorems speak about, decidably: the events of the resolved writes are strictly increasing in
   revision and below 2^64. A generated KLw case that is not valid counts as a disagreement (c06_check). The
   unknown-outcome runs (KLf) are outside these theorems (Proofs/C06Faults.v treats them). *)
Fixpoint ev_sortedb (l : list event) : bool :=
  match l with
  | a :: (b :: _) as t => (e_rev a <? e_rev b) && ev_sortedb t
  | _ => true
  end.
Definition c06_validb (c : c06_case) : bool :=
  match c with
  | KLw P slots R0 kv0 wok evs lists =>
      ev_sortedb (events_of slots) && forallb (fun e => e_rev e <=? top) (events_of slots)
  | KLf _ _ _ _ _ _ => false
  end.

(* a range result of prefix P served at revision R: strictly sorted by key, every key under P, every modification
   revision at most R *)
Fixpoint st_sortedb (st : store) : bool :=
  match st with
  | a :: (b :: _) as t => bltb (fst a) (fst b) && st_sortedb t
  | _ => true
  end.
Definition range_ok (P : bytes) (R : N) (st : store) : bool :=
  st_sortedb st && forallb (fun kv => has_prefix P (fst kv) && (snd (snd kv) <=? R)) st.
Definition klf_wf (P : bytes) (R0 : N) (kv0 : store) (Rf : N) (kvf : store) : bool :=
  (R0 <=? Rf) && range_ok P R0 kv0 && range_ok P Rf kvf.

Definition c06_check (c : c06_case) : bool :=
  match c with
  | KLw P slots R0 kv0 wok evs lists =>
      c06_validb c &&
      let V := versions_of slots in
      store_eqb kv0 (in_prefix P (snapshot V R0)) &&
      (negb wok || evs_eqb6 evs (filter (in_window R0 top P) (events_of slots))) &&
      forallb (fun rl => store_eqb (snd rl) (in_prefix P (snapshot V (fst rl)))) lists &&
      delete_slots_ok slots
  | KLf P R0 kv0 evs Rf kvf => klf_wf P R0 kv0 Rf kvf
      (* unknown outcomes: the writes as resolved are not in the case, nothing is compared with a model run; what
         is evaluated is the well-formedness every pair of range results has (klf_wf). The hypotheses of
         C06_fault_cases_converge are about runs (quiescence, well-formed labels) and are not decidable on a case:
         on these cases the oracle alone decides. *)
  end.

(* the property on the observations alone: the delivered events are exactly the implementation's own successful
   writes after R0 on the prefix (no hole, nothing extra, right content), and replaying them over the first
   range result gives every later range result *)
(* events of a stream from R0+1 on prefix P: strictly increasing revisions above R0, keys under P *)
Fixpoint stream_ok (P : bytes) (last : N) (evs : list event) : bool :=
  match evs with
  | [] => true
  | e :: t => (last <? e_rev e) && has_prefix P (e_key e) && stream_ok P (e_rev e) t
  end.

Definition c06_oracle (c : c06_case) : option N :=
  match c with
  | KLf P R0 kv0 evs Rf kvf =>
      ok_if (stream_ok P R0 evs && store_eqb (apply_events (filter (fun e => e_rev e <=? Rf) evs) kv0) kvf)
  | KLw P slots R0 kv0 wok evs lists =>
      if negb wok then None else
      ok_if (evs_eqb6 evs (filter (in_window R0 top P) (events_of slots)) && forallb (fun rl => (fst rl <? R0) ||
                                store_eqb (apply_events (filter (fun e => e_rev e <=? fst rl) evs) kv0) (snd rl)) lists)
  end.
