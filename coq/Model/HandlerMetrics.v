(* Which metrics the request handlers of both front ends emit (pkg/server/brain/{server,read,write,watch}.go,
   pkg/server/etcd/{kv,watch}.go), as rows in the sense of Model/Metrics.v: kind, name, label names, value classes.
   Definitions only.  The rows are tied to the code by the regenerated obligation
   Gen.MetricsTableOk.handlers_covered (every row here is covered by a row of the regenerated table). *)
From KB Require Export Model.Metrics Model.Handlers.
Open Scope N_scope.

Definition n_bsw : str := [98;114;97;105;110;46;115;101;114;118;101;114;46;119;114;105;116;101]. (* brain.server.write *)
Definition n_bsr : str := [98;114;97;105;110;46;115;101;114;118;101;114;46;114;101;97;100]. (* brain.server.read *)
Definition n_bswa : str := [98;114;97;105;110;46;115;101;114;118;101;114;46;119;97;116;99;104]. (* brain.server.watch *)
Definition sfx_latency : str := [46;108;97;116;101;110;99;121]. (* .latency *)
Definition sfx_fail : str := [46;102;97;105;108]. (* .fail *)
Definition sfx_size : str := [46;114;101;115;112;111;110;115;101;115;105;122;101]. (* .responsesize *)
Definition n_bwe : str := [98;114;97;105;110;46;119;97;116;99;104;46;101;118;101;110;116]. (* brain.watch.event *)
Definition n_read : str := [114;101;97;100]. (* read *)
Definition n_read_lat : str := [114;101;97;100;46;108;97;116;101;110;99;121]. (* read.latency *)
Definition n_read_size : str := [114;101;97;100;46;114;101;115;112;111;110;115;101;115;105;122;101]. (* read.responsesize *)
Definition n_write : str := [119;114;105;116;101]. (* write *)
Definition n_write_lat : str := [119;114;105;116;101;46;108;97;116;101;110;99;121]. (* write.latency *)
Definition n_write_size : str := [119;114;105;116;101;46;114;101;115;112;111;110;115;101;115;105;122;101]. (* write.responsesize *)
Definition n_write_fail : str := [119;114;105;116;101;46;102;97;105;108]. (* write.fail *)
Definition n_w_id : str := [119;97;116;99;104;46;119;97;116;99;104;95;105;100]. (* watch.watch_id *)
Definition n_w_range : str := [119;97;116;99;104;46;114;97;110;103;101]. (* watch.range *)
Definition n_w_watch : str := [119;97;116;99;104;46;119;97;116;99;104]. (* watch.watch *)
Definition n_w_cancel : str := [119;97;116;99;104;46;99;97;110;99;101;108]. (* watch.cancel *)
Definition n_w_close : str := [119;97;116;99;104;46;99;108;111;115;101]. (* watch.close *)
Definition n_w_recv_cancel : str := [119;97;116;99;104;101;114;46;114;101;99;101;105;118;101;46;99;97;110;99;101;108]. (* watcher.receive.cancel *)
Definition n_w_client_cancel : str := [119;97;116;99;104;46;99;108;105;101;110;116;46;99;97;110;99;101;108]. (* watch.client.cancel *)
Definition n_w_unsupported : str := [119;97;116;99;104;46;114;101;113;117;101;115;116;46;117;110;115;117;112;112;111;114;116;101;100]. (* watch.request.unsupported *)
Definition n_w_invalid_key : str := [105;110;118;97;108;105;100;46;119;97;116;99;104;46;107;101;121]. (* invalid.watch.key *)
Definition n_w_backend_err : str := [119;97;116;99;104;46;98;97;99;107;101;110;100;46;101;114;114]. (* watch.backend.err *)
Definition n_w_ls_err : str := [119;97;116;99;104;46;98;97;99;107;101;110;100;46;108;105;115;116;95;115;116;114;101;97;109;46;101;114;114]. (* watch.backend.list_stream.err *)
Definition n_w_ls_eof : str := [119;97;116;99;104;46;108;105;115;116;95;115;116;114;101;97;109;46;101;111;102]. (* watch.list_stream.eof *)
Definition n_w_ls_lat : str := [119;97;116;99;104;46;108;105;115;116;95;115;116;114;101;97;109;46;108;97;116;101;110;99;121]. (* watch.list_stream.latency *)
Definition n_w_ls_push : str := [119;97;116;99;104;46;108;105;115;116;95;115;116;114;101;97;109;46;112;117;115;104]. (* watch.list_stream.push *)
Definition n_w_ls_push_size : str := [119;97;116;99;104;46;108;105;115;116;95;115;116;114;101;97;109;46;112;117;115;104;46;115;105;122;101]. (* watch.list_stream.push.size *)
Definition n_w_ls_push_err : str := [119;97;116;99;104;46;108;105;115;116;95;115;116;114;101;97;109;46;112;117;115;104;46;101;114;114]. (* watch.list_stream.push.err *)
Definition n_w_ws_push : str := [119;97;116;99;104;46;119;97;116;99;104;95;115;116;114;101;97;109;46;112;117;115;104]. (* watch.watch_stream.push *)
Definition n_w_ws_push_size : str := [119;97;116;99;104;46;119;97;116;99;104;95;115;116;114;101;97;109;46;112;117;115;104;46;115;105;122;101]. (* watch.watch_stream.push.size *)
Definition n_w_ws_push_err : str := [119;97;116;99;104;46;119;97;116;99;104;95;115;116;114;101;97;109;46;112;117;115;104;46;101;114;114]. (* watch.watch_stream.push.err *)
Definition l_method : str := [109;101;116;104;111;100]. (* method *)
Definition l_err : str := [101;114;114]. (* err *)
Definition l_success : str := [115;117;99;99;101;115;115]. (* success *)
Definition l_compact : str := [99;111;109;112;97;99;116]. (* compact *)
Definition v_true : str := [116;114;117;101]. (* true *)
Definition v_false : str := [102;97;108;115;101]. (* false *)
Definition m_create : str := [99;114;101;97;116;101]. (* create *)
Definition m_update : str := [117;112;100;97;116;101]. (* update *)
Definition m_delete : str := [100;101;108;101;116;101]. (* delete *)
Definition m_compact : str := [99;111;109;112;97;99;116]. (* compact *)
Definition m_get : str := [103;101;116]. (* get *)
Definition m_range : str := [114;97;110;103;101]. (* range *)
Definition m_count : str := [99;111;117;110;116]. (* count *)
Definition m_list_partition : str := [108;105;115;116;45;112;97;114;116;105;116;105;111;110]. (* list-partition *)
Definition m_range_stream : str := [114;97;110;103;101;45;115;116;114;101;97;109]. (* range-stream *)
Definition m_range_stream_send : str := [114;97;110;103;101;45;115;116;114;101;97;109;45;115;101;110;100]. (* range-stream-send *)
Definition m_watch_start : str := [119;97;116;99;104;45;115;116;97;114;116]. (* watch-start *)
Definition m_watch_end : str := [119;97;116;99;104;45;101;110;100]. (* watch-end *)
Definition m_watch_send : str := [119;97;116;99;104;45;115;101;110;100]. (* watch-send *)
Definition m_watch : str := [119;97;116;99;104]. (* watch *)
Definition m_invalid : str := [105;110;118;97;108;105;100]. (* invalid *)

Definition mk (k : kind) (n : str) (ls : list (str * vclass)) (sg : vsign) : row :=
  {| r_site := 0; r_kind := k; r_name := Some n; r_labels := Some ls; r_sign := sg |}.

Definition fmt_bool : vclass := VOneOf [v_false; v_true].   (* strconv.FormatBool / the two literals *)

(* brain/server.go: emitMethodMetric(name, method, err, latency) *)
Definition brain_method_rows (base method : str) : list row :=
  [ mk Counter base [(l_method, VConst method); (l_err, fmt_bool)] NonNeg;
    mk Histogram (base ++ sfx_latency) [(l_method, VConst method); (l_err, fmt_bool)] NonNeg ].
(* brain/server.go: emitResponseDetailMetric(name, method, success, size) *)
Definition brain_detail_rows (base method : str) : list row :=
  [ mk Counter (base ++ sfx_fail) [(l_method, VConst method)] NonNeg;
    mk Histogram (base ++ sfx_size) [(l_method, VConst method)] NonNeg ].
Definition brain_rows (base method : str) : list row := brain_method_rows base method ++ brain_detail_rows base method.

(* etcd/kv.go Range: counter, latency, response size, all with (method, success) *)
Definition etcd_read_rows (method : str) : list row :=
  let ls := [(l_method, VConst method); (l_success, fmt_bool)] in
  [ mk Counter n_read ls NonNeg; mk Histogram n_read_lat ls NonNeg; mk Histogram n_read_size ls NonNeg ].
(* etcd/kv.go Txn *)
Definition etcd_write_rows (method : str) : list row :=
  let ls := [(l_method, VConst method); (l_success, fmt_bool)] in
  [ mk Counter n_write ls NonNeg; mk Histogram n_write_lat ls NonNeg; mk Histogram n_write_size ls NonNeg;
    mk Counter n_write_fail [(l_method, VConst method)] NonNeg ].
(* etcd/watch.go: the stream handler, Start, Cancel, Close, List and Watch *)
Definition etcd_watch_rows : list row :=
  [ mk Counter n_w_recv_cancel [] NonNeg; mk Counter n_w_client_cancel [] NonNeg; mk Counter n_w_unsupported [] NonNeg;
    mk Gauge n_w_id [] AnySign; mk Counter n_w_range [] NonNeg; mk Counter n_w_watch [] NonNeg;
    mk Counter n_w_cancel [(l_compact, fmt_bool)] NonNeg; mk Counter n_w_close [] NonNeg;
    mk Counter n_w_ls_err [] NonNeg; mk Counter n_w_ls_eof [] NonNeg; mk Histogram n_w_ls_lat [] NonNeg;
    mk Counter n_w_ls_push [] NonNeg; mk Histogram n_w_ls_push_size [] NonNeg; mk Counter n_w_ls_push_err [] NonNeg;
    mk Counter n_w_invalid_key [] NonNeg; mk Counter n_w_backend_err [] NonNeg;
    mk Gauge n_w_ws_push [] AnySign; mk Histogram n_w_ws_push_size [] NonNeg; mk Counter n_w_ws_push_err [] NonNeg ].

(* request kinds as far as emissions are concerned *)
Inductive hkind :=
| HBCreate | HBUpdate | HBDelete | HBCompact | HBGet | HBRange | HBCount | HBListPartition | HBRangeStream | HBWatch
| HERead (method : N)      (* 0 get, 1 list-partition, 2 count, 3 range *)
| HEWrite (method : N)     (* 0 create, 1 delete, 2 update, 3 compact, 4 invalid *)
| HEWatch.

Definition read_method (i : N) : str :=
  match i with 0 => m_get | 1 => m_list_partition | 2 => m_count | _ => m_range end.
Definition write_method (i : N) : str :=
  match i with 0 => m_create | 1 => m_delete | 2 => m_update | 3 => m_compact | _ => m_invalid end.

Definition kind_of (r : request) : hkind :=
  match r with
  | BCreate _ _ => HBCreate | BUpdate _ _ _ _ => HBUpdate | BDelete _ _ => HBDelete | BCompact _ => HBCompact
  | BGet _ _ => HBGet | BRange _ _ _ _ => HBRange | BCount _ _ => HBCount | BListPartition _ _ => HBListPartition
  | BRangeStream _ _ _ => HBRangeStream | BWatch _ _ => HBWatch
  | ERange _ e rev _ count_only =>
      if empty e then HERead 0 else if (rev =? 1888)%Z then HERead 1 else if count_only then HERead 2 else HERead 3
  | ETxn cmp succ fail =>
      match txn_shape_of cmp succ fail with
      | TCreate _ => HEWrite 0 | TDelete => HEWrite 1 | TUpdate => HEWrite 2 | TCompact => HEWrite 3 | TInvalid => HEWrite 4
      end
  | EWatch _ _ => HEWatch
  end.

(* every metric a handler of that kind may emit itself (the backend's own emissions are separate rows of the table) *)
Definition rows_of (k : hkind) : list row :=
  match k with
  | HBCreate => brain_rows n_bsw m_create
  | HBUpdate => brain_rows n_bsw m_update
  | HBDelete => brain_rows n_bsw m_delete
  | HBCompact => brain_rows n_bsw m_compact
  | HBGet => brain_rows n_bsr m_get
  | HBRange => brain_rows n_bsr m_range
  | HBCount => brain_rows n_bsr m_count
  | HBListPartition => brain_rows n_bsr m_list_partition
  | HBRangeStream => brain_rows n_bsr m_range_stream ++ brain_method_rows n_bsr m_range_stream_send
  | HBWatch => brain_method_rows n_bswa m_watch_start ++ brain_method_rows n_bswa m_watch_end ++
               brain_method_rows n_bswa m_watch_send ++ brain_detail_rows n_bswa m_watch ++ [mk Counter n_bwe [] NonNeg]
  | HERead i => etcd_read_rows (read_method i)
  | HEWrite i => etcd_write_rows (write_method i)
  | HEWatch => etcd_watch_rows
  end.

Definition all_hkinds : list hkind :=
  [HBCreate; HBUpdate; HBDelete; HBCompact; HBGet; HBRange; HBCount; HBListPartition; HBRangeStream; HBWatch;
   HERead 0; HERead 1; HERead 2; HERead 3; HEWrite 0; HEWrite 1; HEWrite 2; HEWrite 3; HEWrite 4; HEWatch].

Definition handler_rows (r : request) : list row := rows_of (kind_of r).
Definition all_handler_rows : list row := flat_map rows_of all_hkinds.

(* ---------- a handler row is covered by a table row ---------- *)

Definition class_safe_le (a : vclass) : bool :=   (* every value of class a is valid UTF-8 *)
  match a with
  | VConst v => valid_utf8 v
  | VOneOf vs => forallb valid_utf8 vs
  | VFmt | VSanitised | VServer => true
  | VRaw | VUnknown => false
  end.

Definition class_le (a b : vclass) : bool :=
  match b with
  | VRaw | VUnknown => true
  | VFmt | VSanitised | VServer => class_safe_le a
  | VConst w => match a with VConst v => seqb v w | VOneOf vs => forallb (fun v => seqb v w) vs | _ => false end
  | VOneOf ws => match a with VConst v => mem v ws | VOneOf vs => subsetb vs ws | _ => false end
  end.

Fixpoint labels_le (hs ts : list (str * vclass)) : bool :=
  match hs, ts with
  | [], [] => true
  | (n, c) :: hs', (n', c') :: ts' => seqb n n' && class_le c c' && labels_le hs' ts'
  | _, _ => false
  end.

Definition sign_le (a b : vsign) : bool := match a, b with AnySign, NonNeg => false | _, _ => true end.

Definition row_le (h t : row) : bool :=
  kind_eqb (r_kind h) (r_kind t) &&
  match r_name h, r_name t, r_labels h, r_labels t with
  | Some n, Some n', Some ls, Some ls' => seqb n n' && labels_le ls ls'
  | _, _, _, _ => false
  end && sign_le (r_sign h) (r_sign t).

Definition covers (t hs : list row) : bool := forallb (fun h => existsb (row_le h) t) hs.
