(* C09 / C06 — the retry system with the deletions of a compaction.
   Model/RetrySys.v computes Backend.Compact's capped revision but leaves the store alone.  Here the engine deletes a
   compaction issues are labels of their own, interleaved arbitrarily with everything else: XDel k r R removes the
   version record (k, r) on behalf of a compaction at revision R.  Its guard (Proofs/RetryCompact.v, xwf) is
   (a) R is a revision Backend.Compact may use — at most the committed revision and below every revision in the retry
       queue (what C09_compact_capped proves of the capped revision), and
   (b) the premise of C07_safe_remove on that key's version records: nothing there, or a newer version <= R exists, or
       the record is a tombstone <= R with nothing older left.
   Index records are not deleted here (see props/C09.json gaps).  Definitions only. *)
From KB Require Import Base.Cases Model.RetrySys.
Local Open Scope N_scope.

Inductive xlabel :=
| XL (l : label)
| XDel (k : key) (r : N) (R : N).

Definition del_ver (st : store) (k : key) (r : N) : store :=
  fun k' => if k' =? k
            then {| k_idx := k_idx (st k'); k_vers := filter (fun x => negb (fst x =? r)) (k_vers (st k')) |}
            else st k'.

Definition xstep (s : state) (x : xlabel) : state :=
  match x with
  | XL l => step s l
  | XDel k r _ => set_store s (del_ver (s_store s) k r)
  end.

Definition xrun (s : state) (xs : list xlabel) : state := fold_left xstep xs s.

(* the base labels of an extended label list: the run of the system without the deletions *)
Definition base_labels (xs : list xlabel) : list label :=
  flat_map (fun x => match x with XL l => [l] | XDel _ _ _ => [] end) xs.

(* the largest compaction revision used so far *)
Definition floor_of (xs : list xlabel) : N :=
  fold_left (fun f x => match x with XDel _ _ R => N.max f R | _ => f end) xs 0.

(* ---------- the guard of XDel, executable (Proofs/RetryCompact.v: xwf_allb xs = true -> xwf_all xs) ---------- *)
Definition premise1b (R : N) (vs : list (N * value)) (r : N) : bool :=
  negb (existsb (fun x => fst x =? r) vs)
  || existsb (fun x => (r <? fst x) && (fst x <=? R)) vs
  || (existsb (fun x => (fst x =? r) && is_tomb (snd x)) vs && (r <=? R) && forallb (fun x => r <=? fst x) vs).

Definition cap_okb (s : state) (R : N) : bool :=
  (R <=? s_committed s) && forallb (fun x => R <? e_rev (fst x)) (s_queue s).
