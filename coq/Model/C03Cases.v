(* Correspondence cases for C03: one case = one history run through the real Backend in two phases
   (writes, reads; more writes + a compaction, the same reads again), with the raw engine dump and
   every response.  c03_check replays everything on the model built from the dump (and ties the dump
   to the history by the write-effect layout); c03_oracle states the property on the implementation's
   own responses against the snapshot specification evaluated on the client-visible history. *)
From KB Require Export Model.ReadSys.
Local Open Scope N_scope.

Inductive wop :=
| WCreate (k v : bytes) (rev : N) (ok : bool)             (* rev = revision in the response header *)
| WUpdate (k v : bytes) (prev rev : N) (ok : bool)
| WDelete (k : bytes) (prev rev : N) (ok : bool).

(* etcd RangeResponse of the list path (pkg/server/etcd/kv.go Range, backendshim.go List): header revision,
   kvs (key, value, mod revision), More, Count *)
Inductive etcd_resp := EPanic | EErr | ERange (header : N) (kvs : list okv) (more : bool) (count : N).

(* backendShim.List: the Backend.List response reshaped; Count = number of kvs, + 1 when More *)
Definition etcd_shape (r : list_resp) : etcd_resp :=
  match r with
  | LPanic => EPanic
  | LErr _ => EErr
  | LResp h kvs more => ERange h kvs more (N.of_nat (length kvs) + (if more then 1 else 0))
  end.

Inductive c03_read :=
| QGet (k : bytes) (rev : N) (out : get_resp)
| QList (a b : bytes) (rev : N) (limit : Z) (out : list_resp)
| QCount (a b : bytes) (out : count_resp)
| QStream (a b : bytes) (rev : N) (out : list smsg)    (* ListByStream (Enc a 0) (Enc b 0) rev: all messages *)
| QEtcd (a b : bytes) (rev : N) (limit : Z) (out : etcd_resp).  (* etcd Range with RangeEnd: RPCServer.Range -> backendShim.List *)

(* one phase: the writes acknowledged since the previous phase, the revision of a Compact issued after
   them (0 = none), then — with no write in flight completing — the raw dump, the committed revision
   and the reads.  A write that is still in flight (allocated, not yet stored) is not listed; a write
   that is stored and acknowledged but not yet published (revision > ph_cur) is. *)
Record c03_phase := mk_phase { ph_ops : list wop; ph_floor : N; ph_dump : raw_store; ph_cur : N; ph_reads : list c03_read }.

(* the engine's GetPartitions answers as recorded by the driver: (start, end) -> result *)
Definition pcall := (bytes * bytes * list part)%type.

(* the recorded partition function; an unrecorded call yields no partition at all, so that it shows *)
Fixpoint parts_of (calls : list pcall) (s e : bytes) : list part :=
  match calls with
  | [] => []
  | (s', e', ps) :: t => if beqb s' s && beqb e' e then ps else parts_of t s e
  end.

Record c03_case := mk_c03 {
  c_ck : bytes;                 (* the compact key of the backend's configuration *)
  c_compat : bool;              (* Config.EnableEtcdCompatibility *)
  c_calls : list pcall;         (* [] = an engine that reports one partition (memkv, Badger, unsplit TiKV) *)
  c_phases : list c03_phase }.

Definition c03_partitioned (c : c03_case) : bool := match c_calls c with [] => false | _ => true end.
Definition c03_parts (c : c03_case) : partition_fn := match c_calls c with [] => single_part | cs => parts_of cs end.

(* sorting streamed key-values by key: the workers of several partitions send in any order *)
Fixpoint insert_okv (x : okv) (l : list okv) : list okv :=
  match l with
  | [] => [x]
  | y :: t => if bltb (okv_key y) (okv_key x) then y :: insert_okv x t else x :: l
  end.
Definition sort_okv (l : list okv) : list okv := fold_right insert_okv [] l.
Definition stream_order (srt : bool) (l : list okv) : list okv := if srt then sort_okv l else l.

(* ---------- client-visible history ---------- *)
Definition op_version (o : wop) : list (@vrec (option bytes)) :=
  match o with
  | WCreate k v r true => [(k, r, Some v)]
  | WUpdate k v _ r true => [(k, r, Some v)]
  | WDelete k _ r true => [(k, r, None)]
  | _ => []
  end.
Definition hist_versions (ops : list wop) : list (@vrec (option bytes)) := flat_map op_version ops.

(* ---------- write-effect layout (txn.go:178-187, :258-266; creator/naive.go) ----------
   object record Enc(k, rev) -> value or marker; index record Enc(k, 0) -> be64 rev (+ 0x00 after a delete) *)
Definition index_val (r : N) (a : option bytes) : bytes :=
  match a with Some _ => be64 r | None => be64 r ++ [0] end.

Fixpoint last_of {A} (k : bytes) (hv : list (@vrec A)) : option (N * A) :=
  match hv with
  | [] => None
  | x :: t => match last_of k t with Some y => Some y | None => if beqb (vr_key x) k then Some (vr_rev x, vr_val x) else None end
  end.

Definition vrec_eqb (x y : @vrec bytes) : bool :=
  beqb (vr_key x) (vr_key y) && (vr_rev x =? vr_rev y) && beqb (vr_val x) (vr_val y).
Definition vmem (x : @vrec bytes) (l : list (@vrec bytes)) : bool := existsb (vrec_eqb x) l.

Definition positive (V : list (@vrec bytes)) : list (@vrec bytes) := filter (fun x => 0 <? vr_rev x) V.

Definition data_of (d : raw_store) : raw_store := filter (fun p => has_prefix magic (fst p)) d.

Definition kv_eqb (x y : kv) : bool := beqb (fst x) (fst y) && beqb (snd x) (snd y).

(* the data part of the dump consists of well-formed internal keys only, in engine order *)
Definition dump_wf (d : raw_store) : bool :=
  let V := versions_of (data_of d) in
  list_eqb kv_eqb (raw_of V) (data_of d) && wf_storeb V.

Definition index_ok (d : raw_store) (hv : list (@vrec (option bytes))) : bool :=
  forallb (fun k => match last_of k hv with
                    | Some (r, a) => opt_eqb beqb (lookup (encode k 0) d) (Some (index_val r a))
                    | None => true end) (ukeys hv).

(* phase 1: the engine holds exactly the history's versions and index records *)
Definition layout_ok (d : raw_store) (hv : list (@vrec (option bytes))) : bool :=
  let V := versions_of (data_of d) in
  let E := enc_store hv in
  dump_wf d && forallb (fun x => vmem x E) (positive V) && forallb (fun x => vmem x V) E
  && forallb (fun x => existsb (fun k => beqb k (vr_key x)) (ukeys hv)) V
  && index_ok d hv.

(* phase 2: what a compaction at floor F may have removed (executable form of ReadSys.compacted) *)
Definition removableb (E : list (@vrec bytes)) (F : N) (x : @vrec bytes) : bool :=
  (vr_rev x <=? F) &&
  (beqb (vr_val x) tombstone ||
   existsb (fun y => beqb (vr_key y) (vr_key x) && (vr_rev x <? vr_rev y) && (vr_rev y <=? F)) E).

Definition compact_layout_ok (d : raw_store) (hv : list (@vrec (option bytes))) (F : N) : bool :=
  let V := versions_of (data_of d) in
  let E := enc_store hv in
  dump_wf d
  && forallb (fun x => vmem x E) (positive V)
  && forallb (fun x => vmem x V || removableb E F x) E
  && forallb (fun x => vmem x V ||
                       forallb (fun y => negb (beqb (vr_key y) (vr_key x) && (vr_rev y <? vr_rev x)) || negb (vmem y V)) E) E
  && forallb (fun x => existsb (fun k => beqb k (vr_key x)) (ukeys hv)) V
  && forallb (fun k => match last_of k hv, lookup (encode k 0) d with
                       | Some (r, a), Some iv => beqb iv (index_val r a)
                       | Some (r, None), None => r <=? F          (* index record with deletion flag compacted *)
                       | Some (_, Some _), None => false
                       | None, _ => true
                       end) (ukeys hv).

(* ---------- equality of responses ---------- *)
Definition okv_eqb (x y : okv) : bool := beqb (okv_key x) (okv_key y) && beqb (okv_val x) (okv_val y) && (okv_rev x =? okv_rev y).
Definition vn_eqb (x y : bytes * N) : bool := beqb (fst x) (fst y) && (snd x =? snd y).

Definition get_resp_eqb (x y : get_resp) : bool :=
  match x, y with
  | GetPanic, GetPanic => true
  | GetResp h kv, GetResp h' kv' => (h =? h') && opt_eqb vn_eqb kv kv'
  | _, _ => false
  end.
Definition list_resp_eqb (x y : list_resp) : bool :=
  match x, y with
  | LPanic, LPanic => true
  | LErr c, LErr c' => c =? c'
  | LResp h kvs m, LResp h' kvs' m' => (h =? h') && list_eqb okv_eqb kvs kvs' && Bool.eqb m m'
  | _, _ => false
  end.
Definition count_resp_eqb (x y : count_resp) : bool :=
  match x, y with
  | CPanic, CPanic => true
  | CErr, CErr => true
  | CResp h n, CResp h' n' => (h =? h') && (n =? n')
  | _, _ => false
  end.

Definition etcd_resp_eqb (x y : etcd_resp) : bool :=
  match x, y with
  | EPanic, EPanic => true
  | EErr, EErr => true
  | ERange h kvs m c, ERange h' kvs' m' c' => (h =? h') && list_eqb okv_eqb kvs kvs' && Bool.eqb m m' && (c =? c')
  | _, _ => false
  end.

(* ---------- streams ---------- *)
Definition smsg_eqb (x y : smsg) : bool :=
  (m_rev x =? m_rev y) && list_eqb okv_eqb (m_kvs x) (m_kvs y) && Bool.eqb (m_more x) (m_more y) && Bool.eqb (m_err x) (m_err y).

(* is `out` an interleaving of the lists `ls`?  Greedy: sound, and complete when no two lists can
   offer the same message at once (partitions carry disjoint keys) *)
Fixpoint take_head (x : smsg) (ls : list (list smsg)) : option (list (list smsg)) :=
  match ls with
  | [] => None
  | [] :: t => match take_head x t with Some t' => Some ([] :: t') | None => None end
  | (y :: l) :: t =>
      if smsg_eqb x y then Some (l :: t)
      else match take_head x t with Some t' => Some ((y :: l) :: t') | None => None end
  end.

Fixpoint interleave_check (ls : list (list smsg)) (out : list smsg) : bool :=
  match out with
  | [] => forallb (fun l => match l with [] => true | _ => false end) ls
  | x :: o => match take_head x ls with Some ls' => interleave_check ls' o | None => false end
  end.

Definition stream_check (r : stream_res) (out : list smsg) : bool :=
  match r with
  | StPanic => false
  | StOk pp term =>
      match rev out with
      | [] => false
      | last :: rdata => smsg_eqb last term && interleave_check pp (rev rdata)
      end
  end.

(* one stream: data batches all carry the read revision, are marked `more`, carry no error and at
   least one kv; exactly one terminator, last, without error (no faults are injected) *)
Definition stream_shape (R : N) (out : list smsg) : bool :=
  match rev out with
  | [] => false
  | last :: rdata =>
      (m_rev last =? R) && negb (m_more last) && negb (m_err last) && (match m_kvs last with [] => true | _ => false end)
      && forallb (fun m => (m_rev m =? R) && m_more m && negb (m_err m) && (match m_kvs m with [] => false | _ => true end)) rdata
  end.
Definition stream_kvs (out : list smsg) : list okv := flat_map m_kvs out.

(* ---------- check: the model on the dump reproduces every response ---------- *)
Definition read_check (ck : bytes) (compat : bool) (parts : partition_fn) (ph : c03_phase) (q : c03_read) : bool :=
  let s := ph_dump ph in
  let fv := lookup ck s in
  match q with
  | QGet k rev out => get_resp_eqb (get_model s (ph_cur ph) k rev) out
  | QList a b rev limit out => list_resp_eqb (list_model s fv parts (ph_cur ph) a b rev limit) out
  | QCount a b out => count_resp_eqb (count_model s fv parts compat (ph_cur ph) a b) out
  | QStream a b rev out => stream_check (stream_model s fv parts (ph_cur ph) (encode a 0) (encode b 0) rev) out
  | QEtcd a b rev limit out => etcd_resp_eqb (etcd_shape (list_model s fv parts (ph_cur ph) a b rev limit)) out
  end.

Definition phase_check (ck : bytes) (compat : bool) (parts : partition_fn) (ph : c03_phase) : bool :=
  forallb (read_check ck compat parts ph) (ph_reads ph).

(* the compaction record: absent before the first compaction, be64 of the running floor afterwards *)
Definition floor_rec_ok (ck : bytes) (d : raw_store) (F : N) : bool :=
  opt_eqb beqb (lookup ck d) (if F =? 0 then None else Some (be64 F)).

(* phases in order; acc = operations of earlier phases, F = highest compaction floor so far *)
Fixpoint phases_check (ck : bytes) (compat : bool) (parts : partition_fn) (acc : list wop) (F : N) (phs : list c03_phase) : bool :=
  match phs with
  | [] => true
  | ph :: t =>
      let ops := acc ++ ph_ops ph in
      let F' := N.max F (ph_floor ph) in
      phase_check ck compat parts ph
      && compact_layout_ok (ph_dump ph) (hist_versions ops) F'
      && floor_rec_ok ck (ph_dump ph) F'
      && phases_check ck compat parts ops F' t
  end.

Definition c03_check (c : c03_case) : bool := phases_check (c_ck c) (c_compat c) (c03_parts c) [] 0 (c_phases c).

(* ---------- oracle: the property on the implementation's responses ---------- *)
Definition eff_rev (rev cur : N) : N := if rev =? 0 then cur else rev.

(* a live written value equal to the marker, turned into the deletion the implementation takes it for *)
Definition marker_as_deletion (hv : list (@vrec (option bytes))) : list (@vrec (option bytes)) :=
  map (fun x => (vr_key x, vr_rev x,
                 match vr_val x with Some v => if beqb v tombstone then None else Some v | None => None end)) hv.

Definition limited (limit : Z) (l : list okv) : list okv * bool :=
  if (0 <? limit)%Z then (firstn (Z.to_nat limit) l, (limit <? Z.of_nat (length l))%Z) else (l, false).

(* range membership as the implementation decides it: by the order of the encoded bounds (equal to
   in_range when both bounds are in the documented alphabet — C10_range_bounds) *)
Definition in_range_enc (a b : bytes) (l : list okv) : list okv :=
  filter (fun x => bleb (encode a 0) (encode (okv_key x) (okv_rev x)) && bltb (encode (okv_key x) (okv_rev x)) (encode b 0)) l.

(* does response `q` equal what the snapshot of version store hv prescribes?  `rng` = range restriction *)
Definition read_meets (srt : bool) (rng : bytes -> bytes -> list okv -> list okv)
    (hv : list (@vrec (option bytes))) (cur : N) (q : c03_read) : bool :=
  match q with
  | QGet k rev out =>
      match out with
      | GetResp _ kv => opt_eqb vn_eqb kv (find_key k (snapshot_spec hv (eff_rev rev cur)))
      | GetPanic => false
      end
  | QList a b rev limit out =>
      match out with
      | LResp _ kvs more =>
          let '(ekvs, emore) := limited limit (rng a b (snapshot_spec hv (eff_rev rev cur))) in
          list_eqb okv_eqb kvs ekvs && Bool.eqb more emore
      | _ => false
      end
  | QCount a b out =>
      match out with
      | CResp _ n => n =? N.of_nat (length (rng a b (snapshot_spec hv cur)))
      | _ => false
      end
  | QStream a b rev out =>
      stream_shape (eff_rev rev cur) out
      (* one partition: in key order; several: the workers' batches interleave, compared as a multiset *)
      && list_eqb okv_eqb (stream_order srt (stream_kvs out)) (rng a b (snapshot_spec hv (eff_rev rev cur)))
  | QEtcd a b rev limit out =>
      match out with
      | ERange _ kvs more count =>
          let '(ekvs, emore) := limited limit (rng a b (snapshot_spec hv (eff_rev rev cur))) in
          list_eqb okv_eqb kvs ekvs && Bool.eqb more emore        (* more exactly when the limit cut the result short *)
          && (count =? N.of_nat (length ekvs) + (if emore then 1 else 0))
      | _ => false
      end
  end.

Definition bounds_alpha (q : c03_read) : bool :=
  match q with
  | QGet _ _ _ => true
  | QList a b _ _ _ => alphab a && alphab b
  | QCount a b _ => alphab a && alphab b
  | QStream a b _ _ => alphab a && alphab b
  | QEtcd a b _ _ _ => alphab a && alphab b
  end.

Definition max_rev (hv : list (@vrec (option bytes))) : N := fold_right (fun x m => N.max (vr_rev x) m) 0 hv.

(* reads the property speaks about: a < b, revision already reported readable and not below the floor,
   limit in 0..2^63-2.  Get with revision 0 reads the latest *stored* version (range.go:92-94), whatever
   has been published: it is a read at a reported revision only when nothing newer than cur is stored. *)
Definition in_scope (compat : bool) (hv : list (@vrec (option bytes))) (cur floor : N) (q : c03_read) : bool :=
  match q with
  | QGet _ rev _ => (eff_rev rev cur <=? cur) && (floor <=? eff_rev rev cur) && ((0 <? rev) || (max_rev hv <=? cur))
  | QList a b rev limit _ =>
      bltb a b && (eff_rev rev cur <=? cur) && (floor <=? eff_rev rev cur) && (0 <=? limit)%Z && (limit <? max_i64)%Z
  | QCount a b _ => compat && bltb a b && (floor <=? cur)
  | QStream a b rev _ => bltb a b && (eff_rev rev cur <=? cur) && (floor <=? eff_rev rev cur)
  | QEtcd a b rev limit _ =>
      bltb a b && (eff_rev rev cur <=? cur) && (floor <=? eff_rev rev cur) && (0 <=? limit)%Z && (limit <? max_i64)%Z
  end.

Definition read_verdict (srt : bool) (hv : list (@vrec (option bytes))) (compat : bool) (cur floor : N) (q : c03_read) : option N :=
  if negb (in_scope compat hv cur floor q) then None
  else if read_meets srt in_range hv cur q then None
  else if negb (bounds_alpha q) && read_meets srt in_range_enc hv cur q then Some 2   (* finding C03-F2 *)
  else if read_meets srt in_range (marker_as_deletion hv) cur q then Some 1            (* finding C03-F1 *)
  else if negb (bounds_alpha q) && read_meets srt in_range_enc (marker_as_deletion hv) cur q then Some 2
  else Some 0.

Definition worst (x y : option N) : option N :=
  match x, y with
  | Some 0, _ => Some 0
  | _, Some 0 => Some 0
  | Some a, _ => Some a
  | None, y => y
  end.

Definition phase_verdict (srt : bool) (hv : list (@vrec (option bytes))) (compat : bool) (floor : N) (ph : c03_phase) : option N :=
  fold_right (fun q acc => worst (read_verdict srt hv compat (ph_cur ph) floor q) acc) None (ph_reads ph).

(* "returns the same answer whenever it is asked again": the same read in two consecutive phases
   (the driver re-issues the reads of a phase, in order, at the start of the next one), revision
   explicit, readable in the earlier phase, not below the floor of the later one *)
Definition same_answer (srt : bool) (q1 q2 : c03_read) : bool :=
  match q1, q2 with
  | QGet k r (GetResp _ kv), QGet k' r' (GetResp _ kv') => negb (beqb k k' && (r =? r')) || opt_eqb vn_eqb kv kv'
  | QList a b r l (LResp _ kvs m), QList a' b' r' l' (LResp _ kvs' m') =>
      negb (beqb a a' && beqb b b' && (r =? r') && (l =? l')%Z) || (list_eqb okv_eqb kvs kvs' && Bool.eqb m m')
  | QStream a b r out, QStream a' b' r' out' =>
      negb (beqb a a' && beqb b b' && (r =? r')) || list_eqb okv_eqb (stream_order srt (stream_kvs out)) (stream_order srt (stream_kvs out'))
  | _, _ => true
  end.
Definition read_rev (q : c03_read) : N :=
  match q with QGet _ r _ => r | QList _ _ r _ _ => r | QCount _ _ _ => 0 | QStream _ _ r _ => r | QEtcd _ _ r _ _ => r end.

Fixpoint stable_verdict (srt compat : bool) (hv1 hv2 : list (@vrec (option bytes))) (cur1 cur2 floor2 : N) (r1 r2 : list c03_read) : bool :=
  match r1, r2 with
  | q1 :: t1, q2 :: t2 =>
      (negb ((0 <? read_rev q1) && in_scope compat hv1 cur1 0 q1 && in_scope compat hv2 cur2 floor2 q2) || same_answer srt q1 q2)
      && stable_verdict srt compat hv1 hv2 cur1 cur2 floor2 t1 t2
  | _, _ => true
  end.

Definition has_marker (hv : list (@vrec (option bytes))) : bool := negb (no_markerb hv).

(* prev = the previous phase with the history up to it *)
Fixpoint phases_verdict (srt compat : bool) (acc : list wop) (F : N) (prev : option (c03_phase * list wop)) (phs : list c03_phase) : option N :=
  match phs with
  | [] => None
  | ph :: t =>
      let ops := acc ++ ph_ops ph in
      let hv := hist_versions ops in
      let F' := N.max F (ph_floor ph) in
      let v := phase_verdict srt hv compat F' ph in
      let st := match prev with
                | Some (p, pops) =>
                    if stable_verdict srt compat (hist_versions pops) hv (ph_cur p) (ph_cur ph) F' (ph_reads p) (ph_reads ph) then None else Some 0
                | None => None
                end in
      worst (worst v st) (phases_verdict srt compat ops F' (Some (ph, ops)) t)
  end.

Definition c03_oracle (c : c03_case) : option N := phases_verdict (c03_partitioned c) (c_compat c) [] 0 None (c_phases c).
