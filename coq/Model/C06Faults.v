(* C06, fault cases (KLf): what Model/RetrySys.v predicts for them.
   A KLf case records: a range read of prefix P served at R0 (header revision, result kv0), the events a watch on P
   from R0+1 delivered until the retry queue was empty and a sentinel write had arrived, and the range read kvf at the
   final revision Rf.  Here the same four observations are read off two states of a RetrySys run — s0 (where the first
   range read is served: any reachable state, requests / repairs / unknown outcomes may be outstanding), s (a later
   quiescent state: where the final range read is served) and sF (any state after s: the watch may have delivered
   more by then) — through an injective encoding of the model's keys as byte strings.  Definitions only. *)
From KB Require Import Base.Cases Model.RetrySys.
From KB Require Model.WatchSys Model.C06Cases.
Local Open Scope N_scope.

Definition tverb (v : verb) : WatchSys.verb :=
  match v with VCreate => WatchSys.VCreate | VPut => WatchSys.VPut | VDelete => WatchSys.VDelete end.

(* backend.go: proto.Event of a published write event *)
Definition tev (enc : key -> bytes) (ev : wevent) : WatchSys.event :=
  WatchSys.mkEv (tverb (e_verb ev)) (e_rev ev) (enc (e_key ev)) (e_val ev)
                (match e_verb ev with VDelete => e_prev ev | _ => e_rev ev end).

(* a range read at revision R over the keys ks, as a C06 store (sorted by encoded key) *)
Definition rstore (enc : key -> bytes) (ks : list key) (s : state) (R : N) : C06Cases.store :=
  fold_left (fun st k => match snap s R k with Some x => C06Cases.st_set (enc k) x st | None => st end) ks [].

(* the events of a watch on P from R0+1, oldest first (s_events is newest first) *)
Definition watched (enc : key -> bytes) (P : bytes) (R0 : N) (s : state) : list WatchSys.event :=
  map (tev enc) (filter (fun ev => (R0 <? e_rev ev) && has_prefix P (enc (e_key ev))) (rev (s_events s))).

Definition klf_of (enc : key -> bytes) (ks : list key) (P : bytes) (s0 s sF : state) : C06Cases.c06_case :=
  C06Cases.KLf P (s_committed s0) (C06Cases.in_prefix P (rstore enc ks s0 (s_committed s0)))
               (watched enc P (s_committed s0) sF)
               (s_committed s) (C06Cases.in_prefix P (rstore enc ks s (s_committed s))).

(* ---------- an encoding for the examples: keys 0..3 are "/r/a".."/r/d", every other key lies outside "/r/" ---------- *)
Definition enc_ex (k : key) : bytes :=
  if k <? 4 then [47; 114; 47; 97 + k] else [47; 113; 47] ++ repeat 97 (N.to_nat k).
Definition prefix_ex : bytes := [47; 114; 47].     (* "/r/" *)
