(* WatchSys — executable model of the watch path of pkg/backend:
     ring.go        Ring {s,e,l,arr}, Add, FindEvents (sort.Search + one/two-segment copy)
     watcherhub.go  AddWatcher, Stream (one item = one label, subscriber order = label parameter,
                    non-blocking send, slow subscribers deleted synchronously before the next item), DeleteWatcher,
                    ctx.Done deleter
     watch.go       Watch: subscribe -> FindEvents -> empty/high/low/replay decision -> catchUpEvents
                    -> processEvents (filterByRevision, filterByPrefix), result channel, consumer
     backend.go     collectStorageWriteEvents (208-273): slot committed+1 -> SetCurrentRevision ->
                    event -> watchCache.Add -> batch -> watchChan
   Channel capacities and the batch size are parameters (the constants of the code are `real_params`).
   Definitions only; proofs are in Proofs/Watch*.v. *)
From KB Require Export Base.Bytes.
Local Open Scope N_scope.

(* ------------------------------------------------------------------ events *)

Inductive verb := VCreate | VPut | VDelete.     (* proto.Event_CREATE = 0, PUT = 1, DELETE = 2 *)

(* proto.Event{Type, Revision, Kv{Key, Value, Revision}} *)
Record event := mkEv { e_ty : verb; e_rev : N; e_key : bytes; e_val : bytes; e_kvrev : N }.

(* common.WatchEvent as stored into the slot array by notify (txn.go:269-295) *)
Record wevent := mkWe { we_rev : N; we_prev : N; we_valid : bool; we_verb : verb; we_key : bytes; we_val : bytes }.

(* backend.go:241-257 *)
Definition to_event (we : wevent) : event :=
  mkEv (we_verb we) (we_rev we) (we_key we) (we_val we)
       (match we_verb we with VDelete => we_prev we | _ => we_rev we end).

Definition verb_eqb (a b : verb) : bool :=
  match a, b with VCreate, VCreate | VPut, VPut | VDelete, VDelete => true | _, _ => false end.
Definition ev_eqb (a b : event) : bool :=
  verb_eqb (e_ty a) (e_ty b) && (e_rev a =? e_rev b) && beqb (e_key a) (e_key b) &&
  beqb (e_val a) (e_val b) && (e_kvrev a =? e_kvrev b).

(* ------------------------------------------------------------------ parameters *)

Record params := mkParams {
  p_hub : N;     (* watchBuffer          = 10000  *)
  p_out : N;     (* resultChanLength     = 100    *)
  p_batch : N;   (* eventBatchSize       = 300    *)
  p_wchan : N    (* watchersChanCapacity = 100000 *)
}.
Definition real_params : params := mkParams 10000 100 300 100000.

(* ------------------------------------------------------------------ ring.go *)

Record ring := mkRing { r_s : N; r_e : N; r_l : N; r_arr : list (option event) }.

Definition new_ring (l : N) : ring := mkRing 0 0 l (repeat None (N.to_nat l)).

Definition r_index (r : ring) (i : N) : N := i mod r_l r.        (* callers guard r_l = 0 (Go: panic) *)
Definition r_get (r : ring) (i : N) : option event := nth (N.to_nat (r_index r i)) (r_arr r) None.

Fixpoint set_nth {A} (n : nat) (x : A) (l : list A) : list A :=
  match l, n with
  | [], _ => []
  | _ :: t, O => x :: t
  | h :: t, S n' => h :: set_nth n' x t
  end.

(* Add; None = integer divide by zero panic (l = 0) *)
Definition ring_add (r : ring) (ev : event) : option ring :=
  if r_l r =? 0 then None else
  Some (mkRing (if r_e r =? r_s r + r_l r then r_s r + 1 else r_s r) (r_e r + 1) (r_l r)
               (set_nth (N.to_nat (r_index r (r_e r))) (Some ev) (r_arr r))).

(* sort.Search(n, f): binary search, f may panic (None) *)
Fixpoint go_search_loop (fuel : nat) (f : N -> option bool) (i j : N) : option N :=
  if i <? j then
    match fuel with
    | O => None
    | S fuel' =>
        let h := (i + j) / 2 in
        match f h with
        | None => None
        | Some false => go_search_loop fuel' f (h + 1) j
        | Some true => go_search_loop fuel' f i h
        end
    end
  else Some i.
Definition go_search (n : N) (f : N -> option bool) : option N := go_search_loop (S (N.to_nat n)) f 0 n.

(* copy(dst, src) *)
Definition copy_into {A} (dst src : list A) : list A :=
  let n := Nat.min (length dst) (length src) in firstn n src ++ skipn n dst.

Inductive find_ret :=
| FPanic
| FEmpty
| FHigh (newest oldest : event)
| FLow (newest oldest : event)
| FEvents (newest oldest : event) (evs : list (option event)).   (* None = nil pointer left by make *)

(* FindEvents (ring.go:84-118) *)
Definition find_events (r : ring) (rev : N) : find_ret :=
  if r_e r =? 0 then FEmpty else
  if r_l r =? 0 then FPanic else
  match r_get r (r_e r - 1), r_get r (r_s r) with
  | Some nw, Some od =>
      if e_rev nw <? rev then FHigh nw od else
      if rev <? e_rev od then FLow nw od else
      let n := r_e r - r_s r in
      match go_search n (fun i => option_map (fun ev => rev <=? e_rev ev) (r_get r (r_s r + i))) with
      | None => FPanic
      | Some idx =>
          let cnt := N.to_nat (n - idx) in
          let dst := repeat None cnt in
          let i0 := N.to_nat (r_index r (r_s r + idx)) in
          let ie := N.to_nat (r_index r (r_e r)) in
          if (i0 <? ie)%nat then
            FEvents nw od (copy_into dst (firstn (ie - i0) (skipn i0 (r_arr r))))
          else
            let d1 := copy_into dst (skipn i0 (r_arr r)) in
            let off := (N.to_nat (r_l r) - i0)%nat in
            if (cnt <? off)%nat then FPanic           (* ret.events[l-i0:] out of range *)
            else FEvents nw od (firstn off d1 ++ copy_into (skipn off d1) (firstn ie (r_arr r)))
      end
  | _, _ => FPanic                                     (* nil event dereferenced *)
  end.

(* ring obtained from NewRing(l) by Add-ing the events in order *)
Definition ring_of (l : N) (evs : list event) : option ring :=
  fold_left (fun r ev => match r with Some r => ring_add r ev | None => None end) evs (Some (new_ring l)).

(* the specification FindEvents is compared with: the window is the last min(l,|σ|) events *)
Definition lastn {A} (n : nat) (l : list A) : list A := skipn (length l - n) l.

Definition find_spec (l : N) (sigma : list event) (rev : N) : find_ret :=
  match sigma with
  | [] => FEmpty
  | e0 :: _ =>
      let win := lastn (N.to_nat l) sigma in
      let nw := last sigma e0 in
      let od := hd e0 win in
      if e_rev nw <? rev then FHigh nw od else
      if rev <? e_rev od then FLow nw od else
      FEvents nw od (map Some (filter (fun e => rev <=? e_rev e) win))
  end.

(* ------------------------------------------------------------------ watch.go helpers *)

Fixpoint filter_by_revision (evs : list event) (rev : N) : list event :=
  match evs with
  | [] => []
  | e :: t => if e_rev e <? rev then filter_by_revision t rev else evs
  end.

Definition filter_by_prefix (evs : list event) (p : bytes) : list event :=
  filter (fun e => has_prefix p (e_key e)) evs.

(* catchUpEvents: batch size; None = the Go code panics:
   - resultChanLength = 1: integer divide by zero;
   - resultChanLength = 0: Go computes len / -1 = -len, and the first `events[0:batchSize]` with the negative size
     panics (slice bounds out of range); here p_out - 1 truncates to 0 and gives None as well: the same outcome.
   Neither can happen under fits_params (2 <= p_out), which holds for the constants of the code. *)
Definition catchup_batch_size (pa : params) (len : N) : option N :=
  if p_out pa * p_batch pa <? len then
    (if p_out pa - 1 =? 0 then None else Some (len / (p_out pa - 1)))
  else Some (p_batch pa).

(* the send loop of catchUpEvents; None = the loop does not end (batch size 0) *)
Fixpoint chunks (fuel : nat) (bs : nat) (evs : list event) : option (list (list event)) :=
  match fuel with
  | O => None
  | S f => if (bs <? length evs)%nat
           then option_map (cons (firstn bs evs)) (chunks f bs (skipn bs evs))
           else Some [evs]
  end.

Fixpoint all_some {A} (l : list (option A)) : option (list A) :=
  match l with
  | [] => Some []
  | None :: _ => None
  | Some x :: t => option_map (cons x) (all_some t)
  end.

Inductive decision :=
| DRefuse
| DRun (filter_rev : N) (catchup : list (list event))
| DHang                      (* catch-up blocks on the full result channel before Watch returns *)
| DPanic.

(* Watch (watch.go:60-101) after FindEvents returned `ret`; `committed` = tso.GetRevision() read in the empty branch *)
Definition watch_decide (pa : params) (S : N) (P : bytes) (ret : find_ret) (committed : N) : decision :=
  match ret with
  | FPanic => DPanic
  | FEmpty => if committed <? S then DRun S [] else DRefuse
  | FHigh _ _ => DRun S []
  | FLow _ _ => DRefuse
  | FEvents nw _ raw =>
      match all_some raw with
      | None => DPanic
      | Some evs =>
          let evs' := filter_by_prefix evs P in
          match evs' with
          | [] => DRun S []
          | _ :: _ =>
              match catchup_batch_size pa (N.of_nat (length evs')) with
              | None => DPanic
              | Some bs =>
                  match chunks (Datatypes.S (length evs')) (N.to_nat bs) evs' with
                  | None => DHang
                  | Some cs => if p_out pa <? N.of_nat (length cs) then DHang else DRun (e_rev nw + 1) cs
                  end
              end
          end
      end
  end.

(* ------------------------------------------------------------------ state *)

(* linear-time list reversal (List.rev is quadratic); frev l = rev l (List.rev_alt) *)
Definition frev {A} (l : list A) : list A := rev_append l [].

(* a buffered Go channel of batches. The queue is kept as front ++ rev backR with its length, so that
   send and receive cost O(1) (amortised) when the model is evaluated; c_buf is the queue in order. *)
Record chan := mkChan { c_front : list (list event); c_backR : list (list event); c_len : N; c_closed : bool }.
Definition c_buf (c : chan) : list (list event) := c_front c ++ frev (c_backR c).
Definition empty_chan : chan := mkChan [] [] 0 false.
Definition chan_of (items : list (list event)) : chan := mkChan items [] (N.of_nat (length items)) false.
Definition chan_send (c : chan) (x : list event) : chan :=
  mkChan (c_front c) (x :: c_backR c) (c_len c + 1) (c_closed c).
Definition chan_recv (c : chan) : option (list event * chan) :=
  match c_front c with
  | b :: f => Some (b, mkChan f (c_backR c) (c_len c - 1) (c_closed c))
  | [] => match frev (c_backR c) with
          | [] => None
          | b :: f => Some (b, mkChan f [] (c_len c - 1) (c_closed c))
          end
  end.
Definition chan_close (c : chan) : chan := mkChan (c_front c) (c_backR c) (c_len c) true.
Definition chan_len (c : chan) : N := c_len c.       (* len(ch) *)

Inductive phase :=
| PhSub                     (* AddWatcher done, parked at watch.subscribed *)
| PhRead (ret : find_ret)   (* FindEvents done, parked at watch.cache_read *)
| PhRun                     (* Watch returned the result channel; processEvents runs *)
| PhRefused                 (* Watch returned an error (cancel() called) *)
| PhHung                    (* Watch blocked for ever in catchUpEvents *)
| PhPanic
| PhDone.                   (* processEvents closed the result channel and returned *)

Record watcher := mkW {
  w_S : N; w_P : bytes;
  w_phase : phase;
  w_reg : bool;                 (* sub ∈ hub.subs *)
  w_sub : chan;                 (* hub -> processEvents, capacity p_hub *)
  w_ctx : bool;                 (* watch context cancelled *)
  w_ctxdone : bool;             (* the ctx.Done goroutine of AddWatcher has run *)
  w_filter : N;                 (* revision argument of processEvents *)
  w_hold : option (list event); (* processEvents: batch received from sub, not yet sent to out *)
  w_out : chan;                 (* result channel, capacity p_out *)
  (* ghost *)
  w_gotR : list (list event);   (* batches the client has received, newest first (see w_got) *)
  w_seen_close : bool;          (* the client has seen the result channel closed *)
  w_base : nat;                 (* number of events the hub had fanned out when AddWatcher ran *)
  w_inR : list event;           (* every event ever put into w_sub, newest first (see w_in) *)
  w_catch : list event;         (* events sent by catchUpEvents *)
  w_snap : list event;          (* ring window seen by FindEvents *)
  w_dropped : bool;             (* Stream found the buffer full at least once *)
  w_gap : bool                  (* Stream put a batch into the buffer after having dropped one (never happens) *)
}.

Record sys := mkSys {
  s_committed : N;
  s_cur : option event;         (* event built, SetCurrentRevision done, not yet in the cache *)
  s_pending : list event;       (* events[:cnt] *)
  s_cache : ring;
  s_wchan : list (list event);  (* watchChan *)
  s_ws : list watcher;
  s_panic : bool;
  (* ghost *)
  s_cachedR : list event;       (* every event ever added to the cache, newest first (see s_cached) *)
  s_hubR : list event;          (* the items Stream has fanned out, concatenated, newest first (see s_hub) *)
  s_spawned : list nat          (* watchers Stream dropped as slow (one `drop.slow.watcher` emission each), in order *)
}.

(* the ghost logs are kept newest-first so that a step costs O(1); these are the logs in order *)
Definition w_got (w : watcher) : list (list event) := frev (w_gotR w).
Definition w_in (w : watcher) : list event := frev (w_inR w).
Definition s_cached (s : sys) : list event := frev (s_cachedR s).
Definition s_hub (s : sys) : list event := frev (s_hubR s).

Definition init (l : N) (c0 : N) : sys := mkSys c0 None [] (new_ring l) [] [] false [] [] [].

Inductive label :=
| LSeqTake (we : wevent)        (* sequencer loads slot committed+1, clears it, SetCurrentRevision, builds the event *)
| LSeqCache                     (* watchCache.Add *)
| LSeqSend                      (* watchChan <- evs *)
| LHubItem (order : list nat)   (* Stream: one item offered to every subscriber (map order = parameter); the
                                   subscribers found slow are deleted before the next item is taken *)
| LCtxDelete (w : nat)          (* the ctx.Done goroutine of AddWatcher runs DeleteWatcher *)
| LWatchSub (S : N) (P : bytes) (* Watch: AddWatcher, make(result) *)
| LWatchRead (w : nat)          (* FindEvents *)
| LWatchSpawn (w : nat)         (* decision, catchUpEvents, go processEvents, return *)
| LProc (w : nat)               (* processEvents: one channel operation *)
| LConsume (w : nat)            (* the client receives from the result channel *)
| LCancel (w : nat).            (* the client cancels the watch context *)

(* ------------------------------------------------------------------ record updates *)

Definition w_set_phase (w : watcher) (x : phase) : watcher :=
  mkW (w_S w) (w_P w) x (w_reg w) (w_sub w) (w_ctx w) (w_ctxdone w) (w_filter w) (w_hold w)
      (w_out w) (w_gotR w) (w_seen_close w) (w_base w) (w_inR w) (w_catch w) (w_snap w) (w_dropped w) (w_gap w).
Definition w_set_ctx (w : watcher) (x : bool) : watcher :=
  mkW (w_S w) (w_P w) (w_phase w) (w_reg w) (w_sub w) x (w_ctxdone w) (w_filter w) (w_hold w)
      (w_out w) (w_gotR w) (w_seen_close w) (w_base w) (w_inR w) (w_catch w) (w_snap w) (w_dropped w) (w_gap w).
Definition w_set_hub (w : watcher) (reg : bool) (sub : chan) (ctxdone : bool) : watcher :=
  mkW (w_S w) (w_P w) (w_phase w) reg sub (w_ctx w) ctxdone (w_filter w) (w_hold w)
      (w_out w) (w_gotR w) (w_seen_close w) (w_base w) (w_inR w) (w_catch w) (w_snap w) (w_dropped w) (w_gap w).
Definition w_set_pipe (w : watcher) (sub : chan) (hold : option (list event)) (out : chan) : watcher :=
  mkW (w_S w) (w_P w) (w_phase w) (w_reg w) sub (w_ctx w) (w_ctxdone w) (w_filter w) hold
      out (w_gotR w) (w_seen_close w) (w_base w) (w_inR w) (w_catch w) (w_snap w) (w_dropped w) (w_gap w).
Definition w_set_client (w : watcher) (out : chan) (got : list (list event)) (seen : bool) : watcher :=
  mkW (w_S w) (w_P w) (w_phase w) (w_reg w) (w_sub w) (w_ctx w) (w_ctxdone w) (w_filter w) (w_hold w)
      out got seen (w_base w) (w_inR w) (w_catch w) (w_snap w) (w_dropped w) (w_gap w).

Definition s_set_ws (s : sys) (ws : list watcher) : sys :=
  mkSys (s_committed s) (s_cur s) (s_pending s) (s_cache s) (s_wchan s) ws (s_panic s)
        (s_cachedR s) (s_hubR s) (s_spawned s).
Definition s_set_panic (s : sys) : sys :=
  mkSys (s_committed s) (s_cur s) (s_pending s) (s_cache s) (s_wchan s) (s_ws s) true
        (s_cachedR s) (s_hubR s) (s_spawned s).

Fixpoint upd_nth {A} (n : nat) (f : A -> A) (l : list A) : list A :=
  match l, n with
  | [], _ => []
  | h :: t, O => f h :: t
  | h :: t, S n' => h :: upd_nth n' f t
  end.

Definition upd_w (s : sys) (i : nat) (f : watcher -> watcher) : sys := s_set_ws s (upd_nth i f (s_ws s)).

(* ------------------------------------------------------------------ hub *)


(* DeleteWatcher body under the lock (watcherhub.go:67-72) *)
Definition delete_watcher (w : watcher) (ctxdone : bool) : watcher :=
  if w_reg w then w_set_hub w false (chan_close (w_sub w)) ctxdone
  else w_set_hub w false (w_sub w) ctxdone.

(* Stream, one subscriber: select { case sub <- item: default: ...; go DeleteWatcher } *)
Definition would_drop (pa : params) (w : watcher) : bool := w_reg w && negb (chan_len (w_sub w) <? p_hub pa).

Definition offer (pa : params) (item : list event) (w : watcher) : watcher :=
  if w_reg w then
    if chan_len (w_sub w) <? p_hub pa then
      mkW (w_S w) (w_P w) (w_phase w) (w_reg w) (chan_send (w_sub w) item)
          (w_ctx w) (w_ctxdone w) (w_filter w) (w_hold w) (w_out w) (w_gotR w) (w_seen_close w)
          (w_base w) (rev_append item (w_inR w)) (w_catch w) (w_snap w) (w_dropped w) (w_gap w || w_dropped w)
    else
      (* default branch: the batch is dropped for this subscriber; Stream remembers it and, after the fan-out
         of this item and before it takes the next one, closes and unregisters it (DeleteWatcher) *)
      mkW (w_S w) (w_P w) (w_phase w) false (chan_close (w_sub w))
          (w_ctx w) (w_ctxdone w) (w_filter w) (w_hold w) (w_out w) (w_gotR w) (w_seen_close w)
          (w_base w) (w_inR w) (w_catch w) (w_snap w) true (w_gap w)
  else w.

(* subscriber ids in the iteration order chosen by the label: the listed ones first (once each), then the rest *)
Definition arrange (order : list nat) (n : nat) : list nat :=
  let o := nodup Nat.eq_dec (filter (fun i => (i <? n)%nat) order) in
  o ++ filter (fun i => negb (existsb (Nat.eqb i) o)) (seq 0 n).

(* a registered subscriber whose channel is closed would make `sub <- item` panic *)
Definition send_panics (w : watcher) : bool := w_reg w && c_closed (w_sub w).

(* ------------------------------------------------------------------ watch *)

Definition new_watcher (S : N) (P : bytes) (base : nat) : watcher :=
  mkW S P PhSub true empty_chan false false 0 None empty_chan [] false base [] [] [] false false.

Definition snap_of (ret : find_ret) : list event :=
  match ret with
  | FEvents _ _ raw => match all_some raw with Some evs => evs | None => [] end
  | _ => []
  end.

Definition watch_read (s : sys) (w : watcher) : watcher :=
  match w_phase w with
  | PhSub => if w_S w =? 0 then w else w_set_phase w (PhRead (find_events (s_cache s) (w_S w)))
  | _ => w
  end.

Definition start_proc (w : watcher) (flt : N) (catch : list (list event)) (snap : list event) : watcher :=
  mkW (w_S w) (w_P w) PhRun (w_reg w) (w_sub w) (w_ctx w) (w_ctxdone w) flt None
      (chan_of catch) (w_gotR w) (w_seen_close w) (w_base w) (w_inR w) (concat catch) snap
      (w_dropped w) (w_gap w).

Definition watch_spawn (pa : params) (s : sys) (w : watcher) : watcher :=
  match w_phase w with
  | PhSub => if w_S w =? 0 then start_proc w 0 [] [] else w
  | PhRead ret =>
      match watch_decide pa (w_S w) (w_P w) ret (s_committed s) with
      | DRefuse => w_set_ctx (w_set_phase w PhRefused) true
      | DRun flt catch => start_proc w flt catch (snap_of ret)
      | DHang => w_set_phase w PhHung
      | DPanic => w_set_phase w PhPanic
      end
  | _ => w
  end.

(* processEvents: one channel operation per step *)
Definition proc_step (pa : params) (w : watcher) : watcher :=
  match w_phase w with
  | PhRun =>
      match w_hold w with
      | Some evs =>
          if chan_len (w_out w) <? p_out pa
          then w_set_pipe w (w_sub w) None (chan_send (w_out w) evs)
          else w
      | None =>
          match chan_recv (w_sub w) with
          | Some (b, sub') =>
              let evs := filter_by_prefix (filter_by_revision b (w_filter w)) (w_P w) in
              w_set_pipe w sub' (match evs with [] => None | _ :: _ => Some evs end) (w_out w)
          | None =>
              if c_closed (w_sub w)
              then w_set_ctx (w_set_phase (w_set_pipe w (w_sub w) None (chan_close (w_out w))) PhDone) true
              else w
          end
      end
  | _ => w
  end.

Definition consume_step (w : watcher) : watcher :=
  match chan_recv (w_out w) with
  | Some (b, out') => w_set_client w out' (b :: w_gotR w) (w_seen_close w)
  | None => if c_closed (w_out w) then w_set_client w (w_out w) (w_gotR w) true else w
  end.

(* ------------------------------------------------------------------ step *)

Definition step (pa : params) (s : sys) (lb : label) : sys :=
  if s_panic s then s else
  match lb with
  | LSeqTake we =>
      match s_cur s with
      | Some _ => s
      | None =>
          if (N.of_nat (length (s_pending s)) <? p_batch pa) && (we_rev we =? s_committed s + 1) then
            mkSys (we_rev we) (if we_valid we then Some (to_event we) else None) (s_pending s) (s_cache s)
                  (s_wchan s) (s_ws s) (s_panic s) (s_cachedR s) (s_hubR s) (s_spawned s)
          else s
      end
  | LSeqCache =>
      match s_cur s with
      | None => s
      | Some e =>
          match ring_add (s_cache s) e with
          | None => s_set_panic s
          | Some r' => mkSys (s_committed s) None (s_pending s ++ [e]) r' (s_wchan s) (s_ws s) (s_panic s)
                             (e :: s_cachedR s) (s_hubR s) (s_spawned s)
          end
      end
  | LSeqSend =>
      match s_cur s, s_pending s with
      | None, _ :: _ =>
          if N.of_nat (length (s_wchan s)) <? p_wchan pa then
            mkSys (s_committed s) None [] (s_cache s) (s_wchan s ++ [s_pending s]) (s_ws s) (s_panic s)
                  (s_cachedR s) (s_hubR s) (s_spawned s)
          else s
      | _, _ => s
      end
  | LHubItem order =>
      match s_wchan s with
      | [] => s
      | item :: rest =>
          if existsb send_panics (s_ws s) then s_set_panic s else
          mkSys (s_committed s) (s_cur s) (s_pending s) (s_cache s) rest (map (offer pa item) (s_ws s)) (s_panic s)
                (s_cachedR s) (rev_append item (s_hubR s))
                (s_spawned s ++ filter (fun i => match nth_error (s_ws s) i with Some w => would_drop pa w | None => false end)
                                       (arrange order (length (s_ws s))))
      end
  | LCtxDelete i =>
      upd_w s i (fun w => if w_ctx w && negb (w_ctxdone w) then delete_watcher w true else w)
  | LWatchSub sr pf => s_set_ws s (s_ws s ++ [new_watcher sr pf (length (s_hubR s))])
  | LWatchRead i => upd_w s i (watch_read s)
  | LWatchSpawn i =>
      match nth_error (s_ws s) i with
      | Some w => match w_phase (watch_spawn pa s w) with
                  | PhPanic => s_set_panic (upd_w s i (watch_spawn pa s))
                  | _ => upd_w s i (watch_spawn pa s)
                  end
      | None => s
      end
  | LProc i => upd_w s i (proc_step pa)
  | LConsume i => upd_w s i consume_step
  | LCancel i => upd_w s i (fun w => w_set_ctx w true)
  end.

Definition run (pa : params) (ls : list label) (s : sys) : sys := fold_left (step pa) ls s.

(* ------------------------------------------------------------------ the specification of a stream *)

(* what a watcher accepted with (S, P) must deliver, given the events σ the producer has cached;
   for S = 0: those fanned out by the hub after the subscription *)
Definition ideal (S : N) (P : bytes) (base : nat) (sigma : list event) : list event :=
  if S =? 0 then filter_by_prefix (skipn base sigma) P
  else filter (fun e => (S <=? e_rev e) && has_prefix P (e_key e)) sigma.

Definition accepted (w : watcher) : bool :=
  match w_phase w with PhRun | PhDone => true | _ => false end.

Fixpoint prefixb (a b : list event) : bool :=
  match a, b with
  | [], _ => true
  | x :: a', y :: b' => ev_eqb x y && prefixb a' b'
  | _ :: _, [] => false
  end.

Definition is_prefix {A} (a b : list A) : Prop := exists t, b = a ++ t.

(* nothing left to do for hub, processEvents and the client of watcher w; the producer has flushed *)
Definition quiescent (s : sys) (w : watcher) : bool :=
  match s_cur s, s_pending s, s_wchan s, c_buf (w_sub w), w_hold w, c_buf (w_out w) with
  | None, [], [], [], None, [] => true
  | _, _, _, _, _, _ => false
  end.

(* ------------------------------------------------------------------ the hub before the repair of C05-F1 *)

(* Until the repair Stream spawned `go DeleteWatcher(sub, true)` for a slow subscriber and went on: the
   subscriber stayed registered until that goroutine ran. Kept only for the Example in Props/C05.v showing
   that this variant lets a stream continue past a dropped batch. *)
Definition offer_async (pa : params) (item : list event) (w : watcher) : watcher :=
  if w_reg w && negb (chan_len (w_sub w) <? p_hub pa) then
    mkW (w_S w) (w_P w) (w_phase w) (w_reg w) (w_sub w)
        (w_ctx w) (w_ctxdone w) (w_filter w) (w_hold w) (w_out w) (w_gotR w) (w_seen_close w)
        (w_base w) (w_inR w) (w_catch w) (w_snap w) true (w_gap w)
  else offer pa item w.

Definition hub_item_async (pa : params) (s : sys) : sys :=
  match s_wchan s with
  | [] => s
  | item :: rest =>
      mkSys (s_committed s) (s_cur s) (s_pending s) (s_cache s) rest (map (offer_async pa item) (s_ws s)) (s_panic s)
            (s_cachedR s) (rev_append item (s_hubR s)) (s_spawned s)
  end.

(* the spawned deleter finally runs *)
Definition late_delete (i : nat) (s : sys) : sys := upd_w s i (fun w => delete_watcher w (w_ctxdone w)).

(* ------------------------------------------------------------------ the ordering premise, made visible *)

(* The same system with the two statements of collectStorageWriteEvents swapped for single-event batches:
   `watchChan <- evs` before `watchCache.Add(e)`. Only used to show (Props/C05.v) that C05 depends on the
   order in the code (cache insert first, step above): LSeqSend broadcasts the event the sequencer has built,
   LSeqCache inserts it into the cache afterwards. *)
Definition step_swapped (pa : params) (s : sys) (lb : label) : sys :=
  if s_panic s then s else
  match lb with
  | LSeqSend =>
      match s_cur s, s_pending s with
      | Some e, [] =>
          mkSys (s_committed s) (Some e) [e] (s_cache s) (s_wchan s ++ [[e]]) (s_ws s) (s_panic s)
                (s_cachedR s) (s_hubR s) (s_spawned s)
      | _, _ => s
      end
  | LSeqCache =>
      match s_cur s, s_pending s with
      | Some e, [_] =>
          match ring_add (s_cache s) e with
          | None => s_set_panic s
          | Some r' => mkSys (s_committed s) None [] r' (s_wchan s) (s_ws s) (s_panic s)
                             (e :: s_cachedR s) (s_hubR s) (s_spawned s)
          end
      | _, _ => s
      end
  | _ => step pa s lb
  end.

Definition run_swapped (pa : params) (ls : list label) (s : sys) : sys := fold_left (step_swapped pa) ls s.
