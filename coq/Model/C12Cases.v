(* Correspondence cases for C12: one sequential history, run by the driver through backend.NewBackend on every
   engine configuration from the same initial revision (the split-region TiKV mocks are recorded as ETiKV: the region
   layout is not part of the adapter model).  c12_check: every transcript is what the request programs of
   Model/BackendSeq.v produce over that engine's adapter model.  c12_oracle: the property on the implementation's
   own observations — the transcripts (responses and watch events) of all engines are the same. *)
From KB Require Export Model.BackendSeq Model.C11Cases.

Record c12_run := mk_run { r_eng : eng; r_resps : list resp; r_events : list event; r_final : store }.
Record c12_case := mk_c12 { h_init : N; h_reqs : list req; h_runs : list c12_run }.

Definition registry : bytes := [47; 114; 101; 103; 105; 115; 116; 114; 121].   (* "/registry" *)

Definition kvrev_eqb (x y : kvrev) : bool := beqb (fst x) (fst y) && (snd x =? snd y).
Definition kvr_eqb (x y : bytes * bytes * N) : bool :=
  beqb (fst (fst x)) (fst (fst y)) && beqb (snd (fst x)) (snd (fst y)) && (snd x =? snd y).

Definition resp_eqb (x y : resp) : bool :=
  match x, y with
  | PErr, PErr | PPanic, PPanic | PHang, PHang | PRestarted, PRestarted => true
  | PCount h n, PCount h' n' => (h =? h') && (n =? n')
  | PStream kvs e, PStream kvs' e' => list_eqb kvr_eqb kvs kvs' && Bool.eqb e e'
  | PCreate o h, PCreate o' h' => Bool.eqb o o' && (h =? h')
  | PUpdate o h kv, PUpdate o' h' kv' => Bool.eqb o o' && (h =? h') && opt_eqb kvrev_eqb kv kv'
  | PDelete o h kv, PDelete o' h' kv' => Bool.eqb o o' && (h =? h') && opt_eqb kvrev_eqb kv kv'
  | PGet h kv, PGet h' kv' => (h =? h') && opt_eqb kvrev_eqb kv kv'
  | PList h kvs m, PList h' kvs' m' => (h =? h') && list_eqb kvr_eqb kvs kvs' && Bool.eqb m m'
  | PCompact h e, PCompact h' e' => (h =? h') && Bool.eqb e e'
  | _, _ => false
  end.

Definition event_eqb (x y : event) : bool :=
  let '(t, k, v, kr, r) := x in
  let '(t', k', v', kr', r') := y in
  (t =? t') && beqb k k' && beqb v v' && (kr =? kr') && (r =? r').

Definition run_ok (init : N) (qs : list req) (r : c12_run) : bool :=
  let '(final, rs, evs) := run_history (adapter_of (r_eng r)) registry init qs in
  list_eqb resp_eqb rs (r_resps r) && list_eqb event_eqb evs (r_events r) && store_eqb final (r_final r).

(* a comparison needs two runs at least *)
Definition c12_check (c : c12_case) : bool :=
  Nat.leb 2 (length (h_runs c)) && forallb (run_ok (h_init c) (h_reqs c)) (h_runs c).

(* the transcripts are compared with the first engine's *)
Definition same_transcript (a b : c12_run) : bool :=
  list_eqb resp_eqb (r_resps a) (r_resps b) && list_eqb event_eqb (r_events a) (r_events b).

(* known deviation of the unchanged tree (known_findings.d/C12.json): empty values *)
Definition writes_empty (q : req) : bool :=
  match q with QCreate _ [] | QUpdate _ [] _ => true | _ => false end.

Fixpoint first_empty_write (qs : list req) : option nat :=
  match qs with
  | [] => None
  | q :: rest => if writes_empty q then Some O else option_map S (first_empty_write rest)
  end.

Definition tikv_eng (e : eng) : bool := match e with ETiKV | EWrapTiKV => true | _ => false end.
Definition is_tikv (r : c12_run) : bool := tikv_eng (r_eng r).

Definition agree_within (rs : list c12_run) : bool :=
  match rs with [] => true | r0 :: rest => forallb (same_transcript r0) rest end.

(* The known deviation (finding C12-F1): a write of an empty value fails on TiKV.  A disagreement counts as it only
   if the history writes an empty value, the engines still agree on every response before the first such write,
   and the disagreement is between the TiKV configurations on one side and the other engines on the other: the TiKV
   runs agree among themselves, and so do memkv, Badger and the wrappers. *)
Definition c12_oracle (c : c12_case) : option N :=
  match h_runs c with
  | [] => None
  | r0 :: rest =>
      if forallb (same_transcript r0) rest then None
      else match first_empty_write (h_reqs c) with
           | Some i =>
               if forallb (fun r => list_eqb resp_eqb (firstn i (r_resps r0)) (firstn i (r_resps r))) rest
                  && agree_within (filter is_tikv (r0 :: rest))
                  && agree_within (filter (fun r => negb (is_tikv r)) (r0 :: rest))
               then Some 1 else Some 0
           | None => Some 0
           end
  end.

(* validity, evaluated: no empty value written, or no TiKV configuration among the runs (finding C12-F1) *)
Definition hist_okb (q : req) : bool := negb (writes_empty q).
(* at least two runs; and either no empty value is written and the runs mix a TiKV configuration with another engine
   (what every generated case does), or no TiKV configuration takes part *)
Definition c12_validb (c : c12_case) : bool :=
  Nat.leb 2 (length (h_runs c)) &&
  ((forallb hist_okb (h_reqs c) && existsb is_tikv (h_runs c) && existsb (fun r => negb (is_tikv r)) (h_runs c))
   || forallb (fun r => negb (is_tikv r)) (h_runs c)).
