(* Model of pkg/backend/coder/normal.go, coder/rev.go, backend/util.go:PrefixEnd, uint64ToBytes.
   Executable definitions only. *)
From KB Require Export Base.Bytes.

Definition magic : bytes := [87; 251; 128; 139].   (* "\x57\xfb\x80\x8b" *)
Definition split_byte : N := 36.                   (* '$' *)

(* binary.BigEndian.PutUint64: n big-endian base-256 digits of v (v < 256^n) *)
Fixpoint be (n : nat) (v : N) : bytes :=
  match n with
  | O => []
  | S n' => (v / 256 ^ N.of_nat n') :: be n' (v mod 256 ^ N.of_nat n')
  end.

(* binary.BigEndian.Uint64 *)
Definition from_be (l : bytes) : N := fold_left (fun acc d => acc * 256 + d) l 0.

Definition be64 (r : N) : bytes := be 8 r.
Definition two64 : N := 18446744073709551616.

(* EncodeObjectKey: {magic}{raw_key}{'$'}{revision big endian} *)
Definition encode (k : bytes) (r : N) : bytes := magic ++ k ++ split_byte :: be64 r.
Definition encode_rev_key (k : bytes) : bytes := encode k 0.

Inductive dec_result :=
| DecPanic                      (* Go slice/index out of range *)
| DecErr                        (* error returned *)
| DecOk (k : bytes) (r : N).

(* Decode (normal.go:58-70).  Slices are taken with exact capacity in the harness, so
   internalKey[:4] panics when len < 4 and internalKey[len-9] panics when len < 9. *)
Definition decode (ik : bytes) : dec_result :=
  let n := length ik in
  if Nat.ltb n 4 then DecPanic
  else if negb (beqb (firstn 4 ik) magic) then DecErr
  else if Nat.ltb n 9 then DecPanic
  else if negb (nth (n - 9) ik 0 =? split_byte) then DecErr
  else DecOk (firstn (n - 13) (skipn 4 ik)) (from_be (skipn (n - 8) ik)).

(* ParseRevision (rev.go:32-47) *)
Definition parse_revision (b : bytes) : option (N * bool) :=
  if Nat.eqb (length b) 8 then Some (from_be b, false)
  else if Nat.eqb (length b) 9 then Some (from_be (firstn 8 b), true)
  else None.

(* PrefixEnd (util.go:70-83): None stands for the `noPrefixEnd` fall-through *)
Fixpoint prefix_end_opt (p : bytes) : option bytes :=
  match p with
  | [] => None
  | x :: t =>
      match prefix_end_opt t with
      | Some t' => Some (x :: t')
      | None => if x <? 255 then Some [x + 1] else None
      end
  end.

Definition no_prefix_end : bytes := [0].
Definition prefix_end (p : bytes) : bytes :=
  match prefix_end_opt p with Some e => e | None => no_prefix_end end.

(* the documented key alphabet: every byte greater than '$' (and a byte) *)
Definition alpha (k : bytes) : Prop := Forall (fun x => 36 < x /\ x < 256) k.
Definition alphab (k : bytes) : bool := forallb (fun x => (36 <? x) && (x <? 256)) k.

(* lexicographic order on (key, revision) *)
Definition kr_cmp (k1 : bytes) (r1 : N) (k2 : bytes) (r2 : N) : comparison :=
  match bcmp k1 k2 with Eq => N.compare r1 r2 | c => c end.
