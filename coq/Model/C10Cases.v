(* Correspondence cases for C10: what the driver observed on the real coder, and how the model
   and the property's oracle judge it. *)
From KB Require Export Base.Cases Model.Coder.

Inductive c10_case :=
| KEnc (k : bytes) (r : N) (out : bytes)                       (* EncodeObjectKey *)
| KDec (ik : bytes) (out : dec_result)                          (* Decode on arbitrary bytes *)
| KRound (k : bytes) (r : N) (out : dec_result)                 (* Decode (EncodeObjectKey k r) *)
| KCmp (k1 : bytes) (r1 : N) (k2 : bytes) (r2 : N) (c : Z)      (* bytes.Compare of two real encodings *)
| KPfx (p : bytes) (out : bytes)                                (* PrefixEnd *)
| KPar (b : bytes) (out : option (N * bool))                    (* ParseRevision *)
| KEncl (p k : bytes) (r : N) (inside : bool)                   (* Enc(p,0) <= Enc(k,r) < Enc(PrefixEnd p,0), real code *)
| KRange (a b k : bytes) (r : N) (inside : bool)                (* Enc(a,0) <= Enc(k,r) < Enc(b,0), real code *)
| KBord (cfg lo hi k : bytes) (r : N) (inside : bool).          (* Backend with Config.Prefix = cfg, nothing skipped:
                                                                   getCompactBorders = [lo; hi]; lo <= Enc(k,r) < hi *)

Definition dec_eqb (x y : dec_result) : bool :=
  match x, y with
  | DecPanic, DecPanic => true
  | DecErr, DecErr => true
  | DecOk k r, DecOk k' r' => beqb k k' && (r =? r')
  | _, _ => false
  end.

Definition nb_eqb (x y : N * bool) : bool := (fst x =? fst y) && Bool.eqb (snd x) (snd y).

Definition in_bounds (lo hi x : bytes) : bool := bleb lo x && bltb x hi.

(* compact.go's withSlash: the configured prefix always ends in '/' (the empty one becomes "/") *)
Definition slash : N := 47.
Definition ends_slash (p : bytes) : bool := match rev p with x :: _ => x =? slash | [] => false end.
Definition with_slash (p : bytes) : bytes := if ends_slash p then p else p ++ [slash].

Definition c10_check_raw (c : c10_case) : bool :=
  match c with
  | KEnc k r out => beqb (encode k r) out
  | KDec ik out => dec_eqb (decode ik) out
  | KRound k r out => dec_eqb (decode (encode k r)) out
  | KCmp k1 r1 k2 r2 c => Z.eqb (cmp_to_Z (bcmp (encode k1 r1) (encode k2 r2))) c
  | KPfx p out => beqb (prefix_end p) out
  | KPar b out => opt_eqb nb_eqb (parse_revision b) out
  | KEncl p k r inside => Bool.eqb (in_bounds (encode p 0) (encode (prefix_end p) 0) (encode k r)) inside
  | KRange a b k r inside => Bool.eqb (in_bounds (encode a 0) (encode b 0) (encode k r)) inside
  | KBord cfg lo hi k r inside =>
      beqb lo (encode (with_slash cfg) 0) && beqb hi (encode (prefix_end (with_slash cfg)) 0)
      && Bool.eqb (in_bounds lo hi (encode k r)) inside
  end.

(* inputs the theorems speak about: revisions are 64-bit (the driver can emit nothing else; evaluated per case
   so that every case that passes the check is covered by the soundness theorem with no side condition) *)
Definition c10_validb (c : c10_case) : bool :=
  match c with
  | KRound _ r _ => r <? two64
  | KCmp _ r1 _ r2 _ => (r1 <? two64) && (r2 <? two64)
  | KEncl _ _ r _ => r <? two64
  | KRange _ _ _ r _ => r <? two64
  | KBord _ _ _ _ r _ => r <? two64
  | _ => true
  end.

Definition c10_check (c : c10_case) : bool := c10_validb c && c10_check_raw c.

(* The property, stated on the implementation's own outputs (no model call on the left side):
   round trip; key-then-revision order; prefix and range enclosure. Only meaningful on the
   documented alphabet, so cases outside it are accepted. *)
Definition c10_oracle (c : c10_case) : option N :=
  match c with
  | KRound k r out => ok_if (dec_eqb out (DecOk k r))
  | KCmp k1 r1 k2 r2 c =>
      if alphab k1 && alphab k2 then ok_if (Z.eqb (cmp_to_Z (kr_cmp k1 r1 k2 r2)) c) else None
  | KEncl p k r inside =>
      if alphab p && alphab k then
        match prefix_end_opt p with
        | Some _ => ok_if (Bool.eqb (has_prefix p k) inside)
        | None => None
        end
      else None
  | KRange a b k r inside =>
      if alphab a && alphab b && alphab k then ok_if (Bool.eqb (bleb a k && bltb k b) inside) else None
  | KBord cfg lo hi k r inside =>
      if alphab cfg && alphab k then ok_if (Bool.eqb (has_prefix (with_slash cfg) k) inside) else None
  | KPar b out =>
      match out with
      | Some _ => ok_if ((length b =? 8)%nat || (length b =? 9)%nat)
      | None => ok_if (negb ((length b =? 8)%nat || (length b =? 9)%nat))
      end
  | _ => None
  end.
