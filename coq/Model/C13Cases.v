(* Correspondence cases for C13: one store (raw dump) read under several engine partitionings.
   The engine's GetPartitions answers are recorded by the driver and given to the model as the
   partition function.  c13_check: the model reproduces List / Count / GetPartitions exactly and every
   stream up to the interleaving of the workers' sends.  c13_oracle: the property on the
   implementation's own responses — partitioned = unpartitioned, stream shape, each key once. *)
From KB Require Export Model.ReadSys Model.C03Cases.
Local Open Scope N_scope.

Record c13_group := mk_group {
  g_a : bytes; g_b : bytes; g_rev : N;                 (* raw range and read revision (0 = current) *)
  g_base : list_resp;                                  (* unpartitioned List a b rev, no limit *)
  g_list : list_resp;                                  (* the same under the partitioning *)
  g_count : count_resp;                                (* Count a b under the partitioning (reads at the current revision) *)
  g_whole : list smsg;                                 (* ListByStream (Enc a 0) (Enc b 0) rev: all messages, channel order *)
  g_parts : N * N * list bytes;                        (* GetPartitions a b: header, number, advertised keys *)
  g_pairs : list (list smsg) }.                        (* ListByStream per consecutive pair of advertised keys *)

Record c13_tiling := mk_tiling { t_calls : list pcall; t_groups : list c13_group }.

Record c13_case := mk_c13 { p_ck : bytes; p_dump : raw_store; p_cur : N; p_tilings : list c13_tiling }.

Fixpoint pairs_of {A} (l : list A) : list (A * A) :=
  match l with
  | x :: ((y :: _) as t) => (x, y) :: pairs_of t
  | _ => []
  end.

Definition parts_eqb (x y : N * N * list bytes) : bool :=
  (fst (fst x) =? fst (fst y)) && (snd (fst x) =? snd (fst y)) && list_eqb beqb (snd x) (snd y).

Fixpoint forallb2 {A B} (f : A -> B -> bool) (x : list A) (y : list B) : bool :=
  match x, y with
  | [], [] => true
  | a :: x', b :: y' => f a b && forallb2 f x' y'
  | _, _ => false
  end.

Definition group_check (s : raw_store) (fv : option bytes) (cur : N) (calls : list pcall) (g : c13_group) : bool :=
  let parts := parts_of calls in
  list_resp_eqb (list_model s fv single_part cur (g_a g) (g_b g) (g_rev g) 0) (g_base g)
  && list_resp_eqb (list_model s fv parts cur (g_a g) (g_b g) (g_rev g) 0) (g_list g)
  && count_resp_eqb (count_model s fv parts true cur (g_a g) (g_b g)) (g_count g)
  && stream_check (stream_model s fv parts cur (encode (g_a g) 0) (encode (g_b g) 0) (g_rev g)) (g_whole g)
  && parts_eqb (get_partitions_model parts cur (g_a g) (g_b g)) (g_parts g)
  && forallb2 (fun p out => stream_check (stream_model s fv parts cur (fst p) (snd p) (g_rev g)) out)
       (pairs_of (snd (g_parts g))) (g_pairs g).

Definition c13_check (c : c13_case) : bool :=
  let s := p_dump c in
  let fv := lookup (p_ck c) s in
  dump_wf s &&
  forallb (fun t => forallb (group_check s fv (p_cur c) (t_calls t)) (t_groups t)) (p_tilings c).

(* ---------- oracle ---------- *)
Definition group_verdict (s : raw_store) (cur : N) (g : c13_group) : option N :=
  let R := eff_rev (g_rev g) cur in
  match g_base g with
  | LResp _ base _ =>
      if
        (* the unpartitioned read is the snapshot of the stored versions *)
        list_eqb okv_eqb base (in_range (g_a g) (g_b g) (snapshot (versions_of (data_of s)) R))
        && (match g_list g with LResp _ kvs more => list_eqb okv_eqb kvs base && negb more | _ => false end)
        && (if R =? cur then match g_count g with CResp _ n => n =? N.of_nat (length base) | _ => false end else true)
        && stream_shape R (g_whole g)
        && list_eqb okv_eqb (sort_okv (stream_kvs (g_whole g))) base
        && (length (g_pairs g) + 1 =? length (snd (g_parts g)))%nat
        && forallb (stream_shape R) (g_pairs g)
        && list_eqb okv_eqb (sort_okv (flat_map stream_kvs (g_pairs g))) base
      then None else Some 0
  | _ => None          (* range refused (a >= b, empty end, below the floor): outside the property *)
  end.

Definition c13_oracle (c : c13_case) : option N :=
  fold_right (fun t acc =>
      fold_right (fun g acc' => worst (group_verdict (p_dump c) (p_cur c) g) acc') acc (t_groups t))
    None (p_tilings c).
