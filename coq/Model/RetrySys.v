(* RetrySys — executable transition system for C09 (indeterminate storage outcomes).
   Transcribed from /repo (definitions only, no proofs):
     pkg/backend/backend.go:208-273   collectStorageWriteEvents (the sequencer), lines 229-236 in three atomic actions
     pkg/backend/retry/queue.go       FIFO queue (push at the tail with the time of the push, pop at the head)
     pkg/backend/retry/retry.go       retry (head/age test, overwrite = getter / Deal / CAS+Put commit, dispatcher, pop — or keep the node
                                      when the rewrite failed for a reason other than a failed compare)
     pkg/backend/compact.go:31-52     Backend.Compact: read committed, then cap by the queue head
     pkg/backend/txn.go               Create / Update / Delete reduced to get / deal / commit / notify / respond
     pkg/backend/creator/naive.go     create with its two fallbacks
     pkg/storage/errors.go            errUncertainResult.Is, Conflict.Is
   Keys are abstract (N); the codec is C10's subject. A key's records are its index record
   (revision + deletion flag) and its version records. An engine commit is one atomic step whose outcome is
   the batch's evaluation filtered by an environment choice carried on the label. *)
From KB Require Export Base.Cases.
Local Open Scope N_scope.

Definition key := N.
Definition value := bytes.
Definition tombstone : value := [116; 111; 109; 98; 115; 116; 111; 110; 101].   (* "tombstone" *)
Definition is_tomb (v : value) : bool := beqb v tombstone.
Definition is_empty (v : value) : bool := match v with [] => true | _ => false end.

(* ---------- store ---------- *)
Definition idxval := (N * bool)%type.          (* index record value: revision, deletion flag (9th byte) *)
Definition idxval_eqb (a b : idxval) : bool := (fst a =? fst b) && Bool.eqb (snd a) (snd b).

Record krec := { k_idx : option idxval; k_vers : list (N * value) }.   (* versions, last written first *)
Definition store := key -> krec.
Definition empty_store : store := fun _ => {| k_idx := None; k_vers := [] |}.

(* the version with the greatest revision (reverse Iter from (key, MaxUint64), limit 1) *)
Fixpoint latest (vs : list (N * value)) : option (N * value) :=
  match vs with
  | [] => None
  | (r, v) :: vs' =>
      match latest vs' with
      | Some (r', v') => if r' <? r then Some (r, v) else Some (r', v')
      | None => Some (r, v)
      end
  end.

(* the version with the greatest revision <= R (what a scan at revision R keeps of one key) *)
Fixpoint latest_le (vs : list (N * value)) (R : N) : option (N * value) :=
  match vs with
  | [] => None
  | (r, v) :: vs' =>
      match latest_le vs' R with
      | Some (r', v') => if (r <=? R) && (r' <? r) then Some (r, v) else Some (r', v')
      | None => if r <=? R then Some (r, v) else None
      end
  end.

(* user-visible value of a key at revision R: tombstones and missing keys are absent *)
Definition snap_vers (vs : list (N * value)) (R : N) : option (value * N) :=
  match latest_le vs R with
  | Some (r, v) => if is_tomb v then None else Some (v, r)
  | None => None
  end.

(* ---------- engine batches: one condition on the key's index record + one version record ---------- *)
Inductive cond := CAbsent | CIs (old : idxval).      (* PutIfNotExist | CAS *)
Record batch := { b_key : key; b_cond : cond; b_rev : N; b_flag : bool; b_val : value }.

Definition cond_holds (c : cond) (i : option idxval) : bool :=
  match c, i with
  | CAbsent, None => true
  | CIs o, Some x => idxval_eqb o x
  | _, _ => false
  end.

Definition apply_batch (s : store) (b : batch) : store :=
  fun k => if k =? b_key b
           then {| k_idx := Some (b_rev b, b_flag b); k_vers := (b_rev b, b_val b) :: k_vers (s k) |}
           else s k.

(* errors, by the classes the code distinguishes *)
Inductive err :=
| ECas (conflict0 : bool) (actual : option idxval)   (* *storage.Conflict with Idx = 0 and the old value | bare ErrCASFailed *)
| ENotFound | EUnavailable | EOther
| EUncertain (ocas : bool).                          (* errUncertainResult; ocas: errors.Is(originErr, ErrCASFailed) *)

Definition is_cas (e : err) : bool := match e with ECas _ _ => true | EUncertain oc => oc | _ => false end.
Definition is_unc (e : err) : bool := match e with EUncertain _ => true | _ => false end.
Definition is_notfound (e : err) : bool := match e with ENotFound => true | _ => false end.   (* err == ErrKeyNotFound *)

Inductive env :=
| EnvOk                               (* the engine evaluates the batch / performs the read *)
| EnvError                            (* definite failure, no effect *)
| EnvAbort                            (* engine-internal write conflict: bare ErrCASFailed, no effect *)
| EnvUnknown (applied ocas : bool).   (* outcome unknown; applied: the batch was evaluated first *)

Definition commit (s : store) (b : batch) (e : env) : store * option err :=
  let cur := k_idx (s (b_key b)) in
  let holds := cond_holds (b_cond b) cur in
  match e with
  | EnvOk => if holds then (apply_batch s b, None) else (s, Some (ECas true cur))
  | EnvError => (s, Some EOther)
  | EnvAbort => (s, Some (ECas false None))
  | EnvUnknown a oc => ((if a && holds then apply_batch s b else s), Some (EUncertain oc))
  end.

(* ---------- write events (common.WatchEvent) ---------- *)
Inductive verb := VCreate | VPut | VDelete.
Record wevent := { e_rev : N; e_prev : N; e_verb : verb; e_key : key; e_val : value;
                   e_valid : bool; e_unc : bool (* errors.Is(Err, ErrUncertainResult) *) }.

Definition mk_ev (rev prev : N) (vb : verb) (k : key) (v : value) (eo : option err) : wevent :=
  {| e_rev := rev; e_prev := prev; e_verb := vb; e_key := k; e_val := v;
     e_valid := match eo with None => true | Some _ => false end;
     e_unc := match eo with Some x => is_unc x | None => false end |}.

(* ---------- client requests ---------- *)
Inductive wop :=
| OCreate (k : key) (v : value)
| OUpdate (k : key) (v : value) (prev : N)
| ODelete (k : key) (expected : N)
| OCompact (r : N).

Inductive resp :=
| ROk (hdr : N) (kv : option (value * N))      (* Succeeded = true *)
| RCond (hdr : N) (kv : option (value * N))    (* Succeeded = false, no RPC error *)
| RErr (unc : bool)                            (* RPC error; unc: errors.Is(err, ErrUncertainResult) *)
| RCompacted (hdr : N).

Record ctx := { c_rev : N; c_prev : N; c_val : value; c_old : option (value * N) }.
Inductive cstage := CFirstCreate | CFinal.

Inductive pc :=
| PStart
| PDelDeal (old : option (value * N)) (gerr : option err)
| PCommit (st : cstage) (c : ctx) (b : batch)
| PCreateGet (c : ctx)
| PNotify (c : ctx) (eo : option err)
| PRespond (c : ctx) (eo : option err)
| PReread (c : ctx)
| PCompact2 (cur : N)
| PDone (r : resp).

Record thread := { t_op : wop; t_pc : pc; t_unk : bool (* ghost: a commit of this request drew EnvUnknown *) }.

(* ---------- sequencer, retry loop ---------- *)
Inductive seq_pc :=
| SeqIdle
| SeqHold (ev : wevent)   (* slot loaded and cleared, event classified invalid + uncertain (backend.go:216-231) *)
| SeqMid (ev : wevent).   (* between lines 233 and 235: one of Append / SetCurrentRevision done *)

Inductive rstate := RSIdle | RSFailedGet | RSUnnecessary | RSSuccess | RSFailedPut | RSUnknownPut | RSParked.

Inductive retry_pc :=
| RIdle
| RGet (node : wevent)
| RDeal (node : wevent) (val : value)
| RCommit (node : wevent) (val : value) (rev : N)
| RDispatch (node : wevent) (rev : N) (eo : option err)
| RPop (node : wevent) (st : rstate).

Record state := {
  s_store : store;
  s_dealt : N;
  s_committed : N;
  s_slots : N -> option wevent;
  s_seq : seq_pc;
  s_queue : list (wevent * N);          (* head first; second component: time of the push *)
  s_now : N;
  s_retry : retry_pc;
  s_threads : list (N * thread);
  s_events : list wevent;               (* published valid events, newest first *)
  s_rlast : rstate                      (* outcome of the last finished retry iteration *)
}.

Definition retry_interval : N := 30.

Definition init_state (r0 : N) : state :=
  {| s_store := empty_store; s_dealt := r0; s_committed := r0; s_slots := fun _ => None;
     s_seq := SeqIdle; s_queue := []; s_now := 0; s_retry := RIdle; s_threads := [];
     s_events := []; s_rlast := RSIdle |}.

Definition set_store (s : state) x := {| s_store := x; s_dealt := s_dealt s; s_committed := s_committed s; s_slots := s_slots s; s_seq := s_seq s; s_queue := s_queue s; s_now := s_now s; s_retry := s_retry s; s_threads := s_threads s; s_events := s_events s; s_rlast := s_rlast s |}.
Definition set_dealt (s : state) x := {| s_store := s_store s; s_dealt := x; s_committed := s_committed s; s_slots := s_slots s; s_seq := s_seq s; s_queue := s_queue s; s_now := s_now s; s_retry := s_retry s; s_threads := s_threads s; s_events := s_events s; s_rlast := s_rlast s |}.
Definition set_committed (s : state) x := {| s_store := s_store s; s_dealt := s_dealt s; s_committed := x; s_slots := s_slots s; s_seq := s_seq s; s_queue := s_queue s; s_now := s_now s; s_retry := s_retry s; s_threads := s_threads s; s_events := s_events s; s_rlast := s_rlast s |}.
Definition set_slots (s : state) x := {| s_store := s_store s; s_dealt := s_dealt s; s_committed := s_committed s; s_slots := x; s_seq := s_seq s; s_queue := s_queue s; s_now := s_now s; s_retry := s_retry s; s_threads := s_threads s; s_events := s_events s; s_rlast := s_rlast s |}.
Definition set_seq (s : state) x := {| s_store := s_store s; s_dealt := s_dealt s; s_committed := s_committed s; s_slots := s_slots s; s_seq := x; s_queue := s_queue s; s_now := s_now s; s_retry := s_retry s; s_threads := s_threads s; s_events := s_events s; s_rlast := s_rlast s |}.
Definition set_queue (s : state) x := {| s_store := s_store s; s_dealt := s_dealt s; s_committed := s_committed s; s_slots := s_slots s; s_seq := s_seq s; s_queue := x; s_now := s_now s; s_retry := s_retry s; s_threads := s_threads s; s_events := s_events s; s_rlast := s_rlast s |}.
Definition set_now (s : state) x := {| s_store := s_store s; s_dealt := s_dealt s; s_committed := s_committed s; s_slots := s_slots s; s_seq := s_seq s; s_queue := s_queue s; s_now := x; s_retry := s_retry s; s_threads := s_threads s; s_events := s_events s; s_rlast := s_rlast s |}.
Definition set_retry (s : state) x := {| s_store := s_store s; s_dealt := s_dealt s; s_committed := s_committed s; s_slots := s_slots s; s_seq := s_seq s; s_queue := s_queue s; s_now := s_now s; s_retry := x; s_threads := s_threads s; s_events := s_events s; s_rlast := s_rlast s |}.
Definition set_threads (s : state) x := {| s_store := s_store s; s_dealt := s_dealt s; s_committed := s_committed s; s_slots := s_slots s; s_seq := s_seq s; s_queue := s_queue s; s_now := s_now s; s_retry := s_retry s; s_threads := x; s_events := s_events s; s_rlast := s_rlast s |}.
Definition set_events (s : state) x := {| s_store := s_store s; s_dealt := s_dealt s; s_committed := s_committed s; s_slots := s_slots s; s_seq := s_seq s; s_queue := s_queue s; s_now := s_now s; s_retry := s_retry s; s_threads := s_threads s; s_events := x; s_rlast := s_rlast s |}.
Definition set_rlast (s : state) x := {| s_store := s_store s; s_dealt := s_dealt s; s_committed := s_committed s; s_slots := s_slots s; s_seq := s_seq s; s_queue := s_queue s; s_now := s_now s; s_retry := s_retry s; s_threads := s_threads s; s_events := s_events s; s_rlast := x |}.

Fixpoint get_thread (t : N) (l : list (N * thread)) : option thread :=
  match l with
  | [] => None
  | (t', th) :: l' => if t =? t' then Some th else get_thread t l'
  end.
Fixpoint set_thread (t : N) (th : thread) (l : list (N * thread)) : list (N * thread) :=
  match l with
  | [] => [(t, th)]
  | (t', th') :: l' => if t =? t' then (t, th) :: l' else (t', th') :: set_thread t th l'
  end.

Definition slot_set (f : N -> option wevent) (r : N) (x : option wevent) : N -> option wevent :=
  fun r' => if r' =? r then x else f r'.

(* ---------- client programs ---------- *)
Definition op_key (op : wop) : key :=
  match op with OCreate k _ => k | OUpdate k _ _ => k | ODelete k _ => k | OCompact _ => 0 end.
Definition op_verb (op : wop) : verb :=
  match op with
  | OCreate _ _ => VCreate
  | OUpdate _ _ p => if p =? 0 then VCreate else VPut
  | ODelete _ _ => VDelete
  | OCompact _ => VPut
  end.

Definition mk_batch k c r f v := {| b_key := k; b_cond := c; b_rev := r; b_flag := f; b_val := v |}.
Definition mk_ctx r p v o := {| c_rev := r; c_prev := p; c_val := v; c_old := o |}.

(* creator/naive.go:60-76: what to do with the revision found in the index record *)
Definition create_decide (k : key) (c : ctx) (v : value) (old : idxval) : pc :=
  if snd old && (fst old <? c_rev c)
  then PCommit CFinal c (mk_batch k (CIs old) (c_rev c) false v)
  else PNotify c (Some (ECas false None)).

Definition user_get (vs : list (N * value)) : option (value * N) :=   (* backend.get: a tombstone is ErrKeyNotFound *)
  match latest vs with
  | Some (r, v) => if is_tomb v then None else Some (v, r)
  | None => None
  end.

Definition min_head (q : list (wevent * N)) : N :=   (* asyncFifoRetryImpl.MinRevision *)
  match q with [] => 0 | (ev, _) :: _ => e_rev ev end.

(* one atomic action of a request; returns the new shared state, the new pc, and whether a commit drew EnvUnknown *)
Definition thread_step (s : state) (op : wop) (p : pc) (e : env) : state * pc * bool :=
  let k := op_key op in
  match p with
  | PStart =>
      match op with
      | OCreate _ v | OUpdate _ v 0 =>
          let rev := s_dealt s + 1 in
          let c := mk_ctx rev 0 v None in
          (set_dealt s rev, PCommit CFirstCreate c (mk_batch k CAbsent rev false v), false)
      | OUpdate _ v prev =>
          let rev := s_dealt s + 1 in
          let c := mk_ctx rev prev v None in
          (set_dealt s rev,
           if rev <? prev then PNotify c (Some EOther)
           else PCommit CFinal c (mk_batch k (CIs (prev, false)) rev false v), false)
      | ODelete _ _ =>
          match e with
          | EnvOk => match user_get (k_vers (s_store s k)) with
                     | Some old => (s, PDelDeal (Some old) None, false)
                     | None => (s, PDelDeal None (Some ENotFound), false)
                     end
          | _ => (s, PDelDeal None (Some EOther), false)
          end
      | OCompact _ => (s, PCompact2 (s_committed s), false)
      end
  | PDelDeal old gerr =>
      let rev := s_dealt s + 1 in
      let s' := set_dealt s rev in
      match op with
      | ODelete _ expected =>
          match gerr, old with
          | Some ge, _ => (s', PNotify (mk_ctx rev 0 [] None) (Some ge), false)
          | None, None => (s', PNotify (mk_ctx rev 0 [] None) (Some ENotFound), false)
          | None, Some (ov, modrev) =>
              if (0 <? expected) && (rev <? expected) then (s', PNotify (mk_ctx rev 0 [] None) (Some EOther), false)
              else
                let c := mk_ctx rev modrev ov (Some (ov, modrev)) in
                if (0 <? expected) && negb (expected =? modrev) then (s', PNotify c (Some (ECas false None)), false)
                else if rev <=? modrev then (s', PNotify c (Some EOther), false)
                else (s', PCommit CFinal c (mk_batch k (CIs (modrev, false)) rev true tombstone), false)
          end
      | _ => (s, p, false)
      end
  | PCommit st c b =>
      let '(sto, eo) := commit (s_store s) b e in
      let s' := set_store s sto in
      let unk := match e with EnvUnknown _ _ => true | _ => false end in
      match st, eo with
      | CFirstCreate, Some er =>
          if is_cas er then
            match er with
            | ECas true (Some old) => (s', create_decide k c (c_val c) old, unk)
            | ECas true None => (s', PNotify c (Some EOther), unk)
            | _ => (s', PCreateGet c, unk)
            end
          else (s', PNotify c eo, unk)
      | _, _ => (s', PNotify c eo, unk)
      end
  | PCreateGet c =>
      match e with
      | EnvOk => match k_idx (s_store s k) with
                 | Some old => (s, create_decide k c (c_val c) old, false)
                 | None => (s, PCommit CFinal c (mk_batch k CAbsent (c_rev c) false (c_val c)), false)
                 end
      | _ => (s, PNotify c (Some EUnavailable), false)
      end
  | PNotify c eo =>
      let ev := mk_ev (c_rev c) (c_prev c) (op_verb op) k (c_val c) eo in
      (set_slots s (slot_set (s_slots s) (c_rev c) (Some ev)), PRespond c eo, false)
  | PRespond c eo =>
      match eo with
      | None => (s, PDone (ROk (c_rev c) (c_old c)), false)
      | Some er =>
          match op with
          | OCreate _ _ =>
              if is_cas er then (s, PDone (RCond (c_rev c) None), false) else (s, PDone (RErr (is_unc er)), false)
          | OUpdate _ _ _ =>
              if is_cas er then (s, PReread c, false) else (s, PDone (RErr (is_unc er)), false)
          | ODelete _ _ =>
              if is_notfound er then (s, PDone (RCond (c_rev c) None), false)
              else if is_cas er then (s, PReread c, false) else (s, PDone (RErr (is_unc er)), false)
          | OCompact _ => (s, p, false)
          end
      end
  | PReread c =>
      match op with
      | OUpdate _ _ _ =>
          match e with
          | EnvOk => match user_get (k_vers (s_store s k)) with
                     | Some (v, r) => (s, PDone (RCond (N.max (c_rev c) r) (Some (v, r))), false)
                     | None => (s, PDone (RCond (c_rev c) None), false)
                     end
          | _ => (s, PDone (RErr false), false)
          end
      | ODelete _ _ =>
          match e with
          | EnvOk => match user_get (k_vers (s_store s k)) with
                     | Some (v, r) => (s, PDone (RCond (N.max (c_rev c) r) (Some (v, r))), false)
                     | None => (s, PDone (RCond (c_rev c) (c_old c)), false)
                     end
          | _ => (s, PDone (RCond (c_rev c) (c_old c)), false)
          end
      | _ => (s, p, false)
      end
  | PCompact2 cur =>
      match op with
      | OCompact r =>
          let revision := if (r =? 0) || (cur <? r) then cur else r in
          let u := min_head (s_queue s) in
          (s, PDone (RCompacted (if u =? 0 then revision else N.min (u - 1) revision)), false)
      | _ => (s, p, false)
      end
  | PDone _ => (s, p, false)
  end.

(* ---------- labels and the step function ---------- *)
Inductive label :=
| LInvoke (t : N) (op : wop)
| LThread (t : N) (e : env)
| LSeq
| LRetry (e : env)
| LTick (d : N).

Definition pop_head {A} (q : list A) : list A := match q with [] => [] | _ :: q1 => q1 end.

(* the sequencer: `swapped` = false is the code's order (Append, then SetCurrentRevision);
   `swapped` = true is the hypothetical opposite order used by the counter-example in Props/C09.v *)
Definition seq_step (swapped : bool) (s : state) : state :=
  match s_seq s with
  | SeqIdle =>
      let r := s_committed s + 1 in
      match s_slots s r with
      | None => s
      | Some ev =>
          let s1 := set_slots s (slot_set (s_slots s) r None) in
          if e_valid ev then set_events (set_committed s1 (e_rev ev)) (ev :: s_events s1)
          else if e_unc ev then set_seq s1 (SeqHold ev)
          else set_committed s1 (e_rev ev)
      end
  | SeqHold ev =>
      if swapped then set_seq (set_committed s (e_rev ev)) (SeqMid ev)
      else set_seq (set_queue s (s_queue s ++ [(ev, s_now s)])) (SeqMid ev)
  | SeqMid ev =>
      if swapped then set_seq (set_queue s (s_queue s ++ [(ev, s_now s)])) SeqIdle
      else set_seq (set_committed s (e_rev ev)) SeqIdle
  end.

Definition retry_step (s : state) (e : env) : state :=
  match s_retry s with
  | RIdle =>
      match s_queue s with
      | [] => set_rlast s RSIdle
      | (node, t) :: _ => if s_now s - t <? retry_interval then set_rlast s RSIdle else set_retry s (RGet node)
      end
  | RGet node =>
      match e with
      | EnvOk =>
          match latest (k_vers (s_store s (e_key node))) with
          | None => set_retry s (RPop node RSUnnecessary)
          | Some (modrev, val) =>
              if negb (modrev =? e_rev node) then set_retry s (RPop node RSUnnecessary)
              else set_retry s (RDeal node val)
          end
      | _ => set_rlast (set_retry s RIdle) RSFailedGet        (* return true: the node stays *)
      end
  | RDeal node val =>
      let rev := s_dealt s + 1 in
      set_retry (set_dealt s rev) (RCommit node val rev)
  | RCommit node val rev =>
      let f := is_tomb val in
      let '(sto, eo) := commit (s_store s) (mk_batch (e_key node) (CIs (e_rev node, f)) rev f val) e in
      set_retry (set_store s sto) (RDispatch node rev eo)
  | RDispatch node rev eo =>
      let ev := mk_ev rev (e_prev node) (e_verb node) (e_key node) (e_val node) eo in
      let st := match eo with None => RSSuccess | Some er => if is_unc er then RSUnknownPut else RSFailedPut end in
      let s1 := set_slots s (slot_set (s_slots s) rev (Some ev)) in
      (* retry.go: after the dispatcher, an error that is not a failed compare keeps the node ("return true") *)
      match eo with
      | Some er => if is_cas er then set_retry s1 (RPop node st) else set_rlast (set_retry s1 RIdle) st
      | None => set_retry s1 (RPop node st)
      end
  | RPop node st =>
      set_rlast (set_retry (set_queue s (pop_head (s_queue s))) RIdle) st
  end.

Definition step_gen (swapped : bool) (s : state) (l : label) : state :=
  match l with
  | LInvoke t op =>
      match get_thread t (s_threads s) with
      | Some _ => s
      | None => set_threads s (set_thread t {| t_op := op; t_pc := PStart; t_unk := false |} (s_threads s))
      end
  | LThread t e =>
      match get_thread t (s_threads s) with
      | None => s
      | Some th =>
          let '(s', p', unk) := thread_step s (t_op th) (t_pc th) e in
          set_threads s' (set_thread t {| t_op := t_op th; t_pc := p'; t_unk := t_unk th || unk |} (s_threads s'))
      end
  | LSeq => seq_step swapped s
  | LRetry e => retry_step s e
  | LTick d => set_now s (s_now s + d)
  end.

Definition step := step_gen false.
Definition run (s : state) (ls : list label) : state := fold_left step ls s.
Definition run_gen (sw : bool) (s : state) (ls : list label) : state := fold_left (step_gen sw) ls s.

(* ---------- derived notions used by the property statements ---------- *)
Definition thread_done (th : thread) : bool := match t_pc th with PDone _ => true | _ => false end.

Definition quiescentb (s : state) : bool :=
  forallb (fun x => thread_done (snd x)) (s_threads s)
  && match s_seq s with SeqIdle => true | _ => false end
  && match s_retry s with RIdle => true | _ => false end
  && match s_queue s with [] => true | _ => false end
  && (s_dealt s =? s_committed s).

Definition snap (s : state) (R : N) (k : key) : option (value * N) := snap_vers (k_vers (s_store s k)) R.

(* effect of the newest event on key k among `evs` (newest first), over the value `cur` *)
Fixpoint replay_key (k : key) (evs : list wevent) (cur : option (value * N)) : option (value * N) :=
  match evs with
  | [] => cur
  | ev :: older =>
      if e_key ev =? k
      then match e_verb ev with VDelete => None | _ => Some (e_val ev, e_rev ev) end
      else replay_key k older cur
  end.

Definition events_after (R0 : N) (evs : list wevent) : list wevent := filter (fun ev => R0 <? e_rev ev) evs.

Definition converged_at (s : state) (R0 : N) (k : key) : Prop :=
  replay_key k (events_after R0 (s_events s)) (snap s R0 k) = snap s (s_committed s) k.
