(* Decidable validity of C03 / C13 cases: the hypotheses of C03_oracle_sound and C13_oracle_sound
   (alphabet of keys and range bounds, recorded engine answers are tilings, the revision facts of the
   acknowledged history) as boolean tests that every shard evaluates per case.  Definitions only;
   soundness (validb = true -> valid) is in Proofs/ReadValid.v. *)
From KB Require Export Model.ReadSys Model.C03Cases Model.C13Cases.
Local Open Scope N_scope.

(* ---------- tilings ---------- *)
Definition border_okb (c : bytes) : bool :=
  match decode c with
  | DecOk k r => alphab k && (r <? two64) && beqb (encode k r) c
  | _ => false
  end.

(* the sorted pieces are chained from lo, each non-empty *)
Fixpoint chain_from (lo : bytes) (sp : list part) : bool :=
  match sp with
  | [] => true
  | (s, e) :: t => beqb s lo && bltb s e && chain_from e t
  end.

Definition tilingb (ps : list part) (lo hi : bytes) : bool :=
  let sp := sort_parts ps in
  let bs := map snd sp in
  (match sp with [] => false | _ => true end)
  && chain_from lo sp && beqb (last bs lo) hi && forallb border_okb (removelast bs).

Definition part_eqb (x y : part) : bool := beqb (fst x) (fst y) && beqb (snd x) (snd y).

(* an empty advertised pair: the scanner's adjusted partitions of the engine's answer are all (c, c) *)
Definition degenerateb (parts : partition_fn) (c : bytes) : bool :=
  match adjust_borders (parts c c) with
  | Some qs => forallb (fun p => part_eqb p (c, c)) qs
  | None => false
  end.

Definition pair_validb (parts : partition_fn) (c d : bytes) : bool :=
  (beqb c d && degenerateb parts c) || tilingb (parts c d) c d.

Definition valid_partsb (parts : partition_fn) (a b : bytes) : bool :=
  tilingb (parts (encode a 0) (encode b 0)) (encode a 0) (encode b 0).

(* ---------- C13 ---------- *)
Definition c13_group_validb (calls : list pcall) (cur : N) (g : c13_group) : bool :=
  let parts := parts_of calls in
  alphab (g_a g) && alphab (g_b g) &&
  (negb (bltb (g_a g) (g_b g)) ||
   (valid_partsb parts (g_a g) (g_b g) &&
    forallb (fun p => pair_validb parts (fst p) (snd p)) (pairs_of (snd (get_partitions_model parts cur (g_a g) (g_b g)))))).

Definition c13_validb (c : c13_case) : bool :=
  forallb (fun t => forallb (c13_group_validb (t_calls t) (p_cur c)) (t_groups t)) (p_tilings c).

(* ---------- C03 ---------- *)
Fixpoint kr_nodupb {A} (l : list (@vrec A)) : bool :=
  match l with
  | [] => true
  | x :: t => negb (existsb (fun y => beqb (vr_key y) (vr_key x) && (vr_rev y =? vr_rev x)) t) && kr_nodupb t
  end.

Definition read_alphab (q : c03_read) : bool :=
  match q with
  | QGet k rv _ => alphab k && (rv <? two64)
  | QList a b _ _ _ | QCount a b _ | QStream a b _ _ | QEtcd a b _ _ _ => alphab a && alphab b
  end.

Definition read_parts_okb (parts : partition_fn) (q : c03_read) : bool :=
  match q with
  | QGet _ _ _ => true
  | QList a b _ _ _ | QCount a b _ | QStream a b _ _ | QEtcd a b _ _ _ => negb (bltb a b) || valid_partsb parts a b
  end.

Fixpoint phases_validb (parts : partition_fn) (acc : list wop) (F pcur : N) (phs : list c03_phase) : bool :=
  match phs with
  | [] => true
  | ph :: t =>
      let ops := acc ++ ph_ops ph in
      let hv := hist_versions ops in
      let F' := N.max F (ph_floor ph) in
      forallb (fun x => 0 <? vr_rev x) hv && kr_nodupb hv && (F' <? two64) && (ph_cur ph <? two64)
      && forallb read_alphab (ph_reads ph) && forallb (read_parts_okb parts) (ph_reads ph)
      && forallb (fun x => pcur <? vr_rev x) (hist_versions (ph_ops ph))
      && phases_validb parts ops F' (ph_cur ph) t
  end.

Definition c03_validb (c : c03_case) : bool := phases_validb (c03_parts c) [] 0 0 (c_phases c).

(* cases C03_oracle_sound does not claim: a read with a range bound (or Get key) outside the alphabet — the
   signature of finding C03-F2; everything else must be valid *)
Definition c03_exempt (c : c03_case) : bool :=
  existsb (fun ph => existsb (fun q => negb (read_alphab q)) (ph_reads ph)) (c_phases c).

(* what the shards evaluate: the model reproduces the case AND the case is covered by the soundness theorem *)
Definition c03_check_valid (c : c03_case) : bool := c03_check c && (c03_validb c || c03_exempt c).
Definition c13_check_valid (c : c13_case) : bool := c13_check c && c13_validb c.

(* no acknowledged value equals the reserved marker, in any phase's history (finding C03-F1 cannot show) *)
Fixpoint phases_nomarkerb (acc : list wop) (phs : list c03_phase) : bool :=
  match phs with
  | [] => true
  | ph :: t => no_markerb (hist_versions (acc ++ ph_ops ph)) && phases_nomarkerb (acc ++ ph_ops ph) t
  end.
Definition c03_nomarkerb (c : c03_case) : bool := phases_nomarkerb [] (c_phases c).
