(* A tiny expression language for arithmetic extracted from the Go sources by harness/cmd/gen_c16expr (C16Backlog):
   the batch-size computation of Backend.catchUpEvents.  Definitions only. *)
From KB Require Export Base.Bytes.
Local Open Scope Z_scope.

Inductive gexpr :=
| GLen                       (* len(events) *)
| GName (n : bytes)          (* a package-level constant *)
| GNum (n : Z)
| GAdd (a b : gexpr) | GSub (a b : gexpr) | GMul (a b : gexpr) | GDiv (a b : gexpr)
| GUnknown.

Inductive gcond := GGt (a b : gexpr) | GGe (a b : gexpr) | GLt (a b : gexpr) | GLe (a b : gexpr) | GCondUnknown.

(* batchSize := init; if cond { batchSize = thn }; [extra] counts statements that do not fit this shape *)
Record gcatchup := mkCatchup { g_init : gexpr; g_cond : gcond; g_then : gexpr; g_extra : nat }.

(* Go int arithmetic on the values that occur (no overflow at these sizes); None = integer divide by zero (a panic) or an
   expression the translator did not recognise *)
Fixpoint geval (env : bytes -> option Z) (len : Z) (e : gexpr) : option Z :=
  let bin f a b := match geval env len a, geval env len b with Some x, Some y => f x y | _, _ => None end in
  match e with
  | GLen => Some len
  | GName n => env n
  | GNum n => Some n
  | GAdd a b => bin (fun x y => Some (x + y)) a b
  | GSub a b => bin (fun x y => Some (x - y)) a b
  | GMul a b => bin (fun x y => Some (x * y)) a b
  | GDiv a b => bin (fun x y => if y =? 0 then None else Some (Z.quot x y)) a b
  | GUnknown => None
  end.

Definition gcond_eval (env : bytes -> option Z) (len : Z) (c : gcond) : option bool :=
  let cmp f a b := match geval env len a, geval env len b with Some x, Some y => Some (f x y) | _, _ => None end in
  match c with
  | GGt a b => cmp Z.gtb a b
  | GGe a b => cmp Z.geb a b
  | GLt a b => cmp Z.ltb a b
  | GLe a b => cmp Z.leb a b
  | GCondUnknown => None
  end.

(* the value of batchSize after the two statements; None = panic / not recognised *)
Definition gcatchup_eval (env : bytes -> option Z) (len : Z) (p : gcatchup) : option Z :=
  match g_extra p with
  | O =>
      match gcond_eval env len (g_cond p) with
      | Some true => geval env len (g_then p)
      | Some false => geval env len (g_init p)
      | None => None
      end
  | S _ => None
  end.
