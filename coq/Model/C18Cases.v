(* Correspondence cases for C18: one row of the role table as observed on the real handlers
   (recording backend, recording forwarder, scripted /status endpoint), or one interleaving of two
   follower reads replayed on the real code by gating. *)
From KB Require Export Model.Roles Model.RolesN.
Local Open Scope N_scope.

Inductive tobs := TObs (done : bool) (begin scan : N) (joined : bool).

Inductive c18_case :=
| RoleCase (k : kind) (r : role) (proxy : bool) (l : reach) (obs : effects)
| SchedCase (leader0 frev0 : N) (ls : list label) (a b : tobs) (sets : list (N * N))    (* sets: (value before, value written) *)
| OverlapCase (r : N) (l : reach) (b_resp : rclass) (sets : list N) (a_scan : N) (a_nonempty : bool)
| FollowCase (m : rmode) (v : revsel) (r1 r2 : N) (sets : list N) (hdr2 : N)    (* second read after the leader moved from r1 to r2 *)
(* one interleaving of n follower reads (the driver: n = 3) replayed on the real code by gating, against Model/RolesN.v:
   per read its observation, the SetCurrentRevision log (value before, value written), the follower's revision at the end *)
| SchedNCase (n : nat) (leader0 frev0 : N) (ls : list nlabel) (obs : list tobs) (sets : list (N * N)) (frev_end : N)
(* a node wins the election (real server.NewServer, real Campaign); [version] = the lock version it installs.
   At the instant its SetCurrentRevision(version) is entered: what its /status answers ([mid_status] = Some rev on 200)
   and what a follower's List through it returns ([mid_list] = None on error, Some has_k1 otherwise, k1 having been
   committed by the old leader before).  Afterwards: the revision of its first 200 answer, and whether the
   follower's List then holds k0 and k1. *)
(* the delayed forwarded transaction (see forward_model): every SetCurrentRevision value on the follower, the header
   revisions of the two reads, whether the second read held every key the leader had committed *)
| ForwardCase (w r : N) (sets : list N) (hdr1 hdr2 : N) (complete2 : bool)
| TakeoverCase (old version : N) (mid_status : option N) (mid_list : option bool) (first_rev : N) (post_complete : bool).

Definition rclass_eqb (a b : rclass) : bool :=
  match a, b with
  | RespOk, RespOk | RespUnavailable, RespUnavailable | RespError, RespError | RespNone, RespNone => true
  | _, _ => false
  end.
Definition bcall_eqb (a b : bcall) : bool :=
  match a, b with
  | BNone, BNone | BMutate, BMutate | BWatchCall, BWatchCall | BRead, BRead => true
  | _, _ => false
  end.
Definition fwd_eqb (a b : fwd) : bool :=
  match a, b with
  | FNone, FNone | FTxn, FTxn | FWatch, FWatch => true
  | _, _ => false
  end.
Definition effects_eqb (a b : effects) : bool :=
  rclass_eqb (f_resp a) (f_resp b) && Bool.eqb (f_fetch a) (f_fetch b) && opt_eqb N.eqb (f_set a) (f_set b)
  && bcall_eqb (f_backend a) (f_backend b) && fwd_eqb (f_forward a) (f_forward b).

Definition obs_of_thr (x : thr) : tobs :=
  match t_pc x with
  | PDone => TObs true (t_begin x) (t_scan x) (t_joined x)
  | _ => TObs false (t_begin x) 0 (t_joined x)
  end.
Definition tobs_eqb (a b : tobs) : bool :=
  match a, b with
  | TObs d bg sc j, TObs d' bg' sc' j' => Bool.eqb d d' && (bg =? bg') && (sc =? sc') && Bool.eqb j j'
  end.
Definition pair_eqb (a b : N * N) : bool := (fst a =? fst b) && (snd a =? snd b).

Definition c18_check (c : c18_case) : bool :=
  match c with
  | RoleCase k r proxy l obs => effects_eqb (roles_effects k r proxy l) obs
  | SchedCase l0 f0 ls a b sets =>
      let s := run_code (i_init l0 f0) ls in
      tobs_eqb (obs_of_thr (i_a s)) a && tobs_eqb (obs_of_thr (i_b s)) b
      && list_eqb pair_eqb (map (fun x => match x with (_, before, v) => (before, v) end) (i_sets s)) sets
  | FollowCase m v r1 r2 sets hdr2 =>
      let '(ss, h) := follow_model m v r1 r2 in list_eqb N.eqb ss sets && (h =? hdr2)
  | SchedNCase n l0 f0 ls obs sets frev_end =>
      let '(s, ss) := nrun_code n l0 f0 ls in
      list_eqb tobs_eqb (map obs_of_thr (n_thrs s)) obs && list_eqb pair_eqb ss sets && (n_frev s =? frev_end)
  | ForwardCase w r sets hdr1 hdr2 complete2 =>
      let '(ss, h1, h2) := forward_model w r in
      list_eqb N.eqb ss sets && (h1 =? hdr1) && (h2 =? hdr2) && complete2
  | TakeoverCase old version mid_status mid_list first_rev post_complete =>
      (* the instant is phase TkInstalling; the first 200 answer is phase TkLeading *)
      opt_eqb N.eqb mid_status (if tk_flag TkInstalling then Some (tk_revision TkInstalling old version) else None)
      && opt_eqb Bool.eqb mid_list (match f_backend (tk_peer_read TkInstalling old version) with BRead => Some (version <=? tk_revision TkInstalling old version) | _ => None end)
      && (first_rev =? tk_revision TkLeading old version) && post_complete
  | OverlapCase r l b_resp sets a_scan a_nonempty =>
      let '(br, ss, sc) := overlap_model r l in
      rclass_eqb br b_resp && list_eqb N.eqb ss sets && (sc =? a_scan) && Bool.eqb (0 <? sc) a_nonempty
  end.

(* validity of a case (the hypotheses of the soundness theorem), decidable: evaluated on every case as a conjunct of the
   check the shards run, so a case outside the theorem's reach is reported as a mismatch *)
Definition thr_done (x : thr) : bool := match t_pc x with PDone => true | _ => false end.
Definition c18_validb (c : c18_case) : bool :=
  match c with
  | OverlapCase r _ _ _ _ _ => 0 <? r           (* the probe key's revision *)
  | SchedCase l0 f0 ls _ _ _ =>                 (* the schedule runs both reads to completion *)
      let s := run_code (i_init l0 f0) ls in thr_done (i_a s) && thr_done (i_b s)
  | FollowCase _ _ r1 r2 _ _ => (0 <? r1) && (r1 <? r2)    (* the leader moved on *)
  | SchedNCase n l0 f0 ls _ _ _ =>              (* the schedule runs every read to completion *)
      forallb thr_done (n_thrs (fst (nrun_code n l0 f0 ls)))
  | _ => true
  end.
Definition c18_checkv (c : c18_case) : bool := c18_validb c && c18_check c.

(* finding signatures (known_findings.d/C18.json) *)

(* every SetCurrentRevision on the local backend must carry the revision of a successful fetch: none on the
   leader, none when the fetch failed (an unparsable 200 answer is a failed fetch) *)
Definition set_verdict (r : role) (l : reach) (e : effects) : option N :=
  match f_set e with
  | None => None
  | Some v =>
      match r, l with
      | Follower, ReachOk rev => ok_if (v =? rev)
      | _, _ => Some 0
      end
  end.

(* the property on one observed row *)
Definition role_row_rest (k : kind) (r : role) (proxy : bool) (l : reach) (e : effects) : option N :=
  match r with
  | Leader => ok_if (fwd_eqb (f_forward e) FNone && negb (f_fetch e))   (* the leader never asks anybody, never forwards *)
  | Follower =>
      match f_backend e with
      | BMutate | BWatchCall => Some 0                     (* a follower applied a write / served a watch locally *)
      | _ =>
          if is_read k then
            match f_backend e, f_resp e with
            | BNone, RespOk => Some 0                      (* answered a read without reading? *)
            | BNone, _ => ok_if (fwd_eqb (f_forward e) FNone)   (* failed: fine *)
            | _, _ =>
                (* data was read locally: only after a successful fetch of the leader's revision *)
                match l with
                | ReachOk rev => ok_if (f_fetch e && opt_eqb N.eqb (f_set e) (Some rev) && fwd_eqb (f_forward e) FNone)
                | Unreachable | Err400 | Garbage200 => Some 0
                end
            end
          else if is_write k || is_stream k then
            (* a write or a watch on a follower: rejected as unavailable, or handed to the etcd proxy when there is one
               (acknowledging it without doing either is a lost write) *)
            ok_if ((rclass_eqb (f_resp e) RespUnavailable && fwd_eqb (f_forward e) FNone)
                   || (proxy && negb (fwd_eqb (etcd_fwd k) FNone) && fwd_eqb (f_forward e) (etcd_fwd k)))
          else
            match k, f_resp e with
            | StatusHandler, RespOk => Some 0              (* a non-leader published a revision *)
            | _, _ => ok_if (fwd_eqb (f_forward e) FNone)
            end
      end
  end.

Definition role_row_ok (k : kind) (r : role) (proxy : bool) (l : reach) (e : effects) : option N :=
  match set_verdict r l e with
  | Some c => Some c
  | None => role_row_rest k r proxy l e
  end.

(* a read that was run to completion finished, at a revision at least the leader's when it began *)
Definition tobs_fresh (x : tobs) : bool :=
  match x with TObs true bg sc _ => bg <=? sc | TObs false _ _ _ => false end.
Definition tobs_joined (x : tobs) : bool := match x with TObs _ _ _ j => j end.

Definition c18_oracle (c : c18_case) : option N :=
  match c with
  | RoleCase k r proxy l obs => role_row_ok k r proxy l obs
  | SchedCase _ _ _ a b sets =>
      ok_if (tobs_fresh a && tobs_fresh b)
  | SchedNCase _ _ _ _ obs _ _ =>
      ok_if (forallb tobs_fresh obs)
  | ForwardCase w r sets hdr1 hdr2 complete2 =>
      (* the follower's read revision is only ever set to a revision fetched from the leader (here: r), and a read that
         began after the leader had committed r is served at >= r with everything committed *)
      ok_if (forallb (N.eqb r) sets && (r <=? hdr1) && (r <=? hdr2) && complete2)
  | TakeoverCase old version mid_status mid_list first_rev post_complete =>
      (* a node that answers /status as leader has installed the lock version; a follower's read through it fails
         or reflects what the old leader had committed *)
      ok_if (match mid_status with Some r => version <=? r | None => true end
             && match mid_list with Some has_k1 => has_k1 | None => true end
             && (version <=? first_rev) && post_complete)
  | FollowCase m v r1 r2 sets hdr2 =>
      (* the second read began when the leader had committed r2: it must adopt r2 and answer at >= r2 *)
      ok_if (match rev sets with s :: _ => s =? r2 | [] => false end && (r2 <=? hdr2))
  | OverlapCase r l b_resp sets a_scan a_nonempty =>
      (* A began when the leader had committed r: it must be served at >= r and see what was committed;
         a failed fetch must make B fail and must not touch the read revision *)
      let a_ok := (r <=? a_scan) && a_nonempty in
      match l with
      | Unreachable | Err400 | Garbage200 => ok_if (rclass_eqb b_resp RespError && list_eqb N.eqb sets [r] && a_ok)
      | ReachOk _ => ok_if a_ok
      end
  end.
