(* Correspondence cases for C05: what the driver observed on the real Ring / WatcherHub / Backend.Watch,
   how the model judges it (c05_check) and the property's oracle on the observation (c05_oracle). *)
From KB Require Export Base.Cases Model.WatchSys.
Local Open Scope N_scope.

(* ---------- ring alone: NewRing(l), Add(events with the given revisions), VerifFind(S) ---------- *)

Inductive ring_obs :=
| ROPanic
| ROEmpty
| ROHigh (nw od : N)
| ROLow (nw od : N)
| ROEvents (nw od : N) (evs : list (option N)).     (* revisions; None = nil entry *)

Definition ring_ev (r : N) : event := mkEv VPut r [] [] r.

Definition obs_of_find (f : find_ret) : ring_obs :=
  match f with
  | FPanic => ROPanic
  | FEmpty => ROEmpty
  | FHigh nw od => ROHigh (e_rev nw) (e_rev od)
  | FLow nw od => ROLow (e_rev nw) (e_rev od)
  | FEvents nw od evs => ROEvents (e_rev nw) (e_rev od) (map (option_map e_rev) evs)
  end.

Definition on_eqb (a b : option N) : bool := opt_eqb N.eqb a b.

Definition ring_obs_eqb (a b : ring_obs) : bool :=
  match a, b with
  | ROPanic, ROPanic | ROEmpty, ROEmpty => true
  | ROHigh n o, ROHigh n' o' | ROLow n o, ROLow n' o' => (n =? n') && (o =? o')
  | ROEvents n o l, ROEvents n' o' l' => (n =? n') && (o =? o') && list_eqb on_eqb l l'
  | _, _ => false
  end.

(* ---------- runs of the pipeline: labels interleaved with observations ---------- *)

(* received events, with runs of consecutive PUTs of one key/value written compactly *)
Inductive gseg :=
| GE (e : event)
| GRange (r0 n : N) (k v : bytes).      (* PUT events with revisions r0 .. r0+n-1 *)

Definition put_we (r : N) (k v : bytes) : wevent := mkWe r (r - 1) true VPut k v.

(* f r0 ++ f (r0+1) ++ ... (n terms) *)
Fixpoint from_rev {A} (n : nat) (r : N) (f : N -> list A) : list A :=
  match n with
  | O => []
  | S n' => f r ++ from_rev n' (r + 1) f
  end.

Definition gexpand (g : list gseg) : list event :=
  flat_map (fun sg => match sg with
                      | GE e => [e]
                      | GRange r0 n k v => from_rev (N.to_nat n) r0 (fun r => [to_event (put_we r k v)])
                      end) g.

Record wobs := mkObs {
  o_w : nat;                         (* watcher *)
  o_S : N; o_P : bytes;              (* the request the client sent: start revision and prefix *)
  o_status : option N;               (* Watch returned: 0 = error, 1 = channel *)
  o_sublen : option N;               (* len(sub) of the hub channel (hub-alone driver) *)
  o_got : option (list gseg);        (* concatenation of the batches received so far *)
  o_closed : option bool;            (* the client has seen the result channel closed *)
  o_quiet : bool;                    (* driver: writes done, pipeline settled, client drained *)
  o_wire : bool                      (* the events were read off the etcd wire format, which has one PUT for
                                        create and update: compared modulo that (wire_ev) *)
}.

(* what the etcd wire format keeps of an event: CREATE and PUT are both PUT (CreateRevision = ModRevision) *)
Definition wire_ev (e : event) : event :=
  match e_ty e with
  | VCreate => mkEv VPut (e_rev e) (e_key e) (e_val e) (e_kvrev e)
  | _ => e
  end.
Definition proj (wire : bool) (evs : list event) : list event := if wire then map wire_ev evs else evs.

Inductive rstep :=
| RL (lb : label)
| RObs (o : wobs)
| RSubs (n : N)          (* number of registered subscribers (WatcherHub.VerifSubs) *)
| RDrops (n : N)         (* number of `drop.slow.watcher` emissions so far *)
| RBulk (r0 n : N) (k v : bytes) (after : list label)
   (* n successful updates of key k (revisions r0.., one event per batch), each followed by `after` *)
| RRep (n : N) (ls : list label).      (* the labels ls, n times *)

Definition expand_step (st : rstep) : list rstep :=
  match st with
  | RBulk r0 n k v after =>
      from_rev (N.to_nat n) r0 (fun r => map RL ([LSeqTake (put_we r k v); LSeqCache; LSeqSend] ++ after))
  | RRep n ls => from_rev (N.to_nat n) 0 (fun _ => map RL ls)
  | _ => [st]
  end.
Definition expand_steps (steps : list rstep) : list rstep := flat_map expand_step steps.

Inductive c05_case :=
| KRing (l : N) (revs : list N) (S : N) (obs : ring_obs)
| KRun (pa : params) (l c0 : N) (steps : list rstep)
(* one FindEvents(S) result taken while a concurrent appender adds events with consecutive revisions: the bounds it
   reported (oldest, newest) and the revisions of the events it returned (None = nil entry) *)
| KSnap (S od nw : N) (evs : list (option N)).

Definition status_of (w : watcher) : N :=
  match w_phase w with
  | PhRun | PhDone => 1
  | PhRefused => 0
  | _ => 2
  end.

Definition evs_eqb (a b : list event) : bool := list_eqb ev_eqb a b.

(* the stream of w is running and nobody has closed anything: subscription registered and open, result channel open *)
Definition open_stream (w : watcher) : bool :=
  match w_phase w with PhRun => true | _ => false end && negb (c_closed (w_sub w)) && negb (c_closed (w_out w)).

Definition obs_ok (s : sys) (o : wobs) : bool :=
  match nth_error (s_ws s) (o_w o) with
  | None => false
  | Some w =>
      (o_S o =? w_S w) && beqb (o_P o) (w_P w) &&
      match o_status o with Some st => st =? status_of w | None => true end &&
      match o_sublen o with Some n => n =? chan_len (w_sub w) | None => true end &&
      match o_got o with Some g => evs_eqb (gexpand g) (proj (o_wire o) (concat (w_got w))) | None => true end &&
      match o_closed o with Some b => Bool.eqb b (w_seen_close w) | None => true end &&
      (if o_quiet o then
         quiescent s w &&
         match o_closed o with Some false => open_stream w | _ => true end
       else true)
  end.

Definition count_reg (s : sys) : N := N.of_nat (length (filter w_reg (s_ws s))).

(* a slot the implementation resolved must be taken by the model's sequencer at that point of the script: the
   sequencer has no event in hand, its batch is not full, the slot is the one after the committed revision *)
Definition take_ok (pa : params) (s : sys) (lb : label) : bool :=
  match lb with
  | LSeqTake we =>
      match s_cur s with
      | Some _ => false
      | None => (N.of_nat (length (s_pending s)) <? p_batch pa) && (we_rev we =? s_committed s + 1)
      end
  | _ => true
  end.

(* the model follows the labels; every observation must agree with the model's state at that point *)
Fixpoint run_check (pa : params) (steps : list rstep) (s : sys) : bool :=
  match steps with
  | [] => negb (s_panic s)
  | RL lb :: t => take_ok pa s lb && run_check pa t (step pa s lb)
  | RObs o :: t => obs_ok s o && run_check pa t s
  | RSubs n :: t => (n =? count_reg s) && run_check pa t s
  | RDrops n :: t => (n =? N.of_nat (length (s_spawned s))) && run_check pa t s
  | RBulk _ _ _ _ _ :: t => false       (* expanded beforehand *)
  | RRep _ _ :: t => false
  end.

(* a, a+1, ..., a+n-1 *)
Fixpoint nseq (a : N) (n : nat) : list N :=
  match n with
  | O => []
  | S k => a :: nseq (a + 1) k
  end.

(* what an atomic FindEvents(S) returns on a ring of consecutive revisions whose window is od..nw, od <= S <= nw:
   the revisions S, S+1, ..., nw (Proofs/WatchRing.v ring_consecutive) *)
Definition snap_expect (S nw : N) : list (option N) := map Some (nseq S (N.to_nat (nw + 1 - S))).
Definition snap_ok (S od nw : N) (evs : list (option N)) : bool :=
  (od <=? S) && (S <=? nw) && list_eqb on_eqb evs (snap_expect S nw).

(* the cases the theorems speak about, decidably: a cache of at least one slot; ring cases with strictly increasing
   revisions. A generated case that is not valid counts as a disagreement (c05_check). *)
Fixpoint increasingb (l : list N) : bool :=
  match l with
  | a :: (b :: _) as t => (a <? b) && increasingb t
  | _ => true
  end.
(* every observation of a run carries what the client has received so far (an observation without it would not be
   constrained by the oracle) *)
Definition obs_has_got (st : rstep) : bool :=
  match st with
  | RObs o => match o_got o with Some _ => true | None => false end
  | _ => true
  end.
Definition c05_validb (c : c05_case) : bool :=
  match c with
  | KRing l revs _ _ => (0 <? l) && increasingb revs
  | KRun _ l _ steps => (0 <? l) && forallb obs_has_got steps
  | KSnap _ _ _ _ => true
  end.

Definition c05_check (c : c05_case) : bool :=
  c05_validb c &&
  match c with
  | KRing l revs sr obs =>
      match ring_of l (map ring_ev revs) with
      | None => ring_obs_eqb obs ROPanic
      | Some r => ring_obs_eqb (obs_of_find (find_events r sr)) obs
      end
  | KRun pa l c0 steps => run_check pa (expand_steps steps) (init l c0)
  | KSnap sr od nw evs => snap_ok sr od nw evs
  end.

(* ---------- the oracle: the property on the implementation's observation ---------- *)

(* the implementation's own successful writes, as events, in slot order *)
Definition sigma_of (ls : list label) : list event :=
  flat_map (fun lb => match lb with
                      | LSeqTake we => if we_valid we then [to_event we] else []
                      | _ => []
                      end) ls.

(* C05_prefix / C05_complete on one observation: start revision and prefix are the client's own request (o_S, o_P),
   sigma the implementation's own successful writes. The model state `s` is used for one piece of schedule
   bookkeeping only, which no client can observe: for S = 0, how many of those writes the hub had fanned out before
   the subscription was registered (w_base; the driver fixes it by letting every earlier write reach a monitor
   watcher before it calls Watch). *)
Definition obs_oracle (s : sys) (sigma : list event) (o : wobs) : option N :=
  match nth_error (s_ws s) (o_w o), o_got o with
  | Some w, Some g0 =>
      let g := gexpand g0 in
      let idl := proj (o_wire o) (ideal (o_S o) (o_P o) (w_base w) sigma) in
      if prefixb g idl then
        (if o_quiet o then
           match o_status o, o_closed o with
           | Some 1, Some false => ok_if (length g =? length idl)%nat
           | _, _ => None
           end
         else None)
      else Some 0       (* duplicate, reordering, wrong content, or a stream that continued past an event it skipped *)
  | _, _ => None
  end.

(* `sg` = the successful writes so far as events, newest first *)
Definition sg_push (sg : list event) (lb : label) : list event :=
  match lb with
  | LSeqTake we => if we_valid we then to_event we :: sg else sg
  | _ => sg
  end.

Fixpoint run_oracle (pa : params) (steps : list rstep) (s : sys) (sg : list event) : option N :=
  match steps with
  | [] => None
  | RL lb :: t => run_oracle pa t (step pa s lb) (sg_push sg lb)
  | RObs o :: t =>
      match obs_oracle s (frev sg) o with
      | Some code => Some code
      | None => run_oracle pa t s sg
      end
  | RSubs _ :: t => run_oracle pa t s sg
  | RDrops _ :: t => run_oracle pa t s sg
  | RBulk _ _ _ _ _ :: t => run_oracle pa t s sg
  | RRep _ _ :: t => run_oracle pa t s sg
  end.

(* FindEvents against the window specification, stated on the observed result *)
Definition c05_oracle (c : c05_case) : option N :=
  match c with
  | KRing l revs sr obs =>
      if (0 <? l) then ok_if (ring_obs_eqb (obs_of_find (find_spec l (map ring_ev revs) sr)) obs) else None
  | KRun pa l c0 steps => run_oracle pa (expand_steps steps) (init l c0) []
  | KSnap sr od nw evs => ok_if (snap_ok sr od nw evs)
  end.
