(* Correspondence cases for C08: a history of compaction requests, writes and reads run on a real
   Backend; per step the observed response class, the committed revision and the raw value of
   <prefix>/compact_key afterwards. *)
From KB Require Export Base.Cases Model.Coder Model.CompactSys.
Local Open Scope N_scope.

Record c08_step := mkS8 { s8_op : cop; s8_obs : cobs; s8_cur : N; s8_rec : option bytes }.
Record c08_case := mkC8 { c8_init : N; c8_steps : list c08_step }.

Definition cres_eqb (a b : cres) : bool :=
  match a, b with COk, COk | CErr, CErr | CPanic, CPanic => true | _, _ => false end.
Definition rres_eqb (a b : rres) : bool :=
  match a, b with RData, RData | RErr, RErr | RPanic, RPanic => true | _, _ => false end.
Definition cobs_eqb (a b : cobs) : bool :=
  match a, b with
  | OWrite, OWrite => true
  | OCompact h r, OCompact h' r' => (h =? h') && cres_eqb r r'
  | ORead r, ORead r' => rres_eqb r r'
  | _, _ => false
  end.

Definition cphase_eqb (a b : cphase) : bool :=
  match a, b with PhSetGet, PhSetGet | PhSetCommit, PhSetCommit | PhRaceGet, PhRaceGet | PhRacePut, PhRacePut
  | PhReadCheck, PhReadCheck | PhReadScan, PhReadScan => true | _, _ => false end.

(* a thread label must name a live thread, parked at the observed engine call *)
Definition label_ok (s : xstate) (op : cop) : bool :=
  match op with
  | CThread i ph => match find_thr i (x_thr s) with
                    | Some (TReadGet _) | Some (TReadScan _) => false
                    | Some t => cphase_eqb (tphase t) ph
                    | None => false
                    end
  | CReadCheck i rev => match find_thr i (x_thr s) with Some (TReadGet r) => r =? rev | _ => false end
  | CReadScan i rev => match find_thr i (x_thr s) with Some (TReadScan r) => r =? rev | _ => false end
  | _ => true
  end.

Fixpoint c08_run (s : xstate) (steps : list c08_step) : bool :=
  match steps with
  | [] => true
  | st :: t =>
      let '(s', o) := xstep s (s8_op st) in
      label_ok s (s8_op st)
      && cobs_eqb o (s8_obs st) && (c_cur (x_c s') =? s8_cur st) && opt_eqb beqb (c_rec (x_c s')) (s8_rec st)
      && c08_run s' t
  end.

Definition c08_check (c : c08_case) : bool := c08_run (mkX (mkC (c8_init c) 0 None) []) (c8_steps c).

(* ---- the property on the implementation's own observations ---- *)

Definition rec_wfb (r : option bytes) : bool :=
  match r with None => true | Some v => Nat.eqb (length v) 8 end.

(* the revision a read is served at, from the observed committed revision before the read *)
Definition read_rev (cur : N) (op : cop) : option N :=
  match op with
  | CList rev _ => Some (eff_rev cur rev)
  | CCount => Some cur
  | CScanCount rev => Some rev
  | CStream rev => Some (eff_rev cur rev)
  | CStreamPart rev => Some (eff_rev cur rev)
  | _ => None
  end.

(* a compaction request answered without an error: its header revision. On the overlapping schedules a request
   may be answered at the step that spawns its thread (a call that returns before any engine call) *)
Definition accepted (st : c08_step) : option N :=
  match s8_op st, s8_obs st with
  | CCompact _ _ _, OCompact h COk => Some h
  | CCompact2 _ _, OCompact h COk => Some h
  | CSpawn _ _ _, OCompact h COk => Some h
  | CThread _ _, OCompact h COk => Some h
  | _, _ => None
  end.

Definition c08_step_ok (cur floor : N) (st : c08_step) : bool :=
  let floor' := floor_of (s8_rec st) in
  rec_wfb (s8_rec st)
  && (floor <=? floor')                                             (* the floor only rises *)
  && match accepted st with Some h => h <=? floor' | None => true end   (* an accepted compaction sets the floor *)
  && match read_rev cur (s8_op st), s8_obs st with
     | Some r, ORead res => if r <? floor then rres_eqb res RErr else true   (* below the floor: refused *)
     | Some _, _ => false
     | None, _ => true
     end.

(* a range read in two steps, the check of the record and the scan (which ends with a second check): whichever step
   answers, below the floor of that moment it must be the refusal; passing the check below the floor is a violation *)
Definition read_check_ok (cur floor : N) (st : c08_step) : bool :=
  match s8_op st, s8_obs st with
  (* a read during which the record cannot be read: below the floor it must still be the refusal *)
  | CFaultRead rev, ORead res => if eff_rev cur rev <? floor then rres_eqb res RErr else true
  | CFaultRead _, _ => false
  | CReadCheck _ rev, ORead res => if rev <? floor then rres_eqb res RErr else true
  | CReadCheck _ rev, OWrite => negb (rev <? floor)
  | CReadCheck _ _, _ => false
  | CReadScan _ rev, ORead res => if rev <? floor then rres_eqb res RErr else true
  | CReadScan _ _, _ => false
  | _, _ => true
  end.

(* verdict of one step: None fine, Some 0 = violation *)
Definition c08_step_verdict (cur floor : N) (st : c08_step) : option N :=
  if c08_step_ok cur floor st && read_check_ok cur floor st then None else Some 0.

Definition worse8 (a b : option N) : option N :=
  match a, b with
  | Some 0, _ | _, Some 0 => Some 0
  | Some x, _ => Some x
  | None, y => y
  end.

(* the floor the following reads are held to: the stored record or, if higher, the revision of a compaction the
   backend has accepted - a read below an accepted compaction must be refused whatever the record says *)
Definition next_floor (st : c08_step) : N :=
  match accepted st with Some h => N.max (floor_of (s8_rec st)) h | None => floor_of (s8_rec st) end.

Fixpoint c08_orc (cur floor : N) (steps : list c08_step) : option N :=
  match steps with
  | [] => None
  | st :: t => worse8 (c08_step_verdict cur floor st) (c08_orc (s8_cur st) (N.max floor (next_floor st)) t)
  end.

Definition c08_oracle (c : c08_case) : option N := c08_orc (c8_init c) 0 (c8_steps c).

(* the hypotheses of C08_oracle_sound, decided: revisions within 64 bits *)
Definition c08_validb (c : c08_case) : bool :=
  (c8_init c <? 18446744073709551616) && forallb (fun st => s8_cur st <? 18446744073709551616) (c8_steps c).

(* what the shards evaluate: the case lies within the theorem's hypotheses and the model reproduces it *)
Definition c08_check_v (c : c08_case) : bool := c08_validb c && c08_check c.
