(* The metrics decorator pkg/storage/metrics/store.go as a program of its own — not the record copy `wrapper` of
   Model/Adapters.v: every call goes to the decorated adapter, the iterator handed out is a wrapped one (iterWrapper:
   counter, tags) that DelCurrent unwraps again, and every call leaves emissions whose state tag is computed from the
   error the inner call returned (genStateTag).  Definitions only.

   Emission values: counters and the batch size are integers and are modelled; durations are clock readings and are
   not (name and tags only). *)
From KB Require Export Model.C11Cases.

Inductive wtag := TSuccess | TError | TNotFound | TCasFailed.        (* state=success|error|key_not_found|cas_failed *)
Inductive wop := WGet | WDel | WCmpDel.                                (* op=get|del|cmp_and_del *)

Inductive emission :=
| EOp (o : wop) (t : wtag)                 (* histogram storage.op {state, op}                        store.go:59-65 *)
| EIterStart (t : wtag)                    (* counter storage.iter.start = 1 {state}                  store.go:96-103 *)
| EIterOpened (limited : bool)             (* counter storage.iter.start.success = 1 {limited}        store.go:155 *)
| EIterFetchErr (limited : bool)           (* counter storage.iter.fetch.error = 1 {limited}          store.go:164 *)
| EIterFetched (n : N) (limited : bool)    (* counter storage.iter.fetch.success = counter {limited}  store.go:182 *)
| EIterAvg (limited : bool)                (* histogram storage.iter.duration.avg {limited}           store.go:183 *)
| EIterSum (limited : bool)                (* histogram storage.iter.duration.sum {limited}           store.go:184 *)
| EBatchCount (n : N) (t : wtag)           (* histogram storage.batch.count = counter {op, state}     store.go:226 *)
| EBatchDur (t : wtag)                     (* histogram storage.batch.duration {op, state}            store.go:227 *)
| EOther.                                  (* anything else the client received: never produced by the model *)

(* genStateTag (store.go:67-78) on the error classes of the driver's classify: nil, errors.Is ErrKeyNotFound,
   errors.Is ErrCASFailed (a *storage.Conflict is one), anything else.  A panic leaves no emission at all. *)
Definition gen_state_tag (c : rclass) : wtag :=
  match c with
  | ROk => TSuccess
  | RNotFound => TNotFound
  | RCond => TCasFailed
  | ROther | RPanic => TError
  end.

Definition limited_of (l : N) : bool := negb (l =? 0).                 (* strconv.FormatBool(limit > 0) *)

(* iterWrapper.Close (store.go:173-186); the counter counts the Next calls that ended with io.EOF or
   context.Canceled (store.go:162-169: a successful Next changes nothing) *)
Definition close_emissions (counter : N) (ltd : bool) : list emission :=
  [EIterFetched counter ltd; EIterAvg ltd; EIterSum ltd].

(* storeWrapper.Iter on success (store.go:102-103, newIterWrapper) *)
Definition open_emissions (ltd : bool) : list emission := [EIterStart TSuccess; EIterOpened ltd].

(* batchWriteWrapper: counter++ per staged operation, Commit emits twice with the tag of Commit's error *)
(* a call that panics inside the decorated engine leaves no emission: the panic passes the emitting line *)
Definition unless_panic {X} (c : rclass) (l : list X) : list X := match c with RPanic => [] | _ => l end.

Definition batch_emissions (n : nat) (c : rclass) : list emission :=
  unless_panic c [EBatchCount (N.of_nat n) (gen_state_tag c); EBatchDur (gen_state_tag c)].

Definition op_emissions (o : wop) (c : rclass) : list emission := unless_panic c [EOp o (gen_state_tag c)].

(* the decorator's own state: the wrapped iterator the caller holds (its `limited` tag; its counter is still 0,
   an iterator that has met io.EOF is closed at once by the driver) *)
Record wstate (A : adapter) := mk_w { w_in : a_state A; w_held : option item; w_hw : option bool }.
Arguments mk_w {A}. Arguments w_in {A}. Arguments w_held {A}. Arguments w_hw {A}.

(* one driver step on the decorator over A: the calls made to A are those of a_step (every method forwards), a
   DelCurrent — direct or staged — first unwraps the held iterator (a type assertion: no wrapped iterator, no call
   and no emission — it panics), and the emissions of the step in program order *)
Definition w_step (A : adapter) (w : wstate A) (o : sop) : wstate A * obs * list emission :=
  let s := w_in w in let h := w_held w in
  match o with
  | SBatch l =>
      match resolve_all h l with
      | Some ops => let '(s', c, cf) := a_batch A s ops in
                    (mk_w s' h (w_hw w), OBatch c cf, batch_emissions (length l) c)
      | None => (w, OBatch RPanic None, [])
      end
  | SGet k => let '(c, v) := a_get A s k in (w, OGet c v, op_emissions WGet c)
  | SDel k => let '(s', c) := a_del A s k in (mk_w s' h (w_hw w), ODel c, op_emissions WDel c)
  | SIter a b l =>
      let ltd := limited_of l in
      (w, OIter ROk (map item_kv (a_iter A s a b l)), open_emissions ltd ++ close_emissions 1 ltd)
  | SHold a b l j =>
      let ltd := limited_of l in
      let closing := match w_hw w with Some ltd' => close_emissions 0 ltd' | None => [] end in
      let out := a_iter A s a b l in
      let seen := firstn (S j) out in
      if Nat.leb (S j) (length out)
      then (mk_w s (nth_error out j) (Some ltd), OHold ROk (map item_kv seen) true, closing ++ open_emissions ltd)
      else (mk_w s None None, OHold ROk (map item_kv seen) false,
            closing ++ open_emissions ltd ++ close_emissions 1 ltd)
  | SDelCur =>
      match h, w_hw w with
      | Some i, Some _ => let '(s', c, cf) := a_delcur A s i in
                          (mk_w s' h (w_hw w), ODelCur c cf, op_emissions WCmpDel c)
      | _, _ => (w, ODelCur RPanic None, [])
      end
  | SHoldDrain a b l j bl =>
      let ltd := limited_of l in
      let out := a_iter A s a b l in
      match resolve_all h bl with
      | Some ops =>
          let '(s', c, cf) := a_batch A s ops in
          (mk_w s' h (w_hw w),
           OHoldDrain ROk (map item_kv (firstn (S j) out)) c cf (map item_kv (skipn (S j) out)),
           open_emissions ltd ++ batch_emissions (length bl) c ++ close_emissions 1 ltd)
      | None => (w, OHoldDrain RPanic [] RPanic None [], [])
      end
  end.

Fixpoint w_run (A : adapter) (w : wstate A) (ops : list sop) : wstate A * list (obs * list emission) :=
  match ops with
  | [] => (w, [])
  | o :: rest =>
      let '(w', ob, es) := w_step A w o in
      let '(wf, r) := w_run A w' rest in
      (wf, (ob, es) :: r)
  end.

Definition w_init (A : adapter) : wstate A := mk_w (a_init A) None None.

(* ---------- the case kind ---------- *)

Definition wtag_eqb (a b : wtag) : bool :=
  match a, b with TSuccess, TSuccess | TError, TError | TNotFound, TNotFound | TCasFailed, TCasFailed => true | _, _ => false end.
Definition wop_eqb (a b : wop) : bool :=
  match a, b with WGet, WGet | WDel, WDel | WCmpDel, WCmpDel => true | _, _ => false end.
Definition emission_eqb (x y : emission) : bool :=
  match x, y with
  | EOp o t, EOp o' t' => wop_eqb o o' && wtag_eqb t t'
  | EIterStart t, EIterStart t' => wtag_eqb t t'
  | EIterOpened l, EIterOpened l' => Bool.eqb l l'
  | EIterFetchErr l, EIterFetchErr l' => Bool.eqb l l'
  | EIterFetched n l, EIterFetched n' l' => (n =? n') && Bool.eqb l l'
  | EIterAvg l, EIterAvg l' => Bool.eqb l l'
  | EIterSum l, EIterSum l' => Bool.eqb l l'
  | EBatchCount n t, EBatchCount n' t' => (n =? n') && wtag_eqb t t'
  | EBatchDur t, EBatchDur t' => wtag_eqb t t'
  | _, _ => false
  end.

Definition step_eqb (x y : obs * list emission) : bool :=
  obs_eqb (fst x) (fst y) && list_eqb emission_eqb (snd x) (snd y).

(* c11x_case: the cases of Model/C11Cases.v, or KWrapMetrics: an operation sequence on metrics.NewKvStorage over an
   engine with a recording metrics client: the answer to every step, what the client received during the step, the
   raw contents at the end *)
Inductive c11x_case :=
| CX (c : c11_case)
| KWrapMetrics (e : eng) (steps : list (sop * (obs * list emission))) (final : store).

(* the correspondence check proper: the answers and the final contents — what property C11 speaks about *)
Definition c11x_check (c : c11x_case) : bool :=
  match c with
  | CX c => c11_check c
  | KWrapMetrics e steps final =>
      let A := adapter_of e in
      let '(wf, r) := w_run A (w_init A) (map fst steps) in
      list_eqb obs_eqb (map fst r) (map fst (map snd steps)) && store_eqb (a_dump A (w_in wf)) final
  end.

(* the emission log as well.  C11 says nothing about metrics: a disagreement here is reported in the evidence
   (informational_mismatches) and raises no alarm *)
Definition c11x_emissions_check (c : c11x_case) : bool :=
  match c with
  | CX _ => true
  | KWrapMetrics e steps final =>
      let A := adapter_of e in
      list_eqb step_eqb (snd (w_run A (w_init A) (map fst steps))) (map snd steps)
  end.

(* truthful emissions, from the observation alone: every call's state tag is the tag of the answer the caller got —
   success exactly for an accepted call —, a batch reports the number of operations staged, nothing outside the
   vocabulary is emitted.  A statement about the decorator, not part of C11's oracle. *)
Definition obs_tags (ob : obs) : list wtag :=
  match ob with
  | OBatch c _ => unless_panic c [gen_state_tag c; gen_state_tag c]
  | OGet c _ => unless_panic c [gen_state_tag c]
  | ODel c => unless_panic c [gen_state_tag c]
  | ODelCur c _ => unless_panic c [gen_state_tag c]
  | OIter _ _ | OHold _ _ _ => []
  | OHoldDrain _ _ bc _ _ => unless_panic bc [gen_state_tag bc; gen_state_tag bc]
  end.

Definition emission_call_tag (e : emission) : option wtag :=
  match e with EOp _ t | EBatchCount _ t | EBatchDur t => Some t | _ => None end.

Fixpoint call_tags (es : list emission) : list wtag :=
  match es with
  | [] => []
  | e :: t => match emission_call_tag e with Some x => x :: call_tags t | None => call_tags t end
  end.

Definition batch_counts (es : list emission) : list N :=
  flat_map (fun e => match e with EBatchCount n _ => [n] | _ => [] end) es.

Definition staged (o : sop) (ob : obs) : list N :=
  match o, ob with
  | SBatch l, OBatch c _ => unless_panic c [N.of_nat (length l)]
  | SHoldDrain _ _ _ _ l, OHoldDrain _ _ bc _ _ => unless_panic bc [N.of_nat (length l)]
  | _, _ => []
  end.

Definition known (e : emission) : bool := match e with EOther => false | _ => true end.

Definition truthful_step (st : sop * (obs * list emission)) : bool :=
  let '(o, (ob, es)) := st in
  list_eqb wtag_eqb (call_tags es) (obs_tags ob) && list_eqb N.eqb (batch_counts es) (staged o ob) && forallb known es.

(* the property side of a KWrapMetrics case: the answers, judged by the C11 oracle of the decorated engine — the
   decorator must be invisible *)
Definition c11x_oracle (c : c11x_case) : option N :=
  match c with
  | CX c => c11_oracle c
  | KWrapMetrics e steps final => c11_oracle (mk_c11 e (map (fun st => (fst st, fst (snd st))) steps) final)
  end.

(* ---------- the decorator over a failing engine (case kind KWrapFault, kinds 0..3) ---------- *)

(* an adapter whose one method (0 Get, 1 Del, 2 DelCurrent, 3 Commit) answers with class c and does nothing *)
Definition faulty (A : adapter) (kind : N) (c : rclass) : adapter := {|
  a_state := a_state A;
  a_init := a_init A;
  a_dump := a_dump A;
  a_get := if kind =? 0 then (fun _ _ => (c, [])) else a_get A;
  a_iter := a_iter A;
  a_batch := if kind =? 3 then (fun s _ => (s, c, None)) else a_batch A;
  a_del := if kind =? 1 then (fun s _ => (s, c)) else a_del A;
  a_delcur := if kind =? 2 then (fun s _ => (s, c, None)) else a_delcur A;
  a_nil_empty := a_nil_empty A
|}.

Definition fault_op (kind : N) : sop :=
  if kind =? 0 then SGet [97] else if kind =? 1 then SDel [97] else if kind =? 2 then SDelCur else SBatch [BDel [97]].

Definition obs_class (ob : obs) : rclass :=
  match ob with
  | OBatch c _ | OGet c _ | ODel c | OIter c _ | OHold c _ _ | ODelCur c _ | OHoldDrain c _ _ _ _ => c
  end.

(* the driver's wrapFault scenario on the decorator model: the record a=1 is written and an iterator held on it
   through the decorator over a healthy memkv; the one call is made on the decorator over the failing engine, from the
   same state; the record is read back through the healthy one *)
Definition fault_model (kind : N) (c : rclass) : rclass * bool :=
  let A := memkv in
  let w1 := fst (w_run A (w_init A) [SBatch [BPut [97] [49] 0]; SHold [97] [98] 0 0]) in
  let F := faulty A kind c in
  let '(w2, ob, _) := w_step F (mk_w (A := F) (w_in w1) (w_held w1) (w_hw w1)) (fault_op kind) in
  let w3 : wstate A := mk_w (A := A) (w_in w2) (w_held w2) (w_hw w2) in
  let '(_, ob2, _) := w_step A w3 (SGet [97]) in
  (obs_class ob, match ob2 with OGet ROk v => beqb v [49] | _ => false end).
