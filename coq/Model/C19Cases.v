(* Correspondence cases for C19: one case per location of the regenerated access table (the
   translator's own verdict against check_location), and the list of locations whose race has been
   reproduced with the race detector and recorded as a finding. *)
From KB Require Export Base.Cases Model.Lockset.
Open Scope N_scope.

Definition s (l : list N) : str := l.

(* confirmed findings (known_findings.d/C19.json): code |-> flagged locations *)
Definition c19_findings : list (N * str) :=
  [ (1, (* server_service_leader.leaderElection.leader *)
        [115;101;114;118;101;114;95;115;101;114;118;105;99;101;95;108;101;97;100;101;114;46;108;101;97;100;101;114;69;108;101;99;116;105;111;110;46;108;101;97;100;101;114]);
    (2, (* backend_election.resourceLock.record *)
        [98;97;99;107;101;110;100;95;101;108;101;99;116;105;111;110;46;114;101;115;111;117;114;99;101;76;111;99;107;46;114;101;99;111;114;100]);
    (2, (* backend_election.resourceLock.tso *)
        [98;97;99;107;101;110;100;95;101;108;101;99;116;105;111;110;46;114;101;115;111;117;114;99;101;76;111;99;107;46;116;115;111]);
    (3, (* backend_scanner.compactRecordQueue.list *)
        [98;97;99;107;101;110;100;95;115;99;97;110;110;101;114;46;99;111;109;112;97;99;116;82;101;99;111;114;100;81;117;101;117;101;46;108;105;115;116]);
    (4, (* server_etcd.watcher.watches *)
        [115;101;114;118;101;114;95;101;116;99;100;46;119;97;116;99;104;101;114;46;119;97;116;99;104;101;115]);
    (5, (* server_service_etcdproxy.etcdProxy.curLeader *)
        [115;101;114;118;101;114;95;115;101;114;118;105;99;101;95;101;116;99;100;112;114;111;120;121;46;101;116;99;100;80;114;111;120;121;46;99;117;114;76;101;97;100;101;114]);
    (5, (* server_service_etcdproxy.etcdProxy.client *)
        [115;101;114;118;101;114;95;115;101;114;118;105;99;101;95;101;116;99;100;112;114;111;120;121;46;101;116;99;100;80;114;111;120;121;46;99;108;105;101;110;116]) ].

Definition c19_known : list str := map snd c19_findings.

Fixpoint finding_code (n : str) (fs : list (N * str)) : N :=
  match fs with
  | [] => 0
  | (c, m) :: fs' => if seqb n m then c else finding_code n fs'
  end.

Inductive c19_case :=
| KLoc (n : str) (flagged : bool).     (* a table location and whether the translator's own rule flags it *)

Definition c19_check (t : table) (c : c19_case) : bool :=
  match c with
  | KLoc n f =>
      match find_loc n t with
      | Some l => Bool.eqb (negb (check_location l)) f
      | None => false
      end
  end.

(* the property on the table row: accepted by the lock-discipline check, or a recorded finding *)
Definition c19_oracle (t : table) (c : c19_case) : option N :=
  match c with
  | KLoc n _ =>
      match find_loc n t with
      | Some l => if check_location l then None else Some (finding_code n c19_findings)
      | None => Some 0
      end
  end.
