(* Correspondence cases for C19: one case per location of the regenerated access table (the
   translator's own verdict against check_location), and the list of locations whose race has been
   reproduced with the race detector and recorded as a finding. *)
From KB Require Export Base.Cases Model.Lockset.
Open Scope N_scope.

Definition s (l : list N) : str := l.

(* confirmed findings (known_findings.d/C19.json): code |-> flagged locations *)
(* C19-F1 ... C19-F5 were fixed in /repo (fix: commits); nothing is listed any more: every flagged
   location is an unlisted violation *)
Definition c19_findings : list (N * str) := [].

Definition c19_known : list str := map snd c19_findings.

Fixpoint finding_code (n : str) (fs : list (N * str)) : N :=
  match fs with
  | [] => 0
  | (c, m) :: fs' => if seqb n m then c else finding_code n fs'
  end.

Inductive c19_case :=
| KLoc (n : str) (flagged : bool).     (* a table location and whether the translator's own rule flags it *)

Definition c19_check (t : table) (c : c19_case) : bool :=
  match c with
  | KLoc n f =>
      match find_loc n t with
      | Some l => Bool.eqb (negb (check_location l)) f
      | None => false
      end
  end.

(* the property on the table row: accepted by the lock-discipline check, or a recorded finding *)
Definition c19_oracle (t : table) (c : c19_case) : option N :=
  match c with
  | KLoc n _ =>
      match find_loc n t with
      | Some l => if check_location l then None else Some (finding_code n c19_findings)
      | None => Some 0
      end
  end.

(* validity of a location case: the location is in the table and passes the lock-discipline check — then
   C19_lockset_sound_at applies to it: no conforming trace races on it *)
Definition c19_valid (t : table) (c : c19_case) : Prop :=
  match c with KLoc n _ => exists l, find_loc n t = Some l /\ check_location l = true end.
Definition c19_validb (t : table) (c : c19_case) : bool :=
  match c with KLoc n _ => match find_loc n t with Some l => check_location l | None => false end end.
(* what a shard evaluates: agreement with the translator's verdict, and valid or already rejected by the oracle *)
Definition c19_check_covered (t : table) (c : c19_case) : bool :=
  c19_check t c && (c19_validb t c || match c19_oracle t c with Some _ => true | None => false end).
