(* Executable model of pkg/metrics/prometheus/prometheus.go on top of the registration rules of
   client_golang v1.12.1 (NewDesc, Registry.Register, MetricVec.hashLabels, newHistogram,
   counter.Add), restated here.  Definitions only; proofs are in Proofs/Metrics.v.

   Names, label names and label values are Go strings = byte strings (list N).
   A Go panic is the explicit outcome [Panic]. *)
From KB Require Export Base.Bytes.
Open Scope N_scope.

(* ---------- strings ---------- *)

Definition str := bytes.
Definition seqb (a b : str) : bool := beqb a b.

Fixpoint mem (x : str) (l : list str) : bool :=
  match l with [] => false | y :: l' => seqb x y || mem x l' end.

Fixpoint nodupb (l : list str) : bool :=
  match l with [] => true | x :: l' => negb (mem x l') && nodupb l' end.

Definition subsetb (a b : list str) : bool := forallb (fun x => mem x b) a.
Definition set_eqb (a b : list str) : bool := subsetb a b && subsetb b a.

(* strings.Replace(name, ".", "_", -1) *)
Definition format_name (n : str) : str := map (fun c => if c =? 46 then 95 else c) n.

Definition is_alpha_us (c : N) : bool :=
  ((97 <=? c) && (c <=? 122)) || ((65 <=? c) && (c <=? 90)) || (c =? 95).
Definition is_digit (c : N) : bool := (48 <=? c) && (c <=? 57).

(* model.IsValidMetricName: ^[a-zA-Z_:][a-zA-Z0-9_:]*$ *)
Definition valid_metric_name (n : str) : bool :=
  match n with
  | [] => false
  | c :: r => (is_alpha_us c || (c =? 58)) && forallb (fun c => is_alpha_us c || is_digit c || (c =? 58)) r
  end.

(* checkLabelName: LabelName.IsValid (^[a-zA-Z_][a-zA-Z0-9_]*$) and no "__" prefix *)
Definition valid_label_name (n : str) : bool :=
  match n with
  | [] => false
  | c :: r =>
      is_alpha_us c && forallb (fun c => is_alpha_us c || is_digit c) r &&
      negb (match n with 95 :: 95 :: _ => true | _ => false end)
  end.

(* utf8.ValidString *)
Definition cont (c : N) : bool := (128 <=? c) && (c <=? 191).
Definition in_rng (lo hi c : N) : bool := (lo <=? c) && (c <=? hi).

Fixpoint valid_utf8 (s : str) : bool :=
  match s with
  | [] => true
  | c :: r =>
      if c <? 128 then valid_utf8 r
      else if in_rng 194 223 c then
        match r with c1 :: r1 => cont c1 && valid_utf8 r1 | _ => false end
      else if in_rng 224 239 c then
        match r with
        | c1 :: c2 :: r2 =>
            (if c =? 224 then in_rng 160 191 c1 else if c =? 237 then in_rng 128 159 c1 else cont c1)
            && cont c2 && valid_utf8 r2
        | _ => false
        end
      else if in_rng 240 244 c then
        match r with
        | c1 :: c2 :: c3 :: r3 =>
            (if c =? 240 then in_rng 144 191 c1 else if c =? 244 then in_rng 128 143 c1 else cont c1)
            && cont c2 && cont c3 && valid_utf8 r3
        | _ => false
        end
      else false
  end.

(* ---------- the wrapper's state ---------- *)

Inductive kind := Counter | Gauge | Histogram.
Definition kind_eqb (a b : kind) : bool :=
  match a, b with Counter, Counter | Gauge, Gauge | Histogram, Histogram => true | _, _ => false end.

Definition vecmap := list (str * list str).     (* raw metric name |-> label names fixed at first use *)

Fixpoint vlookup (n : str) (m : vecmap) : option (list str) :=
  match m with
  | [] => None
  | (k, v) :: m' => if seqb n k then Some v else vlookup n m'
  end.

Record wstate := {
  globals : list (str * str);     (* NewMetrics(globalLabels...) *)
  cvec : vecmap;                  (* counterVecMap *)
  gvec : vecmap;                  (* gaugeVecMap *)
  hvec : vecmap;                  (* histogramVecMap *)
  reg : list str                  (* fully-qualified names registered in prometheus.DefaultRegisterer *)
}.

Definition vec_of (k : kind) (s : wstate) : vecmap :=
  match k with Counter => cvec s | Gauge => gvec s | Histogram => hvec s end.

Definition set_vec (k : kind) (m : vecmap) (r : list str) (s : wstate) : wstate :=
  match k with
  | Counter => {| globals := globals s; cvec := m; gvec := gvec s; hvec := hvec s; reg := r |}
  | Gauge => {| globals := globals s; cvec := cvec s; gvec := m; hvec := hvec s; reg := r |}
  | Histogram => {| globals := globals s; cvec := cvec s; gvec := gvec s; hvec := m; reg := r |}
  end.

Definition init_state (g : list (str * str)) (reg0 : list str) : wstate :=
  {| globals := g; cvec := []; gvec := []; hvec := []; reg := reg0 |}.

(* one call Emit<kind>(name, value, labels...) ; [e_neg]: the value converts to a float < 0 *)
Record emission := { e_kind : kind; e_name : str; e_labels : list (str * str); e_neg : bool }.

Inductive outcome := Ok | Panic.
Definition outcome_eqb (a b : outcome) : bool :=
  match a, b with Ok, Ok | Panic, Panic => true | _, _ => false end.

(* extractLabelNames: global label names first, then the call's label names *)
Definition label_names (g : list (str * str)) (ls : list (str * str)) : list str :=
  map fst g ++ map fst ls.

(* labelsToMap: a Go map, later entries override earlier ones *)
Fixpoint map_put (k v : str) (m : list (str * str)) : list (str * str) :=
  match m with
  | [] => [(k, v)]
  | (k', v') :: m' => if seqb k k' then (k, v) :: m' else (k', v') :: map_put k v m'
  end.
Definition labels_to_map (g ls : list (str * str)) : list (str * str) :=
  fold_left (fun m kv => map_put (fst kv) (snd kv) m) (g ++ ls) [].

Definition bucket_label : str := [108; 101].   (* "le" *)

(* mustGet<Kind>Vec: existing vector, or NewXVec + MustRegister *)
Definition get_vec (s : wstate) (e : emission) : option (wstate * list str) :=
  match vlookup (e_name e) (vec_of (e_kind e) s) with
  | Some names => Some (s, names)
  | None =>
      let fq := format_name (e_name e) in
      let names := label_names (globals s) (e_labels e) in
      if valid_metric_name fq && forallb valid_label_name names && nodupb names && negb (mem fq (reg s))
      then Some (set_vec (e_kind e) ((e_name e, names) :: vec_of (e_kind e) s) (fq :: reg s) s, names)
      else None   (* MustRegister panics; the deferred Unlock runs, nothing was stored *)
  end.

(* vec.With(labelsToMap(labels)): validateValuesInLabels + hashLabels (+ newHistogram) *)
Definition with_ok (k : kind) (names : list str) (m : list (str * str)) : bool :=
  (length m =? length names)%nat &&
  forallb (fun kv => valid_utf8 (snd kv)) m &&
  forallb (fun n => mem n (map fst m)) names &&
  negb (kind_eqb k Histogram && mem bucket_label names).

Definition emit (s : wstate) (e : emission) : wstate * outcome :=
  match get_vec s e with
  | None => (s, Panic)
  | Some (s', names) =>
      if with_ok (e_kind e) names (labels_to_map (globals s) (e_labels e))
      then if kind_eqb (e_kind e) Counter && e_neg e then (s', Panic)   (* counter.Add(v < 0) *)
           else (s', Ok)
      else (s', Panic)
  end.

Fixpoint run (s : wstate) (es : list emission) : wstate * list outcome :=
  match es with
  | [] => (s, [])
  | e :: es' => let '(s1, o) := emit s e in let '(s2, os) := run s1 es' in (s2, o :: os)
  end.

(* ---------- the static table of emission call sites ---------- *)

Inductive vclass :=
| VConst (v : str)    (* string constant *)
| VOneOf (vs : list str)  (* one of several string constants (assigned on different paths) *)
| VFmt                (* strconv.FormatBool / FormatInt / Itoa ... of a bool or integer *)
| VSanitised          (* strings.ToValidUTF8(x, valid) *)
| VServer             (* server-side: configuration flags, peer identity from the election record *)
| VRaw                (* client-derived raw bytes (string(request field)) or anything unclassified *)
| VUnknown.

Inductive vsign := NonNeg | AnySign.

Record row := {
  r_site : N;                                   (* index into the translator's site list (JSON) *)
  r_kind : kind;
  r_name : option str;                          (* None = could not be resolved *)
  r_labels : option (list (str * vclass));      (* None = could not be resolved *)
  r_sign : vsign
}.

Definition vclass_safe (c : vclass) : bool :=
  match c with
  | VConst v => valid_utf8 v
  | VOneOf vs => forallb valid_utf8 vs
  | VFmt | VSanitised | VServer => true
  | VRaw | VUnknown => false
  end.

Definition row_names (r : row) : list str :=
  match r_labels r with Some ls => map fst ls | None => [] end.

(* fully-qualified names that other collectors of the process own in the default registry
   (Go collector, process collector, go-grpc-prometheus, promhttp) *)
Definition foreign_prefixes : list str :=
  [ [103;111;95]; [112;114;111;99;101;115;115;95]; [103;114;112;99;95]; [112;114;111;109;104;116;116;112;95] ].

Definition foreign (n : str) : bool := existsb (fun p => has_prefix p n) foreign_prefixes.

Definition row_local_ok (gn : list str) (r : row) : bool :=
  match r_name r, r_labels r with
  | Some n, Some ls =>
      let names := gn ++ map fst ls in
      valid_metric_name (format_name n) && negb (foreign (format_name n)) &&
      forallb valid_label_name names && nodupb names &&
      forallb (fun l => vclass_safe (snd l)) ls &&
      negb (kind_eqb (r_kind r) Histogram && mem bucket_label names) &&
      match r_kind r, r_sign r with Counter, AnySign => false | _, _ => true end
  | _, _ => false
  end.

Definition opt_str_eqb (a b : option str) : bool :=
  match a, b with Some x, Some y => seqb x y | _, _ => false end.

(* two rows are compatible: same vector => same label-name set; same fully-qualified name => same vector *)
Definition rows_compatible (r1 r2 : row) : bool :=
  match r_name r1, r_name r2 with
  | Some n1, Some n2 =>
      if seqb (format_name n1) (format_name n2)
      then kind_eqb (r_kind r1) (r_kind r2) && seqb n1 n2 && set_eqb (row_names r1) (row_names r2)
      else true
  | _, _ => false
  end.

(* [gn]: the names of the global labels given to NewMetrics (their values are configuration) *)
Definition row_ok (gn : list str) (t : list row) (r : row) : bool :=
  row_local_ok gn r && forallb (rows_compatible r) t.

Definition check (gn : list str) (t : list row) : bool := forallb (row_ok gn t) t.

(* the translator emits None when it cannot resolve the NewMetrics call *)
Definition check_program (gn : option (list str)) (t : list row) : bool :=
  match gn with Some gn => check gn t | None => false end.

(* The table's label names and value classes describe what the call sites pass to Emit*.  They are what
   reaches client_golang only if the wrapper hands names and values on unchanged (extractLabelNames,
   labelsToMap, as modelled by label_names / labels_to_map above); the translator checks that structurally
   and reports the result as [identity]. *)
Definition check_translated (identity : bool) (gn : option (list str)) (t : list row) : bool :=
  identity && check_program gn t.

(* an emission is an instance of a row: same kind and name, same label names in the same order,
   every value in its row's class, sign as classified *)
Definition value_in (c : vclass) (v : str) : bool :=
  match c with
  | VConst v0 => seqb v v0
  | VOneOf vs => mem v vs
  | VFmt | VSanitised | VServer => valid_utf8 v     (* what the classification claims *)
  | VRaw | VUnknown => true
  end.

Fixpoint labels_in (cs : list (str * vclass)) (ls : list (str * str)) : bool :=
  match cs, ls with
  | [], [] => true
  | (n, c) :: cs', (n', v) :: ls' => seqb n n' && value_in c v && labels_in cs' ls'
  | _, _ => false
  end.

Definition instance_of (r : row) (e : emission) : bool :=
  kind_eqb (r_kind r) (e_kind e) &&
  match r_name r, r_labels r with
  | Some n, Some cs => seqb n (e_name e) && labels_in cs (e_labels e)
  | _, _ => false
  end &&
  match r_sign r with NonNeg => negb (e_neg e) | AnySign => true end.
