(* CompactSys — decoded-level model of compaction and expiry.
   Transcribed from pkg/backend/compact.go, pkg/backend/scanner/scanner.go (worker loop 416-507,
   compactKey/compactCurrent/isSkippedRawKey 522-564, compactIfExpired 566-591, checkCompactRace
   594-631, logCompactHistory/getTimeoutRevision 147-177), pkg/backend/scanner/compact.go,
   pkg/backend/txn.go:70-75 (TTL choice) and the write paths of txn.go / creator/naive.go at the
   level of decoded records.  Executable definitions only. *)
From KB Require Export Base.Cases Model.Coder.
Local Open Scope N_scope.

Definition tombstone : bytes := [116;111;109;98;115;116;111;110;101].          (* "tombstone" *)
Definition events_sub : bytes := [47;101;118;101;110;116;115;47].              (* "/events/" *)
Definition compact_key_name : bytes := [47;99;111;109;112;97;99;116;95;107;101;121]. (* "/compact_key" *)
Definition slash : N := 47.

Definition is_nil {A} (l : list A) : bool := match l with [] => true | _ => false end.
Definition is_tomb (v : bytes) : bool := beqb v tombstone.

(* ================================================================================================ *)
(* Part 1 — the compaction record (floor): Backend.Compact, setCompactRecord, checkCompactRace      *)
(* ================================================================================================ *)

(* binary.BigEndian.Uint64(val): panics when len(val) < 8, reads the first 8 bytes otherwise *)
Definition u64_of (v : bytes) : option N :=
  if Nat.ltb (length v) 8 then None else Some (from_be (firstn 8 v)).

(* compact.go:31-45 *)
Definition clamp (cur retry_min r : N) : N :=
  let r1 := if (r =? 0) || (cur <? r) then cur else r in
  if retry_min =? 0 then r1 else N.min (retry_min - 1) r1.

Inductive sres := SDone (rec : option bytes) | SFail | SPanic.

(* setCompactRecord (compact.go:66-105); commit_ok = the engine commits the one-op batch
   (a CAS against the value just read / put-if-absent on a key just seen absent) *)
Definition set_compact_record (rec : option bytes) (r : N) (commit_ok : bool) : sres :=
  match rec with
  | None => if commit_ok then SDone (Some (be64 r)) else SFail
  | Some [] => SFail                                   (* len(val)==0 but present: put-if-absent conflicts *)
  | Some v =>
      match u64_of v with
      | None => SPanic
      | Some c => if r <? c then SDone rec
                  else if commit_ok then SDone (Some (be64 r)) else SFail
      end
  end.

(* checkCompactRace(compact=true) (scanner.go, with fix 1f7f45b and the conditional write), no other compaction
   in between: a stored revision that is larger or equal is left alone, otherwise the CAS / put-if-absent against
   the value just read succeeds *)
Definition race_compact (r : N) (rec : option bytes) : option bytes :=
  match rec with
  | Some v => if Nat.eqb (length v) 8 && (r <=? from_be v) then rec else Some (be64 r)
  | None => Some (be64 r)
  end.

(* setCompactRevisionAttempts *)
Definition race_attempts : nat := 3.

Inductive rres := RData | RErr | RPanic.

(* checkCompactRace(compact=false) (scanner.go:611-630) *)
Definition race_read (rec : option bytes) (r : N) : rres :=
  match rec with
  | None => RData
  | Some v => match u64_of v with
              | None => RPanic
              | Some c => if r <? c then RErr else RData
              end
  end.

Fixpoint iter_n {A} (n : nat) (f : A -> A) (x : A) : A :=
  match n with O => x | S n' => iter_n n' f (f x) end.

Record cstate := mkC { c_cur : N; c_retry : N; c_rec : option bytes }.

Inductive cres := COk | CErr | CPanic.

(* Backend.Compact: clamp, setCompactRecord, then one scanner.Compact per border pair, each of which
   starts with checkCompactRace(compact=true) *)
Definition backend_compact (s : cstate) (r : N) (nranges : nat) (commit_ok : bool) : cstate * (N * cres) :=
  let rv := clamp (c_cur s) (c_retry s) r in
  match set_compact_record (c_rec s) rv commit_ok with
  | SDone rec1 => (mkC (c_cur s) (c_retry s) (iter_n nranges (race_compact rv) rec1), (rv, COk))
  | SFail => (s, (rv, CErr))
  | SPanic => (s, (rv, CPanic))
  end.

Definition eff_rev (cur rev : N) : N := if rev =? 0 then cur else rev.

Definition floor_of (rec : option bytes) : N :=
  match rec with None => 0 | Some v => from_be (firstn 8 v) end.

(* operations of a C08 history *)
(* the engine calls of one Compact call that touch the compaction record *)
Inductive cphase :=
| PhSetGet        (* setCompactRecord: Get *)
| PhSetCommit     (* setCompactRecord: Commit of the CAS / put-if-absent *)
| PhRaceGet       (* checkCompactRace(compact=true): Get *)
| PhRacePut       (* checkCompactRace(compact=true): Commit of the Put *)
| PhReadCheck     (* a range read: checkCompactRace(compact=false), the Get of the record *)
| PhReadScan.     (* a range read: after the check, before its iterators are opened *)

Inductive cop :=
| CWrite (n : N)                         (* n acknowledged write requests (each allocates one revision) *)
| CUncertain                             (* one write whose commit outcome is unknown: enters the retry queue *)
| CCompact (r : N) (nranges : nat) (commit_ok : bool)
| CCompact2 (r : N) (nranges : nat)      (* Compact through a second Backend on the same store (same committed
                                            revision, empty retry queue) *)
| CList (rev : N) (limit : N)            (* Backend.List, valid range *)
| CCount                                 (* Backend.Count (etcd compatibility on): always at the committed revision *)
| CScanCount (rev : N)                   (* scanner.Count at an explicit revision *)
| CStream (rev : N)                      (* Backend.ListByStream over the whole range *)
| CStreamPart (rev : N)                  (* Backend.ListByStream once per advertised partition *)
| CFaultRead (rev : N)                   (* a range read during which the engine fails the point read of the compaction
                                            record: checkCompactRace returns the error, the read is not served *)
(* overlapping compactions: each Compact call runs on its own thread and is advanced one engine call at a time *)
| CSpawn (i : N) (r : N) (nranges : nat) (* thread i enters Backend.Compact(r): clamp, then parks before its first engine call *)
| CThread (i : N) (ph : cphase)          (* thread i performs the engine call it is parked at (observed: which one) *)
(* a range read overlapping compactions: two steps - the check of the compaction record, then the scan (the iterators
   are opened after the check; only on TiKV are they bound to a timestamp taken before it) followed by a second check *)
| CRSpawn (i : N) (rev : N)              (* thread i enters a range read at explicit revision rev, parks before the check *)
| CReadCheck (i : N) (rev : N)           (* ... reads the record: refused, or parks before opening its iterators *)
| CReadScan (i : N) (rev : N).           (* ... scans and answers *)

Inductive cobs :=
| OWrite
| OCompact (hdr : N) (res : cres)
| ORead (res : rres).

Definition cstep (s : cstate) (op : cop) : cstate * cobs :=
  match op with
  | CWrite n => (mkC (c_cur s + n) (c_retry s) (c_rec s), OWrite)
  | CUncertain =>
      let rev := c_cur s + 1 in
      (mkC rev (if c_retry s =? 0 then rev else c_retry s) (c_rec s), OWrite)
  | CCompact r n ok => let '(s', (h, res)) := backend_compact s r n ok in (s', OCompact h res)
  | CCompact2 r n =>
      let '(s', (h, res)) := backend_compact (mkC (c_cur s) 0 (c_rec s)) r n true in
      (mkC (c_cur s) (c_retry s) (c_rec s'), OCompact h res)
  | CList rev _ => (s, ORead (race_read (c_rec s) (eff_rev (c_cur s) rev)))
  | CCount => (s, ORead (race_read (c_rec s) (c_cur s)))
  | CScanCount rev => (s, ORead (race_read (c_rec s) rev))
  | CStream rev => (s, ORead (race_read (c_rec s) (eff_rev (c_cur s) rev)))
  | CStreamPart rev => (s, ORead (race_read (c_rec s) (eff_rev (c_cur s) rev)))
  | CFaultRead _ => (s, ORead RErr)      (* an unreadable record is never taken for "no compaction yet" *)
  | CSpawn _ _ _ | CThread _ _ | CRSpawn _ _ | CReadCheck _ _ | CReadScan _ _ => (s, OWrite)      (* thread labels: see xstep below *)
  end.

Fixpoint crun (s : cstate) (ops : list cop) : cstate :=
  match ops with [] => s | op :: t => crun (fst (cstep s op)) t end.

(* ---------- overlapping compactions: one engine call per step ---------- *)

(* where a compaction thread is parked: before ... *)
Inductive tstate :=
| TSetGet (rv : N) (n : nat)                          (* ... setCompactRecord's Get *)
| TSetCommit (val : option bytes) (rv : N) (n : nat)  (* ... the commit of its batch, built against the value read *)
| TRaceGet (rv : N) (k : nat) (a : nat)               (* ... checkCompactRace's Get, k ranges to go (k >= 1), attempt a *)
| TRacePut (val : option bytes) (rv : N) (k : nat) (a : nat)
                                                      (* ... the commit of its CAS / put-if-absent against the value read *)
| TReadGet (rev : N)                                  (* a read thread before its check *)
| TReadScan (rev : N).                                (* a read thread past its check, before its iterators *)

Definition tphase (t : tstate) : cphase :=
  match t with TSetGet _ _ => PhSetGet | TSetCommit _ _ _ => PhSetCommit | TRaceGet _ _ _ => PhRaceGet | TRacePut _ _ _ _ => PhRacePut
  | TReadGet _ => PhReadCheck | TReadScan _ => PhReadScan end.

Definition trev (t : tstate) : N :=
  match t with TSetGet rv _ | TSetCommit _ rv _ | TRaceGet rv _ _ | TRacePut _ rv _ _ => rv
  | TReadGet _ | TReadScan _ => 0 (* the compaction revision of the thread: a read thread has none *) end.

Inductive tnext := TGo (t : tstate) | TEnd (res : cres).

(* after setCompactRecord: the scans, or the end when there is no range *)
Definition after_set (rv : N) (n : nat) : tnext := match n with O => TEnd COk | S _ => TGo (TRaceGet rv n 1) end.
Definition after_range (rv : N) (k : nat) : tnext := match k with S (S k') => TGo (TRaceGet rv (S k') 1) | _ => TEnd COk end.

(* the parked engine call is performed on the record as it is NOW *)
Definition tstep (rec : option bytes) (t : tstate) : option bytes * tnext :=
  match t with
  | TSetGet rv n =>
      match rec with
      | Some (x :: v') =>
          match u64_of (x :: v') with
          | None => (rec, TEnd CPanic)
          | Some c => if rv <? c then (rec, after_set rv n) else (rec, TGo (TSetCommit rec rv n))
          end
      | _ => (rec, TGo (TSetCommit rec rv n))
      end
  | TSetCommit val rv n =>
      let ok := match val with
                | Some (x :: v') => opt_eqb beqb rec val      (* CAS against the value read *)
                | _ => match rec with None => true | Some _ => false end   (* put-if-absent *)
                end in
      if ok then (Some (be64 rv), after_set rv n) else (rec, TEnd CErr)
  | TRaceGet rv k a =>
      match rec with
      | Some v => if Nat.eqb (length v) 8 && (rv <=? from_be v) then (rec, after_range rv k) else (rec, TGo (TRacePut rec rv k a))
      | None => (rec, TGo (TRacePut rec rv k a))
      end
  | TRacePut val rv k a =>
      let ok := match val with
                | Some _ => opt_eqb beqb rec val                              (* CAS against the value read *)
                | None => match rec with None => true | Some _ => false end   (* put-if-absent *)
                end in
      if ok then (Some (be64 rv), after_range rv k)
      else if Nat.leb race_attempts a then (rec, after_range rv k)            (* gives up: this range is not scanned *)
      else (rec, TGo (TRaceGet rv k (S a)))                                   (* lost compare: re-read, re-compare *)
  | TReadGet _ | TReadScan _ => (rec, TGo t)                                  (* read threads are advanced by their own labels *)
  end.

Record xstate := mkX { x_c : cstate; x_thr : list (N * tstate) }.

Definition find_thr (i : N) (l : list (N * tstate)) : option tstate :=
  match find (fun p => fst p =? i) l with Some p => Some (snd p) | None => None end.
Definition drop_thr (i : N) (l : list (N * tstate)) := filter (fun p => negb (fst p =? i)) l.

Definition xstep (s : xstate) (op : cop) : xstate * cobs :=
  match op with
  | CSpawn i r n =>
      let c := x_c s in
      (mkX c (drop_thr i (x_thr s) ++ [(i, TSetGet (clamp (c_cur c) (c_retry c) r) n)]), OWrite)
  | CThread i ph =>
      match find_thr i (x_thr s) with
      | Some t =>
          let c := x_c s in
          let '(rec', nx) := tstep (c_rec c) t in
          let c' := mkC (c_cur c) (c_retry c) rec' in
          match nx with
          | TGo t' => (mkX c' (drop_thr i (x_thr s) ++ [(i, t')]), OWrite)
          | TEnd res => (mkX c' (drop_thr i (x_thr s)), OCompact (trev t) res)
          end
      | None => (s, OWrite)
      end
  | CRSpawn i rev => (mkX (x_c s) (drop_thr i (x_thr s) ++ [(i, TReadGet rev)]), OWrite)
  | CReadCheck i _ =>
      match find_thr i (x_thr s) with
      | Some (TReadGet rev) =>
          match race_read (c_rec (x_c s)) rev with
          | RData => (mkX (x_c s) (drop_thr i (x_thr s) ++ [(i, TReadScan rev)]), OWrite)
          | r => (mkX (x_c s) (drop_thr i (x_thr s)), ORead r)
          end
      | _ => (s, OWrite)
      end
  | CReadScan i _ =>
      match find_thr i (x_thr s) with
      | Some (TReadScan rev) =>
          (* after its workers have finished the scan reads the record once more: a compaction above rev that started
             in between has recorded its revision before deleting anything, and the read is refused *)
          (mkX (x_c s) (drop_thr i (x_thr s)), ORead (race_read (c_rec (x_c s)) rev))
      | _ => (s, OWrite)
      end
  | _ => let '(c', o) := cstep (x_c s) op in (mkX c' (x_thr s), o)
  end.

Fixpoint xrun (s : xstate) (ops : list cop) : xstate :=
  match ops with [] => s | op :: t => xrun (fst (xstep s op)) t end.

(* ================================================================================================ *)
(* Part 2 — decoded records and stores                                                               *)
(* ================================================================================================ *)

Inductive rec :=
| RIdx (k : bytes) (r : N) (d : bool)      (* index record {k}$0 -> revision [+ deletion flag] *)
| RVer (k : bytes) (r : N) (v : bytes).    (* version record {k}${r} -> value *)

Definition store := list rec.

Definition rkey (x : rec) : bytes := match x with RIdx k _ _ | RVer k _ _ => k end.
(* the revision part of the record's internal key *)
Definition rrev (x : rec) : N := match x with RIdx _ _ _ => 0 | RVer _ r _ => r end.
(* the stored value *)
Definition rval (x : rec) : bytes :=
  match x with RIdx _ r d => be64 r ++ (if d then [0] else []) | RVer _ _ v => v end.
Definition is_ver (x : rec) : bool := match x with RVer _ _ _ => true | _ => false end.

Definition rec_eqb (x y : rec) : bool :=
  match x, y with
  | RIdx k r d, RIdx k' r' d' => beqb k k' && (r =? r') && Bool.eqb d d'
  | RVer k r v, RVer k' r' v' => beqb k k' && (r =? r') && beqb v v'
  | _, _ => false
  end.

(* two records live under the same internal key *)
Definition same_slot (x y : rec) : bool :=
  beqb (rkey x) (rkey y) && (rrev x =? rrev y) && Bool.eqb (is_ver x) (is_ver y).

Definition memb (x : rec) (V : store) : bool := existsb (rec_eqb x) V.
Definition del_slot (x : rec) (V : store) : store := filter (fun y => negb (same_slot x y)) V.

(* decoding a raw engine dump; None = a record the decoded level cannot express *)
Definition decode_rec (kv : bytes * bytes) : option rec :=
  match decode (fst kv) with
  | DecOk k r =>
      if r =? 0 then
        match parse_revision (snd kv) with
        | Some (rv, false) => Some (RIdx k rv false)
        | Some (rv, true) => if nth 8 (snd kv) 1 =? 0 then Some (RIdx k rv true) else None
        | None => None
        end
      else Some (RVer k r (snd kv))
  | _ => None
  end.

Fixpoint decode_dump (d : list (bytes * bytes)) : option store :=
  match d with
  | [] => Some []
  | kv :: t => match decode_rec kv, decode_dump t with
               | Some x, Some V => Some (x :: V)
               | _, _ => None
               end
  end.

(* iteration order of the engine on the documented alphabet (C10): key first, then revision *)
Definition rec_cmp (x y : rec) : comparison := kr_cmp (rkey x) (rrev x) (rkey y) (rrev y).
Definition rec_ltb (x y : rec) : bool := match rec_cmp x y with Lt => true | _ => false end.

Fixpoint sortedb (V : store) : bool :=
  match V with
  | [] => true
  | x :: t => match t with [] => true | y :: _ => rec_ltb x y && sortedb t end
  end.

(* ---------- MVCC reads on a store (specification level, executable) ---------- *)

(* the newest version of k with revision <= R, as (revision, value) *)
Fixpoint latest_le (V : store) (k : bytes) (R : N) (best : option (N * bytes)) : option (N * bytes) :=
  match V with
  | [] => best
  | RVer k' r v :: t =>
      if beqb k k' && (r <=? R) then
        latest_le t k R (match best with
                         | Some (rb, _) => if rb <? r then Some (r, v) else best
                         | None => Some (r, v)
                         end)
      else latest_le t k R best
  | _ :: t => latest_le t k R best
  end.

(* Backend.Get at revision R (R = 2^64-1 for "latest"): range.go:83-121 *)
Definition get_at (V : store) (R : N) (k : bytes) : option (N * bytes) :=
  match latest_le V k R None with
  | Some (r, v) => if is_tomb v then None else Some (r, v)
  | None => None
  end.

Definition max_rev : N := 18446744073709551615.

Definition idx_of (V : store) (k : bytes) : option (N * bool) :=
  match find (fun x => match x with RIdx k' _ _ => beqb k k' | _ => false end) V with
  | Some (RIdx _ r d) => Some (r, d)
  | _ => None
  end.

(* ---------- the relaxed well-formedness compaction leaves behind ---------- *)
(* per key: a live index points at the newest version, which is not a tombstone; a flagged index or a
   missing index sits above a version list that is empty or ends in a tombstone (for a flagged index:
   the tombstone it names) *)
Definition key_wfb (V : store) (k : bytes) : bool :=
  let top := latest_le V k max_rev None in
  match idx_of V k, top with
  | Some (r, false), Some (rt, v) => (r =? rt) && negb (is_tomb v)
  | Some (_, false), None => false
  | Some (r, true), Some (rt, v) => (r =? rt) && is_tomb v
  | Some (_, true), None => true
  | None, Some (_, v) => is_tomb v
  | None, None => true
  end.

Definition wfb' (V : store) : bool := forallb (fun x => key_wfb V (rkey x)) V.

(* ================================================================================================ *)
(* Part 3 — the scan worker (scanner.go:389-516) in read and in compaction mode                     *)
(* ================================================================================================ *)

Inductive outcome := OOk | OFailCond | OFailOther | ODie.
Inductive dkind := KDel | KDelCur.

Record dstep := mkStep { ds_kind : dkind; ds_target : rec; ds_out : outcome; ds_safe : bool }.

(* what concurrent writers commit between two engine calls of the pass: version records are added,
   an index record replaces the key's index *)
Fixpoint apply_env (adds : list rec) (V : store) : store :=
  match adds with
  | [] => V
  | RVer k r v :: t => apply_env t (V ++ [RVer k r v])
  | RIdx k r d :: t => apply_env t (del_slot (RIdx k r d) V ++ [RIdx k r d])
  end.

(* C07's premise for removing x from V at compaction revision R (ghost: recorded, never branched on) *)
Definition premiseb (R : N) (V : store) (x : rec) : bool :=
  match x with
  | RIdx _ _ _ => true
  | RVer k r v =>
      negb (existsb (same_slot x) V)
      || existsb (fun y => match y with RVer k' r' _ => beqb k k' && (r <? r') && (r' <=? R) | _ => false end) V
      || (is_tomb v && (r <=? R) && memb x V
          && negb (existsb (fun y => match y with RVer k' r' _ => beqb k k' && (r' <? r) | _ => false end) V))
  end.

Record dst := mkD {
  d_store : store;                          (* the engine *)
  d_ghost : store;                          (* ghost: the engine had the pass deleted nothing *)
  d_lf : bytes;                             (* lastCompactFailedRawKey *)
  d_oc : list (list rec * outcome);         (* environment: writers' commits before, and outcome of, each engine delete *)
  d_dead : bool;                            (* context cancelled / compactor gone *)
  d_trace : list dstep                      (* ghost: engine deletes issued, newest first *)
}.

Definition skipped (lf k : bytes) : bool := negb (is_nil lf) && beqb lf k.

(* compactKey / compactCurrent (scanner.go:538-564) around store.Del / store.DelCurrent *)
Definition engine_delete (R : N) (kind : dkind) (x : rec) (d : dst) : dst :=
  if d_dead d then d
  else if skipped (d_lf d) (rkey x) then d
  else
    let '(adds, o, rest) := match d_oc d with [] => ([], OOk, []) | (a, o) :: t => (a, o, t) end in
    let V := apply_env adds (d_store d) in
    let W := apply_env adds (d_ghost d) in
    let safe := premiseb R V x in
    match o with
    | OOk =>
        match kind with
        | KDel => mkD (del_slot x V) W (d_lf d) rest false (mkStep kind x OOk safe :: d_trace d)
        | KDelCur =>
            if memb x V then mkD (del_slot x V) W (d_lf d) rest false (mkStep kind x OOk safe :: d_trace d)
            else mkD V W (d_lf d) rest false (mkStep kind x OFailCond safe :: d_trace d)
        end
    | OFailCond =>
        (* a failed compare: only the index compare-and-delete may go on with the key; a version that could not
           be deleted marks its key as failed whatever the error *)
        mkD V W (match kind with KDel => rkey x | KDelCur => d_lf d end) rest false
            (mkStep kind x OFailCond safe :: d_trace d)
    | OFailOther => mkD V W (rkey x) rest false (mkStep kind x OFailOther safe :: d_trace d)
    | ODie => mkD V W (d_lf d) rest true (mkStep kind x ODie safe :: d_trace d)
    end.

(* w_evp: scanner.Config.EventsPrefix (<prefix>/events/); empty = no key expires *)
Record wcfg := mkCfg { w_rev : N; w_compact : bool; w_tr : N; w_limit : N; w_evp : bytes }.

(* the key test of compactIfExpired: len(eventsPrefix) > 0 && bytes.HasPrefix(rawKey, eventsPrefix) *)
Definition is_expirable (evp k : bytes) : bool := negb (is_nil evp) && has_prefix evp k.

Definition kvr := (bytes * bytes * N)%type.    (* key, value, mod revision *)

Record wst := mkW { w_d : dst; w_pk : bytes; w_pr : N; w_pv : bytes; w_out : list kvr }.

Definition need_more (c : wcfg) (out : list kvr) : bool :=
  (w_limit c =? 0) || (N.of_nat (length out) <? w_limit c).

(* one iteration of the loop body on record x (after the needMore and ctx.Done tests) *)
Definition wbody (c : wcfg) (x : rec) (s : wst) : wst :=
  let k := rkey x in
  let r := rrev x in
  let value := rval x in
  let R := w_rev c in
  (* compactIfExpired (566-591) *)
  let expire : option dkind :=
    if (w_tr c =? 0) then None
    else if is_expirable (w_evp c) k then
      match x with
      | RIdx _ orev _ => if orev <=? w_tr c then Some KDelCur else None
      | RVer _ _ _ => if r <=? w_tr c then Some KDel else None
      end
    else None in
  match expire with
  | Some kind => mkW (engine_delete R kind x (w_d s)) (w_pk s) (w_pr s) (w_pv s) (w_out s)
  | None =>
      if R <? r then s
      else
        (* new raw key / same raw key *)
        let '(d1, out1) :=
          if negb (beqb k (w_pk s)) then
            (w_d s, if (0 <? w_pr s) && negb (is_tomb (w_pv s)) then (w_pk s, w_pv s, w_pr s) :: w_out s else w_out s)
          else
            (if w_compact c && (0 <? w_pr s)
             then engine_delete R KDel (RVer (w_pk s) (w_pr s) (w_pv s)) (w_d s) else w_d s, w_out s) in
        (* tombstone *)
        let d2 := if w_compact c && is_tomb value then engine_delete R KDel x d1 else d1 in
        (* flagged index *)
        match x with
        | RIdx _ orev true =>
            if w_compact c then
              if R <? orev then mkW d2 (w_pk s) (w_pr s) (w_pv s) out1      (* `continue`: prev not updated *)
              else mkW (engine_delete R KDelCur x d2) k r value out1
            else mkW d2 k r value out1
        | _ => mkW d2 k r value out1
        end
  end.

Fixpoint wloop (c : wcfg) (snap : list rec) (s : wst) : wst :=
  match snap with
  | [] => s
  | x :: t =>
      if negb (need_more c (w_out s)) then s
      else if d_dead (w_d s) then s
      else wloop c t (wbody c x s)
  end.

Definition wfinish (c : wcfg) (s : wst) : list kvr :=
  let out := if (0 <? w_pr s) && negb (is_tomb (w_pv s)) && need_more c (w_out s)
             then (w_pk s, w_pv s, w_pr s) :: w_out s else w_out s in
  rev out.

Definition init_d (V : store) (oc : list (list rec * outcome)) : dst := mkD V V [] oc false [].
Definition init_w (d : dst) : wst := mkW d [] 0 [] [].

(* a read-mode scan over the records of [lo,hi) *)
Definition in_range (lo hi : bytes) (x : rec) : bool := bleb lo (rkey x) && bltb (rkey x) hi.

Definition scan_read (V : store) (lo hi : bytes) (R limit : N) : list kvr :=
  let c := mkCfg R false 0 limit [] in
  wfinish c (wloop c (filter (in_range lo hi) V) (init_w (init_d V []))).

(* Backend.List: limit+1 requested when limited, `more` when more than limit came back *)
Definition backend_list (V : store) (lo hi : bytes) (R limit : N) : list kvr * bool :=
  let l := scan_read V lo hi R (if 0 <? limit then limit + 1 else 0) in
  if (0 <? limit) && (limit <? N.of_nat (length l)) then (firstn (N.to_nat limit) l, true) else (l, false).

Fixpoint insert_by {A} (lt : A -> A -> bool) (x : A) (l : list A) : list A :=
  match l with
  | [] => [x]
  | y :: t => if lt y x then y :: insert_by lt x t else x :: l
  end.
Definition sort_by {A} (lt : A -> A -> bool) (l : list A) : list A := fold_right (insert_by lt) [] l.

(* one compaction scan of [lo,hi) at revision R with timeout revision tr; a fresh worker (lf reset),
   the snapshot is what the engine holds in the range when the scan starts, in engine order *)
Definition compact_range_e (evp : bytes) (R tr : N) (lo hi : bytes) (d : dst) : dst :=
  let c := mkCfg R true tr 0 evp in
  let d0 := mkD (d_store d) (d_ghost d) [] (d_oc d) (d_dead d) (d_trace d) in
  w_d (wloop c (sort_by rec_ltb (filter (in_range lo hi) (d_store d))) (init_w d0)).

(* without an events prefix (or, equally, with timeout revision 0) nothing expires: the compaction proper *)
Definition compact_range (R tr : N) (lo hi : bytes) (d : dst) : dst := compact_range_e [] R tr lo hi d.

(* ---------- compaction borders (compact.go:107-127) ---------- *)

Fixpoint last_is (c : N) (b : bytes) : bool :=
  match b with [] => false | [x] => x =? c | _ :: t => last_is c t end.

Definition with_slash (p : bytes) : bytes := if last_is slash p then p else p ++ [slash].

(* normalisation of the skipped prefixes (already with "/" appended, inside the prefix range): a prefix that is
   a duplicate of, or nested in, one kept so far is dropped; the kept ones nested in a new one are dropped *)
Definition add_outer (acc : list bytes) (s : bytes) : list bytes :=
  if existsb (fun t => has_prefix t s) acc then acc
  else filter (fun t => negb (has_prefix s t)) acc ++ [s].

Definition outer_prefixes (ss : list bytes) : list bytes := fold_left add_outer ss [].

(* raw (undecoded) borders; the code sorts the encoded keys. A skipped prefix containing the whole prefix range:
   nothing to compact; one outside the prefix range: ignored *)
Definition compact_borders (prefix : bytes) (skipped_prefixes : list bytes) : list bytes :=
  let p := with_slash prefix in
  let ss := map with_slash skipped_prefixes in
  if existsb (fun s => has_prefix s p) ss then []
  else
    let outer := outer_prefixes (filter (fun s => has_prefix p s) ss) in
    let bs := flat_map (fun q => [q; prefix_end q]) (p :: outer) in
    sort_by (fun a b => bltb (encode a 0) (encode b 0)) bs.

Fixpoint pairs {A} (l : list A) : list (A * A) :=
  match l with a :: b :: t => (a, b) :: pairs t | _ => [] end.

(* Backend.compact's loop over the border pairs *)
Definition compact_all (R tr : N) (ranges : list (bytes * bytes)) (d : dst) : dst :=
  fold_left (fun d lh => compact_range R tr (fst lh) (snd lh) d) ranges d.

(* ================================================================================================ *)
(* Part 4 — compaction marks and the timeout revision (scanner.go:147-177, scanner/compact.go)      *)
(* ================================================================================================ *)

Definition mark := (N * N)%type.      (* revision, wall time (ms) *)

(* getTimeoutRevision on an engine without TTL: pop every mark at least ttl old, return the last popped *)
Fixpoint pop_marks (ttl now : N) (q : list mark) (prev : N) : N * list mark :=
  match q with
  | [] => (prev, [])
  | (r, t) :: q' => if (now - t) <? ttl then (prev, q) else pop_marks ttl now q' r
  end.

Definition timeout_revision (support_ttl : bool) (ttl now : N) (q : list mark) : N * list mark :=
  if support_ttl then (0, q) else pop_marks ttl now q 0.

(* scanner.Compact(ctx,start,end,revision) at wall time now: push the mark, then scan *)
Definition scanner_compact (evp : bytes) (support_ttl : bool) (ttl now : N) (R : N) (lo hi : bytes)
           (q : list mark) (d : dst) : list mark * N * dst :=
  let q1 := q ++ [(R, now)] in
  let '(tr, q2) := timeout_revision support_ttl ttl now q1 in
  (q2, tr, compact_range_e evp R tr lo hi d).

(* the specification's notion of an event key: directly under <prefix>/events/ *)
Definition is_event_key (prefix k : bytes) : bool := has_prefix (prefix ++ events_sub) k.

(* getEventsPrefix (util.go) *)
Definition events_prefix (prefix : bytes) : bytes := prefix ++ events_sub.

(* Backend.create's TTL choice (txn.go:70-77): bytes.HasPrefix(key, getEventsPrefix(prefix)) *)
Definition create_ttl (events_ttl : N) (prefix k : bytes) : N :=
  if has_prefix (events_prefix prefix) k then events_ttl else 0.

(* ================================================================================================ *)
(* Part 5 — write requests on decoded records (txn.go, creator/naive.go), sequential                *)
(* ================================================================================================ *)

Inductive wres := WOk | WFalse | WErr.      (* Succeeded=true | Succeeded=false | error returned *)

Definition set_idx (V : store) (k : bytes) (n : N) (d : bool) : store := del_slot (RIdx k n d) V ++ [RIdx k n d].

(* Create (naive.go:52-88) with freshly dealt revision n *)
Definition do_create (V : store) (k v : bytes) (n : N) : store * wres :=
  match idx_of V k with
  | None => (V ++ [RIdx k n false; RVer k n v], WOk)
  | Some (r, d) =>
      if d && (r <? n) then (set_idx V k n false ++ [RVer k n v], WOk)
      else (V, WFalse)
  end.

(* Update with prevRev <> 0 (txn.go:250-267): CAS on the index only *)
Definition do_update (V : store) (k v : bytes) (prev n : N) : store * wres :=
  if prev =? 0 then do_create V k v n
  else if n <? prev then (V, WErr)
  else match idx_of V k with
       | Some (r, false) => if r =? prev then (set_idx V k n false ++ [RVer k n v], WOk) else (V, WFalse)
       | _ => (V, WFalse)
       end.

(* Delete (txn.go:145-191): read the newest version, then CAS the index *)
Definition do_delete (V : store) (k : bytes) (expected n : N) : store * wres :=
  match get_at V max_rev k with
  | None => (V, WFalse)
  | Some (modr, _) =>
      if n <? expected then (V, WErr)
      else if (0 <? expected) && negb (expected =? modr) then (V, WFalse)
      else if n <=? modr then (V, WErr)
      else match idx_of V k with
           | Some (r, false) => if r =? modr then (set_idx V k n true ++ [RVer k n tombstone], WOk) else (V, WFalse)
           | _ => (V, WFalse)
           end
  end.
