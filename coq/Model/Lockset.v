(* C19: traces of synchronisation and memory events, happens-before and data races as the Go
   memory model defines them, and the static access table with its lock-discipline check.
   Definitions only; the soundness proof is in Proofs/Lockset.v. *)
From KB Require Export Base.Bytes.
From Coq Require Export Relations.
Open Scope N_scope.

Definition str := bytes.
Definition tid := N.
Definition obj := N.                       (* identity of a heap object (struct instance) or 0 for package level *)
Definition loc : Type := obj * str.        (* a field of one object, or a package variable *)
Definition lockid : Type := obj * str.     (* a sync.Mutex / sync.RWMutex field of one object *)

Inductive mode := MR | MW.                 (* RLock / Lock (a sync.Mutex is always MW) *)

Inductive ev :=
| Acq (l : lockid) (m : mode)              (* Lock / RLock returns *)
| Rel (l : lockid) (m : mode)              (* Unlock / RUnlock is called *)
| Rd (x : loc) (site : N)
| Wr (x : loc) (site : N)
| At (x : loc) (w : bool) (site : N)       (* sync/atomic operation; w: it may store *)
| Fork (child : tid)                       (* go statement *)
| Send (c : N) (k : N)                     (* k-th send on channel c (or close, or WaitGroup.Done, ...) *)
| Recv (c : N) (k : N).                    (* the receive that observes it *)

Definition trace := list (tid * ev).

Definition mode_eqb (a b : mode) : bool := match a, b with MR, MR | MW, MW => true | _, _ => false end.
Definition excl (a b : mode) : bool := match a, b with MR, MR => false | _, _ => true end.

(* thread t holds l in mode m just before position i: an acquisition with no release since *)
Definition held_at (tr : trace) (i : nat) (t : tid) (l : lockid) (m : mode) : Prop :=
  exists a, (a < i)%nat /\ nth_error tr a = Some (t, Acq l m) /\
    forall b, (a < b < i)%nat -> nth_error tr b <> Some (t, Rel l m).

(* well-formed: mutual exclusion — no acquisition while another thread holds the lock in an
   excluding mode *)
Definition wf (tr : trace) : Prop :=
  forall k t2 l m2, nth_error tr k = Some (t2, Acq l m2) ->
    forall t1 m1, t1 <> t2 -> excl m1 m2 = true -> ~ held_at tr k t1 l m1.

(* happens-before: program order, unlock -> later lock of the same mutex (an RUnlock only orders a
   later Lock), go statement -> the new goroutine, send -> the matching receive; transitive closure *)
Inductive hb1 (tr : trace) : nat -> nat -> Prop :=
| hb_po i j t e1 e2 : (i < j)%nat -> nth_error tr i = Some (t, e1) -> nth_error tr j = Some (t, e2) -> hb1 tr i j
| hb_sync i j t1 t2 l m1 m2 : (i < j)%nat -> excl m1 m2 = true ->
    nth_error tr i = Some (t1, Rel l m1) -> nth_error tr j = Some (t2, Acq l m2) -> hb1 tr i j
| hb_fork i j t c e : (i < j)%nat -> nth_error tr i = Some (t, Fork c) -> nth_error tr j = Some (c, e) -> hb1 tr i j
| hb_chan i j t1 t2 c k : (i < j)%nat -> nth_error tr i = Some (t1, Send c k) -> nth_error tr j = Some (t2, Recv c k) -> hb1 tr i j.

Definition hb (tr : trace) : nat -> nat -> Prop := clos_trans nat (hb1 tr).

(* memory accesses *)
Record access := { a_loc : loc; a_write : bool; a_atomic : bool; a_site : N }.
Definition access_of (e : ev) : option access :=
  match e with
  | Rd x s => Some {| a_loc := x; a_write := false; a_atomic := false; a_site := s |}
  | Wr x s => Some {| a_loc := x; a_write := true; a_atomic := false; a_site := s |}
  | At x w s => Some {| a_loc := x; a_write := w; a_atomic := true; a_site := s |}
  | _ => None
  end.

(* Go memory model: a write concurrent with another access of the same location, unless all
   accesses involved are atomic *)
Definition conflicting (a b : access) : Prop :=
  a_loc a = a_loc b /\ (a_write a = true \/ a_write b = true) /\ ~ (a_atomic a = true /\ a_atomic b = true).

Definition race_at (tr : trace) (x : loc) : Prop :=
  exists i j t1 t2 e1 e2 a1 a2, (i < j)%nat /\
    nth_error tr i = Some (t1, e1) /\ nth_error tr j = Some (t2, e2) /\ t1 <> t2 /\
    access_of e1 = Some a1 /\ access_of e2 = Some a2 /\ a_loc a1 = x /\ conflicting a1 a2 /\ ~ hb tr i j.

Definition race (tr : trace) : Prop := exists x, race_at tr x.

(* ---------- the static table ---------- *)

Inductive akind := KRd | KWr | KAtR | KAtW.
Inductive phase :=
| PInit      (* constructor, before the object is published to another goroutine *)
| PRun.

Record site := {
  s_id : N;                          (* index into the translator's site list *)
  s_kind : akind;
  s_locks : list (str * mode);       (* locks of the same object held at the access, with the mode held *)
  s_phase : phase
}.

Inductive lclass :=
| CShared        (* reachable from several goroutines: the lock discipline is checked *)
| CConfined.     (* the owning object never leaves its creating goroutine (translator's escape check),
                    or is handed over through a synchronising operation and not touched afterwards *)

Record location := { l_name : str; l_class : lclass; l_sites : list site }.
Definition table := list location.

Definition seqb (a b : str) : bool := beqb a b.

Definition k_write (k : akind) : bool := match k with KWr | KAtW => true | _ => false end.
Definition k_atomic (k : akind) : bool := match k with KAtR | KAtW => true | _ => false end.
Definition kinds_conflict (a b : akind) : bool :=
  (k_write a || k_write b) && negb (k_atomic a && k_atomic b).

Definition is_run (s : site) : bool := match s_phase s with PRun => true | PInit => false end.

(* a lock both sites hold, at least one of them exclusively *)
Definition common_lock (s1 s2 : site) : bool :=
  existsb (fun l1 => existsb (fun l2 => seqb (fst l1) (fst l2) && excl (snd l1) (snd l2)) (s_locks s2)) (s_locks s1).

Definition pair_ok (s1 s2 : site) : bool :=
  negb (is_run s1 && is_run s2 && kinds_conflict (s_kind s1) (s_kind s2)) || common_lock s1 s2.

Definition check_location (l : location) : bool :=
  match l_class l with
  | CConfined => true
  | CShared => forallb (fun s1 => forallb (pair_ok s1) (l_sites l)) (l_sites l)
  end.

Definition flagged (t : table) : list str := map l_name (filter (fun l => negb (check_location l)) t).

Fixpoint smem (x : str) (l : list str) : bool :=
  match l with [] => false | y :: l' => seqb x y || smem x l' end.

(* locations flagged by the check that are not in the list of confirmed, recorded findings *)
Definition unlisted (known : list str) (t : table) : list str :=
  filter (fun n => negb (smem n known)) (flagged t).

Definition check_table (t : table) : bool := forallb check_location t.

Fixpoint find_loc (n : str) (t : table) : option location :=
  match t with
  | [] => None
  | l :: t' => if seqb n (l_name l) then Some l else find_loc n t'
  end.

Fixpoint find_site (id : N) (ss : list site) : option site :=
  match ss with
  | [] => None
  | s :: ss' => if s_id s =? id then Some s else find_site id ss'
  end.

(* ---------- a trace conforms to a table ---------- *)

Definition kind_matches (k : akind) (a : access) : Prop :=
  match k with
  | KRd => a_write a = false /\ a_atomic a = false
  | KWr => a_atomic a = false
  | KAtR => a_write a = false /\ a_atomic a = true
  | KAtW => a_atomic a = true
  end.

Definition sat (held req : mode) : bool := match held, req with MW, _ => true | MR, MR => true | MR, MW => false end.

(* every access is an instance of a site of its location's row and holds that site's locks (of the
   same object, at least in the listed mode); constructor-phase accesses are published before any
   other goroutine touches the location; confined locations are touched by one goroutine at a time *)
Definition conforms (t : table) (tr : trace) : Prop :=
  forall i th e a, nth_error tr i = Some (th, e) -> access_of e = Some a ->
    exists l s, find_loc (snd (a_loc a)) t = Some l /\ find_site (a_site a) (l_sites l) = Some s /\
      kind_matches (s_kind s) a /\
      (forall lk m, In (lk, m) (s_locks s) ->
         exists m', sat m' m = true /\ held_at tr i th (fst (a_loc a), lk) m') /\
      (s_phase s = PInit \/ l_class l = CConfined ->
         forall j th' e' a', nth_error tr j = Some (th', e') -> access_of e' = Some a' ->
           a_loc a' = a_loc a -> th' <> th ->
           ((i < j)%nat /\ hb tr i j) \/ (s_phase s <> PInit /\ (j < i)%nat /\ hb tr j i)).
