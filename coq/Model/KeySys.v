(* KeySys — client threads running the request programs of Create / Update / Delete against a
   per-key store, on top of RevSys.

   Transcribed branch by branch from
     pkg/backend/txn.go            Create :33-76, Delete :79-191, Update :194-267, notify :269-295
     pkg/backend/creator/naive.go  CreateWithTTL :53-91, create :93-98, update :100-105
     pkg/backend/range.go          get / getInternalVal :83-121 (latest version of one key)
     pkg/backend/backend.go        deal :190-206 (drift check)
   One label per atomic action. An engine call (Iter+Next of a point read, Get of the index record,
   Commit of a prepared batch) is one atomic step against the per-key store, with an environment
   choice. Unknown-outcome commits belong to C09 and are not modelled here.
   Definitions only; proofs are in Proofs/KeySys*.v. *)
From KB Require Export Model.RevSys.
Local Open Scope N_scope.

Definition key := N.

(* tombStoneBytes = []byte("tombstone")  (util.go:28) *)
Definition tombstone : bytes := [116; 111; 109; 98; 115; 116; 111; 110; 101].

(* one raw key's records: the index record Encode(k,0) -> revision (8 bytes) or revision+flag (9 bytes),
   and the version records Encode(k,rev) -> value *)
Record kstate := { k_idx : option (N * bool); k_vers : list (N * bytes) }.
Definition k_empty : kstate := {| k_idx := None; k_vers := [] |}.

Fixpoint newest (l : list (N * bytes)) : option (N * bytes) :=
  match l with
  | [] => None
  | (r, v) :: l' =>
      match newest l' with
      | Some (r', v') => if r <? r' then Some (r', v') else Some (r, v)
      | None => Some (r, v)
      end
  end.

Definition ver_put (r : N) (v : bytes) (l : list (N * bytes)) : list (N * bytes) :=
  (r, v) :: filter (fun p => negb (fst p =? r)) l.

Fixpoint ver_get (r : N) (l : list (N * bytes)) : option bytes :=
  match l with
  | [] => None
  | (r', v) :: l' => if r' =? r then Some v else ver_get r l'
  end.

Definition idx_eqb (a b : N * bool) : bool := (fst a =? fst b) && Bool.eqb (snd a) (snd b).

Inductive env := EnvOk | EnvError | EnvConflictAbort.

Inductive req :=
| RqCreate (k : key) (v : bytes)
| RqUpdate (k : key) (v : bytes) (prev : N)
| RqDelete (k : key) (exp : N)
| RqRewrite (k : key) (prev : N).
    (* one iteration of the asynchronous repair (retry/retry.go:169-263) for a queued write of
       revision prev on key k; invoked by the environment (the retry goroutine) *)

Definition req_key (q : req) : key :=
  match q with RqCreate k _ => k | RqUpdate k _ _ => k | RqDelete k _ => k | RqRewrite k _ => k end.

(* which public entry point is running, as far as notify's caller and the response builder care *)
Inductive wkind := WCreate | WUpdate0 | WUpdate | WDelete | WRewrite.

(* error classes of the internal helpers *)
Inductive res := ROk | RCas | RNotFound | ROther.

Inductive resp :=
| RespCreate (hdr : N) (succ : bool)
| RespUpdate (hdr : N) (succ : bool) (kv : option (bytes * N))
| RespDelete (hdr : N) (succ : bool) (kv : option (bytes * N))
| RespRewrite (rev : N)      (* revision the repair wrote the key at; 0 = nothing written *)
| RespError.

(* program counters: each constructor names the atomic action the thread performs next *)
Inductive pc :=
| PIdle
| PCreateDeal (w : wkind) (k : key) (v : bytes)                       (* txn.go:65 deal(0) *)
| PCreatePut (w : wkind) (k : key) (v : bytes) (rev : N) (second : bool)
                                                                       (* naive.go:93-98 commit{PutIfNotExist idx; Put ver};
                                                                          second: the re-create of naive.go:71 *)
| PCreateGet (w : wkind) (k : key) (v : bytes) (rev : N)              (* naive.go:65 store.Get(index) *)
| PCreateCas (w : wkind) (k : key) (v : bytes) (rev : N) (old : N)    (* naive.go:100-105 commit{CAS idx; Put ver} *)
| PUpdateDeal (k : key) (v : bytes) (prev : N)                         (* txn.go:252 *)
| PUpdateCommit (k : key) (v : bytes) (prev : N) (rev : N)             (* txn.go:263-266 *)
| PDeleteGet (k : key) (exp : N)                                       (* txn.go:149 *)
| PDeleteMustDeal (k : key) (exp : N) (e : res)                        (* txn.go:151 *)
| PDeleteDeal (k : key) (exp : N) (oval : bytes) (orev : N)            (* txn.go:155 *)
| PDeleteCommit (k : key) (exp : N) (rev : N) (oval : bytes) (orev : N)(* txn.go:184-187 *)
| PRwGet (k : key) (prev : N)                                          (* retry.go:216 getter *)
| PRwDeal (k : key) (prev : N) (v : bytes)                             (* retry.go:233 tso.Deal *)
| PRwCommit (k : key) (prev : N) (v : bytes) (rev : N)                 (* retry.go:239-258 *)
| PNotify (w : wkind) (k : key) (rev : N) (r : res) (old : bytes * N)  (* notify(…) *)
| PFailGet (w : wkind) (k : key) (rev : N) (old : bytes * N)           (* txn.go:109 / :228 *)
| PReturn (r : resp).

Inductive akind := ACreate | AUpdate | ADelete | ARewrite.

Inductive entry :=
| EInvoke (t : tid) (q : req)
| EDealt (t : tid) (rev : N)
| EApplied (t : tid) (q : option req) (k : key) (a : akind) (rev : N) (flag : bool) (v : bytes)
           (pred : option (N * bool))
      (* a commit of thread t (serving request q) took effect on key k: the index record became
         (rev, flag), version rev got value v; pred is the index record it replaced *)
| ENotified (t : tid) (rev : N) (valid : bool)
| EReturn (t : tid) (r : resp).

Record state := {
  rs : rstate;
  kv : key -> kstate;
  thr : tid -> pc;
  cur : tid -> option req;       (* ghost: the request thread t is serving *)
  seen : tid -> bool;            (* ghost: since its LInvoke, t's key differed from t's expectation in some state *)
  log : list entry               (* ghost, newest first *)
}.

Inductive label :=
| LInvoke (t : tid) (q : req)
| LDeal (t : tid)
| LEngine (t : tid) (e : env)
| LNotify (t : tid)
| LReturn (t : tid)
| LSeqTake.

(* ---------- engine calls on one key ---------- *)

Inductive gres := GOk (val : bytes) (rev : N) | GNotFound | GErr.

(* backend.get(key, 0): newest version record; a tombstone value reads as "not found" *)
Definition get_latest (ks : kstate) (e : env) : gres :=
  match e with
  | EnvOk =>
      match newest (k_vers ks) with
      | None => GNotFound
      | Some (r, v) => if beqb v tombstone then GNotFound else GOk v r
      end
  | _ => GErr
  end.

Definition idx_live (ks : kstate) : bool :=
  match k_idx ks with Some (_, false) => true | _ => false end.

Definition idx_is (ks : kstate) (x : N * bool) : bool :=
  match k_idx ks with Some y => idx_eqb y x | None => false end.

Definition k_write (ks : kstate) (i : N * bool) (r : N) (v : bytes) : kstate :=
  {| k_idx := Some i; k_vers := ver_put r v (k_vers ks) |}.

(* when does the key differ from what the request expects *)
Definition differs (ks : kstate) (q : req) : bool :=
  match q with
  | RqCreate _ _ => idx_live ks
  | RqUpdate _ _ prev => if prev =? 0 then idx_live ks else negb (idx_is ks (prev, false))
  | RqDelete _ exp => if exp =? 0 then negb (idx_live ks) else negb (idx_is ks (exp, false))
  | RqRewrite _ _ => false
  end.

(* ---------- state updates ---------- *)

Definition set_thr (s : state) (t : tid) (p : pc) : state :=
  {| rs := rs s; kv := kv s; thr := upd (thr s) t p; cur := cur s; seen := seen s; log := log s |}.

Definition set_rs (s : state) (r : rstate) : state :=
  {| rs := r; kv := kv s; thr := thr s; cur := cur s; seen := seen s; log := log s |}.

Definition add_log (s : state) (e : entry) : state :=
  {| rs := rs s; kv := kv s; thr := thr s; cur := cur s; seen := seen s; log := e :: log s |}.

Definition set_key (s : state) (k : key) (ks : kstate) : state :=
  {| rs := rs s; kv := upd (kv s) k ks; thr := thr s; cur := cur s; seen := seen s; log := log s |}.

(* a batch that took effect *)
Definition apply_write (s : state) (t : tid) (k : key) (a : akind) (rev : N) (i : N * bool) (v : bytes) : state :=
  add_log (set_key s k (k_write (kv s k) (rev, snd i) rev v))
          (EApplied t (cur s t) k a rev (snd i) v (k_idx (kv s k))).

(* naive.go:78-86 *)
Definition create_decide (w : wkind) (k : key) (v : bytes) (rev : N) (old : N * bool) : pc :=
  if snd old && (fst old <? rev) then PCreateCas w k v rev (fst old)
  else PNotify w k rev RCas ([], 0).

(* what follows the notify call in Create / Update / Delete *)
Definition after_notify (w : wkind) (k : key) (rev : N) (r : res) (old : bytes * N) : pc :=
  match w with
  | WCreate =>
      match r with
      | ROk => PReturn (RespCreate rev true)
      | RCas => PReturn (RespCreate rev false)
      | _ => PReturn RespError
      end
  | WUpdate0 | WUpdate =>
      match r with
      | ROk => PReturn (RespUpdate rev true None)
      | RCas => PFailGet w k rev old
      | _ => PReturn RespError
      end
  | WDelete =>
      match r with
      | ROk => PReturn (RespDelete rev true (Some old))
      | RNotFound => PReturn (RespDelete rev false None)
      | RCas => PFailGet w k rev old
      | ROther => PReturn RespError
      end
  | WRewrite =>
      match r with
      | ROk => PReturn (RespRewrite rev)
      | _ => PReturn (RespRewrite 0)
      end
  end.

(* backend.deal's drift test (backend.go:195) *)
Definition drift (prev rev : N) : bool := (0 <? prev) && (rev <? prev).

Definition step_invoke (s : state) (t : tid) (q : req) : state :=
  match thr s t with
  | PIdle =>
      let p := match q with
               | RqCreate k v => PCreateDeal WCreate k v
               | RqUpdate k v prev => if prev =? 0 then PCreateDeal WUpdate0 k v else PUpdateDeal k v prev
               | RqDelete k exp => PDeleteGet k exp
               | RqRewrite k prev => PRwGet k prev
               end in
      let s1 := set_thr s t p in
      {| rs := rs s1; kv := kv s1; thr := thr s1; cur := upd (cur s1) t (Some q); seen := upd (seen s1) t false;
         log := EInvoke t q :: log s1 |}
  | _ => s
  end.

Definition do_deal (s : state) (t : tid) : state * N :=
  let r := rstep (rs s) (RDeal t) in
  (add_log (set_rs s r) (EDealt t (dealt r)), dealt r).

Definition step_deal (s : state) (t : tid) : state :=
  match thr s t with
  | PCreateDeal w k v =>
      let (s1, rev) := do_deal s t in set_thr s1 t (PCreatePut w k v rev false)
  | PUpdateDeal k v prev =>
      let (s1, rev) := do_deal s t in
      if drift prev rev then set_thr s1 t (PNotify WUpdate k rev ROther ([], 0))
      else set_thr s1 t (PUpdateCommit k v prev rev)
  | PDeleteMustDeal k exp e =>
      let (s1, rev) := do_deal s t in set_thr s1 t (PNotify WDelete k rev e ([], 0))
  | PDeleteDeal k exp oval orev =>
      let (s1, rev) := do_deal s t in
      if drift exp rev then set_thr s1 t (PNotify WDelete k rev ROther ([], 0))
      else if (0 <? exp) && negb (exp =? orev) then set_thr s1 t (PNotify WDelete k rev RCas (oval, orev))
      else if rev <=? orev then set_thr s1 t (PNotify WDelete k rev ROther (oval, orev))
      else set_thr s1 t (PDeleteCommit k orev rev oval orev)
  | PRwDeal k prev v =>
      let (s1, rev) := do_deal s t in set_thr s1 t (PRwCommit k prev v rev)   (* tso.Deal directly: no drift test *)
  | _ => s
  end.

Definition step_engine (cidx0 : bool) (s : state) (t : tid) (e : env) : state :=
  match thr s t with
  | PCreatePut w k v rev second =>
      match e with
      | EnvError => set_thr s t (PNotify w k rev ROther ([], 0))
      | EnvConflictAbort =>
          if second then set_thr s t (PNotify w k rev RCas ([], 0)) else set_thr s t (PCreateGet w k v rev)
      | EnvOk =>
          match k_idx (kv s k) with
          | None => set_thr (apply_write s t k ACreate rev (rev, false) v) t (PNotify w k rev ROk ([], 0))
          | Some old =>
              if second then set_thr s t (PNotify w k rev RCas ([], 0))
              else if cidx0 then set_thr s t (create_decide w k v rev old)
              else set_thr s t (PCreateGet w k v rev)
          end
      end
  | PCreateGet w k v rev =>
      match e with
      | EnvOk =>
          match k_idx (kv s k) with
          | Some old => set_thr s t (create_decide w k v rev old)
          | None => set_thr s t (PCreatePut w k v rev true)
          end
      | EnvError => set_thr s t (PNotify w k rev ROther ([], 0))
      | EnvConflictAbort => s
      end
  | PCreateCas w k v rev old =>
      match e with
      | EnvOk =>
          if idx_is (kv s k) (old, true)
          then set_thr (apply_write s t k ACreate rev (rev, false) v) t (PNotify w k rev ROk ([], 0))
          else set_thr s t (PNotify w k rev RCas ([], 0))
      | EnvError => set_thr s t (PNotify w k rev ROther ([], 0))
      | EnvConflictAbort => set_thr s t (PNotify w k rev RCas ([], 0))
      end
  | PUpdateCommit k v prev rev =>
      match e with
      | EnvOk =>
          if idx_is (kv s k) (prev, false)
          then set_thr (apply_write s t k AUpdate rev (rev, false) v) t (PNotify WUpdate k rev ROk ([], 0))
          else set_thr s t (PNotify WUpdate k rev RCas ([], 0))
      | EnvError => set_thr s t (PNotify WUpdate k rev ROther ([], 0))
      | EnvConflictAbort => set_thr s t (PNotify WUpdate k rev RCas ([], 0))
      end
  | PDeleteGet k exp =>
      match e with
      | EnvConflictAbort => s
      | _ =>
          match get_latest (kv s k) e with
          | GOk val mr => set_thr s t (PDeleteDeal k exp val mr)
          | GNotFound => set_thr s t (PDeleteMustDeal k exp RNotFound)
          | GErr => set_thr s t (PDeleteMustDeal k exp ROther)
          end
      end
  | PDeleteCommit k exp rev oval orev =>
      match e with
      | EnvOk =>
          if idx_is (kv s k) (exp, false)
          then set_thr (apply_write s t k ADelete rev (rev, true) tombstone) t (PNotify WDelete k rev ROk (oval, orev))
          else set_thr s t (PNotify WDelete k rev RCas (oval, orev))
      | EnvError => set_thr s t (PNotify WDelete k rev ROther (oval, orev))
      | EnvConflictAbort => set_thr s t (PNotify WDelete k rev RCas (oval, orev))
      end
  | PRwGet k prev =>
      match e with
      | EnvOk =>
          match newest (k_vers (kv s k)) with     (* getLatestInternalVal: tombstones are visible *)
          | None => set_thr s t (PReturn (RespRewrite 0))
          | Some (r, v) =>
              if negb (r =? prev)                  (* retry.go: revisions only; an empty value is a value *)
              then set_thr s t (PReturn (RespRewrite 0))
              else set_thr s t (PRwDeal k prev v)
          end
      | EnvError => set_thr s t (PReturn (RespRewrite 0))
      | EnvConflictAbort => s
      end
  | PRwCommit k prev v rev =>
      match e with
      | EnvOk =>
          let flag := beqb v tombstone in
          if idx_is (kv s k) (prev, flag)
          then set_thr (apply_write s t k ARewrite rev (rev, flag) v) t (PNotify WRewrite k rev ROk ([], 0))
          else set_thr s t (PNotify WRewrite k rev RCas ([], 0))
      | EnvError => set_thr s t (PNotify WRewrite k rev ROther ([], 0))
      | EnvConflictAbort => set_thr s t (PNotify WRewrite k rev RCas ([], 0))
      end
  | PFailGet w k rev old =>
      match e with
      | EnvConflictAbort => s
      | _ =>
          match w with
          | WDelete =>
              match get_latest (kv s k) e with
              | GOk val mr => set_thr s t (PReturn (RespDelete (N.max rev mr) false (Some (val, mr))))
              | _ => set_thr s t (PReturn (RespDelete rev false (Some old)))
              end
          | _ =>
              match get_latest (kv s k) e with
              | GOk val mr => set_thr s t (PReturn (RespUpdate (N.max rev mr) false (Some (val, mr))))
              | GNotFound => set_thr s t (PReturn (RespUpdate rev false None))
              | GErr => set_thr s t (PReturn RespError)
              end
          end
      end
  | _ => s
  end.

Definition res_ok (r : res) : bool := match r with ROk => true | _ => false end.

Definition step_notify (s : state) (t : tid) : state :=
  match thr s t with
  | PNotify w k rev r old =>
      let r' := rstep (rs s) (RNotify t rev (res_ok r)) in
      if rpanic r' then set_rs s r'
      else set_thr (add_log (set_rs s r') (ENotified t rev (res_ok r))) t (after_notify w k rev r old)
  | _ => s
  end.

Definition step_return (s : state) (t : tid) : state :=
  match thr s t with
  | PReturn r =>
      let s1 := set_thr s t PIdle in
      {| rs := rs s1; kv := kv s1; thr := thr s1; cur := upd (cur s1) t None; seen := upd (seen s1) t false;
         log := EReturn t r :: log s1 |}
  | _ => s
  end.

(* the sequencer's whole iteration, when its slot is filled *)
Definition step_seq (s : state) : state :=
  if seq_ready (rs s) then set_rs s (rrun seq_take_labels (rs s)) else s.

(* ghost bookkeeping after every step: every thread in flight looks at its key *)
Definition observe (s : state) : state :=
  {| rs := rs s; kv := kv s; thr := thr s; cur := cur s;
     seen := fun t => seen s t || match cur s t with Some q => differs (kv s (req_key q)) q | None => false end;
     log := log s |}.

Definition kstep (cidx0 : bool) (s : state) (l : label) : state :=
  if rpanic (rs s) then s
  else observe
    match l with
    | LInvoke t q => step_invoke s t q
    | LDeal t => step_deal s t
    | LEngine t e => step_engine cidx0 s t e
    | LNotify t => step_notify s t
    | LReturn t => step_return s t
    | LSeqTake => step_seq s
    end.

Definition krun (cidx0 : bool) (ls : list label) (s : state) : state := fold_left (kstep cidx0) ls s.

Definition kinit (d0 : N) (store : key -> kstate) : state :=
  {| rs := rinit d0; kv := store; thr := fun _ => PIdle; cur := fun _ => None; seen := fun _ => false; log := [] |}.

(* ---------- enabledness ---------- *)

Definition is_commit_pc (p : pc) : bool :=
  match p with
  | PCreatePut _ _ _ _ _ | PCreateCas _ _ _ _ _ | PUpdateCommit _ _ _ _ | PDeleteCommit _ _ _ _ _
  | PRwCommit _ _ _ _ => true
  | _ => false
  end.

Definition is_read_pc (p : pc) : bool :=
  match p with PCreateGet _ _ _ _ | PDeleteGet _ _ | PFailGet _ _ _ _ | PRwGet _ _ => true | _ => false end.

Definition is_engine_pc (p : pc) : bool := is_commit_pc p || is_read_pc p.

Definition is_deal_pc (p : pc) : bool :=
  match p with
  | PCreateDeal _ _ _ | PUpdateDeal _ _ _ | PDeleteMustDeal _ _ _ | PDeleteDeal _ _ _ _ | PRwDeal _ _ _ => true
  | _ => false
  end.

Definition enabled (s : state) (l : label) : bool :=
  negb (rpanic (rs s)) &&
  match l with
  | LInvoke t _ => match thr s t with PIdle => true | _ => false end
  | LDeal t => is_deal_pc (thr s t)
  | LEngine t e =>
      match e with
      | EnvConflictAbort => is_commit_pc (thr s t)
      | _ => is_engine_pc (thr s t)
      end
  | LNotify t => match thr s t with PNotify _ _ _ _ _ => true | _ => false end
  | LReturn t => match thr s t with PReturn _ => true | _ => false end
  | LSeqTake => seq_ready (rs s)
  end.

(* the revision a thread holds between its deal and its notify *)
Definition pc_rev (p : pc) : option N :=
  match p with
  | PCreatePut _ _ _ r _ | PCreateGet _ _ _ r | PCreateCas _ _ _ r _ | PUpdateCommit _ _ _ r
  | PDeleteCommit _ _ r _ _ | PRwCommit _ _ _ r | PNotify _ _ r _ _ => Some r
  | _ => None
  end.

(* the well-formed initial key states: never existed / live / deleted / deleted-and-compacted
   (index gone, tombstone or nothing left) — all with revisions at most d0 *)
Definition newest_rev (ks : kstate) : N := match newest (k_vers ks) with Some (r, _) => r | None => 0 end.

Definition wf_kstateb (d0 : N) (ks : kstate) : bool :=
  forallb (fun p => (0 <? fst p) && (fst p <=? d0)) (k_vers ks) &&
  match k_idx ks with
  | Some (r, flag) =>
      match newest (k_vers ks) with
      | Some (r', v) => (r' =? r) && (if flag then beqb v tombstone else true)
      | None => false
      end
  | None =>
      match newest (k_vers ks) with
      | Some (_, v) => beqb v tombstone
      | None => true
      end
  end.

(* ---------- "resume thread t until its next engine call" (what one scheduler step of the harness is) ---------- *)

Record rstate_obs := { ro_state : state; ro_queue : list req; ro_resps : list resp }.

(* run t's local actions until it stands before an engine call or has nothing left to do *)
Fixpoint run_local (cidx0 : bool) (fuel : nat) (s : state) (t : tid) (queue : list req) (acc : list resp)
  : state * list req * list resp * list label :=
  match fuel with
  | O => (s, queue, acc, [])
  | S fuel' =>
      let p := thr s t in
      if rpanic (rs s) then (s, queue, acc, [])
      else if is_engine_pc p then (s, queue, acc, [])
      else
        match p with
        | PIdle =>
            match queue with
            | [] => (s, queue, acc, [])
            | q :: queue' =>
                let '(s', qu, ac, ls) := run_local cidx0 fuel' (kstep cidx0 s (LInvoke t q)) t queue' acc in
                (s', qu, ac, LInvoke t q :: ls)
            end
        | PReturn r =>
            let '(s', qu, ac, ls) := run_local cidx0 fuel' (kstep cidx0 s (LReturn t)) t queue (acc ++ [r]) in
            (s', qu, ac, LReturn t :: ls)
        | PNotify _ _ _ _ _ =>
            let '(s', qu, ac, ls) := run_local cidx0 fuel' (kstep cidx0 s (LNotify t)) t queue acc in
            (s', qu, ac, LNotify t :: ls)
        | _ =>
            let '(s', qu, ac, ls) := run_local cidx0 fuel' (kstep cidx0 s (LDeal t)) t queue acc in
            (s', qu, ac, LDeal t :: ls)
        end
  end.

Definition resume_fuel : nat := 40.

(* one scheduler step: perform the pending engine call (if any) with the given environment, then run on *)
Definition resume (cidx0 : bool) (s : state) (t : tid) (e : env) (queue : list req)
  : state * list req * list resp * list label :=
  if is_engine_pc (thr s t) then
    let '(s', qu, ac, ls) := run_local cidx0 resume_fuel (kstep cidx0 s (LEngine t e)) t queue [] in
    (s', qu, ac, LEngine t e :: ls)
  else run_local cidx0 resume_fuel s t queue [].

(* all sequencer iterations that are enabled (the sequencer runs freely in the harness) *)
Fixpoint seq_all (cidx0 : bool) (fuel : nat) (s : state) : state :=
  match fuel with
  | O => s
  | S f => if enabled s LSeqTake then seq_all cidx0 f (kstep cidx0 s LSeqTake) else s
  end.

(* ---------- point and range reads (range.go:34-74, :124-174; scanner.go:416-507 on the records of
   the keys of a case): only what the header/revision relation of C02 needs ---------- *)

Definition vers_upto (r : N) (l : list (N * bytes)) : list (N * bytes) := filter (fun p => fst p <=? r) l.

(* backend.get(key, revision): newest version not above revision (0 = latest) *)
Definition get_at (ks : kstate) (rev : N) : gres :=
  match newest (if rev =? 0 then k_vers ks else vers_upto rev (k_vers ks)) with
  | None => GNotFound
  | Some (r, v) => if beqb v tombstone then GNotFound else GOk v r
  end.

Inductive rdreq := RdGet (k : key) (rev : N) | RdList (rev : N).
Inductive rdresp := RdErr | RdOk (hdr : N) (kvs : list (key * bytes * N)).

(* Backend.Get *)
Definition read_get (s : state) (k : key) (rev : N) : rdresp :=
  let cur_ := committed (rs s) in
  match get_at (kv s k) rev with
  | GOk v mr => RdOk (N.max cur_ mr) [(k, v, mr)]
  | _ => RdOk cur_ []
  end.

(* Backend.List over the keys of the case (given in key order), no limit *)
Definition read_list (s : state) (keys : list key) (rev : N) : rdresp :=
  let cur_ := committed (rs s) in
  let req := if rev =? 0 then cur_ else rev in
  RdOk cur_
    (flat_map (fun k => match newest (vers_upto req (k_vers (kv s k))) with
                        | Some (r, v) => if beqb v tombstone then [] else [(k, v, r)]
                        | None => []
                        end) keys).
