(* Model of a leader hand-over (C15): engine timestamp oracles, the old leader's sequential write
   history (one revision per write ATTEMPT), the new leader's start
     tryAcquireOrRenew (Get, then Create or Update of the lock record; Model/Election.v)
     -> Describe() -> parse -> Backend.SetCurrentRevision(tso)      leader.go:93-108,146-158
   and the sequential request programs of pkg/backend/txn.go + creator/naive.go + range.go on the
   decoded MVCC records (index record per key, one object record per version).
   Definitions only; proofs in Proofs/Handover.v. *)
From KB Require Export Base.Cases Model.Election.
Local Open Scope N_scope.

(* ---------- the data records, decoded ---------- *)

Definition obj := (N * option bytes)%type.            (* (revision, Some value | None = tombstone) *)

Record krec := mkK {
  k_idx  : option (N * bool);                         (* index record: (revision, deletion flag) *)
  k_objs : list obj                                   (* object records, ascending revision *)
}.
Definition kempty : krec := mkK None [].
Definition dstore := list (bytes * krec).             (* ascending user key *)

Fixpoint dget (d : dstore) (k : bytes) : krec :=
  match d with
  | [] => kempty
  | (k', r) :: tl => if beqb k k' then r else dget tl k
  end.

Fixpoint dset (d : dstore) (k : bytes) (r : krec) : dstore :=
  match d with
  | [] => [(k, r)]
  | (k', r') :: tl =>
      match bcmp k k' with
      | Lt => (k, r) :: d
      | Eq => (k, r) :: tl
      | Gt => (k', r') :: dset tl k r
      end
  end.

(* batch.Put(objectKey(k, rev), v): inserts, or overwrites the record of the same revision *)
Fixpoint oins (l : list obj) (r : N) (v : option bytes) : list obj :=
  match l with
  | [] => [(r, v)]
  | (r', v') :: tl =>
      if r <? r' then (r, v) :: l
      else if r =? r' then (r, v) :: tl
      else (r', v') :: oins tl r v
  end.

(* the record with the largest revision: what getInternalVal(key, 0) finds (range.go:88-118) *)
Fixpoint olatest (l : list obj) : option obj :=
  match l with
  | [] => None
  | x :: tl =>
      match olatest tl with
      | None => Some x
      | Some y => if fst y <=? fst x then Some x else Some y
      end
  end.

(* largest revision found anywhere in the store (index or object records) *)
Definition kmax (r : krec) : N :=
  fold_right N.max (match k_idx r with Some (n, _) => n | None => 0 end) (map fst (k_objs r)).
Definition dmax (d : dstore) : N := fold_right N.max 0 (map (fun x => kmax (snd x)) d).

(* ---------- requests (sequential: the sequencer has caught up before the next request) ---------- *)

Inductive hop :=
| HCreate (k v : bytes)
| HUpdate (k v : bytes) (prev : N)
| HDelete (k : bytes) (prev : N).

Inductive hclass :=
| HOk                 (* Succeeded = true *)
| HCond               (* Succeeded = false, no error: condition failed *)
| HNotFound           (* Delete of an absent / deleted key: Succeeded = false *)
| HErr.               (* an error is returned ("revision drift back", "cas failed, new revision is ...") *)

Definition hclass_is_ok (c : hclass) : bool := match c with HOk => true | _ => false end.

Record hres := mkRes { h_class : hclass; h_rev : N (* response header revision; 0 with HErr *) }.

(* revision allocator, tso.go: (dealRevision, committedRevision) *)
Record leader := mkL { deal : N; committed : N }.
(* tso.Commit(v) = Backend.SetCurrentRevision(v): both counters only move forward — the committed
   revision is raised to v by a compare-and-swap loop, the dealt counter is raised to v if it is lower.
   (Before the repair of finding C15-F2 the committed revision was a plain store.) *)
Definition set_current (l : leader) (v : N) : leader :=
  mkL (if deal l <? v then v else deal l) (if committed l <? v then v else committed l).

Record opout15 := mkO15 { d_store : dstore; d_res : hres; d_commit : bool (* an engine batch was committed *) }.

(* b.get(key, 0): latest object record; tombstone or none = not found (modRevision still reported) *)
Definition get_latest (kr : krec) : option (bytes * N) :=
  match olatest (k_objs kr) with
  | Some (r, Some v) => Some (v, r)
  | _ => None
  end.

(* header of a Succeeded=false Update/Delete response: max(allocated, latest modRevision) if the key is readable *)
Definition cond_header (kr : krec) (rev : N) : N :=
  match get_latest kr with Some (_, m) => N.max rev m | None => rev end.

(* creator/naive.go CreateWithTTL on the decoded records; rev already allocated *)
Definition create_at (d : dstore) (k v : bytes) (rev : N) : dstore * bool :=
  let kr := dget d k in
  match k_idx kr with
  | None => (dset d k (mkK (Some (rev, false)) (oins (k_objs kr) rev (Some v))), true)
  | Some (r0, del) =>
      if del && (r0 <? rev)
      then (dset d k (mkK (Some (rev, false)) (oins (k_objs kr) rev (Some v))), true)
      else (d, false)
  end.

Definition do_op (d : dstore) (n : N) (o : hop) : opout15 :=
  let rev := n + 1 in                                               (* tso.Deal: one per attempt *)
  match o with
  | HCreate k v =>
      let '(d', ok) := create_at d k v rev in
      mkO15 d' (mkRes (if ok then HOk else HCond) rev) ok
  | HUpdate k v 0 =>                                                (* txn.go:214-216: create path *)
      let '(d', ok) := create_at d k v rev in
      mkO15 d' (if ok then mkRes HOk rev else mkRes HCond (cond_header (dget d k) rev)) ok
  | HUpdate k v prev =>
      if rev <? prev then mkO15 d (mkRes HErr 0) false              (* backend.deal: revision drift back *)
      else
        let kr := dget d k in
        match k_idx kr with
        | Some (r0, false) =>
            if r0 =? prev
            then mkO15 (dset d k (mkK (Some (rev, false)) (oins (k_objs kr) rev (Some v)))) (mkRes HOk rev) true
            else mkO15 d (mkRes HCond (cond_header kr rev)) false
        | _ => mkO15 d (mkRes HCond (cond_header kr rev)) false
        end
  | HDelete k prev =>
      let kr := dget d k in
      match get_latest kr with
      | None => mkO15 d (mkRes HNotFound rev) false                 (* txn.go:149-153, mustDeal *)
      | Some (_, modr) =>
          if (0 <? prev) && (rev <? prev) then mkO15 d (mkRes HErr 0) false
          else if (0 <? prev) && negb (prev =? modr) then mkO15 d (mkRes HCond (N.max rev modr)) false
          else if rev <=? modr then mkO15 d (mkRes HErr 0) false    (* txn.go:172-176 *)
          else
            match k_idx kr with
            | Some (r0, false) =>
                if r0 =? modr
                then mkO15 (dset d k (mkK (Some (rev, true)) (oins (k_objs kr) rev None))) (mkRes HOk rev) true
                else mkO15 d (mkRes HCond (N.max rev modr)) false
            | _ => mkO15 d (mkRes HCond (N.max rev modr)) false
            end
      end
  end.

(* List(rev = 0) reads at the committed revision: per key the newest version <= r, tombstones dropped *)
Definition visible (r : N) (l : list obj) : list obj := filter (fun x => fst x <=? r) l.
Definition list_at (d : dstore) (r : N) : list (bytes * bytes * N) :=
  flat_map (fun kv => match olatest (visible r (k_objs (snd kv))) with
                      | Some (m, Some v) => [(fst kv, v, m)]
                      | _ => []
                      end) d.
Definition list_latest (d : dstore) : list (bytes * bytes * N) :=
  flat_map (fun kv => match olatest (k_objs (snd kv)) with
                      | Some (m, Some v) => [(fst kv, v, m)]
                      | _ => []
                      end) d.

(* ---------- engine timestamp oracles ---------- *)

Inductive engine := EMem | ETikv | EBadger.
Definition engine_eqb (a b : engine) : bool :=
  match a, b with EMem, EMem | ETikv, ETikv | EBadger, EBadger => true | _, _ => false end.

(* the whole engine content + Badger's transaction counter *)
Record world := mkW {
  w_lock    : option lrec;        (* <prefix>/election *)
  w_data    : dstore;
  w_commits : N                   (* committed read-write transactions so far = Badger's read timestamp *)
}.
Definition world0 : world := mkW None [] 0.

(* memkv: time.Now().UnixNano(); TiKV: PD timestamp — both given by the environment (t);
   Badger: txn.ReadTs() = number of committed read-write transactions *)
Definition clock (e : engine) (w : world) (t : N) : N :=
  match e with EBadger => w_commits w | _ => t end.

(* A clean close of Badger v1.6.2 flushes the memtable together with a `head` marker whose version
   is the next transaction timestamp; Open resumes one past the largest version it finds: a restart
   advances the read timestamp by one (db.go handleFlushTask / Open). Other engines: no effect
   (memkv does not survive a restart at all; the mock TiKV is not restarted). *)
Definition restart (e : engine) (w : world) : world :=
  match e with EBadger => mkW (w_lock w) (w_data w) (w_commits w + 1) | _ => w end.

Definition bump (w : world) (applied : bool) : world :=
  if applied then mkW (w_lock w) (w_data w) (w_commits w + 1) else w.

(* ---------- processes ---------- *)

Record proc := mkP { p_lock : cand; p_lead : leader }.
Definition proc0 : proc := mkP cand0 (mkL 0 0).

(* leader.go getLeaderAndVersion: strings.Split(Describe(), ",") must have exactly two parts *)
Definition has_comma (b : bytes) : bool := existsb (fun x => x =? 44) b.
Definition leader_version (k : cand) : option N :=
  let '(h, t) := describe k in if has_comma h then None else Some t.

Inductive eres := EAcquired (v : N) | ENotAcquired | EBadInfo.   (* EBadInfo: klog.Fatal in OnStartedLeading *)

(* one tryAcquireOrRenew + OnStartedLeading. t1/t2: environment clock at the Get and after the write.
   client-go's lease-time test is outside: the driver only elects when the elector would try. *)
(* tf: the timestamp oracle fails on the read that follows the lock write (the write itself commits) *)
Definition tenv_of (tf : bool) (n : N) : tenv := if tf then TErr else TOk n.

Definition elect_f (e : engine) (w : world) (p : proc) (h bc bu : bytes) (t1 t2 : N) (tf : bool) : world * proc * eres * res * res :=
  let g := do_get (w_lock w) (p_lock p) GOk (TOk (clock e w t1)) in
  match o_res g with
  | RNotFound =>
      let applied := match w_lock w with None => true | Some _ => false end in
      let w1 := bump w applied in
      let c := do_create (w_lock w) (o_cand g) h bc COk (tenv_of tf (clock e w1 t2)) in
      let w2 := mkW (o_store c) (w_data w1) (w_commits w1) in
      match o_res c with
      | ROk => match leader_version (o_cand c) with
               | Some v => (w2, mkP (o_cand c) (set_current (p_lead p) v), EAcquired v, RNotFound, ROk)
               | None => (w2, mkP (o_cand c) (p_lead p), EBadInfo, RNotFound, ROk)
               end
      | r => (w2, mkP (o_cand c) (p_lead p), ENotAcquired, RNotFound, r)
      end
  | ROk =>
      let applied := cas_holds (w_lock w) (lastVal (o_cand g)) && negb (tso (o_cand g) =? 0) in
      let w1 := bump w applied in
      let u := do_update (w_lock w) (o_cand g) h bu COk (tenv_of tf (clock e w1 t2)) in
      let w2 := mkW (o_store u) (w_data w1) (w_commits w1) in
      match o_res u with
      | ROk => match leader_version (o_cand u) with
               | Some v => (w2, mkP (o_cand u) (set_current (p_lead p) v), EAcquired v, ROk, ROk)
               | None => (w2, mkP (o_cand u) (p_lead p), EBadInfo, ROk, ROk)
               end
      | r => (w2, mkP (o_cand u) (p_lead p), ENotAcquired, ROk, r)
      end
  | r => (w, mkP (o_cand g) (p_lead p), ENotAcquired, r, r)
  end.

Definition elect (e : engine) (w : world) (p : proc) (h bc bu : bytes) (t1 t2 : N) :=
  elect_f e w p h bc bu t1 t2 false.

(* a request served by a process: allocates deal+1, then the sequencer commits it *)
Definition serve (w : world) (p : proc) (o : hop) : world * proc * hres :=
  let out := do_op (w_data w) (deal (p_lead p)) o in
  let rev := deal (p_lead p) + 1 in
  (bump (mkW (w_lock w) (d_store out) (w_commits w)) (d_commit out),
   (* the sequencer commits slot committed+1: it follows only if nothing else has been dealt in between *)
   mkP (p_lock p) (mkL rev (if deal (p_lead p) =? committed (p_lead p) then rev else committed (p_lead p))), d_res out).

Fixpoint serve_all (w : world) (p : proc) (os : list hop) : world * proc * list hres :=
  match os with
  | [] => (w, p, [])
  | o :: tl => let '(w1, p1, r) := serve w p o in
               let '(w2, p2, rs) := serve_all w1 p1 tl in (w2, p2, r :: rs)
  end.

(* ---------- the invariant the property needs ---------- *)

(* per key: the index record names the newest object record and agrees with it on deletion;
   a key without index record has no object records *)
Definition wf_key (kr : krec) : Prop :=
  match k_idx kr with
  | None => k_objs kr = []
  | Some (r, del) => exists v, olatest (k_objs kr) = Some (r, v) /\ (del = true <-> v = None)
  end.

(* every stored revision is at most n *)
Definition below (kr : krec) (n : N) : Prop :=
  (forall r v, In (r, v) (k_objs kr) -> r <= n) /\ (forall r del, k_idx kr = Some (r, del) -> r <= n).

(* the store is well formed / and the allocator is at or ahead of every stored revision *)
Definition WF (d : dstore) : Prop := Forall (fun kr => wf_key (snd kr)) d.
Definition Good (d : dstore) (n : N) : Prop := Forall (fun kr => wf_key (snd kr) /\ below (snd kr) n) d.

(* a request history served from allocator value n (one revision per attempt) *)
Fixpoint run_ops (d : dstore) (n : N) (os : list hop) : dstore * N * list hres :=
  match os with
  | [] => (d, n, [])
  | o :: tl => let out := do_op d n o in
               let '(d', n', rs) := run_ops (d_store out) (n + 1) tl in (d', n', d_res out :: rs)
  end.

(* ---------- OnStartedLeading as a program (leader.go:93-108) ----------
   The callback parses the version from Describe(), emits a gauge, calls SetCurrentRevision and only
   then sets the leader flag; IsLeader() (the flag) is what admits write requests on the node. *)
Inductive cb_pc := CbIdle | CbParsed (v : N) | CbInstalled (v : N) | CbLeading (v : N).
Record node := mkNode { n_pc : cb_pc; n_lead : leader; n_flag : bool;
                        n_pending : bool (* a follower read has passed its IsLeader() check and waits for the leader's answer *) }.
Definition node0 : node := mkNode CbIdle (mkL 0 0) false false.

Inductive nlabel :=
| NParse (v : N)      (* getLeaderAndVersion succeeded with version v *)
| NInstall            (* backend.SetCurrentRevision(version) *)
| NFlag               (* l.leader = true *)
| NRequest            (* a client write arrives; admitted iff IsLeader() *)
| NSyncCheck          (* revision.SyncReadRevision: `if IsLeader() { return }` passed (the node is not leader yet) *)
| NSyncInstall (r : N). (* ... and the revision fetched from the old leader arrives: installRevision -> SetCurrentRevision(r) *)

(* returns the revision handed out, if the request was admitted *)
Definition nstep (x : node) (l : nlabel) : node * option N :=
  match l with
  | NParse v => match n_pc x with CbIdle => (mkNode (CbParsed v) (n_lead x) (n_flag x) (n_pending x), None) | _ => (x, None) end
  | NInstall => match n_pc x with
                | CbParsed v => (mkNode (CbInstalled v) (set_current (n_lead x) v) (n_flag x) (n_pending x), None)
                | _ => (x, None)
                end
  | NFlag => match n_pc x with CbInstalled v => (mkNode (CbLeading v) (n_lead x) true (n_pending x), None) | _ => (x, None) end
  | NRequest =>
      if n_flag x
      then let r := deal (n_lead x) + 1 in (mkNode (n_pc x) (mkL r r) true (n_pending x), Some r)
      else (x, None)
  | NSyncCheck => if n_flag x then (x, None) else (mkNode (n_pc x) (n_lead x) (n_flag x) true, None)
  | NSyncInstall r =>
      if n_pending x then (mkNode (n_pc x) (set_current (n_lead x) r) (n_flag x) false, None) else (x, None)
  end.

Fixpoint nrun (x : node) (ls : list nlabel) : node * list (option N) :=
  match ls with
  | [] => (x, [])
  | l :: tl => let '(x1, o) := nstep x l in let '(x2, os) := nrun x1 tl in (x2, o :: os)
  end.

Definition is_sync_install (l : nlabel) : bool := match l with NSyncInstall _ => true | _ => false end.

(* the same callback with the leader flag raised FIRST (at the top of OnStartedLeading, before parsing and
   SetCurrentRevision): what C15_flag_after_install would have to hold for if the order in leader.go were
   different. Only NFlag and NInstall differ from nstep. *)
Definition nstep_swapped (x : node) (l : nlabel) : node * option N :=
  match l with
  | NFlag => match n_pc x with CbIdle => (mkNode CbIdle (n_lead x) true (n_pending x), None) | _ => (x, None) end
  | NInstall => match n_pc x with
                | CbParsed v => (mkNode (CbLeading v) (set_current (n_lead x) v) (n_flag x) (n_pending x), None)
                | _ => (x, None)
                end
  | _ => nstep x l
  end.
Fixpoint nrun_swapped (x : node) (ls : list nlabel) : node * list (option N) :=
  match ls with
  | [] => (x, [])
  | l :: tl => let '(x1, o) := nstep_swapped x l in let '(x2, os) := nrun_swapped x1 tl in (x2, o :: os)
  end.
