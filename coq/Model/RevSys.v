(* RevSys — the revision allocator, the write-result slots and the sequencer.

   Transcribed from
     pkg/backend/tso/tso.go        Deal = atomic fetch-add; Commit = store committed, load dealt, conditional CAS
     pkg/backend/txn.go:269-295    notify: revision 0 -> early return; buffer-full panic; slot store at rev mod 100000
     pkg/backend/backend.go:208-238 the sequencer: load slot (committed+1) mod cap, clear slot rev mod cap, tso.Commit(rev)
   Writers are abstract here: a thread may allocate (RDeal) and later report (RNotify) a revision it
   holds. The request programs that decide when they do so live in Model/KeySys.v.
   Definitions only; proofs are in Proofs/RevSys.v. *)
From KB Require Export Base.Cases.
Local Open Scope N_scope.

Definition cap : N := 100000.              (* watchersChanCapacity *)
Definition two64 : N := 18446744073709551616.
Definition tid := N.

(* what the sequencer needs of a stored *common.WatchEvent: its revision (and Valid, kept for the record) *)
Record slotv := { sv_rev : N; sv_valid : bool }.

(* program counter of the sequencer goroutine: one constructor per atomic action to come *)
Inductive seqpc :=
| SqIdle                    (* backend.go:215-216  load slot (committed+1) mod cap *)
| SqGot (r : N)             (* backend.go:227      store nil at slot r mod cap *)
| SqStore (r : N)           (* tso.Commit, raise-only loop: cur := committed *)
| SqStoreCas (r cur : N)    (*   if r <= cur: done; else CAS(committed, cur, r), on failure load again *)
| SqLoadDealt (r : N)       (* tso.go:66           pre := dealt *)
| SqCas (r pre : N).        (* tso.go:67-69        if pre < r then CAS(dealt, pre, r) *)

Inductive revent :=
| RvDealt (t : tid) (r : N)
| RvNotified (t : tid) (r : N) (valid : bool).

Record rstate := {
  dealt : N;                      (* naiveTSO.dealRevision *)
  committed : N;                  (* naiveTSO.committedRevision *)
  slots : N -> option slotv;      (* watchEventsRingBuffer, by index (only indices < cap are used) *)
  seq : seqpc;
  held : tid -> list N;           (* ghost: revisions allocated to t and not yet reported *)
  rlog : list revent;             (* ghost, newest first *)
  rpanic : bool                   (* notify panicked ("watch push buffer full"): the process is gone *)
}.

Definition rinit (d0 : N) : rstate :=
  {| dealt := d0; committed := d0; slots := fun _ => None; seq := SqIdle;
     held := fun _ => []; rlog := []; rpanic := false |}.

Inductive rlabel :=
| RDeal (t : tid)
| RNotify (t : tid) (rev : N) (valid : bool)
| RSeq.

Definition upd {A} (f : N -> A) (i : N) (v : A) : N -> A := fun j => if j =? i then v else f j.

Fixpoint remove_N (x : N) (l : list N) : list N :=
  match l with
  | [] => []
  | y :: l' => if y =? x then remove_N x l' else y :: remove_N x l'
  end.

Fixpoint mem_N (x : N) (l : list N) : bool :=
  match l with
  | [] => false
  | y :: l' => (y =? x) || mem_N x l'
  end.

(* uint64 subtraction as Go performs it (txn.go:289) *)
Definition sub64 (a b : N) : N := if a <? b then a + two64 - b else a - b.

Definition r_deal (s : rstate) (t : tid) : rstate :=
  let r := dealt s + 1 in
  {| dealt := r; committed := committed s; slots := slots s; seq := seq s;
     held := upd (held s) t (r :: held s t); rlog := RvDealt t r :: rlog s; rpanic := rpanic s |}.

(* notify(…, revision, …, valid, …) called by thread t *)
Definition r_notify (s : rstate) (t : tid) (rev : N) (valid : bool) : rstate :=
  if rev =? 0 then s                                        (* txn.go:271-275 *)
  else if cap <=? sub64 rev (committed s) then              (* txn.go:289-292 *)
    {| dealt := dealt s; committed := committed s; slots := slots s; seq := seq s;
       held := held s; rlog := rlog s; rpanic := true |}
  else
    {| dealt := dealt s; committed := committed s;
       slots := upd (slots s) (rev mod cap) (Some {| sv_rev := rev; sv_valid := valid |});
       seq := seq s;
       held := upd (held s) t (remove_N rev (held s t));
       rlog := RvNotified t rev valid :: rlog s; rpanic := rpanic s |}.

Definition set_seq (s : rstate) (p : seqpc) : rstate :=
  {| dealt := dealt s; committed := committed s; slots := slots s; seq := p;
     held := held s; rlog := rlog s; rpanic := rpanic s |}.

Definition r_seq (s : rstate) : rstate :=
  match seq s with
  | SqIdle =>
      match slots s ((committed s + 1) mod cap) with
      | Some v => set_seq s (SqGot (sv_rev v))
      | None => s                                            (* seq.idle: spin *)
      end
  | SqGot r =>
      {| dealt := dealt s; committed := committed s; slots := upd (slots s) (r mod cap) None;
         seq := SqStore r; held := held s; rlog := rlog s; rpanic := rpanic s |}
  | SqStore r => set_seq s (SqStoreCas r (committed s))
  | SqStoreCas r cur =>
      if r <=? cur then set_seq s (SqLoadDealt r)
      else if committed s =? cur then
        {| dealt := dealt s; committed := r; slots := slots s;
           seq := SqLoadDealt r; held := held s; rlog := rlog s; rpanic := rpanic s |}
      else set_seq s (SqStore r)
  | SqLoadDealt r => set_seq s (SqCas r (dealt s))
  | SqCas r pre =>
      if pre <? r then
        {| dealt := (if dealt s =? pre then r else dealt s); committed := committed s; slots := slots s;
           seq := SqIdle; held := held s; rlog := rlog s; rpanic := rpanic s |}
      else set_seq s SqIdle
  end.

(* a label that is not enabled is a no-op; after a panic nothing moves *)
Definition renabled (s : rstate) (l : rlabel) : bool :=
  negb (rpanic s) &&
  match l with
  | RDeal _ => true
  | RNotify t rev _ => (rev =? 0) || mem_N rev (held s t)
  | RSeq => true
  end.

Definition rstep (s : rstate) (l : rlabel) : rstate :=
  if renabled s l then
    match l with
    | RDeal t => r_deal s t
    | RNotify t rev valid => r_notify s t rev valid
    | RSeq => r_seq s
    end
  else s.

Definition rrun (ls : list rlabel) (s : rstate) : rstate := fold_left rstep ls s.

(* the sequencer's whole iteration for one filled slot: six atomic actions *)
Definition seq_take_labels : list rlabel := [RSeq; RSeq; RSeq; RSeq; RSeq; RSeq].

(* LSeqTake is enabled when the sequencer would find its slot filled *)
Definition seq_ready (s : rstate) : bool :=
  negb (rpanic s) &&
  match seq s with
  | SqIdle => match slots s ((committed s + 1) mod cap) with Some _ => true | None => false end
  | _ => true
  end.

(* revisions dealt so far, oldest first *)
Definition dealt_revs (s : rstate) : list N :=
  rev (flat_map (fun e => match e with RvDealt _ r => [r] | _ => [] end) (rlog s)).

(* ---------- the allocator alone, with Commit called by anybody with any revision ----------
   tso.Commit is also what SetCurrentRevision does on leader hand-over and on follower sync, where
   the revision may be AHEAD of the allocation counter, concurrently with Deal. Each caller of
   Commit(rev) performs three atomic actions (tso.go:64-69). *)

Inductive cpc :=
| CIdle
| CStart (rev : N)             (* Commit(rev) entered; next: cur := committed *)
| CCur (rev cur : N)           (* next: if rev <= cur skip, else CAS(committed, cur, rev); on failure load again *)
| CStored (rev : N)            (* committed settled; next: pre := dealt *)
| CLoaded (rev pre : N).       (* next: if pre < rev then CAS(dealt, pre, rev) *)

Record tstate := {
  t_dealt : N;
  t_committed : N;
  t_pc : tid -> cpc;
  t_log : list (tid * N)        (* ghost: (thread, revision) of every Deal, newest first *)
}.

Inductive tlabel :=
| TDeal (t : tid)
| TCommit (t : tid) (rev : N)  (* Commit(rev) begins *)
| TLoadC (t : tid)             (* load committed *)
| TCasC (t : tid)              (* compare-and-swap committed (raise-only) *)
| TLoad (t : tid)              (* load dealt *)
| TCas (t : tid).              (* compare-and-swap dealt *)

Definition tinit (d0 : N) : tstate :=
  {| t_dealt := d0; t_committed := d0; t_pc := fun _ => CIdle; t_log := [] |}.

Definition t_set_pc (s : tstate) (t : tid) (p : cpc) : tstate :=
  {| t_dealt := t_dealt s; t_committed := t_committed s; t_pc := upd (t_pc s) t p; t_log := t_log s |}.

(* plain = true replaces the compare-and-swap on dealt by a plain store (the mutant the CAS protects against) *)
Definition tstep (plain : bool) (s : tstate) (l : tlabel) : tstate :=
  match l with
  | TDeal t =>
      {| t_dealt := t_dealt s + 1; t_committed := t_committed s; t_pc := t_pc s;
         t_log := (t, t_dealt s + 1) :: t_log s |}
  | TCommit t rev => match t_pc s t with CIdle => t_set_pc s t (CStart rev) | _ => s end
  | TLoadC t => match t_pc s t with CStart rev => t_set_pc s t (CCur rev (t_committed s)) | _ => s end
  | TCasC t =>
      match t_pc s t with
      | CCur rev cur =>
          if rev <=? cur then t_set_pc s t (CStored rev)
          else if t_committed s =? cur then
            {| t_dealt := t_dealt s; t_committed := rev; t_pc := upd (t_pc s) t (CStored rev); t_log := t_log s |}
          else t_set_pc s t (CStart rev)
      | _ => s
      end
  | TLoad t => match t_pc s t with CStored rev => t_set_pc s t (CLoaded rev (t_dealt s)) | _ => s end
  | TCas t =>
      match t_pc s t with
      | CLoaded rev pre =>
          {| t_dealt := if pre <? rev then (if plain || (t_dealt s =? pre) then rev else t_dealt s) else t_dealt s;
             t_committed := t_committed s; t_pc := upd (t_pc s) t CIdle; t_log := t_log s |}
      | _ => s
      end
  end.

Definition trun (plain : bool) (ls : list tlabel) (s : tstate) : tstate := fold_left (tstep plain) ls s.
