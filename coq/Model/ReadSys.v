(* ReadSys: executable model of KubeBrain's read path over one engine snapshot.
     pkg/backend/range.go          Get / get / getInternalVal, List, Count, GetPartitions, ListByStream
     pkg/backend/scanner/scanner.go Range, rangeWithLimit, Count, RangeStream, adjustPartitionsBorders,
                                    scan, worker.run (compact = false), checkCompactRace (compact = false)
     pkg/backend/scanner/receiver.go the three receivers
   The engine enters as its contents: the list of stored (internal key, value) records in ascending
   key order (what lib.Dump returns) and the contract of storage.KvStorage.Iter.  By C10's
   encode_cmp that order is (user key, revision) order, index record (revision 0) first.
   Definitions only; proofs are in Proofs/ReadSys*.v. *)
From Coq Require Export Sorted Permutation.
From KB Require Export Base.Bytes Base.Cases Model.Coder.
Local Open Scope N_scope.

Definition tombstone : bytes := [116; 111; 109; 98; 115; 116; 111; 110; 101].   (* "tombstone", util.go:28 *)
Definition max_u64 : N := 18446744073709551615.
Definition max_i64 : Z := 9223372036854775807%Z.
Definition min_i64 : Z := (-9223372036854775808)%Z.
Definition stream_batch : nat := 300.                                         (* rangeStreamBatch *)

Definition kv := (bytes * bytes)%type.            (* stored record: internal key, value *)
Definition raw_store := list kv.                  (* ascending by bcmp on the key *)
Definition okv := (bytes * bytes * N)%type.       (* proto.KeyValue: key, value, revision *)
Definition okv_key (x : okv) : bytes := fst (fst x).
Definition okv_val (x : okv) : bytes := snd (fst x).
Definition okv_rev (x : okv) : N := snd x.

(* ---------- engine contract (storage/interface.go: Iter, Get) ----------
   start < end: records with start <= key < end, ascending;
   start > end: records with end < key <= start, descending; start = end: nothing. *)
Definition iter (s : raw_store) (start end_ : bytes) : list kv :=
  match bcmp start end_ with
  | Lt => filter (fun p => bleb start (fst p) && bltb (fst p) end_) s
  | Gt => rev (filter (fun p => bltb end_ (fst p) && bleb (fst p) start) s)
  | Eq => []
  end.

Fixpoint lookup (k : bytes) (s : raw_store) : option bytes :=
  match s with
  | [] => None
  | (k', v) :: t => if beqb k' k then Some v else lookup k t
  end.

(* ---------- point read: range.go:34-121 ---------- *)
Inductive gi_res := GIPanic | GINotFound | GIOk (v : bytes) (mod_rev : N).

Definition get_internal_val (s : raw_store) (key : bytes) (revision : N) : gi_res :=
  let revision := if revision =? 0 then max_u64 else revision in
  match iter s (encode key revision) (encode key 0) with
  | [] => GINotFound                                           (* io.EOF *)
  | (ik, v) :: _ =>
      match decode ik with
      | DecPanic => GIPanic
      | DecErr => GINotFound                                   (* error ignored: userKey = nil, modRev = 0 *)
      | DecOk uk mr => if (mr =? 0) || negb (beqb uk key) then GINotFound else GIOk v mr
      end
  end.

Inductive get_resp := GetPanic | GetResp (header : N) (kv : option (bytes * N)).

Definition get_model (s : raw_store) (cur : N) (key : bytes) (revision : N) : get_resp :=
  match get_internal_val s key revision with
  | GIPanic => GetPanic
  | GINotFound => GetResp cur None
  | GIOk v mr =>
      if beqb v tombstone then GetResp cur None                (* range.go:85 *)
      else GetResp (N.max cur mr) (Some (v, mr))
  end.

(* ---------- receivers: scanner/receiver.go ---------- *)
Record smsg := mk_smsg { m_rev : N; m_kvs : list okv; m_more : bool; m_err : bool }.

Inductive receiver :=
| RCount                                                          (* emptyResultReceiver *)
| RCommon (limit : Z) (result : list okv)                         (* commonResultReceiver *)
| RStream (read_rev : N) (batch : list okv) (sent : list smsg).   (* streamResultReceiver; sent = what this
                                                                      object put on the shared channel *)

Definition data_msg (rr : N) (kvs : list okv) : smsg := mk_smsg rr kvs true false.
Definition term_msg (rr : N) (err : bool) : smsg := mk_smsg rr [] false err.      (* getListStreamEnd *)

Definition rcv_need_more (rc : receiver) : bool :=
  match rc with
  | RCommon l res => if (0 <? l)%Z then (Z.of_nat (length res) <? l)%Z else true
  | _ => true
  end.

Definition rcv_append (rc : receiver) (k v : bytes) (r : N) : receiver :=
  match rc with
  | RCount => RCount
  | RCommon l res => RCommon l (res ++ [(k, v, r)])
  | RStream rr b sent =>
      let b' := b ++ [(k, v, r)] in
      if (stream_batch <=? length b')%nat then RStream rr [] (sent ++ [data_msg rr b']) else RStream rr b' sent
  end.

Definition rcv_flush (rc : receiver) : receiver :=
  match rc with
  | RStream rr (x :: b) sent => RStream rr [] (sent ++ [data_msg rr (x :: b)])
  | _ => rc
  end.

Definition rcv_close (rc : receiver) : receiver := rcv_flush rc.   (* stream: close = flush; others: nothing *)

Definition rcv_reset (rc : receiver) : receiver :=
  match rc with
  | RCount => RCount
  | RCommon l _ => RCommon l []
  | RStream rr _ sent => RStream rr [] sent
  end.

Definition rcv_fork (rc : receiver) : receiver :=
  match rc with
  | RCount => RCount
  | RCommon l _ => RCommon l []
  | RStream rr _ _ => RStream rr [] []            (* fix 43e4a4d: the fork keeps readRev *)
  end.

Definition rcv_merge (rc sub : receiver) : receiver :=
  match rc, sub with
  | RCommon l res, RCommon _ sres =>
      if negb (0 <? l)%Z || (Z.of_nat (length res + length sres) <=? l)%Z then RCommon l (res ++ sres)
      else RCommon l (res ++ firstn (Z.to_nat (l - Z.of_nat (length res))) sres)
  | _, _ => rc
  end.

Definition rcv_result (rc : receiver) : list okv := match rc with RCommon _ res => res | _ => [] end.
Definition rcv_sent (rc : receiver) : list smsg := match rc with RStream _ _ sent => sent | _ => [] end.

(* ---------- worker.run with compact = false: scanner.go:389-516 ---------- *)
Record wstate := mkW { w_pk : bytes; w_pr : N; w_pv : bytes; w_rc : receiver; w_cnt : N }.

Definition w_live (st : wstate) : bool := (0 <? w_pr st) && negb (beqb (w_pv st) tombstone).

Definition w_emit (st : wstate) : wstate :=
  mkW (w_pk st) (w_pr st) (w_pv st) (rcv_append (w_rc st) (w_pk st) (w_pv st) (w_pr st)) (w_cnt st + 1).

(* one decoded record (scanner.go:451-495) *)
Definition wstep (R : N) (st : wstate) (k : bytes) (r : N) (v : bytes) : wstate :=
  if R <? r then st
  else
    let st1 := if negb (beqb k (w_pk st)) then (if w_live st then w_emit st else st) else st in
    mkW k r v (w_rc st1) (w_cnt st1).

Inductive wexit := WPanic | WLimit (st : wstate) | WEof (st : wstate).

Fixpoint wloop (R : N) (recs : list kv) (st : wstate) : wexit :=
  if negb (rcv_need_more (w_rc st)) then WLimit st
  else
    match recs with
    | [] => WEof st
    | (ik, v) :: t =>
        match decode ik with
        | DecPanic => WPanic
        | DecErr => wloop R t st                               (* logged, continue *)
        | DecOk k r => wloop R t (wstep R st k r v)
        end
    end.

Inductive wres := WRPanic | WROk (count : N) (rc : receiver).

Definition worker_run (R : N) (recs : list kv) (rc : receiver) : wres :=
  match wloop R recs (mkW [] 0 [] (rcv_reset rc) 0) with
  | WPanic => WRPanic
  | WLimit st => WROk 0 (w_rc st)             (* err = nil <> io.EOF: `return 0, err`; no flush *)
  | WEof st =>
      let st' := if w_live st && rcv_need_more (w_rc st) then w_emit st else st in
      WROk (w_cnt st') (rcv_flush (w_rc st'))
  end.

(* ---------- checkCompactRace(compact = false): scanner.go:611-630; fv = value stored under CompactKey ---------- *)
Inductive fchk := FOk | FErr | FPanic.
Definition floor_check (fv : option bytes) (R : N) : fchk :=
  match fv with
  | None => FOk
  | Some v => if (length v <? 8)%nat then FPanic                (* binary.BigEndian.Uint64 on a short slice *)
              else if R <? from_be (firstn 8 v) then FErr else FOk
  end.

(* ---------- adjustPartitionsBorders: scanner.go:202-225 ---------- *)
Definition part := (bytes * bytes)%type.

(* sort.Slice by Start; it is not stable, the model's insertion sort is: they agree when starts are distinct *)
Fixpoint insert_part (p : part) (l : list part) : list part :=
  match l with
  | [] => [p]
  | q :: t => if bltb (fst p) (fst q) then p :: l else q :: insert_part p t
  end.
Definition sort_parts (l : list part) : list part := fold_right insert_part [] l.

Definition adjust_end (e : bytes) : option bytes :=
  match decode e with
  | DecPanic => None
  | DecErr => Some e
  | DecOk uk r => if r =? 0 then Some e else Some (encode uk 0)
  end.

Fixpoint adjust_from (prev_end : option bytes) (ps : list part) : option (list part) :=
  match ps with
  | [] => Some []
  | (s, e) :: t =>
      let s' := match prev_end with None => s | Some pe => pe end in
      match t with
      | [] => Some [(s', e)]
      | _ :: _ =>
          match adjust_end e with
          | None => None
          | Some e' => match adjust_from (Some e') t with None => None | Some r => Some ((s', e') :: r) end
          end
      end
  end.

(* None = Go panic inside Decode *)
Definition adjust_borders (ps : list part) : option (list part) := adjust_from None (sort_parts ps).

(* ---------- scan: scanner.go:227-304 (no iterator errors: each worker runs once) ---------- *)
Definition partition_fn := bytes -> bytes -> list part.       (* store.GetPartitions *)
Definition single_part : partition_fn := fun s e => [(s, e)]. (* memkv, Badger, unsplit TiKV *)

Inductive scan_res := ScPanic | ScErr | ScOk (count : N) (merged : receiver) (forks : list receiver).

Definition wres_panic (w : wres) : bool := match w with WRPanic => true | _ => false end.
Definition wres_count (w : wres) : N := match w with WROk n _ => n | _ => 0 end.
Definition wres_rcv (dflt : receiver) (w : wres) : receiver := match w with WROk _ rc => rc | _ => dflt end.

Definition scan (s : raw_store) (fv : option bytes) (parts : partition_fn)
    (start end_ : bytes) (R : N) (rc : receiver) : scan_res :=
  match floor_check fv R with
  | FPanic => ScPanic
  | FErr => ScErr
  | FOk =>
      match adjust_borders (parts start end_) with
      | None => ScPanic
      | Some ps =>
          let ws := map (fun p => worker_run R (iter s (fst p) (snd p)) (rcv_fork rc)) ps in
          if existsb wres_panic ws then ScPanic
          else
            let forks := map (wres_rcv rc) ws in
            ScOk (fold_left N.add (map wres_count ws) 0)
                 (fold_left rcv_merge forks rc)
                 (map rcv_close forks)
      end
  end.

(* ---------- scanner.Range / rangeWithLimit: scanner.go:83-119 ---------- *)
Inductive range_res := RgPanic | RgErr | RgOk (kvs : list okv).

Definition range (s : raw_store) (fv : option bytes) (parts : partition_fn)
    (start end_ : bytes) (R : N) (limit : Z) : range_res :=
  if (0 <? limit)%Z then
    match floor_check fv R with
    | FPanic => RgPanic
    | FErr => RgErr
    | FOk =>
        match worker_run R (iter s start end_) (RCommon limit []) with
        | WRPanic => RgPanic
        | WROk _ rc => RgOk (rcv_result rc)
        end
    end
  else
    match scan s fv parts start end_ R (RCommon 0 []) with
    | ScPanic => RgPanic
    | ScErr => RgErr
    | ScOk _ m _ => RgOk (rcv_result m)
    end.

(* ---------- Backend.List: range.go:124-174 ---------- *)
Inductive list_resp := LPanic | LErr (cls : N) | LResp (header : N) (kvs : list okv) (more : bool).
(* error classes: 1 = "invalid nil end field", 2 = "invalid range end", 3 = error from the scan (revision compacted) *)

Definition list_model (s : raw_store) (fv : option bytes) (parts : partition_fn) (cur : N)
    (key end_ : bytes) (revision : N) (limit : Z) : list_resp :=
  match end_ with
  | [] => LErr 1
  | _ :: _ =>
      let req := if revision =? 0 then cur else revision in
      if negb (bltb key end_) then LErr 2
      else
        let lim1 := if (0 <? limit)%Z then (if (limit =? max_i64)%Z then min_i64 else limit + 1)%Z else limit in
        match range s fv parts (encode key 0) (encode end_ 0) req lim1 with
        | RgPanic => LPanic
        | RgErr => LErr 3
        | RgOk kvs =>
            if (0 <? lim1)%Z && (limit <? Z.of_nat (length kvs))%Z
            then LResp cur (firstn (Z.to_nat limit) kvs) true
            else LResp cur kvs false
        end
  end.

(* ---------- Backend.Count: range.go:177-205 ---------- *)
Inductive count_resp := CPanic | CErr | CResp (header : N) (count : N).

Definition count_model (s : raw_store) (fv : option bytes) (parts : partition_fn) (compat : bool) (cur : N)
    (key end_ : bytes) : count_resp :=
  if negb compat then CResp cur 0
  else
    match scan s fv parts (encode key 0) (encode end_ 0) cur RCount with
    | ScPanic => CPanic
    | ScErr => CErr
    | ScOk n _ _ => CResp cur n
    end.

(* ---------- Backend.GetPartitions: range.go:208-256 (with fix 51e6ded; the engine's partitions are sorted
   by Start first, as the scanner does — fix for finding C13-F1) ---------- *)
Definition advertise_start (first : bool) (st : bytes) : bytes :=
  if negb first && (13 <=? length st)%nat then
    match decode st with
    | DecOk uk r => if r =? 0 then st else encode uk 0
    | _ => st
    end
  else st.

Fixpoint advertised_keys (first : bool) (ps : list part) : list bytes :=
  match ps with
  | [] => []
  | [(s, e)] => [advertise_start first s; e]
  | (s, _) :: t => advertise_start first s :: advertised_keys false t
  end.

Definition get_partitions_model (parts : partition_fn) (cur : N) (key end_ : bytes) : N * N * list bytes :=
  let ps := sort_parts (parts (encode key 0) (encode end_ 0)) in
  (cur, N.of_nat (length ps), advertised_keys true ps).

(* ---------- Backend.ListByStream / scanner.RangeStream: range.go:254-263, scanner.go:129-145 ----------
   start/end are internal keys.  The workers send concurrently on one channel: the model returns the
   message list of every partition (in partition order) and the terminator; any interleaving of the
   per-partition lists followed by the terminator is a possible stream. *)
Inductive stream_res := StPanic | StOk (per_part : list (list smsg)) (term : smsg).

Definition stream_model (s : raw_store) (fv : option bytes) (parts : partition_fn) (cur : N)
    (start end_ : bytes) (revision : N) : stream_res :=
  let R := if revision =? 0 then cur else revision in
  match scan s fv parts start end_ R (RStream R [] []) with
  | ScPanic => StPanic
  | ScErr => StOk [] (term_msg R true)
  | ScOk _ _ forks => StOk (map rcv_sent forks) (term_msg R false)
  end.

Inductive interleaving {A} : list (list A) -> list A -> Prop :=
| il_nil : forall ls, Forall (fun l => l = []) ls -> interleaving ls []
| il_cons : forall pre x l post out, interleaving (pre ++ l :: post) out -> interleaving (pre ++ (x :: l) :: post) (x :: out).

Definition stream_outcome (r : stream_res) (out : list smsg) : Prop :=
  match r with
  | StPanic => False
  | StOk pp term => exists data, interleaving pp data /\ out = data ++ [term]
  end.

(* ====================== specification ====================== *)

(* Version stores: records (user key, revision, value); revision 0 = index record. *)
Section Spec.
  Context {A : Type}.
  Definition vrec := (bytes * N * A)%type.
  Definition vr_key (x : vrec) : bytes := fst (fst x).
  Definition vr_rev (x : vrec) : N := snd (fst x).
  Definition vr_val (x : vrec) : A := snd x.

  (* the newest version of k with 0 < revision <= R *)
  Fixpoint newest (V : list vrec) (R : N) (k : bytes) : option (N * A) :=
    match V with
    | [] => None
    | x :: t =>
        let n := newest t R k in
        if beqb (vr_key x) k && (0 <? vr_rev x) && (vr_rev x <=? R) then
          match n with
          | Some (r0, _) => if vr_rev x <? r0 then n else Some (vr_rev x, vr_val x)
          | None => Some (vr_rev x, vr_val x)
          end
        else n
    end.

  Fixpoint insert_key (k : bytes) (l : list bytes) : list bytes :=
    match l with
    | [] => [k]
    | q :: t => match bcmp k q with Lt => k :: l | Eq => l | Gt => q :: insert_key k t end
    end.
  Definition ukeys (V : list vrec) : list bytes := fold_right (fun x acc => insert_key (vr_key x) acc) [] V.

  (* for each key the newest version with revision <= R, sorted by key *)
  Definition newest_all (V : list vrec) (R : N) : list (bytes * A * N) :=
    flat_map (fun k => match newest V R k with Some (r, a) => [(k, a, r)] | None => [] end) (ukeys V).
End Spec.

(* the snapshot at the level of stored bytes: a version whose value is the marker is a deletion *)
Definition snapshot (V : list (@vrec bytes)) (R : N) : list okv :=
  filter (fun x => negb (beqb (okv_val x) tombstone)) (newest_all V R).

(* the snapshot at the level of the client's history: None = deletion, Some v = a written value *)
Definition snapshot_spec (V : list (@vrec (option bytes))) (R : N) : list okv :=
  flat_map (fun x => match x with (k, Some v, r) => [(k, v, r)] | (_, None, _) => [] end) (newest_all V R).

Definition in_range (a b : bytes) (l : list okv) : list okv :=
  filter (fun x => bleb a (okv_key x) && bltb (okv_key x) b) l.

Definition find_key (k : bytes) (l : list okv) : option (bytes * N) :=
  match filter (fun x => beqb (okv_key x) k) l with
  | x :: _ => Some (okv_val x, okv_rev x)
  | [] => None
  end.

(* how a version store is laid out in the engine *)
Definition enc_val (a : option bytes) : bytes := match a with Some v => v | None => tombstone end.
Definition enc_store (V : list (@vrec (option bytes))) : list (@vrec bytes) :=
  map (fun x => (vr_key x, vr_rev x, enc_val (vr_val x))) V.
Definition raw_of (V : list (@vrec bytes)) : raw_store := map (fun x => (encode (vr_key x) (vr_rev x), vr_val x)) V.

(* (key, revision) order of records = engine order of their internal keys (C10) *)
Definition vr_lt {A} (x y : @vrec A) : Prop := kr_cmp (vr_key x) (vr_rev x) (vr_key y) (vr_rev y) = Lt.
Definition vr_ltb {A} (x y : @vrec A) : bool :=
  match kr_cmp (vr_key x) (vr_rev x) (vr_key y) (vr_rev y) with Lt => true | _ => false end.

Fixpoint sortedb {A} (ltb : A -> A -> bool) (l : list A) : bool :=
  match l with
  | [] => true
  | x :: t => match t with [] => true | y :: _ => ltb x y && sortedb ltb t end
  end.

(* well-formed store: strictly ascending in (key, revision) — hence per key strictly increasing
   revisions, index record first —, keys in the alphabet, revisions 64-bit *)
Definition wf_store {A} (V : list (@vrec A)) : Prop :=
  StronglySorted vr_lt V /\ Forall (fun x => alpha (vr_key x) /\ vr_rev x < two64) V.
Definition wf_storeb {A} (V : list (@vrec A)) : bool :=
  sortedb vr_ltb V && forallb (fun x => alphab (vr_key x) && (vr_rev x <? two64)) V.

(* no live written value equals the reserved marker *)
Definition no_marker (V : list (@vrec (option bytes))) : Prop :=
  Forall (fun x => 0 < vr_rev x -> vr_val x <> Some tombstone) V.
Definition no_markerb (V : list (@vrec (option bytes))) : bool :=
  forallb (fun x => negb (0 <? vr_rev x) || negb (opt_eqb beqb (vr_val x) (Some tombstone))) V.

(* decoded view of a dump: records whose key decodes (everything else — compact key, lock records — is not data) *)
Definition safe_decode (ik : bytes) : option (bytes * N) :=
  match decode ik with DecOk k r => Some (k, r) | _ => None end.
Definition versions_of (d : raw_store) : list (@vrec bytes) :=
  flat_map (fun p => match safe_decode (fst p) with Some (k, r) => [(k, r, snd p)] | None => [] end) d.

(* ---------- what a compaction at floor F may remove (rule used by C03_stable) ----------
   V' is V without some records; a removed version (revision > 0) had revision <= F and was either
   a deletion marker or superseded by a version <= F, and every older version of its key is removed too
   (the compactor deletes in ascending order and stops touching a key after a failed delete);
   index records are never read by Get/List/Count, so their removal is unconstrained here. *)
Definition removable (V : list (@vrec bytes)) (F : N) (x : @vrec bytes) : Prop :=
  vr_rev x = 0 \/
  (vr_rev x <= F /\ (vr_val x = tombstone \/ exists y, In y V /\ vr_key y = vr_key x /\ vr_rev x < vr_rev y /\ vr_rev y <= F)).

Definition compacted (V V' : list (@vrec bytes)) (F : N) : Prop :=
  (forall x, In x V' -> In x V) /\
  (forall x, In x V -> ~ In x V' -> removable V F x) /\
  (forall x y, In x V -> ~ In x V' -> 0 < vr_rev x -> In y V -> vr_key y = vr_key x ->
               0 < vr_rev y -> vr_rev y < vr_rev x -> ~ In y V').

(* versions added after R: nothing is removed, everything new has a revision above R *)
Definition extended (V V' : list (@vrec bytes)) (R : N) : Prop :=
  (forall x, In x V -> In x V') /\ (forall x, In x V' -> In x V \/ R < vr_rev x).
