(* runWithBackoffRetry (scanner.go:351-387) around worker.run when the engine iterator fails: a small model.
   One attempt of worker.run whose iterator fails after `n` records processes those records and returns
   `0, err` without the EOF flush; the receiver object keeps what was appended (and, for a stream, what was
   already sent).  wait.ExponentialBackoff{Steps: scanBackoffSteps = 3} calls worker.run up to three times on
   the SAME receiver; every run starts with receiver.reset().  Definitions only. *)
From KB Require Export Model.ReadSys.
Local Open Scope N_scope.

Definition backoff_steps : nat := 3.

(* the receiver after an attempt whose iterator failed after the first n records *)
Definition rc_after_fail (R : N) (recs : list kv) (rc : receiver) (n : nat) : receiver :=
  match wloop R (firstn n recs) (mkW [] 0 [] (rcv_reset rc) 0) with
  | WPanic => rcv_reset rc
  | WLimit st => w_rc st
  | WEof st => w_rc st             (* it.Next returned an error, not io.EOF: no last append, no flush *)
  end.

(* faults = for each failing attempt, after how many records its iterator failed; then one attempt succeeds.
   None = "partition reached the max retry time" (an error returned by scan) *)
Fixpoint retry_from (R : N) (recs : list kv) (rc : receiver) (faults : list nat) (steps : nat) : option wres :=
  match steps with
  | O => None
  | S steps' =>
      match faults with
      | [] => Some (worker_run R recs rc)
      | n :: t => retry_from R recs (rc_after_fail R recs rc n) t steps'
      end
  end.

Definition retry_run (R : N) (recs : list kv) (rc : receiver) (faults : list nat) : option wres :=
  retry_from R recs rc faults backoff_steps.

(* scan with a fault list per adjusted partition (scanner.go:227-304 with runWithBackoffRetry) *)
Inductive scan_retry_res := SrErr | SrRes (r : scan_res).

Definition scan_retry (s : raw_store) (fv : option bytes) (parts : partition_fn) (start end_ : bytes) (R : N) (rc : receiver)
    (faults : part -> list nat) : scan_retry_res :=
  match floor_check fv R with
  | FPanic => SrRes ScPanic
  | FErr => SrRes ScErr
  | FOk =>
      match adjust_borders (parts start end_) with
      | None => SrRes ScPanic
      | Some ps =>
          let ws := map (fun p => retry_run R (iter s (fst p) (snd p)) (rcv_fork rc) (faults p)) ps in
          if existsb (fun w => match w with None => true | Some _ => false end) ws then SrErr
          else
            let ws := map (fun w => match w with Some r => r | None => WRPanic end) ws in
            if existsb wres_panic ws then SrRes ScPanic
            else
              let forks := map (wres_rcv rc) ws in
              SrRes (ScOk (fold_left N.add (map wres_count ws) 0) (fold_left rcv_merge forks rc) (map rcv_close forks))
      end
  end.

(* ---------- rangeWithLimit under an iterator fault: scanner.go:104-133 ----------
   The limited path calls worker.run ONCE, without runWithBackoffRetry: `_, err = w.run(ctx, receiver); if err != nil
   { return nil, err }`.  fault = Some n: the engine iterator of that single attempt fails at its (n+1)-th Next
   (n = 0 also stands for store.Iter itself failing).  If the receiver has its `limit` results before that call is
   made (the loop condition needMore() is false: WLimit) the failing call never happens and the answer is the
   fault-free one; otherwise worker.run returns `0, err`, the kvs appended so far are dropped with the receiver and the
   response is an error.  A position behind the end of the iterator (length recs < n) is never reached: io.EOF first. *)
Inductive range_fault_res := RfIterErr | RfRes (r : range_res).

Definition range_limited_fault (s : raw_store) (fv : option bytes) (start end_ : bytes) (R : N) (limit : Z)
    (fault : option nat) : range_fault_res :=
  match floor_check fv R with
  | FPanic => RfRes RgPanic
  | FErr => RfRes RgErr
  | FOk =>
      let recs := iter s start end_ in
      let rc := RCommon limit [] in
      let free := match worker_run R recs rc with WRPanic => RfRes RgPanic | WROk _ rc' => RfRes (RgOk (rcv_result rc')) end in
      match fault with
      | None => free
      | Some n =>
          if (length recs <? n)%nat then free
          else
            match wloop R (firstn n recs) (mkW [] 0 [] (rcv_reset rc) 0) with
            | WPanic => RfRes RgPanic
            | WLimit st => RfRes (RgOk (rcv_result (w_rc st)))      (* `return 0, nil`: limit reached before the fault *)
            | WEof _ => RfIterErr                                   (* it.Next failed: `return nil, err`, no data *)
            end
      end
  end.

(* Backend.List with limit > 0 under such a fault: range.go:124-174; error class 4 = error from the engine iterator *)
Definition list_limited_fault (s : raw_store) (fv : option bytes) (cur : N)
    (key end_ : bytes) (revision : N) (limit : Z) (fault : option nat) : list_resp :=
  match end_ with
  | [] => LErr 1
  | _ :: _ =>
      let req := if revision =? 0 then cur else revision in
      if negb (bltb key end_) then LErr 2
      else
        let lim1 := (if (limit =? max_i64)%Z then min_i64 else limit + 1)%Z in
        if negb (0 <? lim1)%Z then list_model s fv single_part cur key end_ revision limit   (* not the limited path *)
        else
        match range_limited_fault s fv (encode key 0) (encode end_ 0) req lim1 fault with
        | RfIterErr => LErr 4
        | RfRes RgPanic => LPanic
        | RfRes RgErr => LErr 3
        | RfRes (RgOk kvs) =>
            if (limit <? Z.of_nat (length kvs))%Z
            then LResp cur (firstn (Z.to_nat limit) kvs) true
            else LResp cur kvs false
        end
  end.
