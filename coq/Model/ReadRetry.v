(* runWithBackoffRetry (scanner.go:351-387) around worker.run when the engine iterator fails: a small model.
   One attempt of worker.run whose iterator fails after `n` records processes those records and returns
   `0, err` without the EOF flush; the receiver object keeps what was appended (and, for a stream, what was
   already sent).  wait.ExponentialBackoff{Steps: scanBackoffSteps = 3} calls worker.run up to three times on
   the SAME receiver; every run starts with receiver.reset().  Definitions only. *)
From KB Require Export Model.ReadSys.
Local Open Scope N_scope.

Definition backoff_steps : nat := 3.

(* the receiver after an attempt whose iterator failed after the first n records *)
Definition rc_after_fail (R : N) (recs : list kv) (rc : receiver) (n : nat) : receiver :=
  match wloop R (firstn n recs) (mkW [] 0 [] (rcv_reset rc) 0) with
  | WPanic => rcv_reset rc
  | WLimit st => w_rc st
  | WEof st => w_rc st             (* it.Next returned an error, not io.EOF: no last append, no flush *)
  end.

(* faults = for each failing attempt, after how many records its iterator failed; then one attempt succeeds.
   None = "partition reached the max retry time" (an error returned by scan) *)
Fixpoint retry_from (R : N) (recs : list kv) (rc : receiver) (faults : list nat) (steps : nat) : option wres :=
  match steps with
  | O => None
  | S steps' =>
      match faults with
      | [] => Some (worker_run R recs rc)
      | n :: t => retry_from R recs (rc_after_fail R recs rc n) t steps'
      end
  end.

Definition retry_run (R : N) (recs : list kv) (rc : receiver) (faults : list nat) : option wres :=
  retry_from R recs rc faults backoff_steps.

(* scan with a fault list per adjusted partition (scanner.go:227-304 with runWithBackoffRetry) *)
Inductive scan_retry_res := SrErr | SrRes (r : scan_res).

Definition scan_retry (s : raw_store) (fv : option bytes) (parts : partition_fn) (start end_ : bytes) (R : N) (rc : receiver)
    (faults : part -> list nat) : scan_retry_res :=
  match floor_check fv R with
  | FPanic => SrRes ScPanic
  | FErr => SrRes ScErr
  | FOk =>
      match adjust_borders (parts start end_) with
      | None => SrRes ScPanic
      | Some ps =>
          let ws := map (fun p => retry_run R (iter s (fst p) (snd p)) (rcv_fork rc) (faults p)) ps in
          if existsb (fun w => match w with None => true | Some _ => false end) ws then SrErr
          else
            let ws := map (fun w => match w with Some r => r | None => WRPanic end) ws in
            if existsb wres_panic ws then SrRes ScPanic
            else
              let forks := map (wres_rcv rc) ws in
              SrRes (ScOk (fold_left N.add (map wres_count ws) 0) (fold_left rcv_merge forks rc) (map rcv_close forks))
      end
  end.
