(* C09 — the front ends the driver also runs the fault grid through (harness/cmd/c09/fronts.go), as far as they touch
   what Model/RetrySys.v is about: the error a commit hands to the backend, and the answer a client is given.
   Definitions only; Proofs/C09Fronts.v states what makes re-using the model and the oracle behind them legitimate. *)
From KB Require Import Base.Cases Model.RetrySys Model.C09Cases.
Local Open Scope N_scope.

(* ---------- the storage metrics decorator (pkg/storage/metrics/store.go, batchWriteWrapper.Commit) ----------
   The backend sees the error of a commit only through errors.Is / errors.As: no error, lost compare (with the
   conflict's details), missing key, outcome unknown (and whether its origin is a lost compare).  `err` is exactly
   that view.  The decorator tags and times the call and hands the engine's error on. *)
Definition deco_commit (eo : option err) : option err := eo.

Definition commit_via (d : option err -> option err) (s : store) (b : batch) (e : env) : store * option err :=
  let '(sto, eo) := commit s b e in (sto, d eo).

(* the variant that re-formats errors which are neither a lost compare nor a missing key with Errorf("...%v"): the text
   survives, the chain does not — what errors.Is still sees is an error of no particular class *)
Definition deco_commit_reformat (eo : option err) : option err :=
  match eo with
  | Some e => if is_cas e || is_notfound e then Some e else Some EOther
  | None => None
  end.

(* a front on the environment choices of a label list *)
Definition front_label (f : env -> env) (l : label) : label :=
  match l with LThread t e => LThread t (f e) | LRetry e => LRetry (f e) | _ => l end.

(* ---------- etcd.RPCServer.Txn over the backend (pkg/server/etcd/kv.go, backendshim.go) ----------
   What the etcd client is given for a create / update / delete transaction: an RPC error, or a TxnResponse with
   Succeeded, the header revision and (delete: always; update: on the failure branch) the key-value of the range
   response. *)
Inductive tresp :=
| TErr (unc : bool)
| TResp (succeeded : bool) (hdr : N) (kv : option (value * N)).

Definition etcd_view (op : wop) (r : resp) : tresp :=
  match r with
  | RErr u => TErr u
  | ROk h kvo => TResp true h (match op with ODelete _ _ => kvo | _ => None end)
  | RCond h kvo => TResp false h (match op with OCreate _ _ => None | _ => kvo end)
  | RCompacted h => TResp false h None
  end.

(* Txn hands the request to the backend once *)
Definition etcd_txn (backend : wop -> resp) (op : wop) : tresp := etcd_view op (backend op).

(* the variant that hands a failed write to the backend a second time *)
Definition etcd_txn_twice (first second : wop -> resp) (op : wop) : tresp :=
  match first op with
  | RErr _ => etcd_view op (second op)
  | r => etcd_view op r
  end.

(* what the driver records of a TxnResponse (fronts.go, etcdWrite): class, header revision, key-value *)
Definition etcd_decode (t : tresp) : resp :=
  match t with
  | TErr u => RErr u
  | TResp true h kv => ROk h kv
  | TResp false h kv => RCond h kv
  end.

(* the backend's answers the etcd shim does not shorten: a create carries no key-value, neither does a successful update *)
Definition resp_shape (op : wop) (r : resp) : bool :=
  match op, r with
  | OCreate _ _, (ROk _ kv | RCond _ kv) => match kv with None => true | _ => false end
  | OUpdate _ _ _, ROk _ kv => match kv with None => true | _ => false end
  | OCompact _, _ | _, RCompacted _ => false   (* a compaction is not one of these transactions *)
  | _, _ => true
  end.

Inductive rclass := CSucceeded | CFailedCondition | CError (unc : bool).
Definition resp_class (r : resp) : rclass :=
  match r with ROk _ _ => CSucceeded | RCond _ _ | RCompacted _ => CFailedCondition | RErr u => CError u end.
Definition tresp_class (t : tresp) : rclass :=
  match t with TErr u => CError u | TResp true _ _ => CSucceeded | TResp false _ _ => CFailedCondition end.
