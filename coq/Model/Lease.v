(* A small timed model of what client-go's LeaderElector does with the lock (acquire / renew / release
   with an observed record and a local clock), on top of the chain property of the lock record (C14).

   Time is ONE global clock (N, e.g. milliseconds). The electors measure with local clocks; the
   clock-rate hypothesis enters through the two constants of the statement:
     L  the shortest GLOBAL duration a challenger waits after it first saw a record before it writes
        over a record held by somebody else          (LeaseDuration / (1 + drift))
     B  the longest GLOBAL duration an elector keeps believing that it leads after one of its own
        writes was applied                            ((d + RetryPeriod + RenewDeadline) * (1 + drift),
        d = how long after the write took effect the Update call may return)
   and the theorem needs B <= L.

   The accepted writes of the lock record, oldest first, each with the global time at which the engine
   applied it. By C14_no_silent_overwrite they form a chain: every write was conditioned on the bytes of
   its predecessor, i.e. its writer had observed exactly that record.
   Definitions only; proofs in Proofs/Lease.v. *)
From KB Require Export Base.Cases.
Local Open Scope N_scope.

Definition eid := N.

Record wr := mkWr {
  w_by     : eid;            (* the elector whose Create / Update this is *)
  w_holder : option eid;     (* HolderIdentity of the written record; None = "" (released) *)
  w_time   : N               (* global time at which the write took effect *)
}.

(* ---- the elector's side: tryAcquireOrRenew (client-go leaderelection.go) ---- *)
(* what an elector remembers: the record it observed last and WHEN (local clock = global clock here;
   drift is folded into L) it first saw it: le.observedRecord / le.observedTime *)
Record estate := mkE { e_rec : option wr; e_seen : N }.

(* step 2 of tryAcquireOrRenew: a different record resets the observation time *)
Definition wr_eqb (a b : wr) : bool :=
  (w_by a =? w_by b) && opt_eqb N.eqb (w_holder a) (w_holder b) && (w_time a =? w_time b).
Definition observe (s : estate) (now : N) (r : wr) : estate :=
  match e_rec s with
  | Some r0 => if wr_eqb r0 r then s else mkE (Some r) now
  | None => mkE (Some r) now
  end.

(* the guard before Update: the record is free, or mine, or I have seen it unchanged for a lease *)
Definition may_write (L : N) (me : eid) (s : estate) (now : N) : bool :=
  match e_rec s with
  | None => true                                   (* nothing stored: Create *)
  | Some r =>
      match w_holder r with
      | None => true
      | Some h => (h =? me) || (e_seen s + L <=? now)
      end
  end.

(* ---- the record's side: what the guard and the chain give for two consecutive accepted writes ---- *)
Definition step_ok (L : N) (p x : wr) : Prop :=
  w_time p <= w_time x /\
  (w_holder x = Some (w_by x) \/ w_holder x = None) /\          (* an elector writes its own identity or releases *)
  match w_holder p with
  | Some h => h <> w_by x -> w_time p + L <= w_time x            (* over somebody else's record: only after a lease *)
  | None => True
  end.

Fixpoint chain_ok (L : N) (p : wr) (l : list wr) : Prop :=
  match l with
  | [] => True
  | x :: tl => step_ok L p x /\ chain_ok L x tl
  end.

Definition lease_ok (L : N) (ws : list wr) : Prop :=
  match ws with
  | [] => True
  | p :: tl => (w_holder p = Some (w_by p) \/ w_holder p = None) /\ chain_ok L p tl
  end.

(* elector c believes at global time t that it leads: one of its own writes with its own identity was
   applied at most B ago, and it has not released since *)
Definition believes (B : N) (ws : list wr) (c : eid) (t : N) : Prop :=
  exists l1 x l2, ws = l1 ++ x :: l2 /\ w_by x = c /\ w_holder x = Some c /\
                  w_time x <= t /\ t < w_time x + B /\
                  Forall (fun y => w_time y <= t -> w_by y = c -> w_holder y = Some c) l2.

(* ---------- the timed system: electors, one record, one global clock ---------- *)
Definition owr_eqb (a b : option wr) : bool := opt_eqb wr_eqb a b.

Record tsys := mkT {
  t_now    : N;
  t_stored : option wr;          (* the lock record *)
  t_log    : list wr;            (* accepted writes, NEWEST first *)
  t_els    : eid -> estate
}.
Definition tsys0 : tsys := mkT 0 None [] (fun _ => mkE None 0).

Inductive tlabel :=
| TTick (n : N)                  (* time passes *)
| TObserve (c : eid)             (* elector c reads the record (Get) and applies step 2 of tryAcquireOrRenew *)
| TWrite (c : eid) (rel : bool). (* elector c's Create / Update, or (rel) its release: decided by the guard on what it
                                    observed, applied by the engine iff the stored record is still the observed one (C14) *)

Definition upd_e (f : eid -> estate) (c : eid) (v : estate) : eid -> estate := fun x => if x =? c then v else f x.

Definition tstep (L : N) (s : tsys) (l : tlabel) : tsys :=
  match l with
  | TTick n => mkT (t_now s + n) (t_stored s) (t_log s) (t_els s)
  | TObserve c =>
      match t_stored s with
      | Some r => mkT (t_now s) (t_stored s) (t_log s) (upd_e (t_els s) c (observe (t_els s c) (t_now s) r))
      | None => mkT (t_now s) (t_stored s) (t_log s) (upd_e (t_els s) c (mkE None (t_now s)))
      end
  | TWrite c rel =>
      let e := t_els s c in
      (* a release is only sent by an elector that observes itself as the holder (release(): IsLeader()) *)
      let allowed := if rel then match e_rec e with Some r => opt_eqb N.eqb (w_holder r) (Some c) | None => false end
                     else may_write L c e (t_now s) in
      if allowed && owr_eqb (t_stored s) (e_rec e)
      then let x := mkWr c (if rel then None else Some c) (t_now s) in
           mkT (t_now s) (Some x) (x :: t_log s) (upd_e (t_els s) c (mkE (Some x) (t_now s)))
      else s
  end.

Definition trun (L : N) (s : tsys) (ls : list tlabel) : tsys := fold_left (tstep L) ls s.
