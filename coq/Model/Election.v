(* Model of the leader lock, pkg/backend/election/election.go.

   One lock record lives under the single engine key "<prefix>/election". Every candidate owns a
   resourceLock object with three mutable fields that matter:
     lastVal  — the raw bytes it last obtained from the engine (Get) or wrote itself (Create)
     record   — the decoded record of the last successful Get (only HolderIdentity is observable,
                through Describe)
     tso      — the engine timestamp read after the last Get / Create / Update
   Each lock operation performs at most one engine call on the record (Get: engine get;
   Create: put-if-absent batch; Update: compare-and-swap batch against lastVal) followed by a
   timestamp read.  One operation = one label = one atomic step; the engine's behaviour enters as
   the environment outcome carried by the label.

   Line numbers refer to /repo at 17d91b5; commit 8ffcae3 has since put record, lastVal and tso under
   an RWMutex (never held across an engine call) without changing any of the behaviour modelled here.

   Definitions only; the proofs are in Proofs/Election.v. *)
From KB Require Export Base.Cases.
From Coq Require Import Ascii String.
Local Open Scope N_scope.

(* byte strings written as string literals (case files: JSON lock records are printable ASCII) *)
Definition bs (s : string) : bytes := List.map N_of_ascii (list_ascii_of_string s).

Definition cid := N.

(* ---- candidate-local state (election.go:71-79) ---- *)
Record cand := mkCand {
  lastVal : bytes;      (* r.lastVal; Go nil = [] *)
  holder  : bytes;      (* r.record.HolderIdentity; "" = [] *)
  tso     : N           (* r.tso *)
}.
Definition cand0 : cand := mkCand [] [] 0.

(* ---- the stored record ----
   rholder is what json.Unmarshal would deliver as HolderIdentity for these bytes: Some h for
   bytes produced by json.Marshal of a record with HolderIdentity h (JSON round trip: trusted,
   exercised by the driver through Describe), None for bytes that do not unmarshal. *)
Record lrec := mkRec { rbytes : bytes; rholder : option bytes }.
Definition rec_bytes (s : option lrec) : option bytes := option_map rbytes s.

(* ---- environment outcomes ---- *)
Inductive genv := GOk | GErr.              (* engine Get answers / fails (time-out, unavailable) *)
Inductive cenv :=
| COk                                      (* the batch is evaluated and answered *)
| CErr                                     (* the commit fails, nothing applied *)
| CUnknown                                 (* the commit takes effect iff its condition holds, but an error is reported *)
| CRefused.                                (* the condition is evaluated and a failed one answered as such; a write whose condition
                                              holds is refused by the engine with an error (TiKV: prewrite answered with a
                                              Retryable / Abort key error), nothing applied *)
Inductive tenv := TOk (n : N) | TErr.      (* GetTimestampOracle *)
Definition tval (t : tenv) : N := match t with TOk n => n | TErr => 0 end.   (* r.tso, err = ...: 0 on error *)

(* error classes of the resourcelock.Interface results *)
Inductive res :=
| ROk
| RNotFound      (* apierrors.IsNotFound *)
| RConflict      (* errors.Is(err, storage.ErrCASFailed) *)
| RDecode        (* json.Unmarshal error *)
| RUninit        (* Update before any Get/Create: "endpoint not initialized" — no engine call *)
| RErr.          (* any other error *)

Definition res_eqb (a b : res) : bool :=
  match a, b with
  | ROk, ROk | RNotFound, RNotFound | RConflict, RConflict | RDecode, RDecode
  | RUninit, RUninit | RErr, RErr => true
  | _, _ => false
  end.

(* what one operation does to (stored record, candidate) *)
Record opout := mkOut {
  o_store   : option lrec;       (* stored record afterwards *)
  o_cand    : cand;              (* candidate afterwards *)
  o_res     : res;               (* returned error class *)
  o_applied : bool;              (* the engine write took effect *)
  o_tsoread : bool;              (* GetTimestampOracle was called *)
  o_observed : option bytes      (* bytes obtained from the engine / written by Create in this step *)
}.

(* Get, election.go:82-123 *)
Definition do_get (st : option lrec) (k : cand) (e : genv) (t : tenv) : opout :=
  match e with
  | GErr => mkOut st k RErr false false None
  | GOk =>
      match st with
      | None => mkOut st k RNotFound false false None                        (* :104-106 *)
      | Some r =>
          let k1 := mkCand (rbytes r) (holder k) (tso k) in                  (* :109, before decoding *)
          match rholder r with
          | None => mkOut st k1 RDecode false false (Some (rbytes r))        (* :111-113 *)
          | Some h =>
              let k2 := mkCand (rbytes r) h (tval t) in                      (* :114, :121 *)
              mkOut st k2 (match t with TOk _ => ROk | TErr => RErr end) false true (Some (rbytes r))
          end
      end
  end.

(* Create, election.go:126-142: put-if-absent *)
Definition do_create (st : option lrec) (k : cand) (h b : bytes) (e : cenv) (t : tenv) : opout :=
  match e with
  | CErr => mkOut st k RErr false false None
  | COk =>
      match st with
      | Some _ => mkOut st k RConflict false false None
      | None =>
          mkOut (Some (mkRec b (Some h))) (mkCand b (holder k) (tval t))      (* :139-140; r.record untouched *)
                (match t with TOk _ => ROk | TErr => RErr end) true true (Some b)
      end
  | CUnknown =>
      match st with
      | Some _ => mkOut st k RErr false false None
      | None => mkOut (Some (mkRec b (Some h))) k RErr true false None        (* applied, but :136-138 returns *)
      end
  | CRefused =>
      match st with
      | Some _ => mkOut st k RConflict false false None
      | None => mkOut st k RErr false false None
      end
  end.

(* Update, election.go:145-167: compare-and-swap against lastVal; lastVal is NOT refreshed *)
Definition cas_holds (st : option lrec) (old : bytes) : bool :=
  match st with
  | Some r => beqb (rbytes r) old
  | None => false
  end.

Definition do_update (st : option lrec) (k : cand) (h b : bytes) (e : cenv) (t : tenv) : opout :=
  if tso k =? 0 then mkOut st k RUninit false false None                       (* :147-149 *)
  else
    match e with
    | CErr => mkOut st k RErr false false None
    | COk =>
        if cas_holds st (lastVal k)
        then mkOut (Some (mkRec b (Some h))) (mkCand (lastVal k) (holder k) (tval t))   (* :165 only *)
                   (match t with TOk _ => ROk | TErr => RErr end) true true None
        else mkOut st k RConflict false false None
    | CUnknown =>
        if cas_holds st (lastVal k)
        then mkOut (Some (mkRec b (Some h))) k RErr true false None
        else mkOut st k RErr false false None
    | CRefused =>
        if cas_holds st (lastVal k)
        then mkOut st k RErr false false None
        else mkOut st k RConflict false false None
    end.

(* Describe, election.go:179-184: (holder or "empty", tso) *)
Definition empty_word : bytes := [101; 109; 112; 116; 121].
Definition describe (k : cand) : bytes * N :=
  (match holder k with [] => empty_word | _ => holder k end, tso k).

(* ---- the system: any number of candidates over one record ---- *)
Inductive label :=
| LGet (c : cid) (e : genv) (t : tenv)
| LCreate (c : cid) (h b : bytes) (e : cenv) (t : tenv)      (* h = ler.HolderIdentity, b = json.Marshal(ler) *)
| LUpdate (c : cid) (h b : bytes) (e : cenv) (t : tenv)
| LInfo (c : cid).      (* leader.go GetLeaderInfo / GetElectionInfo / Describe on c's node: reads record and tso only *)

Definition lab_cid (l : label) : cid :=
  match l with LGet c _ _ | LCreate c _ _ _ _ | LUpdate c _ _ _ _ | LInfo c => c end.
Definition lab_write (l : label) : option bytes :=
  match l with LGet _ _ _ | LInfo _ => None | LCreate _ _ b _ _ | LUpdate _ _ b _ _ => Some b end.

(* ghost record of one write that took effect *)
Record entry := mkEntry {
  e_cid    : cid;
  e_create : bool;
  e_pre    : option bytes;     (* the stored bytes at the instant of application *)
  e_cond   : option bytes;     (* the old value the writer supplied: None = "must be absent" *)
  e_obs    : option bytes;     (* the bytes the writer last obtained from Get/Create (ghost) *)
  e_new    : bytes
}.

Record sys := mkSys {
  store    : option lrec;
  cands    : cid -> cand;
  observed : cid -> option bytes;    (* ghost: last bytes obtained by Get / written by Create *)
  log      : list entry              (* ghost: applied writes, newest first *)
}.

Definition upd {A} (f : cid -> A) (c : cid) (v : A) : cid -> A := fun x => if x =? c then v else f x.

Definition init (st0 : option lrec) : sys := mkSys st0 (fun _ => cand0) (fun _ => None) [].

Definition run_op (s : sys) (l : label) : opout :=
  match l with
  | LGet c e t => do_get (store s) (cands s c) e t
  | LCreate c h b e t => do_create (store s) (cands s c) h b e t
  | LUpdate c h b e t => do_update (store s) (cands s c) h b e t
  | LInfo c => mkOut (store s) (cands s c) ROk false false None
  end.

Definition lab_cond (s : sys) (l : label) : option bytes :=
  match l with
  | LUpdate c _ _ _ _ => Some (lastVal (cands s c))
  | _ => None
  end.
Definition lab_is_create (l : label) : bool := match l with LCreate _ _ _ _ _ => true | _ => false end.

Definition step (s : sys) (l : label) : sys :=
  let c := lab_cid l in
  let o := run_op s l in
  mkSys (o_store o)
        (upd (cands s) c (o_cand o))
        (match o_observed o with Some b => upd (observed s) c (Some b) | None => observed s end)
        (if o_applied o
         then match lab_write l with
              | Some b => mkEntry c (lab_is_create l) (rec_bytes (store s)) (lab_cond s l) (observed s c) b :: log s
              | None => log s
              end
         else log s).

Definition run (s : sys) (ls : list label) : sys := fold_left step ls s.

(* the record the log says is stored, given the initial one: newest entry first *)
Definition cur (st0 : option bytes) (l : list entry) : option bytes :=
  match l with [] => st0 | e :: _ => Some (e_new e) end.

(* every applied write found exactly its predecessor's bytes in place *)
Fixpoint log_chain (st0 : option bytes) (l : list entry) : Prop :=
  match l with
  | [] => True
  | e :: tl => e_pre e = cur st0 tl /\ log_chain st0 tl
  end.

(* a write is "justified": a create found nothing, an update found the bytes its writer supplied,
   which are the bytes the writer last obtained *)
Definition entry_ok (e : entry) : Prop :=
  if e_create e then e_pre e = None /\ e_cond e = None
  else exists x, e_pre e = Some x /\ e_cond e = Some x /\ e_obs e = Some x.
