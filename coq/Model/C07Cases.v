(* Correspondence cases for C07: a store (raw dump) reached by a history on a real Backend, one
   Backend.Compact call per variant (fault placement / interleaved writers), reads at every revision
   >= R before and after, a create/update/delete round afterwards. *)
From KB Require Export Base.Cases Model.Coder Model.CompactSys.
Local Open Scope N_scope.

Inductive c07_read :=
| RdGet (k : bytes) (rev : N)                         (* Backend.Get; rev 0 = latest *)
| RdList (lo hi : bytes) (rev : N) (limit : N).       (* Backend.List *)

Inductive c07_rres :=
| RGot (o : option (N * bytes))
| RListed (l : list kvr) (more : bool)
| RFailed.

Inductive c07_wop :=
| WCreate (k v : bytes)
| WUpdate (k v : bytes) (prev : N)
| WDelete (k : bytes) (expected : N).

(* a dump (decoded by the driver with the real coder: Decode, ParseRevision) given as a difference to
   an earlier one: positions removed, records added *)
Definition diff := (list N * list rec)%type.

Record c07_variant := mkV7 {
  v7_cur : N;                                   (* committed revision when Compact is called *)
  v7_req : N;                                   (* requested revision *)
  v7_oc : list (list rec * outcome);            (* per engine delete call: what writers committed just before it, its outcome *)
  v7_hdr : N;                                   (* response header revision *)
  v7_cur2 : N;                                  (* committed revision after the pass (writers interleaved) *)
  v7_kinds : list dkind;                        (* engine delete calls observed, in order *)
  v7_before : option (list c07_rres);           (* the reads on the store with only the writers' commits;
                                                   None = no writers: the case's c7_before *)
  v7_post : diff;                               (* raw dump after the pass, relative to c7_pre *)
  v7_after : option (list c07_rres);            (* the same reads after the pass; None = the driver found them
                                                   identical to the `before` list *)
  v7_round : list (c07_wop * wres);             (* write round after the pass, one request per key *)
  v7_final : diff;                              (* raw dump after the round, relative to the dump after the pass *)
  v7_iterfail : N                               (* 0: none; n: the n-th iterator step (Next) of the pass failed once - the scan
                                                   worker then retries its range from the start *)
}.

Record c07_case := mkC7 {
  c7_prefix : bytes;
  c7_skipped : list bytes;
  c7_borders : list bytes;                      (* observed: getCompactBorders (encoded keys) *)
  c7_pre : store;                               (* dump before, in engine order *)
  c7_reads : list c07_read;
  c7_before : list c07_rres;                    (* the reads before any pass *)
  c7_variants : list c07_variant
}.

Fixpoint drop_positions {A} (i : N) (rm : list N) (l : list A) : list A :=
  match l with
  | [] => []
  | x :: t => if existsb (N.eqb i) rm then drop_positions (i + 1) rm t else x :: drop_positions (i + 1) rm t
  end.

Definition apply_diff (base : store) (d : diff) : store :=
  sort_by rec_ltb (drop_positions 0 (fst d) base ++ snd d).

Definition before_of (cb : list c07_rres) (v : c07_variant) : list c07_rres :=
  match v7_before v with Some l => l | None => cb end.
Definition after_of (cb : list c07_rres) (v : c07_variant) : list c07_rres :=
  match v7_after v with Some l => l | None => before_of cb v end.

(* ---------- specification-level reads ---------- *)

Fixpoint dedup_keys (last : option bytes) (V : store) : list bytes :=
  match V with
  | [] => []
  | x :: t =>
      let k := rkey x in
      match last with
      | Some k0 => if beqb k0 k then dedup_keys last t else k :: dedup_keys (Some k) t
      | None => k :: dedup_keys (Some k) t
      end
  end.

Definition list_keys (ks : list bytes) (V : store) (R : N) : list kvr :=
  flat_map (fun k => match get_at V R k with Some (r, v) => [(k, v, r)] | None => [] end) ks.

(* all keys of [lo,hi) visible at R, in key order (V sorted) *)
Definition list_at (V : store) (lo hi : bytes) (R : N) : list kvr :=
  list_keys (filter (fun k => bleb lo k && bltb k hi) (dedup_keys None V)) V R.

Definition limited (l : list kvr) (limit : N) : list kvr * bool :=
  if (0 <? limit) && (limit <? N.of_nat (length l)) then (firstn (N.to_nat limit) l, true) else (l, false).

Definition kvr_eqb (a b : kvr) : bool :=
  let '(k, v, r) := a in let '(k', v', r') := b in beqb k k' && beqb v v' && (r =? r').

Definition nb_eqb (a b : N * bytes) : bool := (fst a =? fst b) && beqb (snd a) (snd b).

Definition rres_eqb7 (a b : c07_rres) : bool :=
  match a, b with
  | RGot x, RGot y => opt_eqb nb_eqb x y
  | RListed l m, RListed l' m' => list_eqb kvr_eqb l l' && Bool.eqb m m'
  | RFailed, RFailed => true
  | _, _ => false
  end.

Definition model_read (V : store) (cur : N) (rd : c07_read) : c07_rres :=
  match rd with
  | RdGet k rev => RGot (get_at V (if rev =? 0 then max_rev else rev) k)
  | RdList lo hi rev limit =>
      let '(l, m) := limited (list_at V lo hi (eff_rev cur rev)) limit in RListed l m
  end.

Definition wres_eqb (a b : wres) : bool :=
  match a, b with WOk, WOk | WFalse, WFalse | WErr, WErr => true | _, _ => false end.

Definition model_wop (V : store) (n : N) (op : c07_wop) : store * wres :=
  match op with
  | WCreate k v => do_create V k v n
  | WUpdate k v prev => do_update V k v prev n
  | WDelete k e => do_delete V k e n
  end.

Fixpoint model_round (V : store) (n : N) (ops : list (c07_wop * wres)) : option store :=
  match ops with
  | [] => Some V
  | (op, res) :: t =>
      let '(V', r) := model_wop V n op in
      if wres_eqb r res then model_round V' (n + 1) t else None
  end.

Definition store_eqb (A B : store) : bool := list_eqb rec_eqb A B.

Definition dkind_eqb (a b : dkind) : bool := match a, b with KDel, KDel | KDelCur, KDelCur => true | _, _ => false end.

Definition ranges_of (prefix : bytes) (skipped_prefixes : list bytes) : list (bytes * bytes) :=
  pairs (compact_borders prefix skipped_prefixes).

Definition all_adds (oc : list (list rec * outcome)) : list rec := flat_map fst oc.

(* the model's pass for one variant *)
(* a pass in which the n-th iterator step fails: the worker of that range has handled the records before it (a scan
   over that head of the snapshot), fails, and runs again over what its range holds now; every range ends with one
   more step, the one that reports the end *)
Definition compact_range_trunc (R : N) (lo hi : bytes) (d : dst) (seen : nat) : dst :=
  let c := mkCfg R true 0 0 [] in
  let d0 := mkD (d_store d) (d_ghost d) [] (d_oc d) (d_dead d) (d_trace d) in
  w_d (wloop c (firstn seen (sort_by rec_ltb (filter (in_range lo hi) (d_store d)))) (init_w d0)).

Fixpoint compact_all_f (R : N) (ranges : list (bytes * bytes)) (n : N) (d : dst) : dst :=
  match ranges with
  | [] => d
  | (lo, hi) :: t =>
      let steps := N.of_nat (length (filter (in_range lo hi) (d_store d))) + 1 in
      if n =? 0 then compact_all_f R t 0 (compact_range R 0 lo hi d)
      else if n <=? steps then compact_all_f R t 0 (compact_range R 0 lo hi (compact_range_trunc R lo hi d (N.to_nat (n - 1))))
      else compact_all_f R t (n - steps) (compact_range R 0 lo hi d)
  end.

Definition variant_pass (prefix : bytes) (sk : list bytes) (V : store) (v : c07_variant) : dst :=
  if v7_iterfail v =? 0
  then compact_all (clamp (v7_cur v) 0 (v7_req v)) 0 (ranges_of prefix sk) (init_d V (v7_oc v))
  else compact_all_f (clamp (v7_cur v) 0 (v7_req v)) (ranges_of prefix sk) (v7_iterfail v) (init_d V (v7_oc v)).

Definition variant_check (prefix : bytes) (sk : list bytes) (V : store)
           (reads : list c07_read) (cb : list c07_rres) (v : c07_variant) : bool :=
  let R := clamp (v7_cur v) 0 (v7_req v) in
  let d := variant_pass prefix sk V v in
  let cur' := v7_cur2 v in
  let post := apply_diff V (v7_post v) in
  let final := apply_diff post (v7_final v) in
  (R =? v7_hdr v)
  && list_eqb dkind_eqb (map ds_kind (rev (d_trace d))) (v7_kinds v)
  && store_eqb (sort_by rec_ltb (d_store d)) post
  && list_eqb rres_eqb7 (map (model_read (sort_by rec_ltb (d_ghost d)) cur') reads) (before_of cb v)
  && list_eqb rres_eqb7 (map (model_read post cur') reads) (after_of cb v)
  && match model_round post (cur' + 1) (v7_round v) with
     | Some fin => store_eqb (sort_by rec_ltb fin) final
     | None => false
     end.

Definition c07_check (c : c07_case) : bool :=
  let V := c7_pre c in
  sortedb V
  && list_eqb beqb (map (fun b => encode b 0) (compact_borders (c7_prefix c) (c7_skipped c))) (c7_borders c)
  && list_eqb rres_eqb7 (map (model_read V max_rev) (c7_reads c)) (c7_before c)
  && forallb (variant_check (c7_prefix c) (c7_skipped c) V (c7_reads c) (c7_before c)) (c7_variants c).

(* ---------- the property on the implementation's observations ---------- *)

(* the keys the backend is in charge of compacting: under prefix/, under no skipped prefix *)
Definition in_charge (prefix : bytes) (sk : list bytes) (k : bytes) : bool :=
  has_prefix (with_slash prefix) k && negb (existsb (fun s => has_prefix (with_slash s) k) sk).

(* skipped prefixes the border construction handles: each strictly under prefix/, pairwise non-nested
   (hence duplicate-free) *)
Fixpoint pairwise_unrelated (l : list bytes) : bool :=
  match l with
  | [] => true
  | s :: t => forallb (fun u => negb (has_prefix (with_slash s) (with_slash u)) && negb (has_prefix (with_slash u) (with_slash s))) t
              && pairwise_unrelated t
  end.

Definition good_config (prefix : bytes) (sk : list bytes) : bool :=
  forallb (fun s => has_prefix (with_slash prefix) s) sk && pairwise_unrelated sk.

(* every record of a key outside the backend's charge is still there after the pass (writers may have
   replaced an index record: same slot) *)
Definition outside_untouched (prefix : bytes) (sk : list bytes) (pre post : store) : bool :=
  forallb (fun x => in_charge prefix sk (rkey x) || existsb (same_slot x) post) pre.

(* the observed borders (encoded keys), taken pairwise: ascending, no inverted or empty pair, and their
   union is exactly the keys in charge (tested on the keys of the store) *)
Definition in_borders (bs : list bytes) (k : bytes) : bool :=
  existsb (fun p => bleb (fst p) (encode k 0) && bltb (encode k 0) (snd p)) (pairs bs).

Fixpoint ascending (bs : list bytes) : bool :=
  match bs with
  | a :: t => match t with b :: _ => bleb a b && ascending t | [] => true end
  | [] => true
  end.

Definition pairs_proper (bs : list bytes) : bool :=
  Nat.even (length bs) && forallb (fun p => bltb (fst p) (snd p)) (pairs bs) && ascending bs.

Definition borders_oracle (prefix : bytes) (sk : list bytes) (bs : list bytes) (V : store) : option N :=
  if pairs_proper bs && forallb (fun x => Bool.eqb (in_borders bs (rkey x)) (in_charge prefix sk (rkey x))) V then None
  else Some 0.

Fixpoint find_get (k : bytes) (reads : list c07_read) (res : list c07_rres) : option (option (N * bytes)) :=
  match reads, res with
  | RdGet k' 0 :: rt, RGot o :: st => if beqb k k' then Some o else find_get k rt st
  | _ :: rt, _ :: st => find_get k rt st
  | _, _ => None
  end.

(* normal semantics of one write request given what Get(latest) returned just before *)
Definition wop_expected (cur : N) (op : c07_wop) (got : option (N * bytes)) : wres :=
  match op with
  | WCreate _ _ => match got with None => WOk | Some _ => WFalse end
  | WUpdate _ _ prev =>
      if prev =? 0 then match got with None => WOk | Some _ => WFalse end
      else match got with Some (r, _) => if r =? prev then WOk else WFalse | None => WFalse end
  | WDelete _ e =>
      match got with
      | None => WFalse
      | Some (r, _) => if (e =? 0) || (e =? r) then WOk else WFalse
      end
  end.

Definition wop_key (op : c07_wop) : bytes :=
  match op with WCreate k _ | WUpdate k _ _ | WDelete k _ => k end.

Fixpoint round_ok (cur : N) (reads : list c07_read) (after : list c07_rres) (seen : list bytes)
         (ops : list (c07_wop * wres)) : bool :=
  match ops with
  | [] => true
  | (op, res) :: t =>
      let k := wop_key op in
      (if existsb (beqb k) seen then true
       else match find_get k reads after with
            | Some got => wres_eqb res (wop_expected cur op got)
            | None => true
            end)
      && round_ok cur reads after (k :: seen) t
  end.

Definition variant_oracle (prefix : bytes) (sk : list bytes) (pre : store) (reads : list c07_read)
           (cb : list c07_rres) (v : c07_variant) : option N :=
  if negb (outside_untouched prefix sk pre (apply_diff pre (v7_post v))) then
    Some 0
  else if negb (list_eqb rres_eqb7 (before_of cb v) (after_of cb v)) then
    Some 0
  else if negb (round_ok (v7_cur2 v) reads (after_of cb v) [] (v7_round v)) then
    Some 0
  else None.

Fixpoint first_some {A} (f : A -> option N) (l : list A) : option N :=
  match l with
  | [] => None
  | x :: t => match f x with Some c => Some c | None => first_some f t end
  end.

Definition c07_oracle (c : c07_case) : option N :=
  match borders_oracle (c7_prefix c) (c7_skipped c) (c7_borders c) (c7_pre c) with
  | Some 0 => Some 0
  | b =>
  match first_some (variant_oracle (c7_prefix c) (c7_skipped c) (c7_pre c) (c7_reads c) (c7_before c)) (c7_variants c) with
  | Some code => Some code
  | None => b
  end
  end.
