(* Correspondence cases for C20: (a) emission sequences executed against the real Prometheus
   wrapper, (b) the regenerated table's rows executed once each, (c) hostile requests through the
   real handlers, each followed by a health probe and a revision-progress probe. *)
From KB Require Export Base.Cases Model.Metrics Model.Handlers Model.HandlerMetrics.
Open Scope N_scope.

Inductive req_outcome := OResp | OErr | OPanic | OExit | OWedge.

Inductive c20_case :=
(* random emissions in a fresh process: start-up registry names, global labels, emissions, panicked? *)
| KSeq (reg0 : list str) (g : list (str * str)) (es : list emission) (obs : list outcome)
(* every executable row of the regenerated table, in table order, one emission each, one registry *)
| KRows (g : list (str * str)) (sites : list N) (es : list emission) (obs : list outcome)
(* one table row: its site index, the emission built from it (None: unresolved, not executable), what happened *)
| KRow (site : N) (e : option emission) (obs : outcome)
(* one request on a leader: outcome class, revisions it allocated, health probe, progress probe *)
| KReq (r : request) (o : req_outcome) (alloc : Z) (health progress : bool)
       (lst : option (Z * bool))          (* list responses: number of kvs returned, More *)
       (ems : list emission)              (* what the handler's own goroutine emitted during the call *)
(* one pure watch on an etcd stream of a leader, ended by a client cancel request or by the stream:
   how many Canceled responses with CompactRevision = 0 the server sent for its watch id *)
| KCancel (client_cancelled : bool) (canceled_responses : N)
(* on one stream: a cancel request for an id that was never created and a second cancel request for a watch that
   has been cancelled already: Canceled responses they caused, and whether a watch created afterwards on the same
   stream was answered *)
| KCancelUnknown (responses : N) (still_usable : bool)
(* the translator's structural check of the wrapper's own label path (Emit* -> labelsToMap /
   extractLabelNames -> With): names and values are handed on unchanged *)
| KPath (identity : bool).

Fixpoint find_row (site : N) (t : list row) : option row :=
  match t with
  | [] => None
  | r :: t' => if r_site r =? site then Some r else find_row site t'
  end.

Fixpoint instances (t : list row) (sites : list N) (es : list emission) : bool :=
  match sites, es with
  | [], [] => true
  | s :: sites', e :: es' =>
      match find_row s t with Some r => instance_of r e | None => false end && instances t sites' es'
  | _, _ => false
  end.

Definition outcomes_eqb := list_eqb outcome_eqb.

Definition c20_check (t : list row) (c : c20_case) : bool :=
  match c with
  | KSeq reg0 g es obs => outcomes_eqb (snd (run (init_state g reg0) es)) obs
  | KRows g sites es obs =>
      instances t sites es && outcomes_eqb (snd (run (init_state g []) es)) obs
  | KRow site e obs =>
      match find_row site t, e with
      | Some r, Some e => instance_of r e
      | Some r, None => match r_name r, r_labels r with Some _, Some ls => existsb (fun l => match snd l with VUnknown => true | _ => false end) ls | _, _ => true end
      | None, _ => false
      end
  | KReq r o alloc health progress lst ems =>
      (* every metric the handler emitted itself is an instance of one of the rows the model gives its kind *)
      forallb (fun e => existsb (fun h => instance_of h e) (handler_rows r)) ems &&
      (* the observed outcome class and allocation are the ones the handler model predicts *)
      match handle_p r, o with
      | HReject, OErr => (alloc =? 0)%Z
      | HRun n, (OResp | OErr) => (alloc =? Z.of_N n)%Z
      | HPanic, OPanic => true       (* the model predicting a panic: excluded by handle_p_no_panic *)
      | _, _ => false
      end &&
      match o, lst, list_limit_of r with
      | OResp, Some (count, more), Some limit => list_response_ok limit count more
      | OResp, None, Some _ => false
      | _, _, _ => true
      end &&
      (* the model of the node below the handlers predicts that it keeps serving: every allocated revision is
         resolved (C04) and the hub keeps delivering to the other watchers (C05, cited in Props/C20.v) *)
      health && progress
  | KCancel cc n => n =? watch_cancel_responses true cc
  | KCancelUnknown n usable => (n =? unknown_cancel_responses) && usable
  | KPath identity => identity     (* Model/Metrics.labels_to_map / label_names hand names and values on unchanged *)
  end.

Definition all_ok (obs : list outcome) : bool := forallb (fun o => outcome_eqb o Ok) obs.

(* the property on the implementation's own observation *)
Definition c20_oracle (gn : option (list str)) (t : list row) (c : c20_case) : option N :=
  match c with
  | KSeq _ _ _ _ => None      (* model validation only (the sequences are hostile on purpose): judged by c20_check *)
  | KRows _ _ _ obs => ok_if (all_ok obs)
  | KRow site _ _ =>
      (* static: the row passes the table check (a panic observed for it fails the KRows case) *)
      match gn, find_row site t with
      | Some gn, Some r => ok_if (row_ok gn t r)
      | _, _ => Some 0
      end
  | KReq _ o _ health progress _ _ =>
      ok_if (match o with OResp | OErr => true | _ => false end && health && progress)
  | KCancel _ n => ok_if (n =? 1)      (* etcd protocol: exactly one Canceled response per watch (C20-F1, fixed) *)
  | KCancelUnknown n usable => ok_if ((n =? 0) && usable)
  | KPath identity => ok_if identity
  end.

(* validity of a recorded case: what the soundness theorem assumes about it and the model can decide.
   - table cases: the regenerated table passes the check (Gen.MetricsTableOk.table_ok) and the run used the
     program's global label names with valid values;
   - request cases: every request of a modelled kind is valid (all constructors of [request]); what the probes
     saw is part of the observation, compared with the model's prediction by c20_check;
   - KSeq / KCancel / KCancelUnknown / KPath: no assumption. *)
Definition c20_valid (gn : option (list str)) (t : list row) (c : c20_case) : Prop :=
  match c with
  | KRows g _ _ _ =>
      exists gn', gn = Some gn' /\ map fst g = gn' /\ Forall (fun v => valid_utf8 v = true) (map snd g) /\ check gn' t = true
  | KRow _ _ _ => check_program gn t = true
  | _ => True
  end.

Definition c20_validb (gn : option (list str)) (t : list row) (c : c20_case) : bool :=
  match c with
  | KRows g _ _ _ =>
      match gn with
      | Some gn' => list_eqb seqb (map fst g) gn' && forallb valid_utf8 (map snd g) && check gn' t
      | None => false
      end
  | KRow _ _ _ => check_program gn t
  | _ => true
  end.

(* what a shard evaluates: the case agrees with the model, and it is either covered by the soundness theorem
   (valid) or already rejected by the oracle; a case that is neither shows up as a mismatch *)
Definition c20_check_covered (gn : option (list str)) (t : list row) (c : c20_case) : bool :=
  c20_check t c && (c20_validb gn t c || match c20_oracle gn t c with Some _ => true | None => false end).

(* the same with the table check evaluated once per shard ([tv] = check_program gn t) *)
Definition c20_validb_with (tv : bool) (gn : option (list str)) (t : list row) (c : c20_case) : bool :=
  match c with
  | KRows g _ _ _ =>
      match gn with
      | Some gn' => list_eqb seqb (map fst g) gn' && forallb valid_utf8 (map snd g) && tv
      | None => false
      end
  | KRow _ _ _ => tv
  | _ => c20_validb gn t c
  end.
Definition c20_check_covered_with (tv : bool) (gn : option (list str)) (t : list row) (c : c20_case) : bool :=
  c20_check t c && (c20_validb_with tv gn t c || match c20_oracle gn t c with Some _ => true | None => false end).
