(* C04 correspondence cases: the schedule cases of C01Cases.v (with malformed requests, injected
   storage errors and out-of-order completion) judged by progress_ok. *)
From KB Require Export Model.C01Cases.
Local Open Scope N_scope.

Fixpoint monotone_from (lo : N) (l : list N) : bool :=
  match l with
  | [] => true
  | x :: l' => (lo <=? x) && monotone_from x l'
  end.

Definition samples (c : sched_case) : list N := map st_sample (sc_steps c).

(* the read revision never reaches the revision of a write whose storage transaction has not run:
   every sample taken before the step in which the write committed is below the write's revision *)
Definition no_overtake_rec (c : sched_case) (r : rrec) : bool :=
  match resp_exact_rev (rr_resp r), rr_commit r with
  | Some x, Some cstep => forallb (fun s => s <? x) (firstn cstep (samples c))
  | _, _ => true
  end.

(* the revision a write was stamped with: from its answer, or — when it was answered with an error —
   from the version record carrying its value that the final dump has and the initial dump has not *)
Definition write_rev (c : sched_case) (r : rrec) : option N :=
  match resp_exact_rev (rr_resp r) with
  | Some x => Some x
  | None =>
      match rr_q r with
      | RqCreate k v | RqUpdate k v _ =>
          let fin := k_vers (lookup k_empty k (sc_final c)) in
          let ini := k_vers (lookup k_empty k (sc_init c)) in
          match filter (fun p => beqb (snd p) v && negb (existsb (fun p' => fst p' =? fst p) ini)) fin with
          | p :: _ => Some (fst p)
          | [] => None
          end
      | _ => None
      end
  end.

(* while a write's commit is held inside the engine the read revision stays below the write's revision *)
Definition hold_ok (c : sched_case) (r : rrec) : bool :=
  match rr_hold r, write_rev c r with
  | Some j, Some x => forallb (fun s => s <? x) (firstn (S j) (samples c))
  | _, _ => true
  end.

Definition progress_ok (c : sched_case) : bool :=
  let recs := case_records c in
  records_complete c recs
  && monotone_from (sc_d0 c) (samples c)
  && forallb (no_overtake_rec c) recs
  && forallb (hold_ok c) recs
  && forallb (fun s => s <? sc_marker c) (samples c)
  (* every request was stamped with one revision; at quiescence the node has reached the last one *)
  && negb (sc_stalled c)
  && (sc_d0 c + N.of_nat (nclient c) + 1 <=? sc_marker c) && (sc_marker c <=? sc_d0 c + N.of_nat (nreqs c) + 1)
  && (sc_final_committed c =? sc_marker c).

Definition c04_check := sched_check.
Definition c04_oracle (c : sched_case) : option N := ok_if (progress_ok c).
